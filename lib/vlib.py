"""Shared machinery for /verif checks: TLC runs, trace validation, harness builds,
evidence files, verdict discipline (DESIGN.md section 2.3).

Exit codes: 0 property held on everything explored; 1 violation; 2 could not decide.
"""
import json, os, re, shutil, subprocess, sys, tempfile, time, hashlib, random

VERIF = os.path.dirname(os.path.dirname(os.path.abspath(__file__)))
GOENV = {"GOFLAGS": "-mod=mod", "GOPROXY": "off", "GOSUMDB": "off", "GOTOOLCHAIN": "local"}
GO = "go1.26"


class Undecided(Exception):
    """The check could not decide (tool failure, timeout, divergence): exit 2."""


class TLCResult:
    def __init__(self):
        self.ok = False          # finished without violation/error
        self.violated = None     # name of violated invariant/property, if any
        self.generated = 0
        self.distinct = 0
        self.depth = 0
        self.out = ""
        self.error = None
        self.coverage_zero = []
        self.wall = 0.0


class Ctx:
    def __init__(self, pid, tier, family):
        self.pid = pid
        self.tier = tier
        self.family = family
        self.seed = int(os.environ.get("VERIF_SEED", "1") or "1")
        self.repo = os.environ.get("VERIF_REPO", "/repo")
        self.t0 = time.time()
        base = os.environ.get("VERIF_SCRATCH") or tempfile.gettempdir()
        self.scratch = tempfile.mkdtemp(prefix="verif-%s-" % pid, dir=base)
        self.outdir = os.path.join(VERIF, "out", pid)
        os.makedirs(self.outdir, exist_ok=True)
        self.violations = []      # list of (replay path, text)
        self.known = []           # KNOWN-FINDING texts printed
        self.notes = []
        self.rng = random.Random(self.seed)
        self.workers = int(os.environ.get("VERIF_WORKERS", "0") or 0) or (os.cpu_count() or 4)
        self._bins = {}

    # ------------------------------------------------------------------ util
    def log(self, *a):
        print("[%s %s %6.1fs]" % (self.pid, self.tier, time.time() - self.t0), *a, flush=True)

    def cleanup(self):
        shutil.rmtree(self.scratch, ignore_errors=True)

    def mkdtemp(self, name):
        d = tempfile.mkdtemp(prefix=name + "-", dir=self.scratch)
        return d

    # --------------------------------------------------------------- go build
    def build(self, cmd):
        """Build harness/cmd/<cmd> with -tags verif against the repo's working tree."""
        if cmd in self._bins:
            return self._bins[cmd]
        hdir = os.path.join(VERIF, "harness")
        env = dict(os.environ); env.update(GOENV)
        out = os.path.join(self.scratch, "bin-" + cmd)
        args = [GO, "build", "-tags", "verif", "-o", out]
        if self.repo != "/repo":
            # alternative tree (mutation testing): same module, different replace target
            mf = os.path.join(self.scratch, "alt.mod")
            src = open(os.path.join(hdir, "go.mod")).read().replace("=> /repo", "=> " + self.repo)
            open(mf, "w").write(src)
            shutil.copy(os.path.join(hdir, "go.sum"), os.path.join(self.scratch, "alt.sum"))
            args += ["-modfile", mf]
        args += ["./cmd/" + cmd]
        t = time.time()
        p = subprocess.run(args, cwd=hdir, env=env, stdout=subprocess.PIPE, stderr=subprocess.STDOUT, text=True)
        if p.returncode != 0:
            raise Undecided("harness build failed for %s:\n%s" % (cmd, p.stdout[-4000:]))
        self.log("built %s in %.1fs" % (cmd, time.time() - t))
        self._bins[cmd] = out
        return out

    def run(self, argv, timeout=600, env=None, stdin=None, check=True, cwd=None):
        e = dict(os.environ)
        if env:
            e.update(env)
        try:
            p = subprocess.run(argv, stdout=subprocess.PIPE, stderr=subprocess.PIPE, text=True, timeout=timeout,
                               env=e, input=stdin, cwd=cwd)
        except subprocess.TimeoutExpired:
            raise Undecided("timeout running %s" % " ".join(argv[:4]))
        if check and p.returncode != 0:
            raise Undecided("command failed (%d): %s\n%s\n%s" % (p.returncode, " ".join(argv[:6]), p.stdout[-2000:], p.stderr[-4000:]))
        return p

    # -------------------------------------------------------------------- TLC
    def _specdir(self, family=None):
        """Scratch copy of the family's spec dir (TLC litters its cwd)."""
        family = family or self.family
        d = os.path.join(self.scratch, "spec-" + family)
        if not os.path.isdir(d):
            shutil.copytree(os.path.join(VERIF, "spec", family), d)
            common = os.path.join(VERIF, "spec", "common")
            if os.path.isdir(common):
                for f in os.listdir(common):
                    shutil.copy(os.path.join(common, f), d)
        return d

    def tlc(self, module, cfg, workers=None, timeout=900, simulate=None, depth=None, env=None, family=None,
            coverage=False, seed=None, dfs=False, extra=None, heap=None):
        d = self._specdir(family)
        meta = tempfile.mkdtemp(prefix="meta-", dir=self.scratch)
        argv = ["java", "-XX:+UseParallelGC"]
        if heap:
            argv.append("-Xmx" + heap)
        argv.append("-Xss64m")
        if dfs:
            argv.append("-Dtlc2.tool.queue.IStateQueue=StateDeque")
        argv += ["-cp", "/opt/veriftools/tla/tla2tools.jar:/opt/veriftools/tla/CommunityModules-deps.jar", "tlc2.TLC",
                 "-workers", str(workers or self.workers), "-metadir", meta, "-config", cfg, "-noGenerateSpecTE"]
        if simulate:
            argv += ["-simulate", simulate]
        if depth:
            argv += ["-depth", str(depth)]
        if seed is not None:
            argv += ["-seed", str(seed)]
        if coverage:
            argv += ["-coverage", "1"]
        if extra:
            argv += extra
        argv.append(module + ".tla")
        e = dict(os.environ)
        if env:
            e.update({k: str(v) for k, v in env.items()})
        r = TLCResult()
        t = time.time()
        try:
            p = subprocess.run(["timeout", "-k", "5", str(timeout)] + argv, cwd=d, env=e, stdout=subprocess.PIPE,
                               stderr=subprocess.STDOUT, text=True)
        finally:
            shutil.rmtree(meta, ignore_errors=True)
        r.wall = time.time() - t
        r.out = p.stdout
        r.rc = p.returncode
        if p.returncode == 124:
            r.error = "timeout"
        m = None
        for m in re.finditer(r"(\d+) states generated, (\d+) distinct states found", p.stdout):
            pass
        if m:
            r.generated, r.distinct = int(m.group(1)), int(m.group(2))
        m = re.search(r"The depth of the complete state graph search is (\d+)", p.stdout)
        if m:
            r.depth = int(m.group(1))
        m = re.search(r"Invariant (\S+) is violated", p.stdout)
        if m:
            r.violated = m.group(1)
        m2 = re.search(r"Action property (\S+) is violated|Temporal properties were violated|Temporal property (\S+) was violated|property (\S+) is violated", p.stdout)
        if m2 and not r.violated:
            r.violated = m2.group(1) or m2.group(2) or m2.group(3) or "temporal"
        if "Deadlock reached" in p.stdout and not r.violated:
            r.violated = "Deadlock"
        if coverage:
            # TLC prints interim coverage blocks every minute; only the last block describes the whole run
            cov = p.stdout[p.stdout.rfind("The coverage statistics at"):] if "The coverage statistics at" in p.stdout else p.stdout
            r.coverage_zero = re.findall(r"^<(\w+) line \d+, col \d+ to line \d+, col \d+ of module \w+>: 0:0$", cov, re.M)
        if r.error is None and r.violated is None:
            if "Model checking completed. No error has been found" in p.stdout or (simulate and p.returncode in (0,)):
                r.ok = True
            elif simulate and "Finished" in p.stdout and "Error" not in p.stdout:
                r.ok = True
            else:
                # postcondition failures etc. are reported by the caller from the output
                if re.search(r"Error:|Exception|error", p.stdout) and "Postcondition" not in p.stdout and "TRACE_HW" not in p.stdout:
                    r.error = "tlc error"
        return r

    def tlc_or_undecided(self, *a, **kw):
        r = self.tlc(*a, **kw)
        if r.error:
            raise Undecided("TLC %s (%s): %s" % (a[0], r.error, r.out[-3000:]))
        return r

    # ------------------------------------------------------- trace validation
    def validate_events(self, module, cfg, events, family=None, timeout=600, dfs=False):
        """Validate one ndjson event list. Returns (accepted, high_water, out)."""
        f = os.path.join(self.scratch, "trace-%d.ndjson" % self.rng.getrandbits(40))
        with open(f, "w") as fh:
            for ev in events:
                fh.write(json.dumps(ev, separators=(",", ":")) + "\n")
        r = self.tlc(module, cfg, workers=1, timeout=timeout, env={"TRACE": f}, family=family, dfs=dfs)
        os.unlink(f)
        m = None
        for m in re.finditer(r"TRACE_HW\D+(\d+)\D+(\d+)", r.out):
            pass
        if not m:
            raise Undecided("trace validation produced no TRACE_HW (%s):\n%s" % (module, r.out[-3000:]))
        hw, n = int(m.group(1)), int(m.group(2))
        if n != len(events):
            raise Undecided("trace length mismatch %d vs %d" % (n, len(events)))
        return hw == n, hw, r.out

    def validate_traces(self, module, cfg, traces, family=None, timeout=900, max_rejects=25, dfs=False):
        """traces: list of event lists (without Reset). Validates their concatenation, each
        prefixed by a Reset event. Returns a list of (trace index, local line, event, expected):
        every reply the spec reports as MISMATCH (the trace continues after those) and, for
        events the spec cannot explain at all, the first such line of that trace (validation
        restarts after the rejected trace, so a rejection never hides later traces)."""
        rejected = []
        start = 0
        while start < len(traces):
            evs, owner = [], []
            for i in range(start, len(traces)):
                evs.append({"e": "Reset"}); owner.append((i, 0))
                for j, ev in enumerate(traces[i]):
                    evs.append(ev); owner.append((i, j + 1))
            ok, hw, out = self.validate_events(module, cfg, evs, family=family, timeout=timeout, dfs=dfs)
            # TLC's pretty printer wraps medium-long tuples over several lines: match across lines
            for m in re.finditer(r'<<\s*"MISMATCH",\s*(\d+),\s*(.*?)\s*>>[ \t]*\r?\n(?=\S|$)', out, re.S):
                ln = int(m.group(1)) - 1
                if ln < hw or ok:
                    i, j = owner[ln]
                    rejected.append((i, j - 1, traces[i][j - 1], re.sub(r'\s+', ' ', m.group(2))))
            if ok:
                break
            i, j = owner[hw]  # first unexplained line (0-based index hw)
            if j == 0:
                raise Undecided("trace spec rejected a Reset event:\n" + out[-2000:])
            rejected.append((i, j - 1, traces[i][j - 1], None))
            if len(rejected) >= max_rejects * 40:
                self.notes.append("stopped after %d rejections" % len(rejected))
                break
            start = i + 1
        # deduplicate (a restart never revisits earlier traces, but be safe)
        seen, out2 = set(), []
        for r in rejected:
            if (r[0], r[1]) not in seen:
                seen.add((r[0], r[1])); out2.append(r)
        return out2

    # --------------------------------------------------------------- verdicts
    def save_replay(self, name, obj):
        p = os.path.join(self.outdir, name)
        with open(p, "w") as fh:
            json.dump(obj, fh, indent=1)
        return p

    def violation(self, replay_path, text=""):
        self.violations.append((replay_path, text))
        print("VIOLATION property=%s replay=%s %s" % (self.pid, replay_path, text), flush=True)

    def known_finding(self, text):
        if text not in self.known:
            self.known.append(text)
            print("KNOWN-FINDING: property=%s %s" % (self.pid, text), flush=True)

    def load_known(self):
        p = os.path.join(VERIF, "known_findings.json")
        if not os.path.exists(p):
            return []
        data = json.load(open(p))
        return [f for f in data.get("findings", []) if f.get("property") == self.pid and f.get("status", "open") == "open"]

    # --------------------------------------------------------------- evidence
    def evidence(self, level, coverage, assumptions=None):
        ev = {
            "property_id": self.pid, "tier": self.tier, "seed": self.seed, "level": level,
            "coverage": coverage, "assumptions": assumptions or [], "wall_s": round(time.time() - self.t0, 2),
            "violations": len(self.violations), "known_findings": self.known, "notes": self.notes,
        }
        os.makedirs(os.path.join(VERIF, "evidence"), exist_ok=True)
        # evidence/<id>.json describes runs against /repo itself; a run against another tree
        # (VERIF_REPO: seeded-change worktrees) must never overwrite it
        target = os.path.join(VERIF, "evidence", self.pid + ".json") if self.repo == "/repo" else os.path.join(self.outdir, "evidence-alt-tree.json")
        with open(target, "w") as fh:
            json.dump(ev, fh, indent=1)

    def exit_code(self):
        return 1 if self.violations else 0


def chunks(lst, n):
    k = max(1, (len(lst) + n - 1) // n)
    return [lst[i:i + k] for i in range(0, len(lst), k)]


def main(run_fn, family):
    """Entry point used by checks/<x>.py: run_fn(ctx) must write evidence itself."""
    pid, tier = sys.argv[1], (sys.argv[2] if len(sys.argv) > 2 else os.environ.get("VERIF_TIER", "quick"))
    ctx = Ctx(pid, tier, family)
    try:
        run_fn(ctx)
        code = ctx.exit_code()
    except Undecided as e:
        print("UNDECIDED property=%s: %s" % (pid, e), flush=True)
        code = 2
    finally:
        ctx.cleanup()
    sys.exit(code)
