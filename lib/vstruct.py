"""Helpers shared by the data-structure families (memindex, sst, codec): parallel trace
validation, parsing of values TLC prints, internal-key helpers used by witness classifiers."""
import json, re, os
from concurrent.futures import ThreadPoolExecutor

MAXV = 1000000  # spec/trace token for version 2^64-1


def tla_unquote(s):
    """TLC prints a TLA+ string as "..." with \\" and \\\\ escapes."""
    s = s.strip()
    if s.startswith('"') and s.endswith('"'):
        s = s[1:-1]
    return s.replace('\\"', '"').replace("\\\\", "\\")


def tlc_json_lines(out, tag):
    """All <<"TAG", "<json>">> lines of a TLC run, parsed (duplicates removed, order kept)."""
    seen, res = set(), []
    for m in re.finditer(r'<<"%s", (".*")>>' % tag, out):
        s = tla_unquote(m.group(1))
        if s in seen:
            continue
        seen.add(s)
        res.append(json.loads(s))
    return res


_MM = re.compile(r'<<\s*"MISMATCH",\s*(\d+),\s*("(?:[^"\\]|\\.)*")\s*>>', re.S)


def unwrap_mismatch_lines(ctx):
    """TLC's pretty printer breaks a medium-long <<"MISMATCH", l, "..." >> tuple over several lines; vlib's
    parser is line based. Re-join them in the output of every TLC run of this ctx (idempotent)."""
    if getattr(ctx, "_mm_patched", False):
        return
    orig = ctx.tlc

    def tlc(*a, **kw):
        r = orig(*a, **kw)
        r.out = _MM.sub(lambda m: '<<"MISMATCH", %s, %s>>' % (m.group(1), m.group(2)), r.out)
        return r
    ctx.tlc = tlc
    ctx._mm_patched = True


def validate_parallel(ctx, module, cfg, traces, shards=None, timeout=1200, family=None):
    """ctx.validate_traces over `shards` TLC processes. Returns the same tuples with global indices."""
    unwrap_mismatch_lines(ctx)
    shards = max(1, min(shards or ctx.workers, len(traces)))
    ctx._specdir(family)  # create the scratch copy before threads race for it
    # round-robin sharding: expensive traces (large cases) are usually adjacent
    parts = [(i, traces[i::shards]) for i in range(shards)]

    def one(part):
        base, tl = part
        return [(base + ti * shards, line, ev, want) for (ti, line, ev, want) in
                ctx.validate_traces(module, cfg, tl, family=family, timeout=timeout)]
    res = []
    with ThreadPoolExecutor(max_workers=shards) as ex:
        for r in ex.map(one, parts):
            res += r
    return sorted(res, key=lambda r: (r[0], r[1]))


# ---------------------------------------------------------------- internal keys
def enc_key(k):
    """Byte layout of kv.InternalKey for a key record {cf,k,ver} (ver token MAXV = 2^64-1)."""
    ver = (1 << 64) - 1 if k["ver"] == MAXV else k["ver"]
    return bytes([0xFF, 0x43, 0x46, k["cf"]]) + bytes(k["k"]) + (((1 << 64) - 1) - ver).to_bytes(8, "big")


def internal_sort_key(k):
    ver = (1 << 64) - 1 if k["ver"] == MAXV else k["ver"]
    return (k["cf"], bytes(k["k"]), -ver)


def radix_cmp_lt(a, b):
    """a strictly before b in zero-padded byte order (the order a byte-wise radix tree visits)."""
    n = max(len(a), len(b))
    return a.ljust(n, b"\0") < b.ljust(n, b"\0")


def radix_disagrees(keys):
    """True iff the internal-key order of `keys` (distinct key records) is not the order a byte-wise
    radix tree over their raw encodings yields (zero padding). Adjacent comparison suffices: both are
    total (pre)orders."""
    ks = sorted(keys, key=internal_sort_key)
    es = [enc_key(k) for k in ks]
    return any(not radix_cmp_lt(es[i], es[i + 1]) for i in range(len(es) - 1))


def has_prefix_pair(keys):
    by_cf = {}
    for k in keys:
        by_cf.setdefault(k["cf"], set()).add(bytes(k["k"]))
    for us in by_cf.values():
        s = sorted(us)
        # in byte order a proper prefix is immediately followed by one of its extensions (if any exists)
        for i in range(len(s) - 1):
            if s[i + 1].startswith(s[i]) and len(s[i + 1]) > len(s[i]):
                return True
    return False


def kproj(k):
    return {"cf": k["cf"], "k": list(k["k"]), "ver": k["ver"]}
