"""Chunked, parallel trace validation on top of vlib.Ctx.validate_traces (same result format)."""
from concurrent.futures import ThreadPoolExecutor


def validate_traces_parallel(ctx, module, cfg, traces, family=None, timeout=1500, chunk=1500):
    """Validates `traces` in chunks of `chunk` traces, a few TLC processes at a time. Returns the
    same list of (trace index, line, event, expected) as Ctx.validate_traces."""
    if len(traces) <= chunk:
        return ctx.validate_traces(module, cfg, traces, family=family, timeout=timeout)
    parts = [(i, traces[i:i + chunk]) for i in range(0, len(traces), chunk)]
    ctx._specdir(family)
    out = []
    with ThreadPoolExecutor(max_workers=max(1, min(4, ctx.workers // 2))) as ex:
        futs = [(off, ex.submit(ctx.validate_traces, module, cfg, part, family, timeout)) for off, part in parts]
        for off, f in futs:
            out += [(ti + off, line, ev, want) for (ti, line, ev, want) in f.result()]
    return out


def fast_tmp(ctx, name):
    """Scratch directory for driver work dirs: on tmpfs when available (the drivers fsync a lot;
    flock, rename and friends behave the same there), removed at exit."""
    import atexit, os, shutil, tempfile
    base = "/dev/shm" if os.path.isdir("/dev/shm") and os.access("/dev/shm", os.W_OK) else ctx.scratch
    d = tempfile.mkdtemp(prefix="verif-%s-%s-" % (ctx.pid, name), dir=base)
    atexit.register(shutil.rmtree, d, True)
    return d
