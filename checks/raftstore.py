#!/usr/bin/env python3
"""RaftStore family: C22 (replicas apply identical command sequences, every proposal is answered once and
with its own result) and C23 (only the leader serves, reads are linearizable).  DESIGN.md section 5.

M1  TLC checks spec/RaftStore/RaftStore.tla: etcd-raft abstracted as a per-region consensus log with terms,
    elections, stale leaders, lost acknowledgements; NoKV's layer as coded (per-store request ids, the
    pending-proposal map completed by EVERY store that applies an entry, leader check, ReadIndex round,
    clean restarts that replay the log).
M2  TLC -simulate generates behaviours of that spec (elect / replicate with or without ack / propose / read /
    confirm / restart); each becomes a schedule of harness/cmd/raftsim, which drives a real 3-store cluster
    (store.Store, peer.Peer, kv.NewApplier on real DBs, raft log in the DB's WAL) through a queueing transport
    under ONE scheduler thread; plus seeded random schedules of primitive faults (tick, deliver, drop,
    duplicate, partition, heal, campaign, restart) and the replay schedules of recorded defects.
M3  TLC validates what the stores applied and what the client calls returned against
    spec/RaftStore/RaftPropTrace.tla (property layer).
"""
import json, os, sys, re, subprocess
sys.path.insert(0, os.path.join(os.path.dirname(os.path.abspath(__file__)), "..", "lib"))
from vlib import *

STORES = [1, 2, 3]
REGIONS2 = [{"id": 1, "start": "a", "end": "m"}, {"id": 2, "start": "m", "end": "z"}]
REGIONS1 = [{"id": 1, "start": "a", "end": "z"}]
KEYS = {1: ["b", "c"], 2: ["n", "p"]}

M1 = {  # (cfg, expected violation or None)
    ("C22", "quick"): [("MC_RaftStore_quick.cfg", None)],
    ("C23", "quick"): [("MC_RaftStore_c23_quick.cfg", None)],
    ("C22", "thorough"): [("MC_RaftStore.cfg", None), ("MC_RaftStore_2r.cfg", None), ("MC_RaftStore_restart.cfg", None),
                          ("MC_RaftStore_asis.cfg", "C22"), ("MC_RaftStore_asis_2r.cfg", "C22"), ("MC_RaftStore_origin.cfg", "C22")],
    ("C23", "thorough"): [("MC_RaftStore_c23.cfg", None), ("MC_RaftStore_modulo.cfg", None)],
}


# ------------------------------------------------------------------------------------------- M2
def gen_hists(ctx, regions, num, depth, seed):
    src = open(os.path.join(ctx._specdir(), "Gen_RaftStore.cfg")).read()
    name = "Gen_RaftStore_%d_%d.cfg" % (len(regions), depth)
    src = re.sub(r"MaxHist = \d+", "MaxHist = %d" % depth, src)
    src = re.sub(r"Regions = .*", "Regions = {%s}" % ",".join(str(r["id"]) for r in regions), src)
    open(os.path.join(ctx._specdir(), name), "w").write(src)
    r = ctx.tlc_or_undecided("RaftStore", name, workers=1, simulate="num=%d" % num, depth=depth + 1, seed=seed, timeout=600)
    seen, out = set(), []
    for m in re.finditer(r'<<"SCHED", "(.*)">>', r.out):
        s = m.group(1).encode().decode("unicode_escape")
        if s not in seen:
            seen.add(s); out.append(json.loads(s))
    return out


def score(h):
    """Prefer behaviours where the mechanisms meet: proposals around leader changes, stale leaders, restarts, reads."""
    ops = [x["op"] for x in h]
    sc = min(ops.count("elect"), 3) * 2 + min(ops.count("propose"), 3) * 2 + min(ops.count("read"), 2) + ops.count("confirm") * 2
    sc += 2 * ("restart" in ops)
    for i, x in enumerate(h):
        if x["op"] == "propose" and any(y["op"] == "elect" and y["r"] == x["r"] for y in h[i + 1:]):
            sc += 3  # a proposal is in flight when the leadership changes
        if x["op"] == "repl" and not x["ack"]:
            sc += 1
    leaders = {(x["r"], x["s"]) for x in h if x["op"] == "elect"}
    return sc + 2 * len(leaders)


def reads_everywhere(regions):
    return [{"op": "read", "s": s, "r": r["id"], "k": k} for r in regions for s in STORES for k in KEYS[r["id"]]]


def tail_ops(regions):
    """Every store is asked for every key while the faults still hold (deposed leaders that have not noticed,
    partitioned followers), then the network heals and everything is asked again."""
    return (reads_everywhere(regions) + [{"op": "heal"}, {"op": "sync", "r": 0}, {"op": "sync", "r": 0}] +
            reads_everywhere(regions) + [{"op": "sync", "r": 0}, {"op": "sync", "r": 0}])


def isolate_scenario(regions, r, old, new, wait):
    """Isolate the leader, elect another store, write at both, read at both, heal.  With wait the read at the
    deposed leader is left parked for longer than ReadCommand's 3 s ReadIndex budget before anything else happens."""
    k1, k2 = KEYS[r]
    third = [s for s in STORES if s not in (old, new)][0]
    q = sorted([new, third])
    ops = [{"op": "vote", "s": x, "r": y["id"], "q": STORES} for y in regions for x in [old if y["id"] == r else new]]
    ops += [{"op": "sync", "r": 0, "q": STORES},
            {"op": "propose", "s": old, "r": r, "k": k1}, {"op": "sync", "r": r, "q": STORES},
            {"op": "read", "s": old, "r": r, "k": k1}, {"op": "sync", "r": r, "q": STORES},
            {"op": "partition", "a": [old], "b": q},
            {"op": "propose", "s": old, "r": r, "k": k2},            # stays pending at the isolated leader
            {"op": "vote", "s": new, "r": r, "q": q}, {"op": "sync", "r": r, "q": q},
            {"op": "propose", "s": new, "r": r, "k": k1}, {"op": "sync", "r": r, "q": q},
            {"op": "read", "s": old, "r": r, "k": k1}]               # deposed leader that has not noticed
    if wait:
        ops.append({"op": "wait", "n": 3400})
    ops += [{"op": "read", "s": new, "r": r, "k": k1}, {"op": "sync", "r": r, "q": q},
            {"op": "tick", "s": old, "r": r, "n": 2},
            {"op": "propose", "s": new, "r": r, "k": k2}, {"op": "sync", "r": r, "q": q}]
    return {"kind": "scenario-isolate" + ("-wait" if wait else ""), "stores": STORES, "regions": regions, "ops": ops + tail_ops(regions)}


def delayed_acks_scenario(regions, r, old, new):
    """The heartbeat acknowledgements of a read round are delayed in the network; meanwhile another store is elected
    and acknowledges a write; a second read is issued at the old leader; then the delayed acknowledgements arrive."""
    k1 = KEYS[r][0]
    third = [s for s in STORES if s not in (old, new)][0]
    q = sorted([new, third])
    ops = [{"op": "vote", "s": old, "r": y["id"], "q": STORES} for y in regions]
    ops += [{"op": "sync", "r": 0, "q": STORES},
            {"op": "propose", "s": old, "r": r, "k": k1}, {"op": "sync", "r": r, "q": STORES},
            {"op": "read", "s": old, "r": r, "k": k1},
            {"op": "push", "r": r, "s": old, "f": third, "ack": False, "hold": True},
            {"op": "push", "r": r, "s": old, "f": new, "ack": False, "hold": True},
            {"op": "vote", "s": new, "r": r, "q": q}, {"op": "sync", "r": r, "q": q},
            {"op": "propose", "s": new, "r": r, "k": k1}, {"op": "sync", "r": r, "q": q},
            {"op": "read", "s": old, "r": r, "k": k1},
            {"op": "push", "r": r, "s": third, "f": old, "ack": False, "hold": True},
            {"op": "push", "r": r, "s": new, "f": old, "ack": False, "hold": True}]
    return {"kind": "scenario-delayed-acks", "stores": STORES, "regions": regions, "ops": ops + tail_ops(regions)}


def race_scenario(regions, r, leader, slow):
    """Two committed commands reach a follower in separate messages; the follower's peer is stepped by two
    goroutines while its applier is slow on the first command."""
    k1 = KEYS[r][0]
    third = [s for s in STORES if s not in (leader, slow)][0]
    q = sorted([leader, third])
    ops = [{"op": "vote", "s": leader, "r": y["id"], "q": STORES} for y in regions]
    ops += [{"op": "sync", "r": 0, "q": STORES},
            {"op": "propose", "s": leader, "r": r, "k": k1}, {"op": "sync", "r": r, "q": q},
            {"op": "propose", "s": leader, "r": r, "k": k1}, {"op": "sync", "r": r, "q": q},
            {"op": "race", "s": slow, "r": r},
            {"op": "propose", "s": leader, "r": r, "k": k1}, {"op": "sync", "r": r, "q": STORES}]
    return {"kind": "scenario-race", "stores": STORES, "regions": regions, "ops": ops + tail_ops(regions)}


def scenarios(quick, rng):
    """Scenario macros (the shapes of RaftStore.tla's counterexamples and of the ReadIndex argument), for every choice
    of the stores involved in the thorough tier, a sample in the quick tier (always with the adjacent store ids 2 and 3
    as old and new leader once)."""
    pairs = [(a, b) for a in STORES for b in STORES if a != b]
    out = []
    if quick:
        adj = [(2, 3), (3, 2)]
        rng.shuffle(adj)
        out.append(isolate_scenario(REGIONS1, 1, adj[0][0], adj[0][1], True))    # the one wall-clock scenario of the quick tier
        out.append(isolate_scenario(REGIONS1, 1, adj[1][0], adj[1][1], False))
        out.append(isolate_scenario(REGIONS1, 1, *rng.choice([p for p in pairs if p not in adj]), False))
        for _ in range(2):
            out.append(isolate_scenario(REGIONS2, rng.choice([1, 2]), *rng.choice(pairs), False))
        out.append(delayed_acks_scenario(REGIONS1, 1, *rng.choice(pairs)))
        out.append(race_scenario(REGIONS1, 1, *rng.choice(pairs)))
        return out
    for old, new in pairs:
        out.append(isolate_scenario(REGIONS1, 1, old, new, True))
        for r in (1, 2):
            out.append(isolate_scenario(REGIONS2, r, old, new, False))
        out.append(delayed_acks_scenario(REGIONS1, 1, old, new))
        out.append(delayed_acks_scenario(REGIONS2, 2, old, new))
        out.append(race_scenario(REGIONS1, 1, old, new))
    return out


def permute(sched, m):
    """The same schedule with the stores renamed."""
    def f(v):
        return [m[x] for x in v] if isinstance(v, list) else m[v]
    ops = []
    for o in sched["ops"]:
        o = dict(o)
        for k in ("s", "f", "q", "a", "b"):
            if k in o and o[k] is not None:
                o[k] = sorted(f(o[k])) if k == "q" else f(o[k])
        ops.append(o)
    out = dict(sched); out["ops"] = ops
    return out


def to_sched(sid, hist, regions, rng, noise):
    ops, nw = [], 0
    rids = [r["id"] for r in regions]
    for h in hist:
        o = h["op"]
        if o == "elect":
            ops.append({"op": "vote", "s": h["s"], "r": h["r"], "q": sorted(h["q"])})
        elif o == "repl":
            ops.append({"op": "push", "r": h["r"], "s": h["s"], "f": h["f"], "ack": bool(h["ack"])})
        elif o == "propose":
            nw += 1
            ops.append({"op": "propose", "s": h["s"], "r": h["r"], "k": KEYS[h["r"]][nw % 2]})
        elif o == "read":
            ops.append({"op": "read", "s": h["s"], "r": h["r"], "k": KEYS[h["r"]][rng.randrange(2)]})
        elif o == "confirm":
            ops.append({"op": "sync", "r": h["r"], "q": sorted(h["q"])})
        elif o == "restart":
            ops.append({"op": "restart", "s": h["s"]})
        if rng.random() < noise:  # calls at arbitrary stores: deposed leaders, followers, candidates
            r = rng.choice(rids)
            ops.append({"op": rng.choice(["propose", "read"]), "s": rng.choice(STORES), "r": r, "k": rng.choice(KEYS[r])})
    return {"id": sid, "kind": "tlc", "stores": STORES, "regions": regions, "ops": ops + tail_ops(regions)}


def random_sched(sid, regions, rng, n):
    rids = [r["id"] for r in regions]
    ops = [{"op": "vote", "s": rng.choice(STORES), "r": r, "q": STORES} for r in rids]
    restarts = 0
    for _ in range(n):
        x = rng.random()
        r = rng.choice(rids)
        if x < 0.40:
            ops.append({"op": "deliver", "i": rng.randrange(1000)})
        elif x < 0.52:
            ops.append({"op": "tick", "s": rng.choice(STORES), "r": r, "n": rng.choice([1, 1, 2, 5])})
        elif x < 0.57:
            ops.append({"op": "drop", "i": rng.randrange(1000)})
        elif x < 0.62:
            ops.append({"op": "dup", "i": rng.randrange(1000)})
        elif x < 0.72:
            ops.append({"op": "propose", "s": rng.choice(STORES), "r": r, "k": rng.choice(KEYS[r])})
        elif x < 0.79:
            ops.append({"op": "read", "s": rng.choice(STORES), "r": r, "k": rng.choice(KEYS[r])})
        elif x < 0.84:
            ops.append({"op": "campaign", "s": rng.choice(STORES), "r": r})
        elif x < 0.87:
            a = rng.choice(STORES)
            ops.append({"op": "partition", "a": [a], "b": [s for s in STORES if s != a]})
        elif x < 0.91:
            ops.append({"op": "heal"})
        elif x < 0.93 and restarts < 1:   # a reopen costs seconds (memtable arenas, value-log scan)
            restarts += 1
            ops.append({"op": "restart", "s": rng.choice(STORES)})
        elif x < 0.97:
            ops.append({"op": "drain", "r": r, "max": rng.choice([3, 10, 50])})
        else:
            ops.append({"op": "beat", "r": 0})
    return {"id": sid, "kind": "random", "stores": STORES, "regions": regions, "ops": ops + tail_ops(regions)}


def run_driver(ctx, scheds):
    binp = ctx.build("raftsim")
    base = "/dev/shm" if os.access("/dev/shm", os.W_OK) else ctx.scratch
    procs = []
    parts = [[] for _ in range(max(1, ctx.workers))]
    for i, s in enumerate(scheds):
        parts[i % len(parts)].append(s)
    import tempfile, shutil
    dirs = []
    for part in parts:
        if not part:
            continue
        d = tempfile.mkdtemp(prefix="verif-raftsim-", dir=base); dirs.append(d)
        inp, outp = os.path.join(d, "in.ndjson"), os.path.join(d, "out.ndjson")
        with open(inp, "w") as fh:
            for s in part:
                fh.write(json.dumps(s) + "\n")
        p = subprocess.Popen([binp, "-in", inp, "-out", outp, "-dir", d], stdout=subprocess.PIPE, stderr=subprocess.STDOUT, text=True)
        procs.append((p, outp, part))
    traces = {}
    try:
        for p, outp, part in procs:
            try:
                out, _ = p.communicate(timeout=3000)
            except subprocess.TimeoutExpired:
                p.kill()
                raise Undecided("raftsim driver timed out")
            if p.returncode != 0:
                raise Undecided("raftsim driver failed (%d): %s" % (p.returncode, out[-3000:]))
            for line in open(outp):
                ev = json.loads(line)
                traces.setdefault(ev["sid"], []).append(ev)
    finally:
        for p, _, _ in procs:
            if p.poll() is None:
                p.kill()
        for d in dirs:
            shutil.rmtree(d, ignore_errors=True)
    return traces


# ------------------------------------------------------------------------------------------- M3
def project(pid, evs):
    """Property-level events (and the raw index of each, for classification)."""
    out, raw = [{"e": "Cfg", "prop": pid}], [-1]
    for i, ev in enumerate(evs):
        e = ev["e"]
        if e == "Applied":
            p = {k: ev[k] for k in ("e", "s", "r", "idx", "cmd", "k", "v", "wok", "resp")}
        elif e == "Restart":
            p = {"e": e, "s": ev["s"]}
        elif e == "ProposeCall":
            p = {"e": e, "c": ev["c"], "s": ev["s"], "r": ev["r"], "cmd": ev["cmd"], "k": ev["k"], "leader": ev["role"] == "StateLeader"}
        elif e == "ProposeRet":
            p = {"e": e, "c": ev["c"], "res": ev["res"], "resp": ev.get("resp", ""), "wok": bool(ev.get("wok", False))}
        elif e == "ReadCall":
            p = {"e": e, "c": ev["c"], "s": ev["s"], "r": ev["r"], "k": ev["k"], "leader": ev["role"] == "StateLeader"}
        elif e == "ReadRet":
            p = {"e": e, "c": ev["c"], "res": ev["res"], "val": ev.get("got", "")}
        else:
            continue
        out.append(p); raw.append(i)
    return out, raw


def collided_calls(evs):
    """Witness of the request-id collision (RaftStore.tla: taint): calls whose proposal was completed by the
    application, on the proposing store, of an entry that carries the same request id but ANOTHER command."""
    cmd_of, out = {}, set()
    applied = {}  # (store, rid) -> commands of the entries with that id the store applied in this incarnation
    for ev in evs:
        if ev["e"] == "ProposeCall":
            cmd_of[ev["c"]] = ev["cmd"]
        elif ev["e"] == "Restart":
            applied = {k: v for k, v in applied.items() if k[0] != ev["s"]}
        elif ev["e"] == "Applied":
            applied.setdefault((ev["s"], ev["rid"]), set()).add(ev["cmd"])
        elif ev["e"] == "ProposeRet" and ev["res"] == "ok":
            if applied.get((ev["s"], ev.get("rid")), set()) - {cmd_of.get(ev["c"])}:
                out.add(ev["c"])
    return out


def classify(pid, evs, ri, verdict):
    ev = evs[ri]
    bad = collided_calls(evs[:ri + 1])
    if ev["e"] == "ProposeRet" and ev["c"] in bad:
        return "proposal-id-collision"
    if ev["e"] == "ReadRet" and bad and verdict and ("acknowledged-write-never-applied" in verdict or "stale" in verdict):
        return "proposal-id-collision"
    return None


def run(ctx):
    pid, quick = ctx.pid, ctx.tier == "quick"
    # ------------------------------------------------------------------ M1 (runs while M2 generates and executes)
    from concurrent.futures import ThreadPoolExecutor
    cfgs = M1[(pid, ctx.tier)]
    for cfg, _ in cfgs:
        ctx._specdir()  # scratch copy made before threads start
    pool = ThreadPoolExecutor(max_workers=len(cfgs))
    per = max(2, ctx.workers // len(cfgs))
    futs = [(cfg, expect, pool.submit(ctx.tlc_or_undecided, "RaftStore", cfg, workers=per, timeout=3000,
                                      coverage=(not quick and cfg in ("MC_RaftStore.cfg", "MC_RaftStore_c23.cfg")))) for cfg, expect in cfgs]

    def join_m1():
        m1 = []
        for cfg, expect, f in futs:
            r = f.result()
            if expect is None and r.violated:
                raise Undecided("M1: RaftStore.tla violates %s under %s: the design layer needs attention\n%s" % (r.violated, cfg, r.out[-2500:]))
            if expect is not None and r.violated != expect:
                raise Undecided("M1: %s was expected to violate %s (recorded defect of that id scheme) but TLC reports %s: spec drift" % (cfg, expect, r.violated))
            ctx.log("M1 %s: %d generated, %d distinct, depth %d (%.0fs)%s" % (cfg, r.generated, r.distinct, r.depth, r.wall, " violates %s as recorded" % expect if expect else ""))
            m1.append({"cfg": cfg, "generated": r.generated, "distinct": r.distinct, "depth": r.depth, "expected_violation": expect, "coverage_zero": r.coverage_zero})
        return m1
    # ------------------------------------------------------------------ M2
    rng = ctx.rng
    hists = []
    for num, depth in ([(600, 14)] if quick else [(2500, 12), (2500, 16), (2500, 20)]):
        for h in gen_hists(ctx, REGIONS2, num, depth, ctx.seed * 100 + depth):
            # a behaviour that only touches region 1 is also a behaviour of the one-region cluster
            one = all(x.get("r", 1) == 1 for x in h)
            hists.append((REGIONS1 if one and len(hists) % 2 else REGIONS2, h))
    hists.sort(key=lambda x: -score(x[1]))
    ntlc = 30 if quick else 300
    top = hists[:ntlc * 2]
    rng.shuffle(top)
    chosen = top[:ntlc]
    scheds = []
    for regions, h in chosen:
        scheds.append(to_sched(len(scheds), h, regions, rng, 0.15))
    nrand = 16 if quick else 160
    for i in range(nrand):
        scheds.append(random_sched(len(scheds), REGIONS2 if i % 2 else REGIONS1, rng, rng.choice([60, 100, 160])))
    scen = scenarios(quick, rng)
    for sc in scen:
        sc["id"] = len(scheds); scheds.append(sc)
    replay_ids = {}
    for rp in json.load(open(os.path.join(VERIF, "findings", "raftstore_replays.json"))):
        if pid in rp["properties"]:
            # as recorded (stores 1 and 2 collide) and with the stores renamed (the adjacent ids 2 and 3 collide)
            for ren in ({1: 1, 2: 2, 3: 3}, {1: 2, 2: 3, 3: 1}):
                s = permute(rp["schedule"], ren); s["id"] = len(scheds); s["kind"] = "replay"
                replay_ids[s["id"]] = rp["id"]
                scheds.append(s)
    ctx.log("M2: %d TLC behaviours -> %d schedules (%d TLC-derived, %d random, %d scenario macros, %d recorded replays)" % (len(hists), len(scheds), len(chosen), nrand, len(scen), len(replay_ids)))
    traces = run_driver(ctx, scheds)
    order = sorted(traces)
    ctx.log("driver: %d schedules executed, %d events recorded" % (len(order), sum(len(t) for t in traces.values())))
    if len(order) != len(scheds):
        raise Undecided("driver produced %d traces for %d schedules" % (len(order), len(scheds)))
    for sid in order:
        if traces[sid][-1]["e"] != "Closed":
            raise Undecided("schedule %d did not run to completion: %s" % (sid, json.dumps(traces[sid][-1])[:400]))
    # implementation fact (drift only, never a verdict): request ids drawn by different stores / incarnations are distinct
    drift = 0
    for sid in order:
        drawn = {}
        for e in traces[sid]:
            if e["e"] == "Parked" and e.get("rid"):
                drawn.setdefault(e["rid"], set()).add((e["s"], e.get("inc", 0)))
            elif e["e"] == "ReadRet" and e["res"] == "ok" and e.get("hrid"):
                drawn.setdefault(e["hrid"], set()).add((e["s"], 0))
        dup = {k: v for k, v in drawn.items() if len({x[0] for x in v}) > 1 or len(v) > 1 and all(x[1] for x in v)}
        if dup:
            drift += 1
            if drift <= 3:
                k = sorted(dup)[0]
                print("DRIFT family=RaftStore at=request-id-drawn-twice schedule=%d id=%d by=%s" % (sid, k, sorted(dup[k])), flush=True)
    if drift:
        ctx.notes.append("DRIFT: request ids drawn by two stores / incarnations coincide in %d schedules" % drift)
    aligned = sum(1 for sid in order if traces[sid][0].get("aligned"))
    proj = [project(pid, traces[s]) for s in order]
    tl = [p[0] for p in proj]
    m1 = join_m1()
    # ------------------------------------------------------------------ M3 (+ negative control as the last trace)
    ctl = None
    for t in tl:
        idx = [i for i, e in enumerate(t) if (e["e"] == "ProposeRet" if pid == "C22" else e["e"] == "ReadRet") and e["res"] == "ok"
               and (pid == "C22" or e["val"] != "NOTFOUND")]
        if idx:
            ctl = [dict(e) for e in t]
            if pid == "C22":
                ctl[idx[-1]]["resp"] = "P0,C0,G=zz-corrupted"
            else:
                ctl[idx[-1]]["val"] = "zz-corrupted"
            break
    if ctl is None:
        raise Undecided("no trace with a successful %s: the driver is not exercising the cluster" % ("proposal" if pid == "C22" else "read"))
    rejected = ctx.validate_traces("RaftPropTrace", "RaftPropTrace.cfg", tl + [ctl], timeout=2400)
    if not [r for r in rejected if r[0] == len(tl)]:
        raise Undecided("negative control accepted: the trace specification does not bind replies")
    rejected = [r for r in rejected if r[0] < len(tl)]
    nevents = sum(len(t) for t in tl)
    ctx.log("M3: %d traces / %d events validated, %d rejected (negative control rejected as required)" % (len(tl), nevents, len(rejected)))
    known = {f["id"]: f for f in ctx.load_known()}
    classes, reported = {}, set()
    for (ti, line, pev, want) in rejected:
        sid = order[ti]
        ri = proj[ti][1][line]
        cls = classify(pid, traces[sid], ri, want) if ri >= 0 else None
        fid = "%s-%s" % (pid, cls) if cls else None
        if fid and fid in known:
            if fid not in classes:
                ctx.known_finding("%s: %s (e.g. schedule %d: %s)" % (fid, known[fid]["what"], sid, json.dumps(pev)))
            classes[fid] = classes.get(fid, 0) + 1
        elif sid not in reported:
            reported.add(sid)
            rp = ctx.save_replay("violation-%d.json" % sid, {"schedule": scheds[sid], "rejected_line": line, "event": traces[sid][ri] if ri >= 0 else pev,
                                                             "verdict": want, "witness": cls, "trace": [e for e in traces[sid][:ri + 1] if e["e"] != "Op"][-60:]})
            ctx.violation(rp, "%s%s: %s" % (want, " [%s]" % cls if cls else "", json.dumps(pev)))
    # ------------------------------------------------------------------ evidence
    stats = {"proposals_ok": 0, "proposals_notleader": 0, "proposals_unanswered": 0, "reads_ok": 0, "reads_notleader": 0, "reads_err": 0,
             "applied": 0, "restarts": 0, "leader_terms": 0, "messages_sent": 0, "messages_lost": 0, "calls_at_stale_leader": 0}
    nontriv = set()
    for sid in order:
        evs = traces[sid]
        terms, calls, rets = set(), {}, set()
        for e in evs:
            k = e["e"]
            if k == "Applied":
                stats["applied"] += 1
                terms.add((e["r"], e["term"]))
            elif k == "Restart":
                stats["restarts"] += 1
            elif k in ("ProposeCall", "ReadCall"):
                calls[e["c"]] = e
                if e["role"] == "StateLeader":
                    terms.add((e["r"], e["term"]))
            elif k == "ProposeRet":
                rets.add(e["c"])
                stats["proposals_ok" if e["res"] == "ok" else "proposals_notleader" if e["res"] == "notleader" else "proposals_unanswered"] += 1
            elif k == "ReadRet":
                rets.add(e["c"])
                stats["reads_ok" if e["res"] == "ok" else "reads_notleader" if e["res"] == "notleader" else "reads_err"] += 1
            elif k == "Final":
                stats["messages_sent"] += e["sent"]; stats["messages_lost"] += e["lost"]
        stats["proposals_unanswered"] += sum(1 for c, e in calls.items() if e["e"] == "ProposeCall" and c not in rets)
        # a call issued at a store that believes to be leader of an older term than one already seen in the region
        seen = {}
        stale = False
        for e in evs:
            if e["e"] in ("ProposeCall", "ReadCall") and e["role"] == "StateLeader":
                if seen.get(e["r"], 0) > e["term"]:
                    stale = True; stats["calls_at_stale_leader"] += 1
                seen[e["r"]] = max(seen.get(e["r"], 0), e["term"])
            elif e["e"] == "Applied":
                seen[e["r"]] = max(seen.get(e["r"], 0), e["term"])
        per_region = {}
        for (r, t) in terms:
            per_region[r] = per_region.get(r, 0) + 1
        stats["leader_terms"] += len(terms)
        if any(n >= 2 for n in per_region.values()) or stale or any(e["e"] == "Restart" for e in evs):
            nontriv.add(json.dumps(scheds[sid]["ops"], sort_keys=True))
    sample_sid = order[0]
    ctx.evidence("model_checking", {
        "states": sum(m["distinct"] for m in m1), "transitions": sum(m["generated"] for m in m1),
        "traces_validated_against_impl": len(tl), "evaluations": len(tl), "distinct_nontrivial": len(nontriv),
        "rule": "one evaluation = one fault schedule executed on a real 3-store cluster (TLC -simulate behaviours of RaftStore.tla mapped to harness steps, "
                "seeded random primitive-fault schedules, recorded replays); non-trivial = commands of one region were applied under >= 2 leader terms, "
                "or a call was issued at a deposed leader, or a store restarted",
        "samples": [{"schedule": scheds[sample_sid], "first_events": tl[0][:14]}],
        "m1": m1, "events_validated": nevents, "rejected": len(rejected), "known_finding_hits": classes, "cluster_activity": stats,
        "schedules": {"tlc_derived": len(chosen), "random": nrand, "scenario_macros": len(scen), "recorded_replays": len(replay_ids)},
        "negative_control": "rejected as required", "request_id_drift_schedules": drift,
        "clusters_with_stores_started_in_one_ms": aligned,
        "checker_cmd": "tlc -config %s RaftStore.tla ; tlc -config RaftPropTrace.cfg RaftPropTrace.tla" % M1[(pid, ctx.tier)][0][0],
    }, assumptions=[
        "etcd-raft is trusted: RaftStore.tla abstracts it (atomic elections by a quorum, whole-log replication, commit rule); its messages are real in M2/M3",
        "3 stores, 1-2 regions, fixed membership (no conf change, split or merge), clean restarts only (crash restarts are C21's subject)",
        "one scheduler thread; the only intra-store concurrency explored is the parked client calls and the two-stepper / slow-applier race op",
        "after a clean restart a store applies its log again from the start; 'applied exactly once' is judged on log positions",
        "TLC results hold for the constants in the cfg files",
    ])


if __name__ == "__main__":
    main(run, "RaftStore")
