#!/usr/bin/env python3
"""Write-pipeline family: C34 (concurrent plain writes and reads are linearizable) and C37
(operations and Close always finish).  See docs/design.d/pipeline.md.

M1  TLC checks spec/Pipeline/CommitQueue.tla (PlusCal; ring + spaces/items semaphores, closed flag,
    inflight, throttle flag, writers, the single commit worker with batch coalescing and
    per-request errors, Close at any time, throttle toggled at any time): safety invariants,
    deadlock freedom, and <>(every call has returned) under weak fairness with no state
    constraint.  The configuration with the recorded deviation "DrainChecksQueueLenFirst" (the code
    before /repo a6823b6) must still produce its counterexample (the spec keeps distinguishing).
M2  the counterexample of that configuration is a fixed gate-by-gate schedule (mode "drainrace")
    that is executed on the real DB in every run; everything else is seeded scenario generation
    over the configuration product.
M3  recorded Call/Ret events are validated by TLC against RegisterPropTrace.tla (C34: per-key
    linearizable register with a silent linearization step, high-water-mark acceptance, depth
    first queue) and CallsReturn.tla (C37).
C37 hang rule: a call that did not return within the budget is a violation only if the same
    scenario hangs again on re-execution and both goroutine dumps of both executions show the
    pending calls parked (same blocking state, same engine frame) inside engine code.
"""
import json, os, re, shutil, subprocess, sys, tempfile, threading
sys.path.insert(0, os.path.join(os.path.dirname(os.path.abspath(__file__)), "..", "lib"))
from vlib import *

KEYS = ["a", "b"]
BULK = 1100             # > ring capacity (max(WriteBatchMaxCount*8, 1024) rounded to a power of two = 1024)
TOOBIG = 4096
CFGS = [
    {"batch_wait_us": 0, "batch_max": 64},
    {"batch_wait_us": 200, "batch_max": 64},
    {"batch_wait_us": 2000, "batch_max": 2},
    {"batch_wait_us": 0, "batch_max": 2, "vlog": True},
    {"batch_wait_us": 300, "batch_max": 4, "mem": "art"},
    {"batch_wait_us": 1000, "batch_max": 64, "vlog": True, "mem": "art"},
]
KINDS = ["plain", "hot", "toobig", "lateclose", "throttle_close", "throttle_toggle", "stall"]
FULL = ["full_drain", "full_close", "full_throttle"]
# kinds added for seeded changes (docs/design.d/pipeline.md "Seeded changes")
EXTRA = ["flush", "iofault", "bytebudget", "l0throttle", "l0heavy"]
BIGPAD = 300 << 10      # larger than the WAL's 256 KiB buffer: the record is written through to the file


# --------------------------------------------------------------------------- scenarios
def gen_threads(rng, sid, nthreads, nops, big=False, getp=0.45):
    threads, pads = [], {}
    for t in range(nthreads):
        ops = []
        for n in range(nops):
            x, k = rng.random(), rng.choice(KEYS)
            if x < getp:
                ops.append({"op": "Get", "k": k})
            elif x < getp + 0.42:
                op = {"op": "Set", "k": k, "v": "s%dt%dn%d" % (sid, t + 1, n)}
                if big:
                    y = rng.random()
                    if y < 0.35:
                        op["pad"] = TOOBIG + rng.choice([0, 1, 700])      # at or above MaxBatchSize
                    elif y < 0.6:
                        op["pad"] = rng.choice([TOOBIG // 2, 1000])       # large but acceptable
                if op.get("pad"):
                    pads[op["v"]] = op["pad"]
                ops.append(op)
            else:
                ops.append({"op": "Del", "k": k})
        threads.append(ops)
    return threads, pads


def make_scenario(rng, sid, kind, cfg):
    cfg = dict(cfg)
    nthreads, nops = rng.choice([3, 3, 4]), rng.randint(6, 10)
    sc = {"id": sid, "mode": "free", "kind": kind, "cfg": cfg, "ctl": [], "budget_s": 60}
    if kind == "hot":
        cfg["hot_limit"] = rng.choice([3, 4, 6])
    if kind == "toobig":
        cfg["max_batch_size"] = TOOBIG
        cfg["vlog"] = False     # inline values: the size estimate counts the value bytes
    sc["threads"], sc["pads"] = gen_threads(rng, sid, nthreads, nops, big=(kind == "toobig"))
    total = nthreads * nops
    if kind == "lateclose":
        sc["ctl"] = [{"do": "wait_calls", "n": rng.randint(2, total - 3)}, {"do": "close"}]
    elif kind == "throttle_close":
        sc["ctl"] = [{"do": "wait_calls", "n": rng.randint(1, total // 2)}, {"do": "throttle", "on": True},
                     {"do": "sleep_ms", "n": rng.choice([2, 5, 10])}, {"do": "close"}]
    elif kind == "throttle_toggle":
        a = rng.randint(1, total // 2)
        sc["ctl"] = [{"do": "wait_calls", "n": a}, {"do": "throttle", "on": True}, {"do": "sleep_ms", "n": rng.choice([1, 3, 8])},
                     {"do": "throttle", "on": False}, {"do": "wait_calls", "n": rng.randint(a + 1, total - 1), "max_ms": 500},
                     {"do": "throttle", "on": True}, {"do": "sleep_ms", "n": rng.choice([1, 4])}, {"do": "throttle", "on": False}]
    elif kind == "stall":
        # slow consumer: the commit worker is held after vlog.write, before applying its batch
        sc["ctl"] = [{"do": "stall", "on": True}, {"do": "wait_calls", "n": rng.randint(2, total // 2), "max_ms": 300},
                     {"do": "sleep_ms", "n": rng.choice([5, 15])}, {"do": "stall", "on": False}]
    elif kind == "flush":
        # memtable rotated and flushed to L0 between phases (background compaction paused, so the tables stay in
        # L0): phase 1 and 2 write, phase 3 starts by reading both keys
        cfg["pause_compaction"] = True
        threads = []
        for t in range(nthreads):
            ops = []
            for ph in (1, 2, 3):
                if ph == 3:
                    ops += [{"op": "Get", "k": k} for k in rng.sample(KEYS, 2)]
                for n in range(rng.randint(2, 4)):
                    x, k = rng.random(), rng.choice(KEYS)
                    ops.append({"op": "Get", "k": k} if x < 0.25 else
                               {"op": "Del", "k": k} if x < 0.4 else
                               {"op": "Set", "k": k, "v": "s%dt%dp%dn%d" % (sid, t + 1, ph, n)})
                if ph < 3:
                    ops.append({"op": "Sync", "n": ph})
            threads.append(ops)
        sc["threads"], sc["pads"] = threads, {}
        sc["ctl"] = [{"do": "barrier", "n": 1, "then": [{"do": "flush", "n": 1}]},
                     {"do": "barrier", "n": 2, "then": [{"do": "flush", "n": 2}]}]
    elif kind == "iofault":
        # the k-th write-through of a WAL record fails once (values larger than the WAL buffer, kept inline)
        cfg.update({"vlog": False, "max_batch_size": 64 << 20, "batch_max_bytes": 64 << 20, "fault_op": "file_write",
                    "fault_suffix": ".wal", "fault_nth": rng.randint(1, 5)})
        threads, pads = gen_threads(rng, sid, 3, rng.randint(5, 7), getp=0.4)
        for ops in threads:
            for op in ops:
                if op["op"] == "Set":
                    op["pad"] = BIGPAD
                    pads[op["v"]] = BIGPAD
        sc["threads"], sc["pads"] = threads, pads
        if rng.random() < 0.5:   # let the first batch coalesce several requests
            sc["ctl"] = [{"do": "stall", "on": True}, {"do": "wait_calls", "n": 3, "max_ms": 200}, {"do": "sleep_ms", "n": 5},
                         {"do": "stall", "on": False}]
    elif kind == "bytebudget":
        # byte budget of a commit batch (WriteBatchMaxSize) much smaller than the queued payload
        cfg.update({"vlog": False, "batch_max": 64, "batch_max_bytes": 512})
        sc["threads"], sc["pads"] = gen_threads(rng, sid, 3, 6)
        for ops in sc["threads"]:
            for op in ops:
                if op["op"] == "Set":
                    op["pad"] = 200
                    sc["pads"][op["v"]] = 200
        burst = [{"do": "stall", "on": True}, {"do": "bulk", "n": rng.randint(20, 40), "k": "bulk", "pad": 200},
                 {"do": "sleep_ms", "n": 20}, {"do": "stall", "on": False}]
        sc["ctl"] = burst + [{"do": "sleep_ms", "n": 5}, {"do": "bulk", "n": rng.randint(10, 30), "k": "bulk", "pad": 200}]
        if rng.random() < 0.5:
            sc["ctl"] += [{"do": "sleep_ms", "n": 5}, {"do": "close"}]
    elif kind == "l0throttle":
        # the real L0 throttle: three L0 tables with NumLevelZeroTables = 1, the throttle re-evaluated as compaction
        # worker 0 does (on), writers released into it, L0 drained by forced compactions ("another worker"),
        # background compaction resumed: the throttle has to come off and every writer has to return
        cfg.update({"pause_compaction": True, "num_l0": 1, "num_compactors": 2, "vlog": False})
        threads = []
        for t in range(3):
            ops = [{"op": "Set", "k": rng.choice(KEYS), "v": "s%dt%dn0" % (sid, t + 1)}, {"op": "Sync", "n": 1}]
            ops += [{"op": "Set", "k": rng.choice(KEYS), "v": "s%dt%dn%d" % (sid, t + 1, n)} if n % 3 else {"op": "Get", "k": rng.choice(KEYS)}
                    for n in range(1, 9)]
            threads.append(ops)
        sc["threads"], sc["pads"] = threads, {}
        sc["ctl"] = [{"do": "barrier", "n": 1, "then": [{"do": "flush", "n": 1}, {"do": "flush", "n": 2}, {"do": "flush", "n": 3},
                                                        {"do": "adjust_throttle"}]},
                     {"do": "wait_calls", "n": 8, "max_ms": 300}, {"do": "sleep_ms", "n": 10},
                     {"do": "compact_l0"}, {"do": "pause_compaction", "on": False}]
        # worker 0 re-evaluates the throttle on its next cycle (trigger or 5 s tick); an engine that only does so after a
        # compaction of its own keeps the writers parked until some age-based compaction comes along (about a minute)
        sc["budget_s"] = 30
    elif kind == "l0heavy":
        # free-running real throttle: tiny memtable, NumLevelZeroTables 2, 3 compactors, heavy writes on many keys
        cfg.update({"num_l0": 2, "num_compactors": 3, "mem_size": 1 << 20, "vlog": False, "batch_wait_us": 0})
        threads = []
        for t in range(6):
            threads.append([{"op": "Set", "k": "h%dk%d" % (t, n % 300), "v": "s%dt%dn%d" % (sid, t + 1, n), "pad": 2048}
                            for n in range(900)])
        sc["threads"], sc["pads"] = threads, {}
        sc["budget_s"] = 180
    elif kind in FULL:
        # full queue: worker stalled, more one-shot writers than the ring holds
        sc["threads"], sc["pads"] = gen_threads(rng, sid, 2, 5)
        pre = [{"do": "stall", "on": True}, {"do": "bulk", "n": BULK, "k": "bulk"},
               {"do": "wait_calls", "n": BULK, "max_ms": 5000}, {"do": "sleep_ms", "n": 40}]
        if kind == "full_drain":
            sc["ctl"] = pre + [{"do": "stall", "on": False}]
        elif kind == "full_close":
            sc["ctl"] = pre + [{"do": "close_async"}, {"do": "sleep_ms", "n": 30}, {"do": "stall", "on": False}]
        else:
            sc["ctl"] = pre + [{"do": "throttle", "on": True}, {"do": "sleep_ms", "n": 10}, {"do": "stall", "on": False},
                               {"do": "sleep_ms", "n": 10}, {"do": "throttle", "on": False}]
    return sc


def fixed_scenarios(sid0):
    """Recorded replays (findings/pipeline_replays.json): they stay in the schedule set for ever."""
    out = []
    for rp in json.load(open(os.path.join(VERIF, "findings", "pipeline_replays.json"))):
        sc = json.loads(json.dumps(rp["scenario"]))
        sc["id"] = sid0 + len(out)
        sc["kind"] = rp["id"]
        sc.setdefault("pads", {})
        out.append(sc)
    return out


# --------------------------------------------------------------------------- driver
def run_driver(ctx, scs):
    """Runs scenarios on the real DB, ctx.workers processes. Returns ({sid: events}, [hang events])."""
    binp = ctx.build("pipeline")
    base = "/dev/shm" if os.path.isdir("/dev/shm") and os.access("/dev/shm", os.W_OK) else ctx.scratch
    work = tempfile.mkdtemp(prefix="verif-pl-", dir=base)
    dumps = os.path.join(ctx.outdir, "dumps")
    os.makedirs(dumps, exist_ok=True)
    traces, hangs = {}, []
    try:
        pending = [p for p in chunks(scs, ctx.workers) if p]
        rnd = 0
        while pending:
            rnd += 1
            procs = []
            for i, part in enumerate(pending):
                d = ctx.mkdtemp("drv")
                inp, outp = os.path.join(d, "in.ndjson"), os.path.join(d, "out.ndjson")
                with open(inp, "w") as fh:
                    for s in part:
                        fh.write(json.dumps({k: v for k, v in s.items() if k not in ("pads", "kind")}) + "\n")
                p = subprocess.Popen([binp, "-in", inp, "-out", outp, "-dir", work, "-dumps", dumps],
                                     stdout=subprocess.DEVNULL, stderr=subprocess.PIPE, text=True)
                procs.append((p, outp, part))
            pending = []
            for p, outp, part in procs:
                try:
                    _, err = p.communicate(timeout=120 * len(part) + 600)
                except subprocess.TimeoutExpired:
                    p.kill()
                    raise Undecided("pipeline driver timed out")
                if p.returncode not in (0, 4):
                    raise Undecided("pipeline driver failed (%d): %s" % (p.returncode, err[-3000:]))
                seen = set()
                for line in open(outp):
                    ev = json.loads(line)
                    traces.setdefault(ev["s"], []).append(ev)
                    seen.add(ev["s"])
                    if ev["e"] == "Hang":
                        hangs.append(ev)
                if p.returncode == 4:   # the process gave up at a hang: the rest of its shard still has to run
                    rest = [s for s in part if s["id"] not in seen]
                    if rest:
                        pending.append(rest)
            if rnd > len(scs) + 2:
                raise Undecided("pipeline driver keeps hanging")
    finally:
        shutil.rmtree(work, ignore_errors=True)
    return traces, hangs


# --------------------------------------------------------------------------- projections
def project_c34(sc, evs):
    """Call/Ret of Set/Del/Get on the register keys; `res` joined onto Call; a Get that had not returned
    when Close was called is not constrained (reply ANY)."""
    pads = sc.get("pads", {})
    close_at = next((i for i, e in enumerate(evs) if e["e"] == "Call" and e["kind"] == "Close"), None)
    calls = {e["op"]: e for e in evs if e["e"] == "Call"}
    res = {}
    for i, e in enumerate(evs):
        if e["e"] != "Ret":
            continue
        c = calls[e["op"]]
        r = e["r"]
        if c["kind"] == "Get":
            if close_at is not None and i > close_at:
                r = "ANY"
            elif r not in ("NOTFOUND", "panic", "error", "ioerr"):
                want = max(pads.get(r, 0), len(r) + 1)
                if e.get("n") != want:
                    r = "corrupt-length"
        res[e["op"]] = r
    out = []
    for e in evs:
        if e["e"] == "Call" and e["kind"] in ("Set", "Del", "Get") and e["k"] in KEYS:
            out.append({"e": "Call", "op": e["op"], "t": e["t"], "kind": e["kind"], "k": e["k"], "v": e.get("v", ""),
                        "res": res.get(e["op"], "PENDING")})
        elif e["e"] == "Ret" and calls[e["op"]]["kind"] in ("Set", "Del", "Get") and calls[e["op"]]["k"] in KEYS:
            out.append({"e": "Ret", "op": e["op"], "r": res[e["op"]]})
    return out


def project_c37(sc, evs):
    calls = {e["op"]: e for e in evs if e["e"] == "Call"}
    out = []
    for e in evs:
        if e["e"] == "Call":
            out.append({"e": "Call", "op": e["op"], "t": e["t"], "kind": e["kind"]})
        elif e["e"] == "Ret":
            r = e["r"]
            if calls[e["op"]]["kind"] == "Get" and r not in ("NOTFOUND", "panic", "error", "blocked", "hot", "toobig", "ioerr"):
                r = "value"
            out.append({"e": "Ret", "op": e["op"], "t": e["t"], "r": r})
        elif e["e"] == "End":
            out.append({"e": "End", "pending": e["pending"]})
        elif e["e"] == "Hang":
            out.append({"e": "End", "pending": len(e["ops"])})
    return out


# --------------------------------------------------------------------------- goroutine dumps (C37)
BLOCKED = ("semacquire", "sync.WaitGroup.Wait", "chan receive", "chan send", "select", "sync.Mutex.Lock",
           "sync.RWMutex.Lock", "sync.RWMutex.RLock", "sync.Cond.Wait", "sleep")


def inflight_calls(dump_path):
    """{goroutine id: (state, innermost engine frame)} for driver goroutines that are inside a DB call."""
    out = {}
    for blk in open(dump_path).read().split("\n\n"):
        m = re.match(r"goroutine (\d+) \[([^\],]+)", blk)
        if not m or "main.doOp" not in blk:
            continue
        frames = re.findall(r"^(github\.com/feichai0017/NoKV[^\s(]*(?:\(\*?\w+\))?[.\w]*)", blk, re.M)
        out[int(m.group(1))] = (m.group(2), frames[0] if frames else None)
    return out


def parked_in_engine(hang):
    """The pending calls of a Hang event are parked inside engine code: same goroutines, same blocking
    state, same engine frame in both dumps (taken 2 s apart)."""
    a, b = inflight_calls(hang["dump"]), inflight_calls(hang["dump2"])
    if not a or set(a) != set(b) or len(a) != len(hang["ops"]):
        return None
    for g in a:
        if a[g] != b[g] or a[g][0] not in BLOCKED or a[g][1] is None:
            return None
    return sorted("%s in %s" % a[g] for g in a)


# --------------------------------------------------------------------------- M1
# C34 needs the safety half (FIFO, ack-once, errors have no effect), C37 deadlock freedom and liveness
M1_PLAN = {
    ("C34", "quick"): [("MC_CommitQueue_quick.cfg", "safety"), ("MC_CommitQueue_asis.cfg", "asis")],
    ("C37", "quick"): [("MC_CommitQueue_live_quick.cfg", "liveness"), ("MC_CommitQueue_quick.cfg", "safety"),
                       ("MC_CommitQueue_asis.cfg", "asis")],
    ("C34", "thorough"): [("MC_CommitQueue.cfg", "safety"), ("MC_CommitQueue_noclose.cfg", "safety"),
                          ("MC_CommitQueue_quick.cfg", "coverage"), ("MC_CommitQueue_asis.cfg", "asis")],
    ("C37", "thorough"): [("MC_CommitQueue_live.cfg", "liveness"), ("MC_CommitQueue_live_noclose.cfg", "liveness"),
                          ("MC_CommitQueue_noclose.cfg", "safety"), ("MC_CommitQueue_quick.cfg", "coverage"),
                          ("MC_CommitQueue_asis.cfg", "asis"), ("MC_CommitQueue_live_asis.cfg", "asis")],
}
UNREACHABLE_BY_DESIGN = {"k_dq1", "k_dq2"}      # the drain order of the recorded deviation


def run_m1(ctx, out):
    """TLC runs (own threads: the driver runs meanwhile). out: list of (cfg, role, result | exception)."""
    plan = M1_PLAN[(ctx.pid, "quick" if ctx.tier == "quick" else "thorough")]
    per = max(2, ctx.workers // 4)
    big = max(2, ctx.workers // 2)          # the first run of a plan is its long pole
    sem = threading.Semaphore(3)

    def one(cfg, role):
        with sem:
            try:
                r = ctx.tlc("CommitQueue", cfg, workers=(big if (cfg, role) == plan[0] else per), timeout=1500 if ctx.tier == "quick" else 7200,
                            coverage=(role == "coverage"))
                out.append((cfg, role, r))
            except Exception as e:  # noqa
                out.append((cfg, role, e))
    ths = [threading.Thread(target=one, args=p) for p in plan]
    for t in ths:
        t.start()
    return ths


def judge_m1(ctx, results):
    summary = []
    for cfg, role, r in results:
        if isinstance(r, Exception):
            raise Undecided("M1 %s: %s" % (cfg, r))
        m = re.search(r"Temporal property (\S+) was violated", r.out)
        if m and not r.violated:      # wording of this TLC build for a single violated PROPERTY
            r.violated, r.error = m.group(1), None
        if r.error:
            raise Undecided("M1 %s: TLC %s\n%s" % (cfg, r.error, r.out[-2000:]))
        if role == "asis":
            if not r.violated:
                raise Undecided("M1 %s: the recorded deviation no longer yields its counterexample: CommitQueue.tla "
                                "has lost the distinction the drain-order fix rests on" % cfg)
        elif r.violated or not r.ok:
            raise Undecided("M1 %s: CommitQueue.tla violates %s: the specification (design layer) needs attention\n%s"
                            % (cfg, r.violated, r.out[-3000:]))
        if role == "coverage":
            # -coverage 1 also prints interim statistics every minute: only the final block counts
            last = r.out[r.out.rfind("The coverage statistics at"):]
            zero = re.findall(r"^<(\w+) line \d+, col \d+ to line \d+, col \d+ of module \w+>: 0:0$", last, re.M)
            r.coverage_zero = sorted(set(zero) - UNREACHABLE_BY_DESIGN)
            if r.coverage_zero:
                raise Undecided("M1 %s: actions never taken (vacuous model): %s" % (cfg, r.coverage_zero))
        ctx.log("M1 %s (%s): %d generated, %d distinct, depth %d, %.0fs%s" % (
            cfg, role, r.generated, r.distinct, r.depth, r.wall, " -> counterexample as required" if role == "asis" else ""))
        summary.append({"cfg": cfg, "role": role, "generated": r.generated, "distinct": r.distinct, "depth": r.depth,
                        "wall_s": round(r.wall, 1), "violated": r.violated, "coverage_zero": r.coverage_zero})
    return summary


# --------------------------------------------------------------------------- main
def overlapping_rw(evs):
    """non-trivial history (C34): some write overlaps another operation on the same key in real time"""
    open_ops = {}
    calls = {}
    for e in evs:
        if e["e"] == "Call" and e.get("k") in KEYS:
            for o, c in open_ops.items():
                if c["k"] == e["k"] and (c["kind"] != "Get" or e["kind"] != "Get"):
                    return True
            open_ops[e["op"]] = e
        elif e["e"] == "Ret":
            open_ops.pop(e["op"], None)
    return False


def stressed(sc, evs):
    """non-trivial scenario (C37): a call was in flight when the throttle was switched on, the worker was
    stalled, or Close was called - or a call was refused because of one of them"""
    inflight = 0
    for e in evs:
        if e["e"] == "Call":
            if e["kind"] == "Close" and inflight > 0:
                return True
            inflight += 1
        elif e["e"] == "Ret":
            inflight -= 1
            if e["r"] in ("blocked", "hot", "toobig", "ioerr"):
                return True
        elif e["e"] == "Ctl" and e.get("on") and inflight > 0:
            return True
    return False


def run(ctx):
    pid, quick = ctx.pid, ctx.tier == "quick"
    m1_out = []
    ctx._specdir()          # scratch copy of spec/Pipeline before the TLC threads start
    m1_threads = run_m1(ctx, m1_out)
    # ------------------------------------------------------------ scenarios
    rng = ctx.rng
    scs = []
    per_kind = (5 if quick else 40)
    kinds = list(KINDS)
    for kind in kinds:
        n = per_kind if (pid == "C34" or kind not in ("hot", "toobig", "plain")) else max(2, per_kind // 2)
        for j in range(n):
            scs.append(make_scenario(rng, len(scs) + 1, kind, CFGS[(j + ctx.seed + len(kind)) % len(CFGS)]))
    nfull = (1 if quick else 4) if pid == "C34" else (1 if quick else 6)
    for j in range(nfull):
        for kind in FULL:
            scs.append(make_scenario(rng, len(scs) + 1, kind, CFGS[(j + ctx.seed) % len(CFGS)]))
    # l0throttle / l0heavy move tables out of L0: reads there are C01's business (known finding C01-ingest-tie), C37 only
    extra = ({"flush": 3, "iofault": 3, "bytebudget": 1} if pid == "C34" else {"flush": 1, "iofault": 2, "bytebudget": 3, "l0throttle": 1})
    if not quick:
        extra = {k: 8 * v for k, v in extra.items()}
        if pid == "C37":
            extra.update({"l0throttle": 3, "l0heavy": 2})
    for kind, n in extra.items():
        for j in range(n):
            scs.append(make_scenario(rng, len(scs) + 1, kind, CFGS[(j + ctx.seed + len(kind)) % len(CFGS)]))
    scs += fixed_scenarios(len(scs) + 1)
    # single-thread history used for the C34 negative control (swap two Get replies)
    ctl_id = len(scs) + 1
    scs.append({"id": ctl_id, "mode": "free", "kind": "sequential", "cfg": dict(CFGS[0]), "ctl": [], "budget_s": 60, "pads": {},
                "threads": [[{"op": "Set", "k": "a", "v": "s%dt1n0" % ctl_id}, {"op": "Get", "k": "a"},
                             {"op": "Set", "k": "a", "v": "s%dt1n2" % ctl_id}, {"op": "Get", "k": "a"},
                             {"op": "Del", "k": "a"}, {"op": "Get", "k": "a"}]]})
    by_id = {s["id"]: s for s in scs}
    ctx.log("%d scenarios (%s)" % (len(scs), ", ".join("%s:%d" % (k, sum(1 for s in scs if s["kind"] == k)) for k in
                                                          sorted({s["kind"] for s in scs}))))
    traces, hangs = run_driver(ctx, scs)
    missing = [s["id"] for s in scs if s["id"] not in traces]
    if missing:
        raise Undecided("driver produced no events for scenarios %s" % missing[:10])
    order = sorted(traces)
    nevents = sum(len(traces[s]) for s in order)
    ctx.log("driver: %d scenarios, %d events, %d hangs" % (len(order), nevents, len(hangs)))
    for s in order:   # gated replay sanity: the schedule was really forced
        if by_id[s].get("mode") == "drainrace":
            notes = {e["what"]: e["on"] for e in traces[s] if e["e"] == "Ctl"}
            for need in ("worker-parked-afterVlog", "writer-parked-beforePush", "closer-parked-afterFlag"):
                if not notes.get(need):
                    raise Undecided("gated replay could not force its schedule (%s): verif yield points missing?" % need)
        if by_id[s]["kind"] in ("flush", "l0throttle"):
            notes = [(e["what"], e["on"]) for e in traces[s] if e["e"] == "Ctl"]
            bad = [w for w, on in notes if not on and w != "pause-compaction"]
            if bad or not notes:
                raise Undecided("staged scenario %d (%s) could not be set up: %s" % (s, by_id[s]["kind"], bad))
    # ------------------------------------------------------------ M3
    proj = project_c34 if pid == "C34" else project_c37
    module = "RegisterPropTrace" if pid == "C34" else "CallsReturn"
    tl = [proj(by_id[s], traces[s]) for s in order]
    rejected = ctx.validate_traces(module, module + ".cfg", tl, timeout=1800, dfs=(pid == "C34"))
    ctx.log("M3 %s: %d traces / %d events validated, %d rejected" % (module, len(tl), sum(len(t) for t in tl), len(rejected)))
    hang_by_sid = {h["s"]: h for h in hangs}
    # C37: calls that did not return within the budget.  A verdict needs a second, independent hang of the same
    # scenario and pending calls parked inside engine code in both dumps of both executions.
    unconfirmed = []
    hang_runs = {}            # sid -> Hang events of its executions (first run, then re-executions)
    if pid == "C37" and hangs:
        for h in hangs:
            h["parked"] = parked_in_engine(h)
            hang_runs.setdefault(h["s"], []).append(h)
            ctx.log("scenario %d (%s): calls did not return within %ds: %s%s" % (
                h["s"], by_id[h["s"]]["kind"], h["budget_s"], h["pending"][:6], "" if h["parked"] else " (not parked in engine code; control step %s)" % h.get("ctl_step")))
        for attempt in (1, 2):
            todo = [by_id[sid] for sid, hs in list(hang_runs.items())[:6] if sum(1 for h in hs if h["parked"]) < 2]
            if not todo:
                break
            ctx.log("re-executing %d hung scenario(s), attempt %d" % (len(todo), attempt))
            _, again = run_driver(ctx, todo)
            for h2 in again:
                h2["parked"] = parked_in_engine(h2)
                hang_runs[h2["s"]].append(h2)
        for sid, hs in hang_runs.items():
            good = [h for h in hs if h["parked"]]
            if len(good) < 2:
                unconfirmed.append(sid)
                ctx.notes.append("scenario %d: %d execution(s) hung, %d with the pending calls parked in engine code" % (sid, len(hs), len(good)))
                continue
            sc = by_id[sid]
            rp = ctx.save_replay("violation-%d.json" % sid, {"scenario": sc, "hangs": good[:2], "trace": traces[sid]})
            ctx.violation(rp, "call never returns (reproduced, parked in engine code): %s; %s (scenario %d, %s)" % (
                good[0]["pending"][:4], "; ".join(sorted(set(good[1]["parked"]))[:4]), sid, sc["kind"]))
    for (ti, line, pev, want) in rejected:
        sid = order[ti]
        sc = by_id[sid]
        if pid == "C37" and sid in hang_by_sid and pev.get("e") == "End":
            continue          # decided by the hang rule above
        full = traces[sid]
        rp = ctx.save_replay("violation-%d.json" % sid, {"scenario": sc, "rejected_line": line, "event": pev, "projected": tl[ti], "trace": full})
        if pid == "C34":
            ctx.violation(rp, "no linearization explains %s (scenario %d, %s)" % (json.dumps(pev), sid, sc["kind"]))
        else:
            ctx.violation(rp, "not a legal return: %s (scenario %d, %s)" % (json.dumps(pev), sid, sc["kind"]))
    if unconfirmed and not ctx.violations:
        raise Undecided("scenario(s) %s: calls did not return within the budget, but the hang did not reproduce as a parked "
                        "deadlock on re-execution (machine load or a rare schedule)" % unconfirmed)
    if unconfirmed:
        ctx.notes.append("hangs that did not reproduce: scenarios %s" % unconfirmed)
    if pid == "C34" and hangs:
        ctx.notes.append("%d scenario(s) had calls that did not return within the budget (C37 decides those)" % len(hangs))
    # unexpected error replies that are outside the property's quantifier (I/O errors): cannot decide
    for s in order:
        for e in traces[s]:
            if e["e"] == "Ret" and e["r"] == "error" and not any(v[0].endswith("violation-%d.json" % s) for v in ctx.violations):
                raise Undecided("scenario %d: undocumented error reply %s" % (s, e.get("detail")))
    # ------------------------------------------------------------ negative controls
    if pid == "C34":
        base = [dict(e) for e in tl[order.index(ctl_id)]]
        gets = [i for i, e in enumerate(base) if e["e"] == "Ret" and e["r"] not in ("ok", "NOTFOUND")]
        if len(gets) < 2 or base[gets[0]]["r"] == base[gets[1]]["r"]:
            raise Undecided("sequential control history has no two distinct successful reads")
        swapped = [dict(e) for e in base]
        swapped[gets[0]]["r"], swapped[gets[1]]["r"] = base[gets[1]]["r"], base[gets[0]]["r"]
        for e in swapped:   # the syntactic join follows the swap
            if e["e"] == "Call":
                e["res"] = next((r["r"] for r in swapped if r["e"] == "Ret" and r["op"] == e["op"]), "PENDING")
        controls = [("swapped Get replies", swapped)]
        # a read observing a write that reported an error
        for ti, t in enumerate(tl):
            failed = [e for e in t if e["e"] == "Call" and e["kind"] == "Set" and e["res"] in ("hot", "toobig", "blocked", "ioerr")]
            later = [i for i, e in enumerate(t) if e["e"] == "Call" and e["kind"] == "Get" and failed and e["k"] == failed[0]["k"]
                     and e["res"] not in ("ANY", "PENDING") and e["op"] > failed[0]["op"]]
            if failed and later:
                c = [dict(e) for e in t]
                op = c[later[-1]]["op"]
                for e in c:
                    if e.get("op") == op:
                        e["res" if e["e"] == "Call" else "r"] = failed[0]["v"]
                controls.append(("read observes the rejected write %s" % failed[0]["v"], c))
                break
        for name, c in controls:
            if not ctx.validate_traces(module, module + ".cfg", [c], dfs=True):
                raise Undecided("negative control accepted (%s): the trace specification does not bind replies" % name)
        ncontrols = len(controls)
        if ncontrols < 2:
            raise Undecided("no history with a rejected write followed by a read: error paths are not exercised")
    else:
        base = next(t for t in tl if sum(1 for e in t if e["e"] == "Ret") >= 3)
        drop = next(i for i, e in enumerate(base) if e["e"] == "Ret")
        c1 = [dict(e) for i, e in enumerate(base) if i != drop]                      # a call that never returns
        c1 = [e for e in c1 if not (e["e"] == "Call" and e["t"] == base[drop]["t"] and e["op"] > base[drop]["op"])]
        c1 = [e for e in c1 if not (e["e"] == "Ret" and e["t"] == base[drop]["t"] and e["op"] > base[drop]["op"])]
        c2 = [dict(e) for e in base]
        c2[drop]["r"] = "panic"                                                       # a panic is not a return
        for name, c in (("dropped Ret", c1), ("panic reply", c2)):
            if not ctx.validate_traces(module, module + ".cfg", [c]):
                raise Undecided("negative control accepted (%s): CallsReturn does not bind the events" % name)
        ncontrols = 2
    # ------------------------------------------------------------ M1 verdicts
    for t in m1_threads:
        t.join()
    m1 = judge_m1(ctx, m1_out)
    # ------------------------------------------------------------ evidence
    replies = {}
    for s in order:
        calls = {e["op"]: e for e in traces[s] if e["e"] == "Call"}
        for e in traces[s]:
            if e["e"] == "Ret":
                r = e["r"] if e["r"] in ("ok", "hot", "toobig", "blocked", "ioerr", "NOTFOUND", "panic", "error") else "value"
                k = calls[e["op"]]["kind"] + ":" + r
                replies[k] = replies.get(k, 0) + 1
    nontriv = overlapping_rw if pid == "C34" else (lambda evs: stressed(None, evs))
    distinct = {json.dumps([e for e in traces[s] if e["e"] in ("Call", "Ret")], sort_keys=True) for s in order if nontriv(traces[s])}
    main_m1 = max((m for m in m1 if m["role"] != "asis"), key=lambda m: m["distinct"])
    sample_sid = next((s for s in order if by_id[s]["kind"] in ("lateclose", "throttle_close")), order[0])
    ctx.evidence("model_checking", {
        "states": sum(m["distinct"] for m in m1 if m["role"] != "asis"), "transitions": sum(m["generated"] for m in m1 if m["role"] != "asis"),
        "traces_validated_against_impl": len(tl), "evaluations": len(tl), "distinct_nontrivial": len(distinct),
        "rule": ("seeded scenarios over the option product (WriteBatchWait x WriteBatchMaxCount x value log x memtable engine) x "
                 "{plain, hot-key throttle, oversized values, late Close, throttle+Close, throttle toggling, stalled worker, full queue} "
                 "plus recorded replays; non-trivial = " +
                 ("some write overlaps another operation on the same key in real time" if pid == "C34" else
                  "a call was in flight when the throttle was enabled / the worker stalled / Close was called, or a call was refused")),
        "samples": [{"scenario": {k: v for k, v in by_id[sample_sid].items() if k != "pads"}, "events": tl[order.index(sample_sid)][:40]}],
        "m1": m1, "m1_largest": main_m1, "events_recorded": nevents, "events_validated": sum(len(t) for t in tl),
        "scenario_kinds": {k: sum(1 for s in scs if s["kind"] == k) for k in sorted({s["kind"] for s in scs})},
        "replies": replies, "hangs": len(hangs), "rejected_traces": len(rejected), "negative_controls_rejected": ncontrols,
        "checker_cmd": "tlc -config MC_CommitQueue*.cfg CommitQueue.tla ; tlc -workers 1 -config %s.cfg %s.tla" % (module, module),
    }, assumptions=[
        "process-level behaviour of one DB; memtable large enough that no flush happens during a scenario",
        "the L0 throttle is driven through DB.applyThrottle (verif accessor), the slow consumer through blocking yield points of the commit worker",
        "Get replies on a closing/closed DB are not constrained (C34 talks about writes refused by Close)",
        "a hang is a verdict only when it reproduces and the pending calls are parked in engine code in two dumps of both executions; otherwise exit 2",
        "TLC results hold for the constants in the cfg files (2 writers x 2 calls, capacity 2, batch 2)",
    ])


if __name__ == "__main__":
    main(run, "Pipeline")
