#!/usr/bin/env python3
"""Iterator family: C06 (iterators return exactly the live snapshot, in order, honouring options).
See DESIGN.md section 5 (C06) and docs/design.d/iter.md.

M2  TLC enumerates the cases from spec/Txn/IterGen.tla: datasets (commits over a pool of
    prefix-related keys over the bytes {00, 61, ff}, with deletes and expiries) and scan requests
    (reverse, all-versions, key-only, prefix / key iterator, lower / upper bound, seek target, own
    pending writes) -- randomly with -simulate (both tiers) and exhaustively over a small universe
    (thorough).  harness/cmd/iter places every dataset under several layouts (memtable only, split
    memtable + L0, one L0 table per commit, compacted into L1, compacted + newer memtable) and both
    memtable engines and records what DB.NewIterator / Txn.NewIterator / Txn.NewKeyIterator yield
    plus a point read of every yielded key.
M3  TLC validates every recorded scan against spec/Txn/IterRefTrace.tla: the result must equal
    IterRef!Scan(snapshot, options) -- the expected answer is computed by TLC, never by this file.
"""
import json, os, sys, re, subprocess
sys.path.insert(0, os.path.join(os.path.dirname(os.path.abspath(__file__)), "..", "lib"))
from vlib import *

BYTES = ["00", "61", "ff"]
ENGINES = [{"mem": "skiplist"}, {"mem": "art"}]
VLOG = {"vlog": True, "buckets": 1, "vlogsize": 1 << 20}
LAYOUTS = ["mem", "split", "multi", "compact", "compact+mem"]
ROTFLUSH = [{"op": "Rotate"}, {"op": "Flush"}]
COMPACT = [{"op": "Compact", "kind": "l0", "base": 1}, {"op": "Compact", "kind": "ingest-drain", "level": 1}]


def hexkey(k):
    return "".join(BYTES[b] for b in k)


def intkey(h):
    return [BYTES.index(h[i:i + 2]) for i in range(0, len(h), 2)]


def gen_cases(ctx, cfg, simulate=None, depth=None, seed=None, timeout=900):
    r = ctx.tlc_or_undecided("IterGen", cfg, workers=1 if simulate else ctx.workers, simulate=simulate, depth=depth,
                             seed=seed, timeout=timeout)
    if r.violated:
        raise Undecided("IterGen: unexpected TLC verdict %s\n%s" % (r.violated, r.out[-2000:]))
    seen, out = set(), []
    for m in re.finditer(r'<<"SCHED", "(.*)">>', r.out):
        s = m.group(1).encode().decode("unicode_escape")
        if s in seen:
            continue
        seen.add(s)
        out.append(json.loads(s))
    return out, r


def group_by_dataset(cases):
    """Exhaustive mode emits one scan per behaviour: merge behaviours that share a dataset."""
    groups, order = {}, []
    for c in cases:
        commits = [s for s in c["steps"] if s["op"] == "Commit"]
        key = json.dumps([c["api"], commits], sort_keys=True)
        if key not in groups:
            groups[key] = {"api": c["api"], "steps": list(commits)}
            order.append(key)
        groups[key]["steps"] += [s for s in c["steps"] if s["op"] == "Scan"]
    return [groups[k] for k in order]


def split_scans(case, per):
    commits = [s for s in case["steps"] if s["op"] == "Commit"]
    scans = [s for s in case["steps"] if s["op"] == "Scan"]
    return [{"api": case["api"], "steps": commits + scans[i:i + per]} for i in range(0, len(scans), per)]


def to_schedule(case, layout, cfg, sid):
    """TLC behaviour -> driver schedule: unique value tokens, hex keys, maintenance per layout."""
    api = case["api"]
    commits = [s for s in case["steps"] if s["op"] == "Commit"]
    scans = [s for s in case["steps"] if s["op"] == "Scan"]
    steps, n = [], 0
    nc = len(commits)
    for i, c in enumerate(commits):
        ws = []
        for w in sorted(c["w"], key=lambda w: w["k"]):
            n += 1
            ws.append({"k": hexkey(w["k"]), "kind": w["kind"], "v": "v%d" % n})
            if cfg.get("vlog") and n % 2 == 0:     # mix inline values with value-log pointers
                ws[-1]["len"] = 20
        steps.append({"op": "Commit", "w": ws})
        last = i == nc - 1
        if layout == "split" and i == (nc - 1) // 2:
            steps += ROTFLUSH
        elif layout == "multi":
            steps += ROTFLUSH
        elif layout == "compact":
            # plain-API writes share one version: keep them in ONE table so that the recorded
            # storage-level finding C01-ingest-tie (same internal key in two ingest tables) cannot interfere
            if api == "txn" or last:
                steps += ROTFLUSH
            if last:
                steps += COMPACT
        elif layout == "compact+mem":
            if nc == 1:
                if last:
                    steps += ROTFLUSH + COMPACT
            elif i == nc - 2:
                steps += ROTFLUSH + COMPACT
    for s in scans:
        n += 1
        o = s["o"]
        pend = [{"k": hexkey(w["k"]), "kind": w["kind"], "v": "p%d_%d" % (n, j)}
                for j, w in enumerate(sorted(s["pend"], key=lambda w: w["k"]))]
        if cfg.get("vlog"):
            for j, w in enumerate(pend):
                if (n + j) % 2 == 0:
                    w["len"] = 20
        steps.append({"op": "Scan", "pend": pend,
                      "o": {"rev": o["rev"], "all": o["all"], "keyonly": o["keyonly"], "iskey": o["iskey"],
                            "prefix": hexkey(o["prefix"]), "lo": hexkey(o["lo"]), "hi": hexkey(o["hi"]), "seek": hexkey(o["seek"])}})
    return {"id": sid, "cfg": cfg, "api": api, "vallen": 64 if cfg.get("vlog") else 20, "layout": layout, "steps": steps}


def project(ev):
    """Fields IterRefTrace.tla needs; keys as sequences over 0..2."""
    e = ev["e"]
    if e == "Maint":
        return {"e": "Maint", "ok": bool(ev.get("ok", True)) and not str(ev.get("res", "")).startswith("ERR")}
    if e in ("Open", "Close", "Panic"):
        return {"e": "Maint", "ok": False}
    if e == "W":
        return {"e": "W", "k": intkey(ev["k"]), "ver": ev["ver"], "kind": ev["kind"], "v": ev["v"]}
    if e == "Scan":
        o = ev["o"]
        return {"e": "Scan", "snap": ev["snap"],
                "pend": [{"k": intkey(w["k"]), "kind": w["kind"], "v": w["v"]} for w in ev["pend"]],
                "o": {"rev": o["rev"], "all": o["all"], "iskey": o["iskey"], "prefix": intkey(o["prefix"]),
                      "lo": intkey(o["lo"]), "hi": intkey(o["hi"]), "seek": intkey(o["seek"])},
                "res": [{"k": intkey(x["k"]), "ver": x["ver"], "v": x["v"], "pv": x["pv"]} for x in ev["res"]]}
    raise Undecided("unknown event %r" % e)


def run_driver(ctx, scheds):
    binp = ctx.build("iter")
    procs = []
    for part in chunks(scheds, ctx.workers):
        if not part:
            continue
        d = ctx.mkdtemp("drv")
        inp, outp = os.path.join(d, "in.ndjson"), os.path.join(d, "out.ndjson")
        with open(inp, "w") as fh:
            for s in part:
                fh.write(json.dumps(s) + "\n")
        p = subprocess.Popen([binp, "-in", inp, "-out", outp, "-dir", d], stdout=subprocess.PIPE, stderr=subprocess.STDOUT, text=True)
        procs.append((p, outp))
    traces = {}
    for p, outp in procs:
        try:
            out, _ = p.communicate(timeout=1800)
        except subprocess.TimeoutExpired:
            p.kill()
            raise Undecided("iter driver timed out")
        if p.returncode != 0:
            raise Undecided("iter driver failed (%d): %s" % (p.returncode, out[-3000:]))
        for line in open(outp):
            ev = json.loads(line)
            traces.setdefault(ev["s"], []).append(ev)
    return traces


# ------------------------------------------------------------------ known-finding witnesses
def kinds_of(events, upto):
    """dataset as recorded before line `upto`: {hexkey: [(ver, kind)]}"""
    d = {}
    for ev in events[:upto]:
        if ev["e"] == "W":
            d.setdefault(ev["k"], {})[ev["ver"]] = ev["kind"]
    return d


def prefix_related(keys):
    ks = sorted(set(k for k in keys if k))
    return any(a != b and b.startswith(a) for a in ks for b in ks)


def art_prefix_witness(sched, events, line):
    """Finding C06-art-prefix-order (root cause recorded as C07-art-prefix-order): ART memtable engine AND,
    over the stored keys plus the pending keys and the seek/bound probes, two user keys with one a strict
    byte-prefix of the other."""
    if sched["cfg"].get("mem") != "art":
        return False
    keys = [ev["k"] for ev in events[:line] if ev["e"] == "W"]
    ev = events[line]
    if ev["e"] == "Scan":
        keys += [w["k"] for w in ev["pend"]] + [ev["o"]["seek"], ev["o"]["lo"], ev["o"]["hi"]]
    return prefix_related(keys)


def classify(sched, events, line, explained_by_dev):
    """Witness classifiers of the recorded C06 findings (findings/known.d/iter.json). Returns a finding id or None."""
    if explained_by_dev:
        return "reverse-oldest-version"
    if art_prefix_witness(sched, events, line):
        return "art-prefix-order"
    return None


def nontrivial(ev, data):
    """A scan is non-trivial if an option restricts it or the snapshot has something to hide."""
    if ev["e"] != "Scan":
        return False
    o = ev["o"]
    restrict = o["rev"] or o["all"] or o["prefix"] or o["lo"] or o["hi"] or o["seek"] or ev["pend"]
    hidden = any(len(v) > 1 or any(k != "put" for k in v.values()) for v in data.values())
    return bool(restrict) and hidden


def run(ctx):
    quick = ctx.tier == "quick"
    # ---------------------------------------------------------------- M2: cases from TLC
    cases, g = gen_cases(ctx, "Gen_Iter.cfg", simulate="num=%d" % (40 if quick else 250), depth=20, seed=ctx.seed)
    ctx.log("IterGen -simulate: %d behaviours (%.0fs)" % (len(cases), g.wall))
    nrandom = len(cases)
    exh, nexh = [], 0
    if not quick:
        ecases, g2 = gen_cases(ctx, "Gen_Iter_all.cfg", timeout=1200)
        nexh = len(ecases)
        for c in group_by_dataset(ecases):
            exh += split_scans(c, 400)
        ctx.log("IterGen exhaustive: %d (dataset, options) cases in %d datasets, %d states (%.0fs)" % (nexh, len(group_by_dataset(ecases)), g2.distinct, g2.wall))
    scheds = []
    for i, c in enumerate(cases):
        if quick:   # every dataset under 3 layouts (always the three basic ones over the seeds) x both engines
            lays = ["mem", ("split", "multi")[(i + ctx.seed) % 2], ("compact", "compact+mem")[(i // 2 + ctx.seed) % 2]]
        else:
            lays = LAYOUTS
        for lay in lays:
            for e, engc in enumerate(ENGINES):
                cfg = dict(engc)
                if (i + e + ctx.seed) % 4 == 0:
                    cfg.update(VLOG)
                scheds.append(to_schedule(c, lay, cfg, len(scheds)))
    for i, c in enumerate(exh):
        for lay, engc in (("mem", ENGINES[i % 2]), ("split", ENGINES[(i + 1) % 2]), ("compact", ENGINES[i % 2])):
            scheds.append(to_schedule(c, lay, dict(engc), len(scheds)))
    nreplay = 0
    for rp in json.load(open(os.path.join(VERIF, "findings", "iter_replays.json"))):
        for engc in ENGINES:
            if rp.get("engines") and engc["mem"] not in rp["engines"]:
                continue
            for lay in rp.get("layouts", ["mem", "split", "compact"]):
                cfg = dict(engc)
                if rp.get("vlog"):
                    cfg.update(VLOG)
                s = to_schedule(rp["case"], lay, cfg, len(scheds)); s["replay"] = rp["id"]
                scheds.append(s); nreplay += 1
    ctx.log("M2: %d schedules incl. %d recorded replays (%d scans)" % (len(scheds), nreplay, sum(1 for s in scheds for st in s["steps"] if st["op"] == "Scan")))
    traces = run_driver(ctx, scheds)
    ctx.log("driver done")
    order = sorted(traces)
    if len(order) != len(scheds):
        raise Undecided("driver produced %d traces for %d schedules" % (len(order), len(scheds)))
    tl = [[project(e) for e in traces[s]] for s in order]
    # ---------------------------------------------------------------- M3
    rejected = []
    parts = chunks(list(range(len(tl))), max(1, min(ctx.workers, 8)))
    import concurrent.futures as cf
    with cf.ThreadPoolExecutor(max_workers=len(parts)) as ex:
        futs = [(part, ex.submit(ctx.validate_traces, "IterRefTrace", "IterRefTrace.cfg", [tl[i] for i in part], "Txn", 1500)) for part in parts if part]
        for part, f in futs:
            for (ti, line, pev, want) in f.result():
                rejected.append((part[ti], line, pev, want))
    nscans = sum(1 for t in tl for e in t if e["e"] == "Scan")
    ctx.log("M3: %d traces / %d scans validated, %d mismatching replies" % (len(tl), nscans, len(rejected)))
    known = {f["id"]: f for f in ctx.load_known()}
    # Second pass, only to CLASSIFY: traces with a rejected reverse scan are re-validated under the
    # as-is configuration (recorded deviation RevOldest); lines that are accepted there are explained by it.
    dev_explained = set()
    cand = sorted({ti for (ti, line, pev, want) in rejected if pev["e"] == "Scan" and pev["o"]["rev"] and not pev["o"]["all"]})
    if cand and "C06-reverse-oldest-version" in known:
        still = set()
        for (j, line, pev, want) in ctx.validate_traces("IterRefTrace", "IterRefTrace_asis.cfg", [tl[i] for i in cand], family="Txn", timeout=1500):
            still.add((cand[j], line))
        for (ti, line, pev, want) in rejected:
            if ti in cand and (ti, line) not in still:
                dev_explained.add((ti, line))
    classes, reported = {}, set()
    for (ti, line, pev, want) in rejected:
        sid = order[ti]
        cls = classify(scheds[sid], traces[sid], line, (ti, line) in dev_explained)
        fid = "C06-%s" % cls if cls else None
        if fid and fid in known:
            if fid not in classes:
                ctx.known_finding("%s: %s (e.g. schedule %d line %d)" % (fid, known[fid]["what"], sid, line))
            classes[fid] = classes.get(fid, 0) + 1
        elif sid not in reported:
            reported.add(sid)
            rp = ctx.save_replay("violation-%d.json" % sid, {"schedule": scheds[sid], "rejected_line": line, "event": traces[sid][line],
                                                             "expected": want, "trace": traces[sid][:line + 1]})
            ctx.violation(rp, "scan contradicts IterRef!Scan: layout=%s cfg=%s o=%s pend=%s got=%s expected %s" % (
                scheds[sid]["layout"], json.dumps(scheds[sid]["cfg"]), json.dumps(traces[sid][line].get("o")), json.dumps(traces[sid][line].get("pend")),
                json.dumps([(x["k"], x["ver"], x["v"]) for x in traces[sid][line].get("res", [])]), (want or "")[:600]))
    # ------------------------------------------------------- binding self-test
    ctl = None
    for t in tl:
        idx = [i for i, e in enumerate(t) if e["e"] == "Scan" and len(e["res"]) >= 2]
        if idx:
            ctl = json.loads(json.dumps(t))
            ctl[idx[-1]]["res"] = ctl[idx[-1]]["res"][1:]     # drop the first yielded key
            ctl2 = json.loads(json.dumps(t))
            ctl2[idx[-1]]["res"][0]["pv"] = "zz-corrupted"       # value no longer equals the point read
            break
    if ctl is None:
        raise Undecided("no scan yielded two items: the driver is not exercising the iterators")
    if not ctx.validate_traces("IterRefTrace", "IterRefTrace.cfg", [ctl], family="Txn") or \
       not ctx.validate_traces("IterRefTrace", "IterRefTrace.cfg", [ctl2], family="Txn"):
        raise Undecided("negative control accepted: the trace specification does not bind scan results")
    # -------------------------------------------------------------- evidence
    distinct, apis, optuse = set(), {}, {}
    for sid in order:
        evs = traces[sid]
        for n, e in enumerate(evs):
            if e["e"] != "Scan":
                continue
            apis[e["api"]] = apis.get(e["api"], 0) + 1
            for k in ("rev", "all", "keyonly", "iskey", "prefix", "lo", "hi", "seek"):
                if e["o"][k]:
                    optuse[k] = optuse.get(k, 0) + 1
            if e["pend"]:
                optuse["pending"] = optuse.get("pending", 0) + 1
            data = kinds_of(evs, n)
            if nontrivial(e, data):
                distinct.add(json.dumps([sorted((k, sorted(v.items())) for k, v in data.items()), e["o"], [(w["k"], w["kind"]) for w in e["pend"]],
                                         scheds[sid]["layout"], scheds[sid]["cfg"]], sort_keys=True))
    sample = next((s for s in order if any(e["e"] == "Scan" and e["res"] for e in traces[s])), order[0])
    ctx.evidence("exploration", {
        "evaluations": nscans, "distinct_nontrivial": len(distinct),
        "rule": "cases = (dataset, option vector, bounds, prefix, seek target, pending writes) enumerated by TLC from IterGen.tla "
                "(-simulate; thorough adds the exhaustive small universe), each placed under several layouts x both memtable engines; "
                "an evaluation is one recorded scan validated by TLC against IterRef!Scan; non-trivial = some option restricts the scan "
                "AND the snapshot holds a key with >= 2 versions or a delete/expiry; distinct by (dataset, options, pending, layout, engine cfg)",
        "samples": [{"schedule": scheds[sample], "events": tl[order.index(sample)][:8]}],
        "traces_validated_against_impl": len(tl), "tlc_behaviours_random": nrandom, "tlc_cases_exhaustive": nexh,
        "exhaustive": False, "scans_by_api": apis, "option_usage": optuse, "mismatching_replies": len(rejected),
        "known_finding_hits": classes, "negative_control": "rejected as required (dropped item; corrupted point read)",
        "checker_cmd": "tlc -simulate -config Gen_Iter.cfg IterGen.tla ; tlc -config IterRefTrace.cfg IterRefTrace.tla",
    }, assumptions=[
        "keys over the bytes {00, 61, ff} up to length 3; at most 4 commits of at most 2 writes per dataset",
        "expiry uses absolute timestamps in 2001 / 2100, wall-clock never decides",
        "DB iterators are judged on plain-API default-CF datasets only; multi-version datasets through the Txn iterators",
        "the order of versions inside one key (all-versions) and the version reported for a pending write are not bound",
        "background compaction paused; layouts are produced by forced flushes/compactions through the engine's own planner",
    ])


if __name__ == "__main__":
    main(run, "Txn")
