#!/usr/bin/env python3
"""Topology family: C38 (configuration validation accepts exactly the well-formed topologies).
See DESIGN.md section 5 (C38) and docs/design.d/topology.md.

TLC is enumerator and oracle: spec/Topology/Topology.tla defines `Valid(f)` (the property's rule
list) and writes one (topology, expected) pair per topology of a bounded domain (EVERY topology of
the domain, see the MC_Topology_*.cfg files). harness/cmd/topology renders each topology as a
configuration file and calls the real config.File.Validate. Verdict: accepted iff Valid.
"""
import json, os, sys, re
sys.path.insert(0, os.path.join(os.path.dirname(os.path.abspath(__file__)), "..", "lib"))
from vlib import *

QUICK = ["MC_Topology_1r", "MC_Topology_2r", "MC_Topology_2r2p"]
THOROUGH = QUICK + ["MC_Topology_1r_T13", "MC_Topology_2r_T3", "MC_Topology_2r2p_big"]


def enumerate_cases(ctx, cfg):
    """TLC evaluates Valid on every topology of the cfg's domain; returns the ndjson path and count."""
    out = os.path.join(ctx.scratch, cfg + ".cases.ndjson")
    r = ctx.tlc_or_undecided("MC_Topology", cfg + ".cfg", workers=1, env={"OUT": out}, timeout=900, heap="6g")
    m = re.search(r'<<"TOPOLOGIES", (\d+)>>', r.out)
    if not r.ok or not m or not os.path.exists(out):
        raise Undecided("TLC did not enumerate %s:\n%s" % (cfg, r.out[-2000:]))
    return out, int(m.group(1)), r.wall


def nontrivial(t):
    """rules interact: at least one store, one region and one peer are present"""
    return bool(t["stores"]) and any(r["peers"] for r in t["regions"])


def mismatch(case, reply):
    """the oracle: the real Validate accepts iff Topology.tla's Valid holds"""
    return bool(reply["accepted"]) != bool(case["valid"])


def run(ctx):
    quick = ctx.tier == "quick"
    binp = ctx.build("topology")
    total = nontriv = mism = 0
    per_cfg, samples, by_defects = {}, [], {}
    accepted_n = rejected_n = 0
    control_done = False
    reported = set()
    for cfg in (QUICK if quick else THOROUGH):
        cases_p, card, wall = enumerate_cases(ctx, cfg)
        d = ctx.mkdtemp("topo")
        rep_p = os.path.join(d, "replies.ndjson")
        ctx.run([binp, "-in", cases_p, "-out", rep_p, "-dir", d], timeout=900)
        n = 0
        ctl_at = 1 + ctx.rng.randrange(card)
        cases_seen = set()
        with open(cases_p) as cf, open(rep_p) as rf:
            for cl, rl in zip(cf, rf):
                # hot loop (10^5..10^6 lines): both files are machine-written with a fixed field order, so the
                # verdict fields are read textually; the full JSON is parsed only for samples and mismatches
                if not rl.startswith('{"accepted":'):
                    raise Undecided("unexpected driver reply: " + rl[:200])
                accepted = rl.startswith('{"accepted":true')
                vi = cl.rfind('"valid":')
                if vi < 0:
                    raise Undecided("unexpected case line: " + cl[:200])
                valid = cl.startswith("true", vi + 8)
                n += 1
                cases_seen.add(hash(cl))   # the line is a function of the topology
                if '"stores":[]' not in cl and '"peers":[{' in cl:
                    nontriv += 1
                dk = cl[cl.rfind('"defects":') + 10:].strip().rstrip("}")
                by_defects[dk] = by_defects.get(dk, 0) + 1
                if accepted:
                    accepted_n += 1
                else:
                    rejected_n += 1
                interesting = n == ctl_at or accepted != valid or ctx.rng.random() < 2.0 / card
                if not interesting:
                    continue
                c, rep = json.loads(cl), json.loads(rl)
                if rep["i"] != n - 1 or rep["accepted"] != accepted or c["valid"] != valid:
                    raise Undecided("reply/case parse disagreement at case %d of %s" % (n - 1, cfg))
                t = c["t"]
                dk = "+".join(sorted(c["defects"])) or "none"
                if len(samples) < 8:
                    samples.append({"cfg": cfg, "topology": t, "valid": c["valid"], "defects": c["defects"],
                                    "accepted": rep["accepted"], "error": rep.get("err", "")})
                # negative control: a corrupted (flipped) reply must be judged differently by the comparison used below
                if n == ctl_at:
                    flipped = dict(rep, accepted=not rep["accepted"])
                    if mismatch(c, flipped) == mismatch(c, rep):
                        raise Undecided("negative control: flipped reply not distinguished")
                    control_done = True
                if mismatch(c, rep):
                    mism += 1
                    # one VIOLATION per (expected verdict, defect set, error text class): the replay holds the topology
                    cls = (c["valid"], dk, re.sub(r"\d+", "N", rep.get("err", "")))
                    if cls not in reported and len(reported) < 20:
                        reported.add(cls)
                        rp = ctx.save_replay("violation-%d.json" % len(reported),
                                             {"cfg": cfg, "case": n - 1, "topology": t, "expected_valid": c["valid"], "defects": c["defects"],
                                              "accepted": rep["accepted"], "error": rep.get("err", "")})
                        if c["valid"]:
                            ctx.violation(rp, "Validate rejects a topology without any listed defect: %s (error: %s)" % (json.dumps(t), rep.get("err")))
                        else:
                            ctx.violation(rp, "Validate accepts a topology with defect(s) %s: %s" % (dk, json.dumps(t)))
        if n != card:
            raise Undecided("%s: TLC reports %d topologies, %d cases executed" % (cfg, card, n))
        if len(cases_seen) != card:
            raise Undecided("%s: enumeration produced duplicates (%d distinct of %d)" % (cfg, len(cases_seen), card))
        per_cfg[cfg] = {"topologies": card, "tlc_wall_s": round(wall, 1)}
        total += n
        ctx.log("%s: %d topologies enumerated by TLC and validated by the real code, %d mismatches so far" % (cfg, n, mism))
        os.unlink(cases_p)
    if accepted_n == 0 or rejected_n == 0:
        raise Undecided("driver accepted %d / rejected %d: it is not exercising Validate" % (accepted_n, rejected_n))
    if not control_done:
        raise Undecided("negative control did not run")
    if not samples:
        raise Undecided("no samples drawn")
    ctx.evidence("exploration", {
        "evaluations": total, "distinct_nontrivial": nontriv, "exhaustive": True,
        "rule": "every topology of the bounded domains in spec/Topology/MC_Topology_*.cfg (stores: sequences of <=2 ids over {0,1,2}; "
                "regions: <=1 or <=2 with id in {0,1}, leader in {0,1,3}, <=2 peers with store/peer ids over {0,1,3}; host and docker "
                "work-dir templates over segment sequences), each distinct (checked); expected verdict = Topology.tla Valid(f) evaluated by TLC; "
                "non-trivial = has at least one store and a region with a peer",
        "samples": samples, "per_cfg": per_cfg, "by_defect_set": by_defects,
        "accepted_by_code": accepted_n, "rejected_by_code": rejected_n, "mismatches": mism,
        "negative_control": "flipped reply distinguished",
        "checker_cmd": "OUT=cases.ndjson tlc -config MC_Topology_1r.cfg MC_Topology.tla ; harness/cmd/topology",
    }, assumptions=[
        "a zero leader_store_id means 'no leader hint' and an empty template means 'not configured' (neither is one of the listed defects)",
        "fields the property does not mention (addresses, key ranges, epochs, PD endpoints) are set to well-formed values",
        "exhaustive only over the bounded id domains of the cfg files",
    ])


if __name__ == "__main__":
    main(run, "Topology")
