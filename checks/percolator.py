#!/usr/bin/env python3
"""Percolator family: C17 (reads see the newest committed value / are blocked by locks, get = scan),
C18 (a transaction's outcome is unique, final, conflict-free), C19 (lock lifetime, TTL rule,
min-commit-ts).  See DESIGN.md section 5 and docs/design.d/percolator.md.

M1  TLC exhaustively checks spec/Percolator/Percolator.tla (lock / write / default columns per key,
    one action per request of percolator/txn.go + reader.go + raftstore/kv/apply.go) for 2 keys and
    3 transactions under every request order (duplicates and late arrivals included): every reply is
    judged by the property layer PercolatorProp.tla, and reads/scans/lock probes must equal what the
    ghost status map dictates in every reachable state.
M2  TLC -simulate produces request histories of that spec (several transaction tables and request
    mixes); rotation / flush / compaction / reopen steps are interleaved; harness/cmd/percolator runs
    them through raftstore/kv.Apply on a real DB and probes locks, GETs and SCANs after every step.
M3  TLC validates the recorded events against spec/Percolator/PercolatorPropTrace.tla.
"""
import json, os, sys, re, subprocess, threading, random
from concurrent.futures import ThreadPoolExecutor
sys.path.insert(0, os.path.join(os.path.dirname(os.path.abspath(__file__)), "..", "lib"))
from vlib import *

CFGS = [
    {"mem": "skiplist"}, {"mem": "art"},
    {"mem": "skiplist", "vlog": True, "buckets": 1, "vlogsize": 4096, "vallen": 200},
    {"mem": "art", "vlog": True, "buckets": 3, "vlogsize": 1 << 20, "vallen": 64},
]

# transaction tables / request mixes used for behaviour generation (names defined in Percolator.tla)
TABLES = [
    {"start": "StartA", "commit": "CommitB", "kinds": "KindsB", "minc": "MinCB", "keys": "KeysA", "checks": "ChecksT"},
    {"start": "StartA", "commit": "CommitA", "kinds": "KindsB", "minc": "MinCA", "keys": "KeysA", "checks": "ChecksQ"},   # disjoint: put, then lock-only, then delete all commit
    {"start": "StartA", "commit": "CommitB", "kinds": "KindsA", "minc": "MinCA", "keys": "KeysB", "checks": "ChecksT"},
    # start order differs from commit order: [5,30] [10,40] [20,25]; and far off the 10/20/30 grid: [7,2000] [100,1500] [1000,1200]
    {"start": "StartB", "commit": "CommitC", "kinds": "KindsA", "minc": "MinCA", "keys": "KeysA", "checks": "ChecksT"},
    {"start": "StartC", "commit": "CommitD", "kinds": "KindsC", "minc": "MinCB", "keys": "KeysA", "checks": "ChecksT"},
]
OVERLAPPING = [0, 2, 3, 4]      # tables whose transactions have overlapping [start, commit] intervals
GENMODES = ["contend", "late", "mixed", "effective", "any"]
ALLOPS = ["Prewrite", "Commit", "Rollback", "ResolveRollback", "ResolveCommit", "Check", "CheckRollbackIfNotExist"]
MIXES = [
    ALLOPS,
    ["Prewrite", "Commit", "ResolveCommit", "Check"],                        # no aborts: commit orders, conflicts, pushes
    ["Prewrite", "Commit", "Rollback", "Check"],                             # plain client traffic
    ["Prewrite", "Commit", "ResolveRollback", "ResolveCommit", "Check", "CheckRollbackIfNotExist"],   # resolver traffic
]
DEVIATIONS = ["ReadStopsAtRollbackOrLockRecord", "CommitAcceptsRollbackRecord", "RollbackRemovesForeignLock",
              "ScanSkipsKeysWithoutWriteRecords", "RePrewriteRewritesLock"]

MAINT = [
    [{"op": "Rotate"}], [{"op": "Rotate"}, {"op": "Flush"}], [{"op": "Flush"}],
    [{"op": "Compact", "ckind": "l0", "base": 1}], [{"op": "Compact", "ckind": "ingest-keep", "level": 1}],
    [{"op": "Compact", "ckind": "ingest-drain", "level": 1}], [{"op": "Compact", "ckind": "regular", "level": 1}],
    [{"op": "Reopen"}], [{"op": "Rotate"}, {"op": "Rotate"}],
]

KEEP = {
    "Prewrite": ["start", "k", "kind", "v", "ttl", "minc", "r", "lts"], "Commit": ["start", "commit", "k", "r", "lts"],
    "Rollback": ["start", "k", "r", "lts"], "Resolve": ["start", "commit", "k", "r", "lts", "n"],
    "Check": ["start", "k", "cur", "caller", "rbne", "r", "lts", "act", "cv"], "Get": ["k", "ts", "r", "v", "lts"],
    "Scan": ["ts", "from", "incl", "limit", "kvs", "r", "lk", "lts"], "Lock": ["k", "ts", "mc"],
}


def project(ev):
    """Only the property-level projection goes to the trace specification."""
    e = ev["e"]
    if e == "Maint":
        return {"e": "Maint", "ok": bool(ev.get("ok", True)) and not str(ev.get("res", "")).startswith("ERR")}
    if e in KEEP:
        out = {"e": e}
        out.update({k: ev[k] for k in KEEP[e]})
        return out
    return {"e": e}     # ApplyError / Open / Close failures: no action of the trace spec explains them


def write_cfg(ctx, name, table, ops, maxhist, genmode):
    src = open(os.path.join(ctx._specdir(), "Gen_Percolator.cfg")).read()
    src = re.sub(r"StartTs <- \w+", "StartTs <- " + table["start"], src)
    src = re.sub(r"CommitTs <- \w+", "CommitTs <- " + table["commit"], src)
    src = re.sub(r"KindOf <- \w+", "KindOf <- " + table["kinds"], src)
    src = re.sub(r"MinCOf <- \w+", "MinCOf <- " + table["minc"], src)
    src = re.sub(r"TxnKeys <- \w+", "TxnKeys <- " + table["keys"], src)
    src = re.sub(r"CheckArgs <- \w+", "CheckArgs <- " + table["checks"], src)
    src = re.sub(r"Ops <- AllOps", "Ops = {%s}" % ", ".join('"%s"' % o for o in ops), src)
    src = re.sub(r"MaxHist = \d+", "MaxHist = %d" % maxhist, src)
    src = re.sub(r'GenMode = "\w+"', 'GenMode = "%s"' % genmode, src)
    open(os.path.join(ctx._specdir(), name), "w").write(src)


def gen_schedules(ctx, cfg, num, depth, seed):
    r = ctx.tlc_or_undecided("Percolator", cfg, workers=1, simulate="num=%d" % num, depth=depth + 1, seed=seed, timeout=600)
    seen = set()
    for m in re.finditer(r'<<"SCHED", "(.*)">>', r.out):
        seen.add(m.group(1).encode().decode("unicode_escape"))
    if not seen:
        raise Undecided("behaviour generation produced nothing (%s):\n%s" % (cfg, r.out[-2000:]))
    # TLC evaluates the invariant on every candidate successor of a walk, so the output holds each walk's
    # path plus one-request deviations from it, at every length.  Keep maximal histories (a prefix of another
    # one adds nothing), at most two per parent (= history minus its last request), longest first, 2*num per job.
    strs = sorted(seen)
    maximal = [json.loads(s) for s in strs if not any(t.startswith(s[:-1] + ",") for t in strs)]
    rng = random.Random(seed)
    rng.shuffle(maximal)
    maximal.sort(key=len, reverse=True)
    out, per_parent = [], {}
    for h in maximal:
        parent = json.dumps(h[:-1])
        if per_parent.get(parent, 0) < 2 and len(out) < 2 * num:
            per_parent[parent] = per_parent.get(parent, 0) + 1
            out.append(h)
    return out


def readts_of(ops):
    """Probe timestamps: exactly the start and commit timestamps of the history (the boundary cases of
    'at or below') and one beyond all of them."""
    ts = set()
    for o in ops:
        for f in ("start", "commit"):
            if o.get(f):
                ts.add(o[f])
    ts = sorted(ts)
    while len(ts) > 6:
        del ts[1]
    return ts + [max(ts + [45]) + 5]


def interleave(rng, ops, mode):
    """Place maintenance steps between requests. mode 0: none; 1: rotate+flush after every request;
    2: a random step with probability 0.3 after each request; 3: the recorded-finding shape (flush
    after every request, then move L0 into the ingest buffer and merge it); 4: rotation after every request with
    flushes held back, so that consecutive changes of a column entry sit in two or three sealed, unflushed memtables."""
    if mode == 0:
        return list(ops)
    out = []
    if mode == 4:       # rotate after every request, flush only to keep at most three sealed memtables waiting
        pending = 0
        for o in ops:
            out += [o, {"op": "Rotate"}]
            pending += 1
            if pending >= 3:
                out.append({"op": "Flush"})
                pending -= 1
        return out
    for o in ops:
        out.append(o)
        if mode in (1, 3):
            out += [{"op": "Rotate"}, {"op": "Flush"}]
        elif rng.random() < 0.3:
            out += [dict(x) for x in rng.choice(MAINT)]
    if mode == 3:
        out += [{"op": "Compact", "ckind": "l0", "base": 1}, {"op": "Compact", "ckind": "ingest-keep", "level": 1}]
    return out


def build_quietly(ctx):
    try:
        ctx.build("percolator")
    except Undecided:
        pass                        # reported by run_driver, which builds again


def close_commits(h):
    """The client's next step: a commit for every (transaction, key) the history prewrote, whatever the replies were."""
    seen, tail = set(), []
    for o in h:
        if o["op"] == "Prewrite" and (o["start"], o["k"]) not in seen and o.get("cts"):
            seen.add((o["start"], o["k"]))
            tail.append({"op": "Commit", "start": o["start"], "commit": o["cts"], "k": o["k"]})
    return list(h) + tail


def inject_retries(h):
    """A client retries its prewrite with a longer TTL right after a status check with a caller timestamp touched the key."""
    out, last = [], {}
    for o in h:
        out.append(o)
        if o["op"] == "Prewrite":
            last[(o["start"], o["k"])] = o
        elif o["op"] == "Check" and o.get("caller") and (o["start"], o["k"]) in last:
            r = dict(last[(o["start"], o["k"])])
            r["ttl"] = r.get("ttl", 0) + 9
            out.append(r)
    return out


def run_driver(ctx, scheds):
    binp = ctx.build("percolator")
    procs = []
    for part in chunks(scheds, ctx.workers):
        if not part:
            continue
        d = ctx.mkdtemp("drv")
        inp, outp = os.path.join(d, "in.ndjson"), os.path.join(d, "out.ndjson")
        with open(inp, "w") as fh:
            for s in part:
                fh.write(json.dumps(s) + "\n")
        p = subprocess.Popen([binp, "-in", inp, "-out", outp, "-dir", d], stdout=subprocess.PIPE, stderr=subprocess.STDOUT, text=True)
        procs.append((p, outp))
    traces = {}
    for p, outp in procs:
        try:
            out, _ = p.communicate(timeout=1800)
        except subprocess.TimeoutExpired:
            p.kill()
            raise Undecided("percolator driver timed out")
        if p.returncode != 0:
            raise Undecided("percolator driver failed (%d): %s" % (p.returncode, out[-3000:]))
        for line in open(outp):
            ev = json.loads(line)
            traces.setdefault(ev["s"], []).append(ev)
    return traces


def validate_parallel(ctx, tl):
    """validate_traces over ctx.workers chunks in parallel; trace indices are global."""
    n = max(1, min(ctx.workers, len(tl), sum(len(t) for t in tl) // 6000))     # a JVM start costs as much as ~6000 events
    size = (len(tl) + n - 1) // n
    parts = [(i, tl[i:i + size]) for i in range(0, len(tl), size)]
    def one(p):
        for attempt in (1, 2):
            try:
                return [(p[0] + ti, ln, ev, want) for (ti, ln, ev, want) in
                        ctx.validate_traces("PercolatorPropTrace", "PercolatorPropTrace.cfg", p[1], timeout=1500)]
            except Undecided as e:      # a JVM killed from outside (shared box) leaves no TRACE_HW line: try once more
                if attempt == 2 or "no TRACE_HW" not in str(e) or "Error" in str(e):
                    raise
                ctx.notes.append("one trace-validation run died without output and was repeated")
    with ThreadPoolExecutor(max_workers=n) as ex:
        res = list(ex.map(one, parts))
    return [r for part in res for r in part]


def relevant(pid, pev, want):
    """Does this rejected reply contradict a clause of property pid?"""
    if want is None or pev["e"] == "Maint":
        return True                 # unexplained event (request failed outright) / failed maintenance step
    if pid == "C17":
        return pev["e"] in ("Get", "Scan")
    if pid == "C18":            # outcomes are observed through replies and through subsequent reads
        return "C18:" in want or pev["e"] in ("Get", "Scan")
    return pev["e"] == "Lock" or "C19:" in want


def tie_in(srcs):
    seen = {}
    for s in srcs or []:
        if s["kind"] == "ingest":
            key = (s["level"], s["ver"])
            seen[key] = seen.get(key, 0) + 1
    return any(n > 1 for n in seen.values())


def inversion_in(srcs):
    srcs = srcs or []
    for i in range(len(srcs)):
        for j in range(i + 1, len(srcs)):
            if (srcs[i]["kind"], srcs[i]["id"]) != (srcs[j]["kind"], srcs[j]["id"]) and srcs[i]["ver"] < srcs[j]["ver"]:
                return True
    return False


def classify(events, line):
    """Witnesses of recorded storage-level findings (root causes C01-ingest-tie / C02-version-inversion of the
    Engine family): at or before the failing line a column entry of the key concerned was held under one
    version by two tables of one ingest buffer, or by a newer source under a lower version than an older one."""
    ev = events[line]
    k = ev.get("k") if ev["e"] != "Scan" else None
    for e in events[:line + 1]:
        if k is not None and e.get("k") != k:
            continue
        if tie_in(e.get("lsrc")) or tie_in(e.get("src")):
            return "ingest-tie"
    for e in events[:line + 1]:
        if k is not None and e.get("k") != k:
            continue
        if inversion_in(e.get("src")):
            return "version-inversion"
    return None


def m1(ctx, quick, box):
    try:
        runs = []
        cfgs = ["MC_Percolator.cfg"] if quick else ["MC_Percolator.cfg", "MC_Percolator_disjoint.cfg", "MC_Percolator_nested.cfg", "MC_Percolator_full.cfg"]
        for c in cfgs:
            r = ctx.tlc_or_undecided("Percolator", c, timeout=1500, coverage=(not quick and c == "MC_Percolator.cfg"))
            if r.violated:
                raise Undecided("M1: Percolator.tla violates %s under %s: the specification (design layer) needs attention\n%s"
                                % (r.violated, c, r.out[-2500:]))
            ctx.log("M1 %s: %d generated, %d distinct, depth %d (%.0fs)" % (c, r.generated, r.distinct, r.depth, r.wall))
            runs.append((c, r))
        box["runs"] = runs
    except Exception as e:          # re-raised in the main thread
        box["err"] = e


def asis_counterexamples(ctx):
    """Thorough tier: every recorded deviation, switched on alone, must make TLC find a counterexample
    (the invariants are not vacuous); the counterexample histories join the schedule set."""
    def one(dev):
        r = ctx.tlc("Percolator", "Asis_%s.cfg" % dev, workers=1, timeout=600)
        m = re.search(r'<<"CEX", "(.*)">>', r.out)
        if r.violated is None or not m:
            raise Undecided("deviation %s no longer yields a counterexample: Percolator.tla lost sensitivity\n%s" % (dev, r.out[-1500:]))
        return dev, json.loads(m.group(1).encode().decode("unicode_escape"))
    with ThreadPoolExecutor(max_workers=min(len(DEVIATIONS), ctx.workers)) as ex:
        return list(ex.map(one, DEVIATIONS))


def run(ctx):
    pid, quick = ctx.pid, ctx.tier == "quick"
    orig_tlc = ctx.tlc
    ctx.tlc = lambda module, cfg, **kw: orig_tlc(module, cfg, **dict({"heap": "3g"}, **kw))   # many JVMs run side by side
    # ---------------------------------------------------------------- M1 (runs while M2 is prepared and driven)
    box = {}
    th = threading.Thread(target=m1, args=(ctx, quick, box))
    ctx._specdir()                  # create the scratch copy before threads use it
    th.start()
    bt = threading.Thread(target=build_quietly, args=(ctx,))   # compile while TLC generates
    bt.start()
    try:
        # ------------------------------------------------------------ M2
        jobs = []
        num = 8
        if quick:       # every generation mode is present in every run; table and mix rotate with the seed
            combos = []
            for n, gm in enumerate(["contend", "contend", "late", "late", "mixed", "mixed", "effective", "any"]):
                ti = OVERLAPPING[(ctx.seed + n) % len(OVERLAPPING)] if gm == "contend" else (ctx.seed + n) % len(TABLES)
                combos.append((ti, (ctx.seed + 2 * n) % len(MIXES), gm))
        else:           # a seed-dependent third of the (table, mix, mode) grid
            grid = [(ti, mi, gm) for ti in range(len(TABLES)) for mi in range(len(MIXES)) for gm in GENMODES]
            combos = [c for gi, c in enumerate(grid) if (gi + ctx.seed) % 3 == 0]
        for gi, (ti, mi, gm) in enumerate(combos):
            for depth in ((10,) if quick else (8, 14)):
                name = "Gen_%d_%d_%d_%s_%d.cfg" % (gi, ti, mi, gm, depth)
                write_cfg(ctx, name, TABLES[ti], MIXES[mi], depth, gm)
                jobs.append((name, num, depth, ctx.seed * 10007 + gi * 101 + depth, gm))
        with ThreadPoolExecutor(max_workers=ctx.workers) as ex:
            hists = [(j[4], h) for j, part in zip(jobs, ex.map(lambda j: gen_schedules(ctx, *j[:4]), jobs)) for h in part]
        ctx.rng.shuffle(hists)
        hists = hists[:75 if quick else 400]
        cex = [] if quick else asis_counterexamples(ctx)
        scheds, origin = [], {}

        def add(ops, cfg, mode, tag):
            s = {"id": len(scheds), "cfg": cfg, "nkeys": 2, "readts": readts_of(ops), "probe": True, "ops": interleave(ctx.rng, ops, mode)}
            origin[s["id"]] = tag
            scheds.append(s)
        for i, (gm, h) in enumerate(hists):
            # request-level variations of the TLC behaviour (still behaviours of Percolator.tla, which accepts any
            # request in any state): closing commits for every prewritten key, retried prewrites after status checks
            tag = "tlc-simulate:" + gm
            if gm == "contend" or i % 3 == 0:
                h, tag = close_commits(h), tag + "+commits"
            if i % 2 == 1:
                h, tag = inject_retries(h), tag + "+retries"
            # C17/C19 quantify over flush/compaction placement: most behaviours get maintenance steps
            # (a rotation+flush costs ~0.3 s of engine time, so the dense modes go to the short histories)
            if quick:
                modes = [(0, 2, 2, 1, 2, 0, 4, 3)[(i + ctx.seed) % 8]]
                if len(h) > 8 and modes[0] in (1, 3):
                    modes = [2]
            else:
                modes = [0, 2] + ([(1, 3, 4)[i % 3]] if len(h) <= 10 else [(2, 4)[i % 2]])
            for j, mode in enumerate(modes):
                add(h, CFGS[(i + j + ctx.seed) % len(CFGS)], mode, tag)
        # recorded findings and repaired defects stay in the schedule set
        extra = json.load(open(os.path.join(VERIF, "findings", "percolator_replays.json")))
        for rp in extra:
            for c, mode in ((CFGS[0], 0), (CFGS[1], 1)):
                add(rp["ops"], c, mode, "replay:" + rp["id"])
        for dev, h in cex:
            for mode in (0, 1):
                add(h, CFGS[0], mode, "tlc-counterexample:" + dev)
        ctx.log("M2: %d TLC behaviours (%d generation runs) -> %d schedules (%d recorded replays, %d model counterexamples)"
                % (len(hists), len(jobs), len(scheds), len(extra) * 2, len(cex) * 2))
        bt.join()
        traces = run_driver(ctx, scheds)
        order = sorted(traces)
        if len(order) != len(scheds):
            raise Undecided("driver produced %d traces for %d schedules" % (len(order), len(scheds)))
        tl = [[project(e) for e in traces[s]] for s in order]
        nevents = sum(len(t) for t in tl)
        ctx.log("driver: %d traces, %d events" % (len(tl), nevents))
        # ------------------------------------------------------------ M3 (the last trace is the negative control)
        ctl = negative_control(pid, tl)
        if ctl is None:
            raise Undecided("no trace suitable for the negative control: the driver is not exercising the protocol")
        rejected = validate_parallel(ctx, tl + [ctl])
        if not any(ti == len(tl) and relevant(pid, pev, want) for (ti, _, pev, want) in rejected):
            raise Undecided("negative control accepted: the trace specification does not bind %s replies" % pid)
        rejected = [r for r in rejected if r[0] < len(tl)]
    finally:
        th.join()
    if "err" in box:
        raise box["err"]
    m1runs = box["runs"]
    known = {f["id"]: f for f in ctx.load_known()}
    classes, reported, first = {}, set(), {}
    for (ti, line, pev, want) in sorted(rejected, key=lambda r: (r[0], r[1])):
        if relevant(pid, pev, want) and ti not in first:
            first[ti] = (line, pev, want)       # later rejections of the same trace may be consequences of this one
    for ti, (line, pev, want) in sorted(first.items()):
        sid = order[ti]
        cls = classify(traces[sid], line)
        fid = "%s-%s" % (pid, cls) if cls else None
        if fid and fid in known:
            if fid not in classes:
                ctx.known_finding("%s: %s (e.g. schedule %d [%s] line %d: %s)" % (fid, known[fid]["what"], sid, origin[sid], line, json.dumps(pev)))
            classes[fid] = classes.get(fid, 0) + 1
        elif sid not in reported:
            reported.add(sid)
            rp = ctx.save_replay("violation-%d.json" % sid, {"schedule": scheds[sid], "origin": origin[sid], "rejected_line": line,
                                                             "event": traces[sid][line], "expected": want, "trace": traces[sid][:line + 1]})
            ctx.violation(rp, "[%s] reply contradicts the property layer: %s expected %s" % (origin[sid], json.dumps(pev), want))
    ctx.log("M3: %d traces / %d events validated, %d replies rejected in %d traces (%d relevant to %s)"
            % (len(tl), nevents, len(rejected), len({r[0] for r in rejected}), len(first), pid))
    # -------------------------------------------------------------- evidence
    def nontrivial(evs):
        if pid == "C17":    # a read returns a value although a newer rolled-back / lock-only / deleted / locked txn touched the key
            touched = set()
            for e in evs:
                if e["e"] in ("Rollback", "Resolve", "Commit") and e["r"] == "ok":
                    touched.add(e["k"])
                if e["e"] == "Get" and e["r"] == "value" and e["k"] in touched:
                    return True
            return False
        if pid == "C18":    # a request arrives after the outcome was decided (duplicate / late / opposite request)
            done = set()
            for e in evs:
                if e["e"] in ("Commit", "Rollback", "Resolve", "Prewrite", "Check") and (e["start"], e["k"]) in done:
                    return True
                if e["e"] in ("Commit", "Rollback") and e["r"] == "ok":
                    done.add((e["start"], e["k"]))
            return False
        # C19: a lock is removed and another one set on the same key with a maintenance step in between
        removed, maint = set(), set()
        prev = {}
        for e in evs:
            if e["e"] == "Maint":
                maint |= removed
            if e["e"] == "Lock":
                if prev.get(e["k"], 0) != 0 and e["ts"] != prev[e["k"]]:
                    removed.add(e["k"])
                if e["ts"] != 0 and prev.get(e["k"], 0) != e["ts"] and e["k"] in maint:
                    return True
                prev[e["k"]] = e["ts"]
        return False
    distinct = {json.dumps(scheds[s]["ops"], sort_keys=True) + json.dumps(scheds[s]["cfg"], sort_keys=True) for s in order if nontrivial(traces[s])}
    kinds, replies = {}, {}
    for s in order:
        for e in traces[s]:
            if e["e"] == "Maint":
                k = e["what"] + (":" + e.get("kind", "") + ":" + e.get("res", "") if e["what"] == "Compact" else "")
                kinds[k] = kinds.get(k, 0) + 1
            elif e["e"] in ("Prewrite", "Commit", "Rollback", "Resolve", "Check"):
                k = e["e"] + ":" + e["r"] + (":" + e["act"] if e["e"] == "Check" else "")
                replies[k] = replies.get(k, 0) + 1
    mq = m1runs[0][1]
    sample = next((s for s in order if origin[s].startswith("tlc-simulate")), order[0])
    ctx.evidence("model_checking", {
        "states": sum(r.distinct for _, r in m1runs), "transitions": sum(r.generated for _, r in m1runs),
        "traces_validated_against_impl": len(tl), "evaluations": len(tl), "distinct_nontrivial": len(distinct),
        "rule": "request histories of Percolator.tla produced by TLC -simulate over %d (transaction table, request mix, depth) configurations, "
                "request-level variations (closing commits for every prewritten key, retried prewrites with a longer TTL after status checks), "
                "rotation/flush/compaction/reopen steps interleaved (incl. rotations with flushes held back), plus recorded replays%s; each executed through raftstore/kv.Apply on a real DB "
                "with lock probes, GETs and SCANs after every step; non-trivial = %s" % (
                    len(jobs), "" if quick else " and TLC counterexamples of the five recorded deviations",
                    {"C17": "some GET returns a value for a key on which a transaction committed/rolled back earlier in the history",
                     "C18": "some request arrives for a (transaction, key) whose commit or rollback already succeeded",
                     "C19": "a lock is set on a key after an earlier lock of that key was removed and a maintenance step ran in between"}[pid]),
        "samples": [{"schedule": scheds[sample], "first_events": tl[order.index(sample)][:14]}],
        "m1": [{"cfg": c, "generated": r.generated, "distinct": r.distinct, "depth": r.depth, "coverage_zero": r.coverage_zero} for c, r in m1runs],
        "events_validated": nevents, "request_replies": replies, "maintenance_actions_executed": kinds,
        "rejected_replies": len(rejected), "rejected_traces_relevant": len(first), "known_finding_hits": classes,
        "model_counterexamples_replayed": [d for d, _ in cex], "negative_control": "rejected as required",
        "checker_cmd": "tlc -config MC_Percolator.cfg Percolator.tla ; tlc -config PercolatorPropTrace.cfg PercolatorPropTrace.tla",
    }, assumptions=[
        "one key per request (multi-key requests are sequences of these under the same latches); requests are applied one at a time",
        "C18's 'any key rolled back' is judged per (transaction, key): the store cannot see other keys of the transaction",
        "Percolator.tla models the three columns as maps; the storage engine below them is covered by the Engine family, "
        "background compaction is paused and replaced by forced compactions through the engine's own planner",
        "TLC results hold for the constants in the cfg files (2 keys, 3 transactions, fixed timestamps)",
    ])


def negative_control(pid, tl):
    """Corrupt one recorded reply (C18: insert one fabricated reply) so that a clause of pid is contradicted."""
    for t in tl:
        if pid == "C17":
            idx = [i for i, e in enumerate(t) if e["e"] == "Get" and e["r"] == "value"]
            if idx:
                c = [dict(e) for e in t]
                c[idx[-1]]["v"] = "zz-corrupted"
                return c
        elif pid == "C19":
            idx = [i for i, e in enumerate(t) if e["e"] == "Lock" and e["ts"] != 0]
            if idx:
                c = [dict(e) for e in t]
                c[idx[-1]]["ts"], c[idx[-1]]["mc"] = 0, 0
                return c
        else:
            committed = set()
            for i, e in enumerate(t):
                if e["e"] in ("Commit", "Resolve") and e["r"] == "ok":
                    committed.add((e["start"], e["k"]))
                if e["e"] == "Rollback" and e["r"] == "ok" and (e["start"], e["k"]) not in committed:
                    # a commit that "succeeds" right after the rollback of the same key succeeded
                    fake = {"e": "Commit", "start": e["start"], "commit": e["start"] + 5, "k": e["k"], "r": "ok", "lts": 0}
                    return [dict(x) for x in t[:i + 1]] + [fake] + [dict(x) for x in t[i + 1:]]
    return None


if __name__ == "__main__":
    main(run, "Percolator")
