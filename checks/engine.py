#!/usr/bin/env python3
"""Engine family: C01 (plain KV last-writer-wins), C02 (versioned reads), C08 (value-log
separation + GC), C12 (clean close/reopen).  See DESIGN.md section 5.

M1  TLC exhaustively checks spec/Engine/Engine.tla (implementation-shaped) against its ghost
    reference map, modulo the recorded deviation witnesses.
M2  TLC -simulate generates behaviours of Engine.tla (action histories); each is executed on a
    real DB by harness/cmd/engine (gated flush, forced compactions through the engine's own
    planner, GC, close/reopen), reading every key back after every step.
M3  the recorded events are validated by TLC against spec/Engine/KVRefTrace.tla (property layer).
"""
import json, os, sys, re, subprocess
sys.path.insert(0, os.path.join(os.path.dirname(os.path.abspath(__file__)), "..", "lib"))
from vlib import *
from vpar import validate_traces_parallel

CFGS = [
    {"mem": "skiplist"}, {"mem": "art"},
    {"mem": "skiplist", "vlog": True, "buckets": 1, "vlogsize": 4096, "vallen": 200},
    {"mem": "art", "vlog": True, "buckets": 3, "vlogsize": 4096, "vallen": 200},
    {"mem": "skiplist", "vlog": True, "buckets": 3, "vlogsize": 1 << 20, "vallen": 64},
    {"mem": "art", "vlog": True, "buckets": 1, "vlogsize": 1 << 20, "vallen": 33},
    {"mem": "skiplist", "vlog": True, "buckets": 4, "hot": 2, "vlogsize": 256, "vallen": 100},    # keys move from cold to hot buckets; a file per 2 records
    {"mem": "art", "vlog": True, "buckets": 3, "vlogsize": 512, "vallen": 200},        # a new value-log file every 2-3 records
    {"mem": "skiplist", "vlog": True, "buckets": 1, "vlogsize": 512, "vallen": 300},   # a new value-log file every record or two
]



# option sets for schedules with injected I/O faults (FailSet): small value-log files so that a rotation (the
# value log's only file operations: truncate + sync of the sealed file, create of the next one) falls inside a
# refused batch; a 2 ms coalescing window so that concurrently issued writes share one commit batch
FCFGS = [
    {"mem": "skiplist", "vlog": True, "buckets": 1, "vlogsize": 512, "vallen": 200, "batchwait_us": 2000},
    {"mem": "art", "vlog": True, "buckets": 1, "vlogsize": 1024, "vallen": 200, "batchwait_us": 2000},
    {"mem": "skiplist", "vlog": True, "buckets": 2, "vlogsize": 512, "vallen": 150, "batchwait_us": 2000},
]
# SyncWrites: the WAL is flushed and fsynced inside every commit, so WAL file operations happen during a Set
FCFGS_WAL = [
    {"mem": "skiplist", "sync": True, "batchwait_us": 2000},
    {"mem": "art", "sync": True, "vlog": True, "buckets": 1, "vlogsize": 1024, "vallen": 200, "batchwait_us": 2000},
]
FAULTS_VLOG = [{"fop": "open_file", "suffix": ".vlog"}, {"fop": "open_file", "suffix": ".vlog"}, {"fop": "file_truncate", "suffix": ".vlog"},
               {"fop": "open_file", "suffix": ".vlog"}, {"fop": "file_sync", "suffix": ".vlog"}]
FAULTS_WAL = [{"fop": "file_sync", "suffix": ".wal"}, {"fop": "file_write", "suffix": ".wal"}, {"fop": "file_sync", "suffix": ".wal"}]

BOTTOM = 6  # utils.MaxLevelNum - 1: the level small databases compact into by default

# real versions used for the model's version ranks 1,2,3 (C02): identity, a set straddling the 256 and
# 65536 boundaries of the big-endian version bytes, and three adjacent values
VMAPS = [[1, 2, 3], [3, 261, 70000], [255, 256, 257], [65535, 65536, 65537]]


def to_ops(hist, versioned, bottom=False, vmap=None, txn=False, par=False, faults=None):
    """Model actions -> driver operations. Every written value gets a unique suffix so that a
    read reply identifies exactly one write. bottom=True lets L0 move to the engine's natural base
    level (the bottom level for small data) instead of forcing L1."""
    ops = []
    lvl = BOTTOM if bottom else 1
    opmap = {
        "Rotate": {"op": "Rotate"}, "Flush": {"op": "Flush"},
        "MoveL0": {"op": "Compact", "kind": "l0", "base": 0 if bottom else 1},
        "IngestMerge": {"op": "Compact", "kind": "ingest-keep", "level": lvl},
        "IngestDrain": {"op": "Compact", "kind": "ingest-drain", "level": lvl},
        "CompactL1": {"op": "Compact", "kind": "regular", "level": lvl},
        "Reopen": {"op": "Reopen"}, "GC": {"op": "GC"},
    }
    for n, h in enumerate(hist):
        o = h["op"]
        if o == "Set":
            h = dict(h); h["v"] = "%s%d" % (h["v"], n)
        if o in ("Set", "Del"):
            k = "k%d" % h["k"]
            if versioned:
                ver = vmap[h["ver"] - 1] if vmap else h["ver"]
                ops.append({"op": "SetV" if o == "Set" else "DelV", "k": k, "ver": ver, "v": h["v"]})
            elif txn:
                ops.append({"op": "TSet", "k": k, "v": h["v"]} if o == "Set" else {"op": "TDel", "k": k})
            else:
                ops.append({"op": o, "k": k, "v": h["v"]} if o == "Set" else {"op": "Del", "k": k})
        elif o == "FailSet":
            # a refused commit batch: one write per key, issued concurrently, with a one-shot injected I/O error
            # armed in the engine's filesystem for the duration of the call (it fires only if the matching file
            # operation happens; the driver records each write's real outcome)
            f = dict(faults[n % len(faults)])
            w = [{"k": "k%d" % k, "v": "x%dk%d" % (n, k)} for k in h["ks"]]
            ops.append({"op": "Set", "k": w[0]["k"], "v": w[0]["v"], "fault": f} if len(w) == 1 else {"op": "ParSet", "w": w, "fault": f})
        elif o in opmap:
            ops.append(dict(opmap[o]))
        # L0ToL0 is driven by a dedicated thorough-tier scenario only (the planner needs tables older than 10 s)
    if par:  # runs of plain Sets on distinct keys are issued concurrently (one coalesced commit batch)
        out, run = [], []
        def flush_run():
            if len(run) >= 2:
                out.append({"op": "ParSet", "w": [{"k": x["k"], "v": x["v"]} for x in run]})
            else:
                out.extend(run)
            run.clear()
        for op in ops:
            if op["op"] == "Set" and "fault" not in op and op["k"] not in {x["k"] for x in run}:
                run.append(op)
            else:
                flush_run()
                if op["op"] == "Set" and "fault" not in op:
                    run.append(op)
                else:
                    out.append(op)
        flush_run()
        ops = out
    return ops


def gen_cover(ctx):
    """Layout cover: BFS over Cover_Engine.cfg; one shortest history per distinct layout signature."""
    r = ctx.tlc_or_undecided("Engine", "Cover_Engine.cfg", workers=1, timeout=900)
    sigs = {}
    for m in re.finditer(r'<<\s*"COVER",\s*(.*?),\s*"(\[.*?\])"\s*>>\s*\n', r.out, re.S):
        sig = re.sub(r"\s+", " ", m.group(1))
        h = json.loads(m.group(2).encode().decode("unicode_escape"))
        if sig not in sigs or len(h) < len(sigs[sig]):
            sigs[sig] = h
    if len(sigs) < 50:
        raise Undecided("layout cover produced only %d signatures" % len(sigs))
    return [sigs[k] for k in sorted(sigs)], r


def gen_schedules(ctx, cfg, num, depth, seed, module="Engine"):
    r = ctx.tlc_or_undecided(module, cfg, workers=1, simulate="num=%d" % num, depth=depth + 1, seed=seed, timeout=900)
    seen, out = set(), []
    for m in re.finditer(r'<<"SCHED", "(.*)">>', r.out):
        s = m.group(1).encode().decode("unicode_escape")
        if s in seen:
            continue
        seen.add(s)
        out.append(json.loads(s))
    return out


def pos_of(v, vmap):
    """Order-preserving position of a real version: written versions map to even positions, gaps to odd."""
    if v >= 1000000:
        return 1000000
    p = 1
    for r in vmap:
        if v == r:
            return p + 1
        if v > r:
            p += 2
    return p


def project(ev, vmap=None):
    """Fields the property-layer trace spec needs (TLC's JSON module dislikes nulls)."""
    if vmap and "ver" in ev:
        ev = dict(ev); ev["ver"] = pos_of(ev["ver"], vmap)
    e = ev["e"]
    if e == "Maint":
        return {"e": "Maint", "ok": bool(ev.get("ok", True))}
    if e in ("Open", "Close"):
        return {"e": "Maint", "ok": False}
    out = {k: ev[k] for k in ("e", "cf", "k", "v", "ver", "r", "rver", "ok") if k in ev}
    return out


def fault_score(h):
    """Relevance of a behaviour with FailSet actions: refused batches of >= 2 writes whose keys already hold a
    value, followed by further writes (which seal the value-log file) and a GC."""
    best = 0
    for i, a in enumerate(h):
        if a["op"] != "FailSet":
            continue
        sc = len([k for k in a["ks"] if any(b["op"] == "Set" and b["k"] == k for b in h[:i])]) + (2 if len(a["ks"]) >= 2 else 0)
        later = [j for j in range(i + 1, len(h)) if h[j]["op"] == "Set"]
        if later and any(b["op"] == "GC" for b in h[later[0]:]):
            sc += 3
        best = max(best, sc)
    return best


def gen_fault_hists(ctx, n, depths, num):
    """TLC -simulate behaviours of Engine.tla with the FailWrite action enabled; the most relevant ones first
    (two thirds), the rest as generated."""
    hs = []
    for d in depths:
        cfgname = "Gen_EngineF_%d.cfg" % d
        src = open(os.path.join(ctx._specdir(), "Gen_EngineF.cfg")).read()
        open(os.path.join(ctx._specdir(), cfgname), "w").write(re.sub(r"MaxHist = \d+", "MaxHist = %d" % d, src))
        hs += [h for h in gen_schedules(ctx, cfgname, num, d, ctx.seed * 1000 + 500 + d) if any(a["op"] == "FailSet" for a in h)]
    ctx.rng.shuffle(hs)
    ranked = sorted(hs, key=fault_score, reverse=True)
    top = ranked[: (2 * n) // 3]
    rest = [h for h in hs if not any(h is t for t in top)]
    out = top + rest[: n - len(top)]
    return [h if h[-1]["op"] == "GC" else h + [{"op": "GC"}] for h in out]


def project_trace(events, vmap=None):
    """Property-layer projection of one recorded trace. Returns (projected events, raw index of each).
    After an injected I/O fault has fired, a read that itself reports an I/O error is inconclusive (dropped),
    and a Close that reports an error (or a fail-stop panic of the engine) is not a clean close: what is readable
    afterwards is crash recovery (Durability family), so the trace ends there."""
    out, idx, faulted = [], [], False
    for i, ev in enumerate(events):
        if (ev.get("fault") or {}).get("fired"):
            faulted = True
        if faulted:
            if ev["e"] in ("Get", "GetV") and str(ev.get("r", "")).startswith("ERR:"):
                continue
            if ev["e"] in ("Close", "Panic") or (ev["e"] == "Maint" and ev.get("what") == "Reopen" and ev.get("closeerr")):
                break
        out.append(project(ev, vmap)); idx.append(i)
    return out, idx


def run_driver(ctx, scheds, tag):
    """Run schedules on the real engine, 1 process per shard. Returns {sid: [events]}."""
    binp = ctx.build("engine")
    procs = []
    for i, part in enumerate(chunks(scheds, ctx.workers)):
        if not part:
            continue
        d = ctx.mkdtemp("drv")
        inp, outp = os.path.join(d, "in.ndjson"), os.path.join(d, "out.ndjson")
        with open(inp, "w") as fh:
            for s in part:
                fh.write(json.dumps(s) + "\n")
        p = subprocess.Popen([binp, "-in", inp, "-out", outp, "-dir", d], stdout=subprocess.PIPE, stderr=subprocess.STDOUT, text=True)
        procs.append((p, outp, part))
    traces = {}
    for p, outp, part in procs:
        try:
            out, _ = p.communicate(timeout=max(1800, 4 * len(part)))   # thorough shards hold ~2000 schedules at 6 workers
        except subprocess.TimeoutExpired:
            p.kill()
            raise Undecided("engine driver timed out")
        if p.returncode != 0:
            raise Undecided("engine driver failed (%d): %s" % (p.returncode, out[-3000:]))
        for line in open(outp):
            ev = json.loads(line)
            traces.setdefault(ev["s"], []).append(ev)
    return traces


def ingest_tie_seen(events, upto, cf, k):
    """Witness of finding C01-ingest-tie: at or before line `upto` the key was stored under the
    same version in two tables of one level's ingest buffer (Engine.tla: IngestTie)."""
    for ev in events[:upto + 1]:
        if ev["e"] in ("Get", "GetV") and ev.get("k") == k and ev.get("cf") == cf:
            seen = {}
            for s in ev.get("src") or []:
                if s["kind"] == "ingest":
                    key = (s["level"], s["ver"])
                    seen[key] = seen.get(key, 0) + 1
            if any(n > 1 for n in seen.values()):
                return True
    return False


def version_inversion_seen(events, upto, cf, k):
    """Witness of finding C02-version-inversion: versions of the key were written out of order,
    i.e. an older source holds a higher version than a newer source (Engine.tla: VersionInversion).
    Sources are listed in consultation order (newest first)."""
    for ev in events[:upto + 1]:
        if ev["e"] in ("Get", "GetV") and ev.get("k") == k and ev.get("cf") == cf:
            src = ev.get("src") or []
            for i in range(len(src)):
                for j in range(i + 1, len(src)):
                    same = (src[i]["kind"], src[i]["id"]) == (src[j]["kind"], src[j]["id"])
                    if not same and src[i]["ver"] < src[j]["ver"]:
                        return True
    return False


def wal_sync_error_seen(events, upto, cf, k, reply):
    """Witness of finding C01-wal-sync-error-visible: the reply is the value (or the deletion) of an earlier
    write to the key that returned the error injected into a WAL file operation: with SyncWrites the WAL is
    flushed/fsynced by db.wal.Sync() AFTER the batch has been applied to the memtable."""
    for ev in events[:upto]:
        if ev["e"] in ("Set", "Del") and ev.get("k") == k and ev.get("cf") == cf and not ev.get("ok"):
            fired = (ev.get("fault") or {}).get("fired") or ""
            if fired.endswith(".wal") and (reply == ev.get("v") if ev["e"] == "Set" else reply == "NOTFOUND"):
                return True
    return False


def l0l0_fid_seen(events, upto, cf, k):
    """Witness of finding C01-l0l0-fid: an L0->L0 compaction ran, and at or before line `upto` the key was held,
    under one version, by two L0 tables of which the one with the HIGHER fid is that compaction's output
    (Engine.tla: L0FidInversion)."""
    outs, l0 = set(), set()
    for ev in events[:upto + 1]:
        if ev["e"] == "Maint" and ev.get("layout"):
            now = {f for lv in (ev["layout"].get("levels") or []) if lv["level"] == 0 for f in (lv.get("main") or [])}
            if ev.get("what") == "Compact" and ev.get("kind") == "l0l0" and ev.get("res") == "done":
                outs |= now - l0
            l0 = now
        if outs and ev["e"] in ("Get", "GetV") and ev.get("k") == k and ev.get("cf") == cf:
            tabs = [s for s in (ev.get("src") or []) if s["kind"] == "l0"]
            for a in tabs:
                if a["id"] in outs and any(b["id"] < a["id"] and b["ver"] == a["ver"] for b in tabs):
                    return True
    return False


def classify(pid, events, line):
    ev = events[line]
    if ev["e"] in ("Get", "GetV"):
        if l0l0_fid_seen(events, line, ev.get("cf"), ev.get("k")):
            return "l0l0-fid"
        if wal_sync_error_seen(events, line, ev.get("cf"), ev.get("k"), ev.get("r")):
            return "wal-sync-error-visible"
        if ingest_tie_seen(events, line, ev.get("cf"), ev.get("k")):
            return "ingest-tie"
        if version_inversion_seen(events, line, ev.get("cf"), ev.get("k")):
            return "version-inversion"
    return None


MODEL_OPS = {("Compact", "l0"): "MoveL0", ("Compact", "ingest-keep"): "IngestMerge", ("Compact", "ingest-drain"): "IngestDrain",
             ("Compact", "regular"): "CompactL1"}


def impl_trace(sched, events):
    """Projects one executed schedule onto Engine.tla's vocabulary for implementation-level validation
    (EngineTrace.tla). Returns None when the schedule uses something the model abstracts away (value-log
    GC rewrites, transactional or concurrent writes, rotation of an empty memtable)."""
    if sched["cfg"].get("vlog") or sched.get("txn") or sched.get("vmap") or any("fault" in op for op in sched["ops"]):
        return None
    lvl = BOTTOM if sched.get("bottom") else 1
    out, i, dirty = [], 0, False
    groups, cur = [], None
    for ev in events:                       # one group per executed operation: the op event + the reads after it
        if ev["e"] in ("Set", "Del", "Maint"):
            cur = {"op": ev, "gets": []}; groups.append(cur)
        elif ev["e"] == "Get" and cur is not None:
            cur["gets"].append(ev)
        else:
            return None
    if len(groups) != len(sched["ops"]):
        return None
    for op, g in zip(sched["ops"], groups):
        e = g["op"]
        if op["op"] in ("Set", "Del"):
            if not e.get("ok"):
                return None
            rec = {"e": op["op"], "k": int(op["k"][1:]), "v": re.sub(r"\d+$", "", op.get("v", "")) or "x"}
            dirty = True
        elif op["op"] == "Rotate":
            if not dirty:
                return None
            rec, dirty = {"e": "Rotate"}, False
        elif op["op"] == "Flush":
            rec = {"e": "Flush", "done": not e.get("noop", False)}
        elif op["op"] == "Compact":
            if ("Compact", op["kind"]) not in MODEL_OPS or e.get("res") not in ("done", "nofill"):
                return None
            rec = {"e": MODEL_OPS[("Compact", op["kind"])], "done": e.get("res") == "done"}
        elif op["op"] == "Reopen":
            rec = {"e": "Reopen"}
        else:
            return None                      # GC, ParSet, ...
        sig = []
        for gk in g["gets"]:
            seq, ing, m1, m2 = [], [], [], []
            for s in gk.get("src") or []:
                v = "del" if s["v"] == "TOMB" else re.sub(r"\d+$", "", s["v"])
                if s["kind"] in ("mem", "imm", "l0"):
                    seq.append([s["kind"], v])
                elif s["level"] == lvl:
                    (ing if s["kind"] == "ingest" else m1).append(v)
                else:
                    m2.append(v)             # any other level is "below": the model's second main run
            sig.append({"key": int(gk["k"][1:]), "seq": seq, "ing": ing, "m1": m1, "m2": m2})
        if sorted(x["key"] for x in sig) != [1, 2, 3]:
            return None
        rec["sig"] = sig
        out.append(rec)
    return out


def compact_state(ctx):
    """The compaction range-lock table (lsm/compact/state.go): what lets Engine.tla treat a compaction as one atomic
    action. M1 on CompactState.tla (mutual exclusion of overlapping reservations, exact release); TLC-generated call
    sequences replayed on the real compact.State through its exported API; every reply validated against the
    property-layer trace spec CompactStateTrace.tla. A divergence cannot be a verdict on C01's statement, but it
    removes the ground under the atomic-compaction abstraction: the check then cannot decide (exit 2)."""
    m1s = []
    for cfg in ("MC_CompactState.cfg", "MC_CompactState_p3.cfg"):   # 3 levels x 3 boundaries x 2 planners; 2 x 3 x 3
        r = ctx.tlc_or_undecided("CompactState", cfg, timeout=3000)
        if r.violated:
            raise Undecided("M1: CompactState.tla violates %s under %s\n%s" % (r.violated, cfg, r.out[-2500:]))
        ctx.log("CompactState M1 %s: %d generated, %d distinct, depth %d (%.0fs)" % (cfg, r.generated, r.distinct, r.depth, r.wall))
        m1s.append({"cfg": cfg, "generated": r.generated, "distinct": r.distinct, "depth": r.depth})
    asis = ctx.tlc_or_undecided("CompactState", "MC_CompactState_asis.cfg", timeout=1200)
    if asis.violated != "ReleaseExact":
        raise Undecided("CompactState.tla with Delete as found (before repo fix) no longer shows the leaked range: invariant ReleaseExact does not bite")
    ctx.log("CompactState M1, Delete as found: ReleaseExact violated in %d states, as recorded" % asis.depth if asis.depth else "CompactState M1, Delete as found: ReleaseExact violated, as recorded")
    seqs = gen_schedules(ctx, "Gen_CompactState.cfg", 200, 30, ctx.seed * 1000 + 77, module="CompactState")
    if len(seqs) < 50:
        raise Undecided("only %d CompactState call sequences generated" % len(seqs))
    d = ctx.mkdtemp("cstate")
    inp, outp = os.path.join(d, "in.ndjson"), os.path.join(d, "out.ndjson")
    with open(inp, "w") as fh:
        for i, q in enumerate(seqs):
            fh.write(json.dumps({"id": i, "levels": 3, "ops": q}) + "\n")
    ctx.run([ctx.build("compactstate"), "-in", inp, "-out", outp], timeout=600)
    traces = {}
    for line in open(outp):
        ev = json.loads(line)
        sid = ev.pop("s"); ev.pop("skipped", None)
        if ev.get("ids", 0) is None:
            ev["ids"] = []
        traces.setdefault(sid, []).append(ev)
    tl = [traces[k] for k in sorted(traces)]
    rej = ctx.validate_traces("CompactStateTrace", "CompactStateTrace.cfg", tl, timeout=1200)
    for (ti, line, pev, want) in rej[:5]:
        print("DRIFT family=Engine CompactState sequence=%d at_event=%d %s expected %s (real compact.State diverges from the reference)" % (ti, line, json.dumps(pev), want), flush=True)
    if rej:
        ctx.save_replay("compactstate-divergence.json", {"sequence": seqs[rej[0][0]], "line": rej[0][1], "event": rej[0][2], "expected": rej[0][3]})
        raise Undecided("the compaction range-lock table diverges from its reference in %d replies (first: sequence %d line %d): compactions may overlap or stay "
                        "blocked, Engine.tla's atomic compaction actions are not justified (replay: out/%s/compactstate-divergence.json)" % (len(rej), rej[0][0], rej[0][1], ctx.pid))
    ctl = None
    for t in tl:
        idx = [i for i, e in enumerate(t) if e["e"] in ("Overlaps", "Acquire")]
        if idx:
            ctl = [dict(e) for e in t]
            key = "reply" if ctl[idx[-1]]["e"] == "Overlaps" else "ok"
            ctl[idx[-1]][key] = not ctl[idx[-1]][key]
            break
    if ctl is None or not ctx.validate_traces("CompactStateTrace", "CompactStateTrace.cfg", [ctl]):
        raise Undecided("CompactState negative control accepted: the trace specification does not bind replies")
    calls = {}
    for t in tl:
        for e in t:
            k = e["e"] + (":granted" if e.get("ok") is True else ":refused" if e.get("ok") is False else "")
            calls[k] = calls.get(k, 0) + 1
    ctx.log("CompactState: %d call sequences / %d calls replayed on compact.State, 0 divergent replies" % (len(tl), sum(len(t) for t in tl)))
    return {"m1": m1s,
            "as_found_delete": "MC_CompactState_asis.cfg violates ReleaseExact (same-level NextRange left behind; fixed in /repo)",
            "sequences": len(tl), "calls": calls, "divergent_replies": 0, "negative_control": "rejected as required"}


def run(ctx):
    pid, quick = ctx.pid, ctx.tier == "quick"
    versioned = pid == "C02"
    # ---------------------------------------------------------------- M1
    mc_cfg = {"C01": "MC_Engine.cfg", "C02": "MC_EngineV.cfg", "C08": "MC_Engine.cfg", "C12": "MC_Engine.cfg"}[pid]
    if not quick and pid == "C01":
        mc_cfg = "MC_Engine_big.cfg"
    r = ctx.tlc_or_undecided("Engine", mc_cfg, timeout=3000, coverage=(not quick and "big" not in mc_cfg))
    if r.violated:
        raise Undecided("M1: Engine.tla violates %s under %s: the specification (design layer) needs attention\n%s" % (r.violated, mc_cfg, r.out[-2500:]))
    ctx.log("M1 %s: %d generated, %d distinct, depth %d (%.0fs)" % (mc_cfg, r.generated, r.distinct, r.depth, r.wall))
    m1 = r
    m1x, cstate = {}, None
    if not quick and pid in ("C01", "C08"):
        # C01: L0->L0 enabled, with its witness L0FidInversion in taint; C08: refused commit batches (FailWrite) and GC
        xcfg = "MC_Engine_l0l0.cfg" if pid == "C01" else "MC_EngineF.cfg"
        rx = ctx.tlc_or_undecided("Engine", xcfg, timeout=3000)
        if rx.violated:
            raise Undecided("M1: Engine.tla violates %s under %s\n%s" % (rx.violated, xcfg, rx.out[-2500:]))
        ctx.log("M1 %s: %d generated, %d distinct, depth %d (%.0fs)" % (xcfg, rx.generated, rx.distinct, rx.depth, rx.wall))
        m1x = {"cfg": xcfg, "generated": rx.generated, "distinct": rx.distinct, "depth": rx.depth}
    if not quick and pid == "C01":
        cstate = compact_state(ctx)
    # ---------------------------------------------------------------- M2
    gen_cfg = "Gen_EngineV.cfg" if versioned else "Gen_Engine.cfg"
    num = 60 if quick else 700
    hists = []
    for d in ((10, 14) if quick else (8, 12, 16, 20)):
        # depth is set by MaxHist in the cfg; generate at several depths through cfg variants
        cfgname = gen_cfg.replace(".cfg", "_%d.cfg" % d)
        src = open(os.path.join(ctx._specdir(), gen_cfg)).read()
        open(os.path.join(ctx._specdir(), cfgname), "w").write(re.sub(r"MaxHist = \d+", "MaxHist = %d" % d, src))
        hists += gen_schedules(ctx, cfgname, num, d, ctx.seed * 1000 + d)
        if versioned:  # versions written in non-decreasing order per key: no recorded deviation applies
            src = open(os.path.join(ctx._specdir(), "Gen_EngineVM.cfg")).read()
            open(os.path.join(ctx._specdir(), "VM" + cfgname), "w").write(re.sub(r"MaxHist = \d+", "MaxHist = %d" % d, src))
            hists += gen_schedules(ctx, "VM" + cfgname, 2 * num, d, ctx.seed * 1000 + d + 1)
    ctx.rng.shuffle(hists)
    cap = 360 if quick else 2000
    hists = hists[:cap]
    keys = ["k1", "k2", "k3"]
    scheds = []
    cfgs = CFGS if pid != "C08" else CFGS[2:]
    ncover, fhists = 0, []

    def with_reopens(ops, i):
        # C12: close/reopen after every third step of the history, and twice at the end
        out = []
        for j, op in enumerate(ops):
            out.append(op)
            if (j + i) % 3 == 0 and op["op"] != "Reopen":
                out.append({"op": "Reopen"})
        return out + [{"op": "Reopen"}, {"op": "Reopen"}]
    if not versioned:
        cover, cov = gen_cover(ctx)
        ncover = len(cover)
        ctx.log("M2: layout cover: %d signatures from %d distinct states" % (ncover, cov.distinct))
        # transition cover on top of the layout cover: every covered layout followed by one more
        # maintenance action (the driver reports "nofill"/"noop" where the action does not apply)
        if pid == "C08":   # value-log GC after every covered layout (the cover model itself has no GC action)
            cover = [h + [{"op": "Rotate"}, {"op": "GC"}] for h in cover]
        ext = [h + [{"op": a}] for h in cover for a in ("MoveL0", "IngestMerge", "IngestDrain", "CompactL1", "Reopen", "Flush", "Rotate")
               if not h or h[-1]["op"] != a or a in ("IngestMerge", "IngestDrain")]
        ctx.rng.shuffle(ext)
        if quick:
            ext = ext[: (110 if pid == "C12" else 200)]
        cover = cover + ext
        ncover = len(cover)
        # behaviours with refused writes (FailWrite): they take the place of as many plain random behaviours
        nfault = {"C01": 24, "C08": 48, "C12": 16}[pid] if quick else {"C01": 150, "C08": 300, "C12": 100}[pid]
        fhists = gen_fault_hists(ctx, nfault, (10, 14), 150 if quick else 500)
        hists = cover + hists[: (100 - len(fhists) if quick else cap)]
    for i, h in enumerate(hists):
        reps = [cfgs[(i + ctx.seed) % len(cfgs)]] if quick else [cfgs[(i + j * 3 + ctx.seed) % len(cfgs)] for j in range(3)]
        if quick and i < ncover:  # every layout at least once inline and once through the value log
            reps = [cfgs[(i + ctx.seed) % 2 + (0 if pid != "C08" else 0)], cfgs[(2 + (i + ctx.seed) % max(1, len(cfgs) - 2)) % len(cfgs)]]
            if pid == "C08" and i % 3 == 0:   # hot/cold value-log buckets: keys change bucket after two writes
                reps[0] = next(c for c in CFGS if c.get("hot"))
        for ci, c in enumerate(reps):
            bottom = (i + ci + ctx.seed) % 2 == 0
            vmap = VMAPS[(i + ctx.seed) % len(VMAPS)] if versioned else None
            # C12/C08: a third of the schedules go through the transactional API (commit versions must
            # keep increasing across reopen), another third issues independent writes concurrently
            mode = (i + ci + 2 * ctx.seed) % 3 if pid in ("C12", "C08") and not versioned else 0
            s = {"id": len(scheds), "cfg": c, "readall": True, "bottom": bottom, "txn": mode == 1,
                 "ops": to_ops(h, versioned, bottom=bottom, vmap=vmap, txn=mode == 1, par=mode == 2)}
            if versioned:
                # probe every written version, its neighbours, and the plain API's version
                probes = sorted({p for v in vmap for p in (v - 1, v, v + 1) if p > 0} | {1000000})
                s["vkeys"], s["vers"], s["vmap"] = keys[:2], probes, vmap
            else:
                s["keys"] = keys
            if pid == "C12":
                s["ops"] = with_reopens(s["ops"], i)
            scheds.append(s)
    # refused writes: value-log faults (rotation inside a batch) on small value-log files; for C01 a third of them
    # are WAL faults under SyncWrites
    fault_sids = set()
    for i, h in enumerate(fhists):
        wal = pid == "C01" and i % 3 == 2
        fc, fk = (FCFGS_WAL, FAULTS_WAL) if wal else (FCFGS, FAULTS_VLOG)
        for ci, c in enumerate([fc[(i + ctx.seed) % len(fc)]] if quick else fc):
            bottom = (i + ci + ctx.seed) % 2 == 0
            r = (i + ci + ctx.seed) % len(fk)
            s = {"id": len(scheds), "cfg": c, "readall": True, "bottom": bottom, "txn": False, "keys": keys,
                 "ops": to_ops(h, False, bottom=bottom, faults=fk[r:] + fk[:r])}
            if pid == "C12":
                s["ops"] = with_reopens(s["ops"], i)
            fault_sids.add(s["id"])
            scheds.append(s)
    # recorded findings and repaired defects stay in the schedule set
    extra = json.load(open(os.path.join(VERIF, "findings", "engine_replays.json")))
    known = {f["id"]: f for f in ctx.load_known()}
    replay_ids = {}
    for rp in extra:
        if pid not in rp["properties"] or (quick and rp.get("tier") == "thorough"):
            continue
        for c in (CFGS[:2] if not rp.get("cfg") else [rp["cfg"]]):
            s = dict(rp["schedule"]); s["id"] = len(scheds); s["cfg"] = c; s["readall"] = True
            replay_ids[s["id"]] = rp["id"]
            scheds.append(s)
    ctx.log("M2: %d TLC behaviours -> %d schedules (%d recorded replays)" % (len(hists), len(scheds), len(replay_ids)))
    traces = run_driver(ctx, scheds, "main")
    order = sorted(traces)
    proj = [project_trace(traces[s], scheds[s].get("vmap")) for s in order]
    tl, rawidx = [p[0] for p in proj], [p[1] for p in proj]
    # ---------------------------------------------------------------- M3
    rejected = validate_traces_parallel(ctx, "KVRefTrace", "KVRefTrace.cfg", tl, timeout=1800, chunk=600)
    nevents = sum(len(t) for t in tl)
    ctx.log("M3: %d traces / %d events validated, %d rejected" % (len(tl), nevents, len(rejected)))
    classes = {}
    reported = set()
    for (ti, line, pev, want) in rejected:
        sid, line = order[ti], rawidx[ti][line]
        cls = classify(pid, traces[sid], line)
        fid = "%s-%s" % (pid, cls) if cls else None
        if fid and fid in known:
            if fid not in classes:
                ctx.known_finding("%s: %s (e.g. schedule %d line %d: %s)" % (fid, known[fid]["what"], sid, line, json.dumps(pev)))
            classes[fid] = classes.get(fid, 0) + 1
        elif sid not in reported:
            reported.add(sid)
            rp = ctx.save_replay("violation-%d.json" % sid, {"schedule": scheds[sid], "rejected_line": line, "event": traces[sid][line],
                                                             "expected": want, "trace": traces[sid][:line + 1]})
            ctx.violation(rp, "reply contradicts the reference map: %s expected %s" % (json.dumps(pev), want))
    # ---------------------------------------------- implementation-level validation (drift, C01 only)
    drift = {"validated": 0, "rejected": 0, "examples": []}
    if pid == "C01":
        impl, owner = [], []
        for sid in sorted(order, key=lambda x: (x not in replay_ids, x)):   # recorded replays first
            t = impl_trace(scheds[sid], traces[sid])
            if t:
                impl.append(t); owner.append(sid)
        impl, owner = impl[: (60 if quick else 1500)], owner[: (60 if quick else 1500)]
        try:
            rej = ctx.validate_traces("EngineTrace", "EngineTrace.cfg", impl, timeout=1200)
            bad = sorted({ti for (ti, _, _, _) in rej})
            drift = {"validated": len(impl), "rejected": len(bad),
                     "examples": [{"schedule": scheds[owner[ti]]["ops"], "line": [r[1] for r in rej if r[0] == ti][0]} for ti in bad[:3]]}
            for ti in bad[:5]:
                print("DRIFT family=Engine schedule=%d at_event=%d (Engine.tla cannot reproduce the observed layout; verdicts unaffected)" % (owner[ti], [r[1] for r in rej if r[0] == ti][0]), flush=True)
        except Undecided as e:
            ctx.notes.append("implementation-level validation did not run: %s" % str(e)[:300])
        ctx.log("impl-level: %d schedules replayed against Engine.tla's own actions, %d rejected (drift)" % (drift["validated"], drift["rejected"]))
    # every listed finding must still be demonstrable, else it silently disappears (no line printed)
    # ------------------------------------------------------- binding self-test
    ctl = None
    for t in tl:
        idx = [i for i, e in enumerate(t) if e["e"] in ("Get", "GetV") and e["r"] not in ("NOTFOUND",)]
        if idx:
            ctl = [dict(e) for e in t]
            ctl[idx[-1]]["r"] = "zz-corrupted"
            break
    if ctl is None:
        raise Undecided("no trace with a successful read: driver is not exercising the engine")
    if not ctx.validate_traces("KVRefTrace", "KVRefTrace.cfg", [ctl]):
        raise Undecided("negative control accepted: the trace specification does not bind read replies")
    # -------------------------------------------------------------- evidence
    def nontrivial(evs):
        # a read of a key whose stored copies sit in >= 2 different sources
        for e in evs:
            if e["e"] in ("Get", "GetV") and len({(s["kind"], s["id"]) for s in (e.get("src") or [])}) >= 2:
                return True
        return False
    distinct = {json.dumps(scheds[s]["ops"], sort_keys=True) + json.dumps(scheds[s]["cfg"], sort_keys=True) for s in order if nontrivial(traces[s])}
    kinds = {}
    for s in order:
        for e in traces[s]:
            if e["e"] == "Maint":
                k = e["what"] + (":" + e.get("kind", "") + ":" + e.get("res", "") if e["what"] == "Compact" else "")
                kinds[k] = kinds.get(k, 0) + 1
    fstat = {"schedules": len(fault_sids), "writes_under_armed_fault": 0, "writes_refused": 0, "refused_batches_of_2plus": 0, "fired": {}}
    for sid in fault_sids:
        grp = None
        for e in traces.get(sid, []):
            f = e.get("fault") if e["e"] in ("Set", "Del") else None
            if not f:
                grp = None
                continue
            fstat["writes_under_armed_fault"] += 1
            if not e.get("ok"):
                fstat["writes_refused"] += 1
            if grp is None or grp["left"] == 0:
                grp = {"left": e.get("par", 1), "refused": 0, "counted": False}
                if f.get("fired"):
                    kind = f["fop"] + ":*" + f["suffix"]
                    fstat["fired"][kind] = fstat["fired"].get(kind, 0) + 1
            grp["left"] -= 1
            grp["refused"] += 0 if e.get("ok") else 1
            if grp["refused"] >= 2 and not grp["counted"]:
                grp["counted"] = True
                fstat["refused_batches_of_2plus"] += 1
    if fault_sids and (fstat["writes_refused"] == 0 or not fstat["fired"]):
        raise Undecided("no injected I/O fault refused any write in %d fault schedules: fault injection is not reaching the engine" % len(fault_sids))
    fstat["engine_panics_after_fault"] = sum(1 for sid in fault_sids for e in traces.get(sid, []) if e["e"] == "Panic")
    if fault_sids:
        ctx.log("I/O faults: %s" % json.dumps(fstat))
    ctx.evidence("model_checking", {
        "states": m1.distinct, "transitions": m1.generated, "traces_validated_against_impl": len(tl),
        "evaluations": len(tl), "distinct_nontrivial": len(distinct),
        "rule": "behaviours of Engine.tla produced by TLC -simulate (action histories), executed on a real DB under the option product; "
                "non-trivial = some read hits a key stored in >= 2 different sources (memtable/L0/ingest/main tables)",
        "samples": [{"schedule": scheds[order[0]], "first_events": tl[0][:12]}],
        "m1": {"cfg": mc_cfg, "generated": m1.generated, "distinct": m1.distinct, "depth": m1.depth, "coverage_zero": m1.coverage_zero},
        "events_validated": nevents, "maintenance_actions_executed": kinds, "rejected_traces": len(rejected),
        "known_finding_hits": classes, "negative_control": "rejected as required",
        "impl_level_validation": drift, "io_faults": fstat, "m1_extra": m1x, "compact_state": cstate,
        "checker_cmd": "tlc -config %s Engine.tla ; tlc -config KVRefTrace.cfg KVRefTrace.tla" % mc_cfg,
    }, assumptions=[
        "process-level behaviour only; background compaction paused and replaced by forced compactions through the engine's own planner",
        "L0->L0 compaction is driven by one dedicated thorough-tier scenario only (the planner needs tables older than 10 s)",
        "I/O faults: one-shot injected errors at value-log rotation (truncate/sync of the sealed file, create of the next one) and, under "
        "SyncWrites, at the WAL flush/fsync of a commit; a read that itself returns an I/O error after a fault is not judged, and a trace ends "
        "at a Close that reports an error (not a clean close)",
        "TLC results hold for the constants in the cfg files",
    ])


if __name__ == "__main__":
    main(run, "Engine")
