#!/usr/bin/env python3
"""Regions family: C24 (splits, merges and removals keep the regions a partition with increasing
epochs, forward-moving states, identical reload).  See DESIGN.md section 5 (C24) and
docs/design.d/regions.md.

M1  TLC exhaustively checks spec/Regions/Regions.tla (catalog + manifest, one action per admin
    command / catalog call, merge range computed as handleMergeCommand does) for every starting
    partition of a 5-boundary key space, every split key, every merge pair, depth <= 5.
M2  behaviours of that spec: EVERY (starting partition, operation) pair, (thorough) a seeded third
    of all two-operation behaviours, and TLC -simulate behaviours of depth 3-12, are applied to
    a real store.Store with a real manifest by harness/cmd/regions (admin commands through the raft
    log of one-node groups; restart = rebuild the store from the reopened manifest).
M3  the catalog listings recorded after every operation are validated by TLC against the
    property-layer trace spec RegionsPropTrace.tla (overlap / cover / epoch / state / reload).
"""
import json, os, sys, re, subprocess
sys.path.insert(0, os.path.join(os.path.dirname(os.path.abspath(__file__)), "..", "lib"))
from vlib import *

TOP = 4


def gen(ctx, cfg, simulate=None, depth=None, seed=None, timeout=900):
    r = ctx.tlc_or_undecided("Regions", cfg, workers=1 if simulate else min(ctx.workers, 4), simulate=simulate,
                             depth=depth, seed=seed, timeout=timeout)
    if r.violated:
        raise Undecided("generation run %s reports %s" % (cfg, r.violated))
    seen, out = set(), []
    for m in re.finditer(r'<<"SCHED", "(.*)">>', r.out):
        s = m.group(1).encode().decode("unicode_escape")
        if s not in seen:
            seen.add(s)
            out.append(json.loads(s))
    return out


def run_driver(ctx, scheds):
    binp = ctx.build("regions")
    procs = []
    for part in chunks(scheds, ctx.workers):
        if not part:
            continue
        d = ctx.mkdtemp("drv")
        inp, outp = os.path.join(d, "in.ndjson"), os.path.join(d, "out.ndjson")
        with open(inp, "w") as fh:
            for s in part:
                fh.write(json.dumps(s) + "\n")
        p = subprocess.Popen([binp, "-in", inp, "-out", outp, "-dir", d], stdout=subprocess.PIPE, stderr=subprocess.STDOUT, text=True)
        procs.append((p, outp))
    traces = {}
    for p, outp in procs:
        try:
            out, _ = p.communicate(timeout=1500)
        except subprocess.TimeoutExpired:
            p.kill()
            raise Undecided("regions driver timed out")
        if p.returncode != 0:
            raise Undecided("regions driver failed (%d): %s" % (p.returncode, out[-3000:]))
        for line in open(outp):
            ev = json.loads(line)
            traces.setdefault(ev["s"], []).append(ev)
    return traces


def validate_parallel(ctx, tl, chunk=3000):
    """RegionsPropTrace validation of many traces: chunks validated by concurrent TLC runs."""
    from concurrent.futures import ThreadPoolExecutor
    ctx._specdir()
    parts = [(i, tl[i:i + chunk]) for i in range(0, len(tl), chunk)]
    def one(part):
        base, traces = part
        return [(base + ti, line, pev, want) for (ti, line, pev, want) in
                ctx.validate_traces("RegionsPropTrace", "RegionsPropTrace.cfg", traces, timeout=1500)]
    with ThreadPoolExecutor(max_workers=max(1, min(ctx.workers, 4))) as ex:
        res = list(ex.map(one, parts))
    return [r for part in res for r in part]


def pos(key, is_end):
    if key == "":
        return TOP if is_end else 0
    m = re.fullmatch(r"k(\d+)", key)
    if not m:
        raise Undecided("unexpected region key %r in a catalog listing" % key)
    return int(m.group(1))


def project(ev):
    """Fields the property layer needs; byte keys -> boundary positions."""
    if ev["e"] == "Crash":
        raise Undecided("the store panicked in schedule %s: %s" % (ev["s"], ev.get("panic")))
    cat = [{"id": r["id"], "s": pos(r["start"], False), "e": pos(r["end"], True), "ver": r["ver"], "conf": r["conf"],
            "st": r["st"], "peers": r["peers"]} for r in ev["cat"]]
    out = {"e": ev["e"], "cat": cat}
    if ev["e"] == "Op":
        out["dead"] = ev["dead"]
    return out


def classify(events, line):
    """Witness classifier for recorded merge findings: relation of source to target before the merge
    (Regions.tla MergeWitness). None for anything else."""
    ev = events[line]
    if ev["e"] != "Op" or ev["op"] != "Merge" or line == 0:
        return None
    before = {r["id"]: r for r in events[line - 1]["cat"]}
    t, s = before.get(ev["args"]["target"]), before.get(ev["args"]["source"])
    if not t or not s:
        return None
    if t["end"] != "" and t["end"] == s["start"]:
        return None            # right neighbour: the case the code handles
    if s["end"] != "" and s["end"] == t["start"]:
        return "merge-left-neighbour"
    return "merge-non-adjacent"


def run(ctx):
    quick = ctx.tier == "quick"
    # ---------------------------------------------------------------- M1
    mc = "MC_Regions_quick.cfg" if quick else "MC_Regions.cfg"
    m1 = ctx.tlc_or_undecided("Regions", mc, timeout=1500, coverage=not quick)
    if m1.violated:
        raise Undecided("M1: Regions.tla violates %s under %s: the specification (design layer) needs attention\n%s" % (m1.violated, mc, m1.out[-2500:]))
    ctx.log("M1 %s: %d generated, %d distinct, depth %d (%.0fs)" % (mc, m1.generated, m1.distinct, m1.depth, m1.wall))
    # the model of handleMergeCommand before the repair must be convicted by the same invariants (they are not vacuous),
    # and every such violation must be explained by a merge witness
    r = ctx.tlc_or_undecided("Regions", "MC_Regions_asis_strict.cfg", timeout=600)
    if r.violated != "PartitionOK":
        raise Undecided("self-test: the as-is merge model is not convicted by PartitionOK (%s)" % r.violated)
    # ---------------------------------------------------------------- M2
    d1 = gen(ctx, "Gen_Regions_d1.cfg")
    if quick:
        d2, n_d2 = [], 0
    else:
        d2 = gen(ctx, "Gen_Regions_d2.cfg")
        n_d2 = len(d2)
        ctx.rng.shuffle(d2)
        d2 = d2[:12000]          # a seeded third of all two-operation behaviours (cost: ~10 ms per behaviour, manifest fsyncs)
    sims = []
    for depth, num in (((3, 200), (6, 100)) if quick else ((6, 400), (8, 400), (12, 200))):
        name = "Gen_Regions_sim_%d.cfg" % depth
        src = open(os.path.join(ctx._specdir(), "Gen_Regions_sim.cfg")).read()
        open(os.path.join(ctx._specdir(), name), "w").write(re.sub(r"MaxDepth = \d+", "MaxDepth = %d" % depth, src))
        sims += gen(ctx, name, simulate="num=%d" % num, depth=depth + 1, seed=ctx.seed * 1000 + depth)[:3 * num]
    life = gen(ctx, "Gen_Regions_life.cfg")      # state change; manifest rewrite; restart; every state change again
    scheds = []
    for kind, hs in (("d1", d1), ("d2", d2), ("sim", sims), ("life", life)):
        for n, h in enumerate(hs):
            ops = list(h["ops"])
            s = {"id": len(scheds), "top": TOP, "init": h["init"], "kind": kind}
            # what the manifest holds must survive a manifest rewrite: every behaviour ends with a rewrite and a restart
            # (still a behaviour of Regions.tla); every other one instead lets the manifest rewrite itself after each edit
            if n % 2 == 0:
                ops += [{"op": "Rewrite"}, {"op": "Reload"}]
            else:
                s["autorewrite"] = True
                ops += [{"op": "Reload"}]
            s["ops"] = ops
            scheds.append(s)
    replays = json.load(open(os.path.join(VERIF, "findings", "regions_replays.json")))
    replay_ids = {}
    for rp in replays:
        if ctx.pid in rp["properties"]:
            s = dict(rp["schedule"]); s["id"] = len(scheds); s["top"] = TOP; s["kind"] = "replay"
            replay_ids[s["id"]] = rp["id"]
            scheds.append(s)
    ctx.log("M2: %d one-op behaviours (all), %d of %d two-op behaviours, %d simulated, %d lifecycle, %d recorded replays" % (len(d1), len(d2), n_d2, len(sims), len(life), len(replay_ids)))
    traces = run_driver(ctx, scheds)
    order = sorted(traces)
    if len(order) != len(scheds):
        raise Undecided("driver produced %d traces for %d schedules" % (len(order), len(scheds)))
    tl = [[project(e) for e in traces[s]] for s in order]
    # ---------------------------------------------------------------- M3
    rejected = validate_parallel(ctx, tl)
    nevents = sum(len(t) for t in tl)
    ctx.log("M3: %d traces / %d catalog observations validated, %d rejected observations" % (len(tl), nevents, len(rejected)))
    known = {f["id"]: f for f in ctx.load_known()}
    classes, reported = {}, set()
    for (ti, line, pev, want) in rejected:
        sid = order[ti]
        cls = classify(traces[sid], line)
        fid = "%s-%s" % (ctx.pid, cls) if cls else None
        if fid and fid in known:
            if fid not in classes:
                ctx.known_finding("%s: %s (e.g. schedule %d op %d %s: violated %s)" % (fid, known[fid]["what"], sid, line, json.dumps(traces[sid][line]["args"]), want))
            classes[fid] = classes.get(fid, 0) + 1
        elif sid not in reported:
            reported.add(sid)
            ev = traces[sid][line]
            rp = ctx.save_replay("violation-%d.json" % sid, {"schedule": scheds[sid], "rejected_line": line, "violated": want,
                                                             "before": traces[sid][line - 1]["cat"] if line else None, "event": ev,
                                                             "trace": traces[sid][:line + 1]})
            what = "%s %s" % (ev.get("op", ev["e"]), json.dumps({k: v for k, v in (ev.get("args") or {}).items() if v and k != "op"}))
            ctx.violation(rp, "catalog after %s violates %s: before=%s after=%s" % (
                what, want, json.dumps(traces[sid][line - 1]["cat"] if line else None), json.dumps(ev["cat"])))
    # ------------------------------------------------------- binding self-test
    ctl = None
    for t in tl:
        idx = [i for i, e in enumerate(t) if e["e"] == "Op" and e["cat"]]
        if idx:
            ctl = json.loads(json.dumps(t))
            ctl[idx[-1]]["cat"][0]["e"] = ctl[idx[-1]]["cat"][0]["s"]   # corrupt one observed range: the region covers nothing
            break
    if ctl is None:
        raise Undecided("no trace with an operation: driver is not exercising the store")
    if not ctx.validate_traces("RegionsPropTrace", "RegionsPropTrace.cfg", [ctl]):
        raise Undecided("negative control accepted: the trace specification does not bind catalog observations")
    # -------------------------------------------------------------- evidence
    opkinds, applied, failed = {}, 0, 0
    shapes = set()
    for s in order:
        for e in traces[s]:
            if e["e"] == "Op":
                k = e["op"] + (":ok" if e["ok"] else ":err")
                opkinds[k] = opkinds.get(k, 0) + 1
                applied += 1 if e["ok"] else 0
                failed += 0 if e["ok"] else 1

    def nontrivial(sid):
        # a split or merge was applied (changed the catalog) and the store was rebuilt from the manifest afterwards
        ch = [i for i, e in enumerate(traces[sid]) if e["e"] == "Op" and e["op"] in ("Split", "Merge") and e["ok"]]
        return bool(ch) and any(e["e"] == "Reload" for e in traces[sid][ch[0]:])
    distinct = {json.dumps([scheds[s]["init"], scheds[s]["ops"]], sort_keys=True) for s in order if nontrivial(s)}
    ctx.evidence("model_checking", {
        "states": m1.distinct, "transitions": m1.generated, "traces_validated_against_impl": len(tl),
        "evaluations": len(tl), "distinct_nontrivial": len(distinct),
        "rule": "behaviours of Regions.tla: all (starting partition, operation) pairs over 5 boundaries / <=4 regions / both id orders, "
                "a seeded sample of the two-operation behaviours (thorough only), TLC -simulate behaviours of depth 3-12, lifecycle behaviours (state change, manifest "
                "rewrite, restart, every state change again); each ends with a manifest rewrite (forced, or self-triggered after every edit) and a restart; each applied to a real Store+manifest; "
                "non-trivial = an applied split or merge followed by a rebuild of the store from the manifest",
        "samples": [{"schedule": scheds[order[-1]], "observations": tl[-1][:6]}],
        "m1": {"cfg": mc, "generated": m1.generated, "distinct": m1.distinct, "depth": m1.depth, "coverage_zero": m1.coverage_zero,
               "asis_model_convicted_by": "PartitionOK"},
        "one_op_behaviours": len(d1), "two_op_behaviours_run": len(d2), "two_op_behaviours_total": n_d2, "simulated": len(sims), "lifecycle_behaviours": len(life),
        "manifest_rewrites_forced": sum(1 for s_ in scheds for o in s_["ops"] if o["op"] == "Rewrite"), "autorewrite_schedules": sum(1 for s_ in scheds if s_.get("autorewrite")),
        "observations_validated": nevents, "operations_by_kind": opkinds, "rejected_observations": len(rejected),
        "known_finding_hits": classes, "negative_control": "rejected as required",
        "checker_cmd": "tlc -config %s Regions.tla ; tlc -config RegionsPropTrace.cfg RegionsPropTrace.tla" % mc,
    }, assumptions=[
        "single store, single-peer regions (one-node raft groups, in-memory raft logs); admin commands through the public propose path",
        "restarts are clean (close + reopen of the manifest); crash atomicity of manifest edits is C15's subject",
        "split commands are well-formed (child = [key, parent end), fresh child id); region ids are never reused",
        "a store whose admin command failed in apply is restarted before the next operation (its raft group cannot continue)",
        "TLC results hold for the constants in the cfg files (5 boundaries, <= 4 starting regions)",
    ])


if __name__ == "__main__":
    main(run, "Regions")
