#!/usr/bin/env python3
"""PD routing family: C26 (every key routes to the unique region containing it).

M1  TLC exhaustively checks spec/PD/PDRoute.tla (the code's region map, its sorted range index and
    binary-search lookup, stale/overlap rejection, persisted catalog, restart through the heartbeat
    path) against the reference "the unique known region containing the key" for 3 region ids over
    a small boundary set including empty start/end keys and empty/inverted ranges.
M2  TLC -simulate generates heartbeat / removal / restart sequences of that spec; harness/cmd/pdroute
    executes them on the real pd/server.Service with storage.OpenLocalStore in a temp dir (restart =
    close or kill, reopen, Load, restore) and looks up every key of the key set after every step.
M3  accept/reject results and lookup replies are validated by TLC against PDRoutePropTrace.tla.
"""
import json, os, sys, re, subprocess
sys.path.insert(0, os.path.join(os.path.dirname(os.path.abspath(__file__)), "..", "lib"))
from vlib import *
from vpar import validate_traces_parallel, fast_tmp

INF = 100
# two order-preserving maps from model positions 0..7 to byte strings (0 = empty key)
KEYMAPS = [["", "a", "b", "c", "d", "e", "f", "g"],
           ["", "a", "a!", "aa", "ab", "b", "b~", "c"]]


def gen_schedules(ctx, num, depth, seed):
    src = open(os.path.join(ctx._specdir(), "Gen_PDRoute.cfg")).read()
    name = "Gen_PDRoute_%d.cfg" % depth
    open(os.path.join(ctx._specdir(), name), "w").write(re.sub(r"MaxHist = \d+", "MaxHist = %d" % depth, src))
    r = ctx.tlc_or_undecided("PDRoute", name, workers=1, simulate="num=%d" % num, depth=depth + 1, seed=seed, timeout=900)
    seen, out = set(), []
    for m in re.finditer(r'<<"SCHED", "(.*)">>', r.out):
        s = m.group(1).encode().decode("unicode_escape")
        if s not in seen:
            seen.add(s)
            out.append(json.loads(s))
    if not out:
        raise Undecided("behaviour generation produced nothing:\n" + r.out[-2000:])
    return out


def to_ops(hist, km, n):
    """model actions -> driver operations (positions -> byte strings)"""
    ops = []
    for j, h in enumerate(hist):
        if h["op"] == "Heartbeat":
            ops.append({"op": "Heartbeat", "id": h["id"], "start": km[h["s"]], "end": "" if h["e"] == INF else km[h["e"]],
                        "ver": h["ver"], "conf": h["conf"]})
        elif h["op"] == "Remove":
            ops.append({"op": "Remove", "id": h["id"]})
        else:
            ops.append({"op": "Restart", "mode": "kill" if (n + j) % 2 else "close"})
    return ops


def project(evs, km):
    """trace events -> what the property-layer spec reads (byte strings -> positions)"""
    pos = {k: i for i, k in enumerate(km)}
    out = []
    for ev in evs:
        e = ev["e"]
        if e == "Heartbeat":
            out.append({"e": e, "id": ev["id"], "s": pos[ev["start"]], "en": INF if ev["end"] == "" else pos[ev["end"]],
                        "ver": ev["ver"], "conf": ev["conf"], "ok": ev["ok"]})
        elif e == "Remove":
            out.append({"e": e, "id": ev["id"], "removed": bool(ev["removed"]) and ev["ok"]})
        elif e == "Lookup":
            p = {"e": e, "k": pos[ev["key"]], "found": bool(ev.get("found")) and ev["ok"]}
            if p["found"]:
                if ev["rstart"] not in pos or (ev["rend"] != "" and ev["rend"] not in pos):
                    p.update({"rid": ev["rid"], "rs": -1, "re": -1, "rver": ev["rver"], "rconf": ev["rconf"]})
                else:
                    p.update({"rid": ev["rid"], "rs": pos[ev["rstart"]], "re": INF if ev["rend"] == "" else pos[ev["rend"]],
                              "rver": ev["rver"], "rconf": ev["rconf"]})
            out.append(p)
        elif e == "Restart":
            out.append({"e": e, "ok": ev["ok"]})
    return out


def run_driver(ctx, scheds):
    binp = ctx.build("pdroute")
    procs = []
    for part in chunks(scheds, ctx.workers):
        if not part:
            continue
        d = ctx.mkdtemp("drv")
        work = fast_tmp(ctx, "work")
        inp, outp = os.path.join(d, "in.ndjson"), os.path.join(d, "out.ndjson")
        with open(inp, "w") as fh:
            for s in part:
                fh.write(json.dumps(s) + "\n")
        p = subprocess.Popen([binp, "-in", inp, "-out", outp, "-dir", work], stdout=subprocess.PIPE, stderr=subprocess.STDOUT, text=True)
        procs.append((p, outp))
    traces = {}
    for p, outp in procs:
        try:
            out, _ = p.communicate(timeout=1500)
        except subprocess.TimeoutExpired:
            p.kill()
            raise Undecided("pdroute driver timed out")
        if p.returncode != 0:
            raise Undecided("pdroute driver failed (%d): %s" % (p.returncode, out[-3000:]))
        for line in open(outp):
            ev = json.loads(line)
            traces.setdefault(ev["s"], []).append(ev)
    return traces


def empty_range_known(events, upto, km):
    """Witness of finding C26-empty-range: at the failing lookup the catalog holds an accepted,
    not yet removed region whose range is empty or inverted (start >= end, end non-empty)."""
    pos = {k: i for i, k in enumerate(km)}
    live = {}
    for ev in events[:upto]:
        if ev["e"] == "Heartbeat" and ev["ok"]:
            live[ev["id"]] = ev["end"] != "" and pos[ev["start"]] >= pos[ev["end"]]
        elif ev["e"] == "Remove":
            live.pop(ev["id"], None)
    return any(live.values())


def run(ctx):
    quick = ctx.tier == "quick"
    # ---------------------------------------------------------------- M1
    mc = "MC_PDRoute_quick.cfg" if quick else "MC_PDRoute.cfg"
    m1 = ctx.tlc_or_undecided("PDRoute", mc, timeout=1500, coverage=not quick)
    if m1.violated or not m1.ok:
        raise Undecided("M1: PDRoute.tla violates %s under %s: the specification needs attention\n%s" % (m1.violated, mc, m1.out[-2500:]))
    asis = ctx.tlc_or_undecided("PDRoute", "MC_PDRoute_asis.cfg", timeout=900)
    if asis.violated != "LookupCorrect":
        raise Undecided("M1: the design that accepts empty ranges no longer violates LookupCorrect: model lost its sensitivity")
    ctx.log("M1 %s: %d generated, %d distinct, depth %d (%.0fs); design accepting empty ranges violates LookupCorrect as expected"
            % (mc, m1.generated, m1.distinct, m1.depth, m1.wall))
    # ---------------------------------------------------------------- M2
    hists = []
    for depth, num in (((10, 150), (18, 150)) if quick else ((8, 600), (14, 800), (24, 800), (40, 300))):
        hists += gen_schedules(ctx, num, depth, ctx.seed * 1000 + depth)
    scheds, kms = [], []
    for i, h in enumerate(hists):
        km = KEYMAPS[(i + ctx.seed) % 2]
        scheds.append({"id": len(scheds), "keys": km, "ops": to_ops(h, km, i)})
        kms.append(km)
    replays = json.load(open(os.path.join(VERIF, "findings", "pdroute_replays.json")))
    replay_ids = {}
    for rp in replays:
        for km in KEYMAPS:
            replay_ids[len(scheds)] = rp["id"]
            scheds.append({"id": len(scheds), "keys": km, "ops": to_ops(rp["hist"], km, 0)})
            kms.append(km)
    ctx.log("M2: %d TLC behaviours -> %d schedules (%d recorded replays)" % (len(hists), len(scheds), len(replay_ids)))
    traces = run_driver(ctx, scheds)
    if len(traces) != len(scheds):
        raise Undecided("driver returned %d traces for %d schedules" % (len(traces), len(scheds)))
    order = sorted(traces)
    tl = [project(traces[s], kms[s]) for s in order]
    # ---------------------------------------------------------------- M3
    rejected = validate_traces_parallel(ctx, "PDRoutePropTrace", "PDRoutePropTrace.cfg", tl, family="PD", timeout=1500)
    nevents = sum(len(t) for t in tl)
    ctx.log("M3: %d traces / %d events validated, %d contradicting events" % (len(tl), nevents, len(rejected)))
    known = {f["id"]: f for f in ctx.load_known()}
    classes, reported = {}, set()
    for (ti, line, pev, want) in rejected:
        sid = order[ti]
        fid = None
        if pev["e"] == "Lookup" and empty_range_known(traces[sid], line, kms[sid]):
            fid = "C26-empty-range"
        if fid and fid in known:
            if fid not in classes:
                ctx.known_finding("%s: %s (e.g. schedule %d line %d: %s)" % (fid, known[fid]["what"], sid, line, json.dumps(traces[sid][line])))
            classes[fid] = classes.get(fid, 0) + 1
        elif sid not in reported:
            reported.add(sid)
            if len(reported) > 8:
                continue
            rp = ctx.save_replay("violation-%d.json" % sid, {"schedule": scheds[sid], "rejected_line": line, "event": traces[sid][line],
                                                             "expected": want, "trace": traces[sid][:line + 1]})
            ctx.violation(rp, "%s contradicts the catalog of accepted regions: %s expected %s" % (pev["e"], json.dumps(traces[sid][line]), want))
    if len(reported) > 8:
        ctx.notes.append("%d further failing schedules not listed" % (len(reported) - 8))
    # ------------------------------------------------------- binding self-test
    ctl = None
    for t in tl:
        idx = [i for i, e in enumerate(t) if e["e"] == "Lookup" and e["found"]]
        if idx:
            ctl = [dict(e) for e in t]
            ctl[idx[-1]]["rid"] = ctl[idx[-1]]["rid"] % 3 + 1       # routed to another region
            break
    if ctl is None:
        raise Undecided("no trace with a successful lookup: driver is not exercising the catalog")
    if not ctx.validate_traces("PDRoutePropTrace", "PDRoutePropTrace.cfg", [ctl], family="PD"):
        raise Undecided("negative control accepted: the trace specification does not bind lookup replies")
    # -------------------------------------------------------------- evidence
    stats = {"heartbeats": 0, "accepted": 0, "rejected_stale_or_overlap": 0, "removed": 0, "restarts": 0, "lookups": 0, "lookups_found": 0}
    maxcat = {}
    distinct = set()
    for s in order:
        live, mx, updates = set(), 0, 0
        for e in traces[s]:
            if e["e"] == "Heartbeat":
                stats["heartbeats"] += 1
                if e["ok"]:
                    stats["accepted"] += 1
                    if e["id"] in live:
                        updates += 1
                    live.add(e["id"])
                else:
                    stats["rejected_stale_or_overlap"] += 1
            elif e["e"] == "Remove":
                stats["removed"] += 1 if e["removed"] else 0
                live.discard(e["id"])
            elif e["e"] == "Restart":
                stats["restarts"] += 1
            elif e["e"] == "Lookup":
                stats["lookups"] += 1
                stats["lookups_found"] += 1 if e.get("found") else 0
            mx = max(mx, len(live))
        maxcat[mx] = maxcat.get(mx, 0) + 1
        if mx >= 2:
            distinct.add(json.dumps(scheds[s]["ops"], sort_keys=True))
    ctx.evidence("model_checking", {
        "states": m1.distinct, "transitions": m1.generated, "traces_validated_against_impl": len(tl),
        "evaluations": len(tl), "distinct_nontrivial": len(distinct),
        "rule": "heartbeat/removal/restart sequences generated by TLC -simulate from PDRoute.tla (3 ids, 4 start x 4 end positions incl. empty keys and "
                "empty/inverted ranges, epochs 3x2), executed on a real Service + LocalStore under two order-preserving key maps, all 8 keys looked up "
                "after every step; non-trivial = the catalog holds >= 2 regions at some point",
        "samples": [{"schedule": scheds[order[0]], "first_events": tl[0][:14]}],
        "m1": {"cfg": mc, "generated": m1.generated, "distinct": m1.distinct, "depth": m1.depth, "coverage_zero": m1.coverage_zero,
               "deviant_design": {"cfg": "MC_PDRoute_asis.cfg", "violates": asis.violated}},
        "events_validated": nevents, "driver_stats": stats, "schedules_by_max_catalog_size": maxcat,
        "rejected_events": len(rejected), "known_finding_hits": classes, "negative_control": "rejected as required",
        "checker_cmd": "tlc -config %s PDRoute.tla ; tlc -config PDRoutePropTrace.cfg PDRoutePropTrace.tla" % mc,
    }, assumptions=[
        "sequential requests (the catalog is guarded by one mutex); concurrency of heartbeats is not explored",
        "restart = clean close or copy of the files without close, then the start sequence transcribed from cmd/nokv/pd.go",
        "a rejected heartbeat is only required to leave the catalog unchanged (the property states 'accepts only if')",
        "TLC results hold for the constants in the cfg files",
    ])


if __name__ == "__main__":
    main(run, "PD")
