#!/usr/bin/env python3
"""Corrupt family: C14 (corrupted log and table bytes are never served as valid data).
See DESIGN.md section 5 (C14), section 9 and docs/design.d/corrupt.md.  Level: fault_enumeration.

M1  TLC checks Wal.tla's FlipBit action (FlipNeverServed) over tiny records - the TLA+ part is thin.
M2  TLC -simulate generates small WAL shapes; value-log / SST / DB contents are value-size lists.
    harness/cmd/corrupt builds each with the real code, flips single bits of the files (quick: strided
    sample, thorough: every bit of the small files) and reads back through wal.VerifyDir/Replay,
    vlog VerifyDir/ReadValue/Iterate, the table reader (Search + scan; the same after the hot-key prefetch
    loader ran for every key; a scan with PrefetchBlocks) and DB.Get after reopening (with and without
    LSM.Prefetch of every key first).
M3  TLC validates the observations against spec/Wal/CorruptPropTrace.tla (IsSubSeq + value equality).
"""
import json, os, sys, re, subprocess
sys.path.insert(0, os.path.join(os.path.dirname(os.path.abspath(__file__)), "..", "lib"))
from vlib import *


def fastdir(ctx, name):
    """Driver work directory on tmpfs when available (the code under test fsyncs on every step).
    Removed at exit."""
    import atexit, shutil, tempfile
    base = "/dev/shm" if os.path.isdir("/dev/shm") and os.access("/dev/shm", os.W_OK) else ctx.scratch
    d = tempfile.mkdtemp(prefix="verif-%s-%s-" % (ctx.pid, name), dir=base)
    atexit.register(shutil.rmtree, d, True)
    return d


def gen_shapes(ctx, num, seed):
    r = ctx.tlc_or_undecided("Wal", "Gen_WalSmall.cfg", workers=1, simulate="num=%d" % num, depth=10, seed=seed, timeout=300)
    seen, out = set(), []
    for m in re.finditer(r'<<"SCHED", "(.*)">>', r.out):
        s = m.group(1).encode().decode("unicode_escape")
        if s not in seen:
            seen.add(s)
            out.append(json.loads(s))
    return out


def run_driver(ctx, jobs):
    binp = ctx.build("corrupt")
    parts = [[] for _ in range(max(1, ctx.workers))]
    load = [0] * len(parts)
    for j in sorted(jobs, key=lambda j: -j["_work"]):
        i = load.index(min(load))
        parts[i].append(j); load[i] += j["_work"]
    procs = []
    for part in parts:
        if not part:
            continue
        d = ctx.mkdtemp("drv")
        work = fastdir(ctx, "drv")
        inp, outp = os.path.join(d, "in.ndjson"), os.path.join(d, "out.ndjson")
        with open(inp, "w") as fh:
            for j in part:
                fh.write(json.dumps({k: v for k, v in j.items() if not k.startswith("_")}) + "\n")
        p = subprocess.Popen([binp, "-in", inp, "-out", outp, "-dir", work], stdout=subprocess.DEVNULL, stderr=subprocess.PIPE, text=True)
        procs.append((p, outp))
    traces = {}
    for p, outp in procs:
        try:
            _, err = p.communicate(timeout=1700)
        except subprocess.TimeoutExpired:
            for q, _ in procs:
                q.kill()
            raise Undecided("corrupt driver timed out")
        if p.returncode != 0:
            raise Undecided("corrupt driver failed (%d): %s" % (p.returncode, err[-3000:]))
        for line in open(outp):
            ev = json.loads(line)
            traces.setdefault(ev["s"], []).append(ev)
    return traces


def project(ev):
    if ev["e"] == "Build":
        return {"e": "Build", "orig": ev["orig"], "want": ev["want"]}
    return {"e": "FlipRange", "got": ev["got"], "reads": ev["reads"]}


def field_of(kind, ev, build):
    """Witness classifier key for findings: file kind + which part of the file the bit is in."""
    return "%s:%s" % (kind, ev.get("file", ""))


def run(ctx):
    quick = ctx.tier == "quick"
    # ---------------------------------------------------------------- M1
    cfg = "MC_Wal_quick.cfg" if quick else "MC_Wal.cfg"
    m1 = ctx.tlc_or_undecided("Wal", cfg, timeout=1200)
    if m1.violated or not m1.ok:
        raise Undecided("M1: Wal.tla under %s: %s\n%s" % (cfg, m1.violated, m1.out[-2500:]))
    ctx.log("M1 %s: %d generated, %d distinct (%.0fs)" % (cfg, m1.generated, m1.distinct, m1.wall))
    # ---------------------------------------------------------------- M2
    shapes = gen_shapes(ctx, 8 if quick else 40, ctx.seed * 17 + 3)
    ctx.rng.shuffle(shapes)
    jobs = []
    sizes = [0, 1, 5, 31, 32, 33, 40, 64, 70, 100, 130]

    def vals(n):
        return [{"size": ctx.rng.choice(sizes)} for _ in range(n)]

    def add(job, work):
        job["id"] = len(jobs); job["seed"] = ctx.seed * 1000 + len(jobs); job["_work"] = work
        jobs.append(job)

    for i, ops in enumerate(shapes[: (4 if quick else 6)]):
        recs = [{"type": "Rotate"} if o["op"] == "Rotate" else {"type": o["type"], "size": o["size"]} for o in ops]
        bits = 8 * sum(r.get("size", 0) + 9 for r in recs if r["type"] != "Rotate")
        stride = (max(1, bits // 45) | 1) if quick else 1
        add({"kind": "wal", "recs": recs, "verify": i % 2 == 0, "stride": stride, "offset": ctx.seed + i}, bits // stride * 100)
    for i in range(2 if quick else 6):
        recs = vals(4 if quick else 6)
        bits = 8 * (20 + sum(r["size"] + 30 for r in recs))
        stride = (max(1, bits // 700) | 1) if quick else 1
        add({"kind": "vlog", "recs": recs, "verify": i % 2 == 1, "stride": stride, "offset": ctx.seed + i}, bits // stride * 5)
    for i in range(2 if quick else 4):
        recs = vals(7 if quick else (6 if i < 2 else 10))
        bits = 8 * (200 + sum(r["size"] + 40 for r in recs))
        stride = (max(1, bits // 800) | 1) if quick else (1 if i < 2 else 5)   # thorough: every bit of two tables
        add({"kind": "sst", "recs": recs, "stride": stride, "offset": ctx.seed + i}, bits // stride * 25)
    # DB level: .sst files read with and without the hot-key prefetch running before the first Get; .vlog files
    for f, pre in (("sst", True), ("sst", False), ("vlog", False)):
        for i in range(1 if quick else 2):
            recs = [{"size": ctx.rng.choice([33, 40, 64, 70, 100])} for _ in range(6)]
            mx = (7 if f == "sst" else 8) if quick else 40
            add({"kind": "db", "file": f, "prefetch": pre, "recs": recs, "stride": 211 if f == "sst" else 97, "max": mx,
                 "offset": ctx.seed * 7 + i}, mx * 1000)
    ctx.log("M2: %d WAL shapes from TLC, %d jobs" % (len(shapes), len(jobs)))
    traces = run_driver(ctx, jobs)
    order = sorted(traces)
    if len(order) != len(jobs):
        raise Undecided("driver returned %d of %d jobs" % (len(order), len(jobs)))
    tl = [[project(e) for e in traces[s]] for s in order]
    # ---------------------------------------------------------------- M3
    rejected = ctx.validate_traces("CorruptPropTrace", "CorruptPropTrace.cfg", tl, timeout=1500)
    nevents = sum(len(t) for t in tl)
    ctx.log("M3: %d traces / %d events validated, %d rejected" % (len(tl), nevents, len(rejected)))
    known = {f["id"]: f for f in ctx.load_known()}
    reported = set()
    for (ti, line, pev, want) in rejected:
        sid = order[ti]
        ev, build = traces[sid][line], traces[sid][0]
        fid = "C14-" + field_of(build["kind"], ev, build)
        if fid in known:
            ctx.known_finding("%s: %s (e.g. job %d bits %s..%s)" % (fid, known[fid]["what"], sid, ev.get("from"), ev.get("to")))
            continue
        if sid in reported:
            continue
        reported.add(sid)
        rp = ctx.save_replay("violation-%d.json" % sid, {"job": {k: v for k, v in jobs[sid].items() if not k.startswith("_")},
                                                         "build": build, "event": ev, "expected": want})
        ctx.violation(rp, "%s file %s, flipped bit %s..%s: %s; served %s reads %s (originals %s / %s)"
                      % (build["kind"], ev.get("file"), ev.get("from"), ev.get("to"), want, json.dumps(ev["got"])[:300],
                         json.dumps(ev["reads"])[:300], json.dumps(build["orig"])[:300], json.dumps(build["want"])[:300]))
    # ------------------------------------------------------- binding self-test
    ctl1 = ctl2 = None
    for t in tl:
        for i, e in enumerate(t):
            if e["e"] == "FlipRange" and e["got"] and ctl1 is None:
                c = [json.loads(json.dumps(x)) for x in t]
                c[i]["got"][-1] = "0:3:00deadbeef00dead"
                ctl1 = c
            if e["e"] == "FlipRange" and any(r not in ("ERR", "NOTFOUND") for r in e["reads"]) and ctl2 is None:
                c = [json.loads(json.dumps(x)) for x in t]
                k = [k for k, r in enumerate(e["reads"]) if r not in ("ERR", "NOTFOUND")][0]
                c[i]["reads"][k] = "3:00deadbeef00dead"
                ctl2 = c
    if ctl1 is None or ctl2 is None:
        raise Undecided("no flip left any record/value readable: driver is not exercising the decoders")
    rej = ctx.validate_traces("CorruptPropTrace", "CorruptPropTrace.cfg", [ctl1, ctl2])
    if not any(r[0] == 0 for r in rej) or not any(r[0] == 1 for r in rej):
        raise Undecided("negative control accepted: the trace specification does not bind served records")
    # -------------------------------------------------------------- evidence
    flips, noticed, panics = {}, 0, 0
    distinct = set()
    for s in order:
        b = traces[s][0]
        first_mode = traces[s][1]["mode"] if len(traces[s]) > 1 else ""
        for e in traces[s][1:]:
            if e["mode"] == first_mode:
                flips[b["kind"]] = flips.get(b["kind"], 0) + e["n"]
            if e["panic"]:
                panics += e["n"]
            if e["err"] or e["got"] != b["orig"] or (e["reads"] and e["reads"] != b["want"]):
                if e["mode"] == first_mode:
                    noticed += e["n"]
                distinct.add((s, e["file"], e["from"], e["mode"]))
    total = sum(flips.values())
    ctx.evidence("fault_enumeration", {
        "evaluations": total, "distinct_nontrivial": len(distinct),
        "rule": "one evaluation = one flipped bit of a WAL segment / value-log file / SST file (table reader: plain reads, reads after the hot-key "
                "prefetch loader, scan with iterator prefetch) / SST or value-log file of a DB "
                "(DB.Get after reopen); quick: strided sample with a seed-dependent offset, thorough: every bit of the small WAL / value-log files and of two SSTs, every 5th bit of two larger SSTs (DB: sample); "
                "non-trivial = the flip changed the observation (error, missing record, panic), distinct = distinct (job, file, first bit) "
                "observation ranges",
        "samples": [{"job": {k: v for k, v in jobs[order[0]].items() if not k.startswith("_")}, "events": traces[order[0]][:4]}],
        "exhaustive": False,
        "flips_by_kind": flips, "flips_changing_the_observation": noticed, "flips_ending_in_panic": panics,
        "states": m1.distinct, "transitions": m1.generated, "traces_validated_against_impl": len(tl), "events_validated": nevents,
        "rejected": len(rejected), "negative_control": "rejected as required",
        "checker_cmd": "tlc -config %s Wal.tla ; tlc -config CorruptPropTrace.cfg CorruptPropTrace.tla" % cfg,
    }, assumptions=[
        "single-bit flips of files at rest; the file is restored before the next flip",
        "a panic (fail-stop) counts as an error report, not as served data; it is counted in flips_ending_in_panic",
        "records are identified by type/key, length and SHA-1 of the payload",
        "byte strings that are not single-bit mutations of valid files are not explored (DESIGN.md section 9)",
    ])


if __name__ == "__main__":
    main(run, "Wal")
