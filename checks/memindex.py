#!/usr/bin/env python3
"""MemIndex family: C07 (skiplist and ART memtable indexes are the same ordered map).

M1  TLC exhaustively explores spec/MemIndex/MemIndex.tla over a small key universe (user keys over the
    byte alphabet {0x00,'a',0xFF}: prefix-related keys, the radix padding byte, several versions) and
    checks the reference definitions against each other plus the design lemmas (kv.InternalKey +
    utils.CompareKeys realise the order; raw radix order agrees with it unless two user keys are
    prefix-related).
M2  the same spec is the case generator: every insert sequence of the small universes (exhaustive) and
    sampled sequences of a larger one (-simulate) are printed by TLC and replayed into BOTH real
    engines by harness/cmd/memindex, which records every Search(probe) over the whole probe universe,
    full forward/reverse iterations and Seek from every probe in both directions. Seeded large
    multisets (arbitrary bytes, long shared prefixes, many versions, small arenas with values that
    cross arena chunks) and concurrent inserts from 2-4 goroutines are added by this file.
M3  every (case, engine) trace is validated by TLC against spec/MemIndex/MemIndexPropTrace.tla.
"""
import json, os, sys, re, subprocess
from concurrent.futures import ThreadPoolExecutor
sys.path.insert(0, os.path.join(os.path.dirname(os.path.abspath(__file__)), "..", "lib"))
from vlib import *
from vstruct import *

ENGINES = ["skiplist", "art"]
UNIVERSES = {  # must mirror the constants of spec/MemIndex/Gen_*.cfg (probe/seek-target universe)
    "U1": dict(alpha=[0, 97, 255], maxlen=2, cfs=[0], pvers=[0, 1, 2, MAXV]),
    "U2": dict(alpha=[0, 97], maxlen=2, cfs=[0], pvers=[0, 1, 2, MAXV]),
    "U2b": dict(alpha=[0, 97], maxlen=2, cfs=[0], pvers=[0, 1, 2]),
    "U3": dict(alpha=[97], maxlen=1, cfs=[0, 1], pvers=[0, 1, 2, 3, MAXV]),
    "UB": dict(alpha=[0, 97, 255], maxlen=3, cfs=[0, 1], pvers=[0, 1, 2, 3, MAXV]),
    # wide fan-out at one byte position (ART Node48 / Node256), one-byte user keys only (prefix-free, so the
    # recorded ART finding excuses nothing); probes also cover the bytes next to 0x00 / 0xFF and other gaps
    "W17": dict(alpha=sorted({0, 1, 2, 25, 96, 98, 253} | set(range(3, 25)) | {97, 254, 255}), minlen=1, maxlen=1, cfs=[0], pvers=[0, 1, 2]),
    "W49": dict(alpha=sorted({0, 1, 2, 63, 96, 98, 253} | set(range(3, 63)) | {97, 254, 255}), minlen=1, maxlen=1, cfs=[0], pvers=[0, 1, 2]),
}
GEN = {  # cfg -> (universe, exhaustive?)
    "Gen_U1x2.cfg": "U1", "Gen_U1x3.cfg": "U1", "Gen_U2x3.cfg": "U2", "Gen_U2x5.cfg": "U2b",
    "Gen_U3x3.cfg": "U3", "Gen_U3x4.cfg": "U3", "Gen_UBx5.cfg": "UB", "Gen_W17.cfg": "W17", "Gen_W49.cfg": "W49",
}
SIM_DEPTH = {"Gen_UBx5.cfg": 7, "Gen_W17.cfg": 72, "Gen_W49.cfg": 202}


def universe(u):
    ks = [[]]
    layer = [[]]
    for _ in range(u["maxlen"]):
        layer = [k + [b] for k in layer for b in u["alpha"]]
        ks += layer
    ks = [k for k in ks if len(k) >= u.get("minlen", 0)]
    return [{"cf": cf, "k": k, "ver": v} for cf in u["cfs"] for k in ks for v in u["pvers"]]


def probes_for_case(rng, uname, keys, cap=40):
    """Probe/seek-target list for one case of a big universe: every inserted user key at every probe
    version, their one-byte extensions/prefixes, plus random members of the universe."""
    u = UNIVERSES[uname]
    out, seen = [], set()

    def add(cf, k, v):
        t = (cf, tuple(k), v)
        if t not in seen and len(k) <= u["maxlen"]:
            seen.add(t); out.append({"cf": cf, "k": list(k), "ver": v})
    for x in keys:
        for v in u["pvers"]:
            add(x["cf"], x["k"], v)
    for x in keys:
        for b in u["alpha"]:
            add(x["cf"], x["k"] + [b], rng.choice(u["pvers"]))
        if x["k"]:
            add(x["cf"], x["k"][:-1], rng.choice(u["pvers"]))
    out = out[:cap]
    for _ in range(8):
        n = rng.randint(0, u["maxlen"])
        add(rng.choice(u["cfs"]), [rng.choice(u["alpha"]) for _ in range(n)], rng.choice(u["pvers"]))
    return out


def gen_cases(ctx, cfg, simulate=None, seed=None):
    r = ctx.tlc_or_undecided("MemIndex", cfg, workers=1 if simulate else 2, simulate=simulate, depth=SIM_DEPTH[cfg] if simulate else None,
                             seed=seed, timeout=900)
    if r.violated:
        raise Undecided("generator %s violated %s" % (cfg, r.violated))
    return tlc_json_lines(r.out, "CASE"), r


# ------------------------------------------------------------------ seeded large / concurrent cases
BIGVERS = [0, 1, 2, 3, 7, 255, 256, 65535, 999999, MAXV]


def key_pool(rng, n, prefix_free):
    """User keys with arbitrary bytes and lengths; unless prefix_free, many are byte-prefixes of others
    (extensions by 0x00 / 0xFF / random bytes) and some share a long common prefix (ART prefix overflow)."""
    pool = set()
    if prefix_free:
        ln = rng.choice([1, 2, 5, 9, 24])
        if ln == 1 and n > 100:     # only 256 one-byte keys exist
            ln = 2
        while len(pool) < n:
            pool.add(bytes(rng.choice([0, 1, 97, 98, 254, 255, rng.randrange(256)]) for _ in range(ln)))
        return [list(k) for k in pool]
    longp = bytes(rng.randrange(256) for _ in range(rng.choice([9, 17, 40])))
    bases = [b"", b"a", bytes([0]), bytes([255])] + [bytes(rng.randrange(256) for _ in range(rng.randint(1, 6))) for _ in range(6)] + [longp]
    while len(pool) < n:
        b = rng.choice(bases)
        for _ in range(rng.randint(0, 4)):
            b += bytes([rng.choice([0, 0, 255, 255, 97, rng.randrange(256)])])
            if rng.random() < 0.5:
                pool.add(b)
        pool.add(b)
        if rng.random() < 0.2:
            bases.append(b)
    return [list(k) for k in pool]


def big_case(rng, cid, n, threads, prefix_free):
    cfs = [0] if rng.random() < 0.5 else [0, 1, 2]
    pool = key_pool(rng, max(4, n // rng.choice([2, 4, 12])), prefix_free)
    hot = rng.sample(pool, min(3, len(pool)))          # user keys with many versions
    arena = rng.choice([1, 1 << 20, 3 << 20, 64 << 20])
    serial = [0]

    def ins(pad_ok=True):
        k = rng.choice(hot) if rng.random() < 0.3 else rng.choice(pool)
        v = rng.randrange(1, 60) if (k in hot and rng.random() < 0.7) else rng.choice(BIGVERS)
        serial[0] += 1
        x = {"cf": rng.choice(cfs), "k": k, "ver": v, "val": "w%d" % serial[0]}
        if pad_ok and rng.random() < 0.05:
            x["pad"] = rng.choice([1000, 70000, 300000])   # values that make the arena cross 1 MiB chunks
        return x
    if threads:
        seq = [ins() for _ in range(n // 4)]
        # threads draw from the same small key set, so the same internal keys are inserted concurrently
        shared = [ins(False) for _ in range(max(3, n // 8))]
        ths = []
        for t in range(threads):
            th = []
            for _ in range(n // threads):
                if rng.random() < 0.5:
                    s = rng.choice(shared)
                    serial[0] += 1
                    th.append({"cf": s["cf"], "k": s["k"], "ver": s["ver"], "val": "w%d" % serial[0]})
                else:
                    th.append(ins(False))
            ths.append(th)
    else:
        seq, ths = [ins() for _ in range(n)], []
    allk = seq + [x for th in ths for x in th]
    probes = []
    for x in rng.sample(allk, min(60, len(allk))):
        vs = [MAXV, rng.choice([0, 5, 999999])] if x["ver"] == MAXV else [x["ver"], min(x["ver"] + 1, 999999), max(x["ver"] - 1, 0)]
        for v in vs:
            probes.append({"cf": x["cf"], "k": x["k"], "ver": v})
        if prefix_free:
            # gaps of the same length: probes must not be prefix-related to stored keys either, so that
            # the recorded ART finding excuses nothing in these cases
            g = list(x["k"]); g[rng.randrange(len(g))] = rng.choice([0, 255, 96, 98, rng.randrange(256)])
            probes.append({"cf": x["cf"], "k": g, "ver": rng.choice(BIGVERS)})
            continue
        probes.append({"cf": x["cf"], "k": x["k"] + [rng.choice([0, 255, 97])], "ver": rng.choice(BIGVERS)})
        if x["k"]:
            probes.append({"cf": x["cf"], "k": x["k"][:-1], "ver": rng.choice(BIGVERS)})
    targets = rng.sample(probes, min(24, len(probes)))
    c = {"id": cid, "arena": arena, "ins": seq, "probes": probes, "targets": targets, "lim": 3}
    if ths:
        c["threads"] = ths
    return c


def case_keys(c):
    return [kproj(x) for x in c["ins"]] + [kproj(x) for th in c.get("threads", []) for x in th]


# ------------------------------------------------------------------------------- driver
def run_driver(ctx, headers, cases):
    binp = ctx.build("memindex")
    procs = []
    for part in chunks(cases, ctx.workers):
        if not part:
            continue
        d = ctx.mkdtemp("drv")
        inp, outp = os.path.join(d, "in.ndjson"), os.path.join(d, "out.ndjson")
        with open(inp, "w") as fh:
            for h in headers:
                fh.write(json.dumps(h) + "\n")
            for c in part:
                fh.write(json.dumps(c) + "\n")
        procs.append((subprocess.Popen([binp, "-in", inp, "-out", outp], stdout=subprocess.PIPE, stderr=subprocess.STDOUT, text=True), outp))
    traces = {}
    crashed_parts = []
    for (p, outp), part in zip(procs, [pt for pt in chunks(cases, ctx.workers) if pt]):
        try:
            out, _ = p.communicate(timeout=1800)
        except subprocess.TimeoutExpired:
            p.kill()
            raise Undecided("memindex driver timed out")
        if p.returncode != 0:
            crashed_parts.append((part, p.returncode, out[-1500:]))
            continue
        for line in open(outp):
            ev = json.loads(line)
            traces.setdefault(ev.pop("s"), []).append(ev)
    # A driver process that died (fatal runtime error inside an engine cannot be recovered in-process): run the
    # cases of that shard one by one and per engine; a case that kills its process again is recorded as a Crash
    # event (which no action of the trace spec explains). Not reproducible => could not decide.
    for part, rc, tail in crashed_parts:
        reproduced = False
        for c in part:
            for ei, eng in enumerate(ENGINES):
                evs, why = None, ""
                for attempt in range(3 if c.get("threads") else 1):
                    evs, why = run_one(ctx, binp, headers, c, eng)
                    if evs is None:
                        break
                if evs is None:
                    reproduced = True
                    evs = [{"e": "Crash", "eng": eng, "msg": why[-600:]}]
                traces[c["id"] * 2 + ei] = evs
        if not reproduced:
            raise Undecided("memindex driver died (%d) and no single case reproduces it: %s" % (rc, tail))
    return traces


def run_one(ctx, binp, headers, c, eng):
    d = ctx.mkdtemp("one")
    inp, outp = os.path.join(d, "in.ndjson"), os.path.join(d, "out.ndjson")
    with open(inp, "w") as fh:
        for h in headers:
            fh.write(json.dumps(h) + "\n")
        fh.write(json.dumps(dict(c, engines=[eng])) + "\n")
    try:
        p = subprocess.run([binp, "-in", inp, "-out", outp], stdout=subprocess.PIPE, stderr=subprocess.STDOUT, text=True, timeout=600)
    except subprocess.TimeoutExpired:
        return None, "timeout"
    if p.returncode != 0:
        return None, "exit %d: %s" % (p.returncode, p.stdout[-1200:])
    evs = []
    for line in open(outp):
        ev = json.loads(line); ev.pop("s"); evs.append(ev)
    return evs, ""


# ----------------------------------------------------------------------- classification
def bad_items(ev, want):
    """Which parts of a batched reply contradict the specification: list of (what, probe-or-None)."""
    if want is None:
        return [("unexplained event %s" % ev.get("e"), None)]
    w = json.loads(tla_unquote(want))
    if ev["e"] == "Search":
        return [("Search", ev["ps"][i]) for i in range(len(ev["ps"])) if i >= len(ev["rs"]) or ev["rs"][i] not in w[i]]
    if ev["e"] == "Iter":
        return [("Iter asc=%s" % ev["asc"], None)]
    if ev["e"] == "Seek":
        out = []
        for i in range(len(ev["ts"])):
            got = [kproj(x) for x in ev["outs"][i]] if i < len(ev["outs"]) else None
            if got != w[i]:
                out.append(("Seek asc=%s" % ev["asc"], ev["ts"][i]))
        # keys all as expected => a value was wrong; attribute to the whole event
        return out or [("Seek asc=%s (value)" % ev["asc"], None)]
    return [(ev["e"], None)]


def art_witness(keys, probe):
    """Witness of finding C07-art-prefix-order (MemIndex.tla: ~RadixOK, which implies HasPrefixPair): on
    the inserted keys plus the probe, the order a byte-wise radix tree over the raw internal-key bytes
    yields differs from the internal-key order."""
    ks = {(k["cf"], tuple(k["k"]), k["ver"]): k for k in keys}
    if probe is not None:
        ks.setdefault((probe["cf"], tuple(probe["k"]), probe["ver"]), kproj(probe))
    ks = list(ks.values())
    return has_prefix_pair(ks) and radix_disagrees(ks)


def run(ctx):
    quick = ctx.tier == "quick"
    os.environ.setdefault("JAVA_TOOL_OPTIONS", "-XX:ParallelGCThreads=2")   # many small JVMs run side by side
    rng = ctx.rng
    # ------------------------------------------------------------------ M1
    m1 = []
    for cfg in (["MC_MemIndex_q.cfg"] if quick else ["MC_MemIndex.cfg", "MC_MemIndex_U3.cfg", "MC_MemIndex_U1x3.cfg"]):
        r = ctx.tlc_or_undecided("MemIndex", cfg, timeout=1500, coverage=False)
        if r.violated:
            raise Undecided("M1: MemIndex.tla violates %s under %s (the reference definitions disagree)\n%s" % (r.violated, cfg, r.out[-2500:]))
        ctx.log("M1 %s: %d generated, %d distinct, depth %d (%.0fs)" % (cfg, r.generated, r.distinct, r.depth, r.wall))
        m1.append((cfg, r))
    # design level view of the recorded finding: radix order alone is expected to fail
    ra = ctx.tlc("MemIndex", "MC_MemIndex_asis.cfg", timeout=600)
    asis = ra.violated == "RadixOK"
    ctx.log("M1 as-is (RadixOK without the prefix witness): %s" % ("counterexample, as recorded" if asis else "no counterexample"))
    # ------------------------------------------------------------------ M2: cases
    plan = [("Gen_U1x2.cfg", None, None)]
    if quick:
        plan += [("Gen_U3x3.cfg", None, 200), ("Gen_U2x3.cfg", None, 200), ("Gen_UBx5.cfg", 220, None),
                 ("Gen_W17.cfg", 24, None), ("Gen_W49.cfg", 12, None)]
    else:
        plan += [("Gen_U1x3.cfg", None, None if ctx.workers >= 12 else 6000), ("Gen_U2x3.cfg", None, None), ("Gen_U3x4.cfg", None, 2000),
                 ("Gen_U2x5.cfg", None, 1500), ("Gen_UBx5.cfg", 1500, None), ("Gen_W17.cfg", 150, None), ("Gen_W49.cfg", 60, None)]

    def gen(item):
        cfg, sim, cap = item
        hs, r = gen_cases(ctx, cfg, simulate=("num=%d" % sim) if sim else None, seed=ctx.seed if sim else None)
        return cfg, sim, cap, hs, r
    ctx._specdir()
    with ThreadPoolExecutor(max_workers=max(1, ctx.workers // 2)) as ex:
        gens = list(ex.map(gen, plan))
    headers = [{"psets": {u: universe(UNIVERSES[u]) for u in ("U1", "U2", "U2b", "U3", "W17", "W49")}}]
    cases, meta = [], {}
    gen_stats = {}
    for cfg, sim, cap, hs, r in gens:
        total = len(hs)
        if cap and len(hs) > cap:
            hs = rng.sample(hs, cap)
        gen_stats[cfg] = {"generated_by_tlc": total, "executed": len(hs), "exhaustive": (not sim) and len(hs) == total,
                          "states": r.distinct}
        uname = GEN[cfg]
        for h in hs:
            c = {"id": len(cases), "arena": rng.choice([1, 1 << 20, 64 << 20]), "lim": 0,
                 "ins": [dict(x, val="v%d" % (i + 1)) for i, x in enumerate(h)]}
            if uname == "UB":
                c["probes"] = probes_for_case(rng, uname, h)
                c["targets"] = c["probes"][:20]
            else:
                c["pset"] = c["tset"] = uname
                if uname.startswith("W"):
                    c["lim"] = 2        # seeks from every probe in both directions, two entries each
            meta[c["id"]] = cfg
            cases.append(c)
    # recorded findings stay in the case set
    replays = json.load(open(os.path.join(VERIF, "findings", "memindex_replays.json")))
    for rp in replays:
        c = dict(rp["case"]); c["id"] = len(cases); meta[c["id"]] = "replay:" + rp["id"]
        cases.append(c)
    nbig = 6 if quick else 40
    for i in range(nbig):
        n = rng.choice([120, 250, 400] if quick else [150, 400, 800, 1400])
        c = big_case(rng, len(cases), n, 0, prefix_free=(i % 2 == 1))
        meta[c["id"]] = "seeded-large" + ("-prefixfree" if i % 2 == 1 else "")
        cases.append(c)
    # concurrent inserts: two of three cases are prefix-free, so that the recorded ART finding excuses nothing there
    for i in range(18 if quick else 90):
        n = rng.choice([160, 320] if quick else [160, 320, 640])
        th = 2 + i % 3
        c = big_case(rng, len(cases), n, th, prefix_free=(i % 3 != 0))
        c["probes"], c["targets"] = c["probes"][:40], c["targets"][:6]
        if i % 3 != 2:
            # arena just above the minimum (one 1 MiB chunk) and enough concurrent data to roll into new chunks
            c["arena"] = rng.choice([1, 1 << 20, (1 << 20) + 4096])
            for th_ in c["threads"]:
                for x in th_:
                    x["pad"] = rng.choice([9000, 20000, 45000])
        meta[c["id"]] = "concurrent-%d" % th + ("-prefixfree" if i % 3 != 0 else "")
        cases.append(c)
    ctx.log("M2: %d cases (%s)" % (len(cases), ", ".join("%s=%d" % (k, v["executed"]) for k, v in gen_stats.items())))
    traces = run_driver(ctx, headers, cases)
    order = sorted(traces)
    if len(order) != 2 * len(cases):
        raise Undecided("driver returned %d traces for %d cases" % (len(order), len(cases)))
    tl = [[{k: v for k, v in e.items() if k != "msg"} for e in traces[s]] for s in order]
    # ------------------------------------------------------------------ M3
    rejected = validate_parallel(ctx, "MemIndexPropTrace", "MemIndexPropTrace.cfg", tl, timeout=1500)
    nevents = sum(len(t) for t in tl)
    ctx.log("M3: %d traces / %d events validated, %d replies rejected" % (len(tl), nevents, len(rejected)))
    known = {f["id"]: f for f in ctx.load_known()}
    hits, reported = {}, set()
    for (ti, line, ev, want) in rejected:
        sid = order[ti]
        c = cases[sid // 2]
        eng = ev.get("eng")
        items = bad_items(ev, want)
        keys = case_keys(c)
        unexplained = [it for it in items if not (eng == "art" and ev["e"] in ("Search", "Iter", "Seek") and art_witness(keys, it[1]))]
        fid = "C07-art-prefix-order"
        if not unexplained and fid in known:
            if fid not in hits:
                ex = items[0]
                ctx.known_finding("%s: %s (e.g. case %d [%s] inserts %s: %s %s)" % (
                    fid, known[fid]["what"], c["id"], meta[c["id"]], json.dumps(keys[:4]), ex[0], json.dumps(ex[1]) if ex[1] else ""))
            hits[fid] = hits.get(fid, 0) + 1
        elif sid not in reported:
            reported.add(sid)
            rp = ctx.save_replay("violation-%d.json" % sid, {"case": c, "engine": eng, "origin": meta[c["id"]], "rejected_line": line,
                                                             "event": ev, "expected": want, "not_explained_by_known_findings": unexplained[:5] or items[:5]})
            ctx.violation(rp, "%s answers differ from the ordered map: %s (case %d, %s)" % (eng, (unexplained or items)[0][0], c["id"], meta[c["id"]]))
    # ------------------------------------------------------------------ negative control
    bad_traces = {r[0] for r in rejected}
    ctl = ctl2 = None
    for ti, t in enumerate(tl):
        if ti in bad_traces:
            continue
        for i, e in enumerate(t):
            if ctl is None and e["e"] == "Search" and any(r != "" for r in e["rs"]):
                ctl = [dict(x) for x in t]
                rs = list(e["rs"]); j = max(i2 for i2, r in enumerate(rs) if r != ""); rs[j] = "zz-corrupted"
                ctl[i]["rs"] = rs
            if ctl2 is None and e["e"] == "Iter" and len(e["out"]) >= 2:
                ctl2 = [dict(x) for x in t]
                ctl2[i]["out"] = [e["out"][1], e["out"][0]] + e["out"][2:]
        if ctl and ctl2:
            break
    if (ctl is None or ctl2 is None) and not ctx.violations:
        raise Undecided("no accepted trace with a successful Search and a two-entry iteration: the driver is not exercising the engines")
    for name, c in (("search reply", ctl), ("iteration order", ctl2)):
        if c is not None and not ctx.validate_traces("MemIndexPropTrace", "MemIndexPropTrace.cfg", [c]):
            raise Undecided("negative control accepted: the trace specification does not bind the %s" % name)
    # ------------------------------------------------------------------ evidence
    def nontrivial(c):
        ks = case_keys(c)
        distinct = {(k["cf"], tuple(k["k"]), k["ver"]) for k in ks}
        users = {(k["cf"], tuple(k["k"])) for k in ks}
        return len(distinct) >= 2 and (has_prefix_pair(ks) or len(users) < len(distinct) or len(distinct) < len(ks))
    dn = {json.dumps([case_keys(c), c["arena"], len(c.get("threads", []))]) for c in cases if nontrivial(c)}
    kinds = {}
    for c in cases:
        k = meta[c["id"]]
        kinds[k] = kinds.get(k, 0) + 1
    sample = cases[0]
    ctx.evidence("model_checking", {
        "states": sum(r.distinct for _, r in m1), "transitions": sum(r.generated for _, r in m1),
        "traces_validated_against_impl": len(tl), "evaluations": len(cases),
        "distinct_nontrivial": len(dn),
        "rule": "cases = insert sequences printed by TLC from MemIndex.tla (exhaustive over the small universes, -simulate over the large one) "
                "plus seeded large multisets and concurrent-insert cases; each runs on utils.Skiplist AND utils.ART; distinct by (key sequence, arena, threads); "
                "non-trivial = at least 2 distinct internal keys and (two prefix-related user keys, or several versions of one user key, or an overwrite)",
        "samples": [{"case": {k: v for k, v in sample.items()}, "origin": meta[sample["id"]], "skiplist_trace": tl[0][:4]},
                    {"origin": meta[cases[-1]["id"]], "threads": len(cases[-1].get("threads", [])), "inserts": len(case_keys(cases[-1])), "first_inserts": case_keys(cases[-1])[:5]}],
        "m1": [{"cfg": cfg, "generated": r.generated, "distinct": r.distinct, "depth": r.depth} for cfg, r in m1],
        "m1_asis_counterexample_RadixOK": asis,
        "generators": gen_stats, "case_origins": kinds, "events_validated": nevents,
        "replies_rejected": len(rejected), "known_finding_hits": hits, "negative_control": "rejected as required (search reply, iteration order)",
        "checker_cmd": "tlc -config MC_MemIndex.cfg MemIndex.tla ; tlc -config MemIndexPropTrace.cfg MemIndexPropTrace.tla",
    }, assumptions=[
        "TLC results hold for the universes in spec/MemIndex/*.cfg; larger key sets are covered by seeded sampling only",
        "concurrent inserts are free-running goroutines (no controlled interleaving): the observed final state is judged, schedules are not enumerated",
        "values larger than one arena chunk are out of scope (Arena asserts sz <= chunkSize)",
    ])


if __name__ == "__main__":
    main(run, "MemIndex")
