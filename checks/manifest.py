#!/usr/bin/env python3
"""Manifest family: C15 (manifest reload equals in-memory state across rewrites and crashes).
See DESIGN.md section 5 (C15) and docs/design.d/manifest.md.

M1  TLC exhaustively checks spec/Manifest/Manifest.tla: apply for all edit kinds, writeSnapshot,
    the rewrite protocol and Verify+Open, with a crash between any two file operations and inside
    writes: Replay(Snapshot(v)) = v for every reachable version, reload = in-memory state, every
    crash image opens to an allowed prefix.
M2  TLC -simulate generates behaviours of that spec (LogEdits batches, rewrites, clean reopens,
    crashes at named protocol points); harness/cmd/manifest executes them on a real
    manifest.Manager over the repo's FaultFS, taking a crash image before every file operation
    (plus torn-write images) and opening each image with a fresh manager.
M3  the recorded events are validated by TLC against spec/Manifest/ManifestPropTrace.tla.
"""
import json, os, sys, re, subprocess, hashlib
sys.path.insert(0, os.path.join(os.path.dirname(os.path.abspath(__file__)), "..", "lib"))
from vlib import *


def fastdir(ctx, name):
    """Driver work directory on tmpfs when available (the WAL / manifest code fsyncs on every
    step; on the disk-backed scratch that dominates the run). Removed at exit."""
    import atexit, shutil, tempfile
    base = "/dev/shm" if os.path.isdir("/dev/shm") and os.access("/dev/shm", os.W_OK) else ctx.scratch
    d = tempfile.mkdtemp(prefix="verif-%s-%s-" % (ctx.pid, name), dir=base)
    atexit.register(shutil.rmtree, d, True)
    return d

MODES = ["off", "1", "256", "sched"]


def gen_hists(ctx, cfg, num, seed):
    r = ctx.tlc_or_undecided("Manifest", cfg, workers=1, simulate="num=%d" % num, depth=120, seed=seed, timeout=600)
    seen, out = set(), []
    for m in re.finditer(r'<<"SCHED", "(.*)">>', r.out):
        s = m.group(1).encode().decode("unicode_escape")
        if s in seen:
            continue
        seen.add(s)
        out.append(json.loads(s))
    # keep maximal histories only (a history is printed again after a trailing crash/reopen)
    js = [json.dumps(h) for h in out]
    keep = [h for h, j in zip(out, js) if not any(o != j and o.startswith(j[:-1] + ",") for o in js)]
    return keep


def to_items(hist):
    items = []
    for h in hist:
        if h["op"] == "Edits":
            items.append({"op": "Edits", "edits": h["edits"], "rw": False})
        elif h["op"] == "Rewrite":
            if items and items[-1]["op"] == "Edits":
                items[-1]["rw"] = True
        elif h["op"] == "Reopen":
            items.append({"op": "Reopen"})
        elif h["op"] == "Crash":
            items.append({"op": "Crash", "at": h["at"], "k": h.get("k", 0), "t": bool(h.get("t", False))})
    return items


def project(ev):
    e = ev["e"]
    if e == "Issue":
        return {"e": e, "states": ev["states"]}
    if e == "Ack":
        return {"e": e, "ok": ev["ok"]}
    return {"e": e, "ok": ev["ok"], "state": ev["state"]}


def bag(state):
    return {k: sorted(v) for k, v in state.items()}


def run_driver(ctx, scheds):
    binp = ctx.build("manifest")
    procs = []
    for part in chunks(scheds, ctx.workers):
        if not part:
            continue
        d = ctx.mkdtemp("drv")
        work = fastdir(ctx, "drv")
        inp, outp = os.path.join(d, "in.ndjson"), os.path.join(d, "out.ndjson")
        with open(inp, "w") as fh:
            for s in part:
                fh.write(json.dumps(s) + "\n")
        p = subprocess.Popen([binp, "-in", inp, "-out", outp, "-dir", work], stdout=subprocess.PIPE, stderr=subprocess.STDOUT, text=True)
        procs.append((p, outp))
    traces = {}
    for p, outp in procs:
        try:
            out, _ = p.communicate(timeout=1500)
        except subprocess.TimeoutExpired:
            p.kill()
            raise Undecided("manifest driver timed out")
        if p.returncode != 0:
            raise Undecided("manifest driver failed (%d): %s" % (p.returncode, out[-3000:]))
        for line in open(outp):
            ev = json.loads(line)
            traces.setdefault(ev["s"], []).append(ev)
    return traces


def run(ctx):
    quick = ctx.tier == "quick"
    # ---------------------------------------------------------------- M1
    m1 = []
    for cfg in (["MC_Manifest_quick.cfg"] if quick else ["MC_Manifest.cfg", "MC_ManifestRT.cfg"]):
        r = ctx.tlc_or_undecided("Manifest", cfg, timeout=1700, coverage=(not quick and cfg == "MC_Manifest.cfg"))
        if r.violated:
            raise Undecided("M1: Manifest.tla violates %s under %s: the specification (design layer) needs attention\n%s" % (r.violated, cfg, r.out[-2500:]))
        if not r.ok:
            raise Undecided("M1: TLC did not finish %s:\n%s" % (cfg, r.out[-2000:]))
        ctx.log("M1 %s: %d generated, %d distinct, depth %d (%.0fs)" % (cfg, r.generated, r.distinct, r.depth, r.wall))
        m1.append((cfg, r))
    # ---------------------------------------------------------------- M2
    hists = gen_hists(ctx, "Gen_Manifest.cfg", 50 if quick else 250, ctx.seed * 7919 + 1)
    ctx.rng.shuffle(hists)
    scheds = []
    for i, h in enumerate(hists):
        items = to_items(h)
        combos = [(MODES[(i + ctx.seed) % 4], 0 if i % 2 == 0 else ctx.seed * 1000 + i)] if quick else \
                 [(m, v) for m in MODES for v in (0, ctx.seed * 1000 + i)]
        for mode, vseed in combos:
            torn = 6 if quick else (-1 if vseed == 0 else 16)
            scheds.append({"id": len(scheds), "mode": mode, "vseed": vseed, "torn": torn, "items": items})
    # multi-crash schedules: a crash inside a rewrite (new MANIFEST-n created / partly / fully written, CURRENT not yet
    # replaced), reopen, edits that shrink the version, a second rewrite, one more edit, reload.  Random TLC behaviours
    # reach this shape too rarely, so it is generated directly over the same edit alphabet.
    def E(t, a=0, f=0, x=0, b=False):
        return {"t": t, "a": a, "f": f, "x": x, "b": b}
    crash_points = [("rw_snap", 0), ("rw_ren", 0), ("rw_torn", 0), ("rw_snap", 3)]
    for k in range(4 if quick else 24):
        rng = ctx.rng
        lv = rng.choice([0, 1])
        grow = [[E("AddFile", lv, 1, rng.choice([1, 2])), E("AddFile", lv, 2, rng.choice([1, 2]))],
                [E("Region", rng.choice([1, 2]), 0, 2), E("VHead", rng.choice([0, 1]), 1, 5, True)],
                [E("Raft", 1, 0, 2), E("AddFile", 1 - lv, 1, 2)]]
        shrink = [[E("DelFile", lv, 1), E("DelFile", lv, 2)], [E("RegionDel", 1, 0, 0, True), E("RegionDel", 2, 0, 0, True)],
                  [E("DelFile", 1 - lv, 1), E("LogPtr", 0, 0, 1)]]
        at, kk = crash_points[(k + ctx.seed) % len(crash_points)]
        items = [{"op": "Edits", "edits": grow[0], "rw": False}, {"op": "Edits", "edits": grow[1], "rw": False},
                 {"op": "Edits", "edits": grow[2], "rw": True}, {"op": "Crash", "at": at, "k": kk, "t": at == "rw_torn"},
                 {"op": "Edits", "edits": shrink[0], "rw": False}, {"op": "Edits", "edits": shrink[1], "rw": False},
                 {"op": "Edits", "edits": shrink[2], "rw": True},
                 {"op": "Edits", "edits": [E("LogPtr", 0, 0, 2)], "rw": False}, {"op": "Reopen"},
                 {"op": "Edits", "edits": [E("AddFile", lv, 1, 1)], "rw": k % 2 == 0},
                 {"op": "Crash", "at": "rw_ren", "k": 0, "t": False},
                 {"op": "Edits", "edits": [E("DelFile", lv, 1), E("Raft", 1, 0, 1)], "rw": True}, {"op": "Reopen"}]
        scheds.append({"id": len(scheds), "mode": "sched", "vseed": 0 if k % 2 == 0 else ctx.seed * 1000 + 500 + k,
                       "torn": 3 if quick else 12, "items": items, "directed": "multi-crash"})
    # fixed regression schedules (repaired defects stay in the schedule set)
    for rp in json.load(open(os.path.join(VERIF, "findings", "manifest_replays.json"))):
        for mode in ("1", "sched"):
            scheds.append({"id": len(scheds), "mode": mode, "vseed": 0, "torn": 4, "items": rp["items"], "replay": rp["id"]})
    ctx.log("M2: %d TLC behaviours -> %d schedules" % (len(hists), len(scheds)))
    traces = run_driver(ctx, scheds)
    order = sorted(traces)
    if len(order) != len(scheds):
        raise Undecided("driver returned %d of %d schedules" % (len(order), len(scheds)))
    # the reference (shadow manager, one edit at a time) and the manager under test must agree on the
    # in-memory state after every call; otherwise the reference is unusable (not a verdict)
    for s in order:
        last = None
        for ev in traces[s]:
            if ev["e"] == "Issue":
                last = ev["states"][-1]
            elif ev["e"] == "Ack" and last is not None and bag(ev["state"]) != bag(last):
                raise Undecided("schedule %d: in-memory state of the manager under test differs from the reference manager's: %s vs %s"
                                % (s, json.dumps(ev["state"])[:400], json.dumps(last)[:400]))
    tl = [[project(e) for e in traces[s] if e["e"] != "Note"] for s in order]
    raw = [[e for e in traces[s] if e["e"] != "Note"] for s in order]
    # ---------------------------------------------------------------- M3
    rejected = ctx.validate_traces("ManifestPropTrace", "ManifestPropTrace.cfg", tl, timeout=1500)
    nevents = sum(len(t) for t in tl)
    ctx.log("M3: %d traces / %d events validated, %d rejected" % (len(tl), nevents, len(rejected)))
    reported = set()
    for (ti, line, pev, want) in rejected:
        sid = order[ti]
        if sid in reported:
            continue
        reported.add(sid)
        ev = raw[ti][line]
        rp = ctx.save_replay("violation-%d.json" % sid, {"schedule": scheds[sid], "rejected_line": line, "event": ev, "expected": want,
                                                         "trace": raw[ti][max(0, line - 12):line + 1]})
        what = {"Reload": "state reloaded after a clean close differs from the in-memory state",
                "Crash": "crash image (before %s %s %s) %s" % (ev.get("op"), ev.get("path"), ev.get("note", ""),
                                                               "does not open: " + ev.get("err", "") if not ev.get("ok") else
                                                               "opens to a state that is not the state after any allowed prefix of the edits"),
                "Recover": "manager continued from a crash image in a state outside the allowed prefixes",
                "Open": "opening an empty directory failed"}.get(ev["e"], "event not explained by the property layer")
        ctx.violation(rp, "%s: got %s expected %s" % (what, json.dumps(ev.get("state"))[:300], want))
    # ------------------------------------------------------- binding self-test
    ctl_reload = ctl_crash = None
    for t in tl:
        for i, e in enumerate(t):
            if e["e"] == "Reload" and e["ok"] and any(e["state"][k] for k in ("lv", "vl", "rp", "rg")) and ctl_reload is None:
                c = [json.loads(json.dumps(x)) for x in t]
                k = [k for k in ("lv", "vl", "rp", "rg") if c[i]["state"][k]][0]
                c[i]["state"][k] = c[i]["state"][k][1:]
                ctl_reload = c
            if e["e"] == "Crash" and e["ok"] and ctl_crash is None and i > 3:
                c = [json.loads(json.dumps(x)) for x in t]
                c[i]["state"]["log"] = ["4242:4242"]
                ctl_crash = c
    if ctl_reload is None or ctl_crash is None:
        raise Undecided("no trace with a non-empty reload / crash image: driver is not exercising the manifest")
    rej = ctx.validate_traces("ManifestPropTrace", "ManifestPropTrace.cfg", [ctl_reload, ctl_crash])
    for name, idx in (("reload", 0), ("crash", 1)):
        if not any(r[0] == idx for r in rej):
            raise Undecided("negative control (%s) accepted: the trace specification does not bind recovered states" % name)
    # -------------------------------------------------------------- evidence
    images = nontrivial = 0
    distinct = set()
    ops = {}
    for s in order:
        pending = False
        for e in traces[s]:
            if e["e"] == "Issue":
                pending = True
            elif e["e"] == "Ack":
                pending = False
            elif e["e"] == "Crash":
                images += 1
                ops[e["op"]] = ops.get(e["op"], 0) + 1
                if pending:
                    nontrivial += 1
                    distinct.add(hashlib.sha1((json.dumps(e["state"], sort_keys=True) + e["op"] + e["path"] + json.dumps(scheds[s]["items"])).encode()).hexdigest())
    big = m1[0][1]
    ctx.evidence("model_checking", {
        "states": sum(r.distinct for _, r in m1), "transitions": sum(r.generated for _, r in m1),
        "traces_validated_against_impl": len(tl), "evaluations": images, "distinct_nontrivial": len(distinct),
        "rule": "behaviours of Manifest.tla produced by TLC -simulate, executed on a real manifest.Manager under rewrite thresholds "
                "{off, 1 B, 256 B, per-call as in the behaviour} and plain / boundary field values; evaluations = crash images opened by a "
                "fresh manager (one per mutating file operation + torn writes); non-trivial = image taken while a LogEdits call was in "
                "flight, distinct by (schedule items, operation, file, recovered state)",
        "samples": [{"schedule": scheds[order[0]], "first_events": raw[0][:8]}],
        "m1": [{"cfg": c, "generated": r.generated, "distinct": r.distinct, "depth": r.depth, "coverage_zero": r.coverage_zero} for c, r in m1],
        "events_validated": nevents, "crash_images": images, "crash_images_in_flight": nontrivial, "image_ops": ops,
        "rejected": len(rejected), "negative_control": "reload and crash controls rejected as required",
        "checker_cmd": "tlc -config %s Manifest.tla ; tlc -config ManifestPropTrace.cfg ManifestPropTrace.tla" % m1[0][0],
    }, assumptions=[
        "process crash: bytes written before the crash survive (power loss of unsynced data is out of scope, DESIGN.md section 9)",
        "a file id is not added twice to one level (the engine allocates unique file ids)",
        "state after a prefix of the edits = Current() of a real reference manager that applied those edits one at a time",
        "TLC results hold for the constants in the cfg files",
    ])


if __name__ == "__main__":
    main(run, "Manifest")
