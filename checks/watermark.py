#!/usr/bin/env python3
"""WaterMark family: C32 (the watermark never passes an unfinished index).  DESIGN.md section 5,
docs/design.d/watermark.md.

M1  TLC exhaustively checks spec/WaterMark/WaterMarkImpl.tla (PlusCal, one label per atomic
    load/store/CAS/Add of utils/watermarker.go): MC_serial*.cfg = the safe envelope (Begins
    serialised by the caller, no window rebuild) must satisfy the property; MC_witness*.cfg = outside
    the envelope the property may fail only together with a recorded witness.  The expected-red
    configurations (MC_asis*.cfg, MC_prefix.cfg) yield counterexample schedules.
M2  TLC enumerates schedules (sequences of thread ids) of the same spec: every interleaving with at
    most k pre-emptions for two threads, bounded pre-emption + random simulation for three; each is
    replayed on a real utils.WaterMark by harness/cmd/watermark under the cooperative scheduler
    (harness/internal/sched); so are the counterexamples of the expected-red configurations.
M3  the recorded abstract events are validated by TLC against spec/WaterMark/WaterMarkPropTrace.tla.
"""
import json, os, sys, re, subprocess
from concurrent.futures import ThreadPoolExecutor
sys.path.insert(0, os.path.join(os.path.dirname(os.path.abspath(__file__)), "..", "lib"))
from vlib import *

FAM = "WaterMark"
MAXI = 5


# ------------------------------------------------------------------ scenarios (constants of the spec)
def B(*idx):
    return {"op": "Begin", "is": list(idx), "n": 0}


def D(*idx):
    return {"op": "Done", "is": list(idx), "n": 0}


def Wt(i):
    return {"op": "Wait", "is": [i], "n": 0}


def BN(n):
    return {"op": "BeginNext", "is": [], "n": n}


DMINE = {"op": "DoneMine", "is": [], "n": 0}
TXB, TXC, TXR = ({"op": o, "is": [], "n": 0} for o in ("TxBegin", "TxCommit", "TxRead"))


def scen(w, *progs):
    return {"w": w, "progs": [list(p) for p in progs]}


def tla_op(o):
    seq = "<<%s>>" % ", ".join(str(i) for i in o["is"])
    return {"Begin": "BM(%s)" % seq, "Done": "DM(%s)" % seq, "Wait": "Wt(%d)" % (o["is"] or [0])[0],
            "BeginNext": "BN(%d)" % o["n"], "DoneMine": "DMine", "TxBegin": "TxB", "TxCommit": "TxC", "TxRead": "TxR"}[o["op"]]


def tla_scen(s):
    return "[w |-> %d, progs |-> << %s >>]" % (
        s["w"], ", ".join("<<%s>>" % ", ".join(tla_op(o) for o in p) for p in s["progs"]))


def in_envelope(s):
    """Begins only through the caller's lock (increasing indices) and a window that never needs a
    rebuild: the usage for which MC_serial*.cfg proves the property.  No recorded finding applies."""
    total = sum(o["n"] for p in s["progs"] for o in p if o["op"] == "BeginNext")
    free = any(o["op"] == "Begin" for p in s["progs"] for o in p)
    waits = [o["is"][0] for p in s["progs"] for o in p if o["op"] == "Wait"]
    return not free and s["w"] >= max([total] + waits)


def scenarios2(rng, quick):
    base = [
        scen(4, [BN(1), DMINE], [BN(1), DMINE]),
        scen(4, [BN(1), DMINE, BN(1), DMINE], [BN(1), DMINE, Wt(2)]),
        scen(4, [BN(2), DMINE], [BN(1), DMINE]),
        scen(2, [BN(1), DMINE, BN(1), DMINE], [BN(1), DMINE]),
        scen(2, [BN(1), DMINE], [BN(3), DMINE]),
        scen(2, [B(1), D(1)], [B(2), D(2)]),
        scen(2, [B(1), D(1)], [B(3), D(3)]),
        scen(2, [B(1, 2), D(1, 2)], [B(3), Wt(2)]),
        # both Begins beyond the window: two threads in ensureWindow / rebuildWindowLocked at the same time
        scen(2, [B(3)], [B(4)]),
        scen(2, [B(3), D(3)], [B(1), B(4)]),
    ]
    # seeded variation: one more scenario inside the envelope, one outside
    n1, n2 = rng.choice([(1, 2), (2, 1), (2, 2), (1, 3)])
    base.append(scen(n1 + n2 + rng.choice([0, 1]), [BN(n1), DMINE], [Wt(rng.randint(1, n1 + n2)), BN(n2), DMINE]))
    a, b = rng.sample([1, 2, 3, 4], 2)
    base.append(scen(rng.choice([2, 4]), [B(a), Wt(min(a, b)), D(a)], [B(b), D(b)]))
    return base


def scenarios3(rng, quick):
    base = [
        scen(4, [BN(1), DMINE], [BN(1), DMINE], [Wt(2)]),
        scen(4, [BN(1), DMINE], [BN(2), DMINE], [Wt(1), Wt(3)]),
        scen(2, [BN(1), DMINE], [BN(1), DMINE], [BN(1), DMINE]),
        scen(2, [B(1), D(1)], [B(2), D(2)], [B(3), D(3)]),
        scen(2, [B(1), D(1)], [B(3), D(3)], [Wt(1), Wt(3)]),
    ]
    n = rng.choice([1, 2])
    base.append(scen(4, [BN(n), DMINE, Wt(n)], [BN(1), DMINE], [BN(1), DMINE, Wt(n + 2)]))
    return base


# ------------------------------------------------------------------ TLC helpers
LABELS = ["op", "xlock", "last_load", "last_cas", "win_load", "win_lock", "rb_done", "rb_copy", "rb_store",
          "add_slot", "adv_done", "adv_last", "adv_win", "adv_slot", "adv_cas", "notify_lock",
          "wait_fast", "wait_lock", "wait_park",
          "r_next", "r_last", "r_begun", "c_lock", "c_ts", "c_begun", "c_done", "c_assigned"]     # WaterMarkImpl.tla Labels


def parse_json_lines(out, tag):
    """SCHED / CEX lines: {w, progs, hist} with hist entries 32 * thread + label index."""
    seen, res = set(), []
    for m in re.finditer(r'<<"%s", "(.*)">>' % tag, out):
        s = m.group(1).encode().decode("unicode_escape")
        if s not in seen:
            seen.add(s)
            g = json.loads(s)
            g["hist"] = [{"t": h // 32, "at": LABELS[h % 32 - 1]} for h in g["hist"]]
            res.append(g)
    return res


def gen_schedules(ctx, name, nthreads, scens, preempt, simulate=None, seed=None, workers=2, timeout=1200):
    d = ctx._specdir()
    mod = "GenScen_" + name
    with open(os.path.join(d, mod + ".tla"), "w") as fh:
        fh.write("---- MODULE %s ----\nEXTENDS WaterMarkImpl\nGS == {\n  %s }\n====\n" % (mod, ",\n  ".join(tla_scen(s) for s in scens)))
    with open(os.path.join(d, mod + ".cfg"), "w") as fh:
        fh.write("SPECIFICATION SpecH\nCONSTANTS\n N = %d\n MaxI = %d\n Scenarios <- GS\n CountFirst = TRUE\n MaxPreempt = %d\n Emit = TRUE\n"
                 "INVARIANT EmitHist\nCHECK_DEADLOCK FALSE\n" % (nthreads, MAXI, preempt))
    r = ctx.tlc_or_undecided(mod, mod + ".cfg", workers=1 if simulate else workers, simulate=simulate,
                             depth=600 if simulate else None, seed=seed, timeout=timeout, heap="3g")
    if r.violated or not r.ok:
        raise Undecided("schedule generation %s did not complete (rc %s, %s):\n%s" % (name, r.rc, r.violated, r.out[-2000:]))
    return parse_json_lines(r.out, "SCHED"), r


TXN_LABELS = {"txn.read.next": "r_next", "txn.read.last": "r_last", "txn.read.begun": "r_begun", "txn.commit.lock": "c_lock",
              "txn.commit.ts": "c_ts", "txn.commit.begun": "c_begun", "txn.commit.done": "c_done", "txn.commit.assigned": "c_assigned"}


def thin(ctx, scheds, cap, thinnable):
    """Keep at most cap schedules; only the named (large, exhaustive-in-depth) generators are sampled,
    the small ones (every <= 1-pre-emption interleaving, random walks) are always kept whole."""
    if len(scheds) > cap:
        fixed = [s for s in scheds if s["src"] not in thinnable]
        pool = [s for s in scheds if s["src"] in thinnable]
        n = max(0, cap - len(fixed))
        pool = [pool[i] for i in sorted(ctx.rng.sample(range(len(pool)), min(n, len(pool))))]
        scheds = fixed + pool
    for i, s in enumerate(scheds):
        s["id"] = i
    return scheds


def runlength_schedules(generated):
    """Bounded pre-emption in run-length form, independent of the code's step structure: for every
    scenario, every order (a, b, c) of its threads and every j: a runs j steps, then b as long as it
    can, then c, then a again (entries of a finished or blocked thread are skipped by the driver, the
    tail completes the rest).  j ranges over the step counts TLC's schedules show for thread a, so a
    change that moves a call (and thereby shortens or lengthens a thread's path to a yield point)
    still gets every single-pre-emption position of the real code."""
    import itertools
    per = {}
    for g in generated:
        key = json.dumps({"w": g["w"], "progs": g["progs"]}, sort_keys=True)
        cnt = {}
        for h in g["hist"]:
            cnt[h["t"]] = cnt.get(h["t"], 0) + 1
        cur = per.setdefault(key, {})
        for t, c in cnt.items():
            cur[t] = max(cur.get(t, 0), c)
    out = []
    for key, steps in per.items():
        sc = json.loads(key)
        n = len(sc["progs"])
        big = max(steps.values()) + 10
        for order in itertools.permutations(range(1, n + 1)):
            a = order[0]
            for j in range(1, steps.get(a, 0) + 6):
                sched = [a] * j
                for b in order[1:]:
                    sched += [b] * big
                sched += [a] * big
                out.append((sc, sched))
    return out


def label_of(point):
    if point == "x.lock":
        return "xlock"
    if point in TXN_LABELS:
        return TXN_LABELS[point]
    if point.startswith("wm."):
        return point[3:].replace(".", "_")
    return point


# ------------------------------------------------------------------ driver
def run_driver(ctx, scheds, cmd="watermark"):
    """Run schedules on the real code, one process per shard. Returns {sid: [events]}."""
    binp = ctx.build(cmd)
    procs = []
    for part in chunks(scheds, ctx.workers):
        if not part:
            continue
        d = ctx.mkdtemp("drv")
        inp, outp = os.path.join(d, "in.ndjson"), os.path.join(d, "out.ndjson")
        with open(inp, "w") as fh:
            for s in part:
                fh.write(json.dumps({k: s[k] for k in ("id", "w", "progs", "sched", "tail")}) + "\n")
        p = subprocess.Popen([binp, "-in", inp, "-out", outp] + (["-dir", d] if cmd != "watermark" else []),
                             stdout=subprocess.PIPE, stderr=subprocess.STDOUT, text=True)
        procs.append((p, outp))
    traces = {}
    for p, outp in procs:
        try:
            out, _ = p.communicate(timeout=1800)
        except subprocess.TimeoutExpired:
            p.kill()
            raise Undecided("%s driver timed out" % cmd)
        if p.returncode != 0:
            raise Undecided("%s driver failed (%d): %s" % (cmd, p.returncode, out[-3000:]))
        with open(outp) as fh:
            for line in fh:
                ev = json.loads(line)
                traces.setdefault(ev["s"], []).append(ev)
        os.unlink(outp)
    return traces


def project(evs):
    """Abstract events for the property layer (+ index of the raw event each came from).  An
    observation that repeats the previous mark while no Begin has returned since is redundant for
    the property (same mark, pending set not larger) and is dropped."""
    out, raw, last_d, grew = [], [], None, False
    for n, e in enumerate(evs):
        k = e["e"]
        if k in ("BeginRet", "DoneCall"):     # BeginCall carries no obligation: not sent to the validator
            out.append({"e": k, "is": e["is"]}); raw.append(n)
            grew = grew or k == "BeginRet"
        elif k == "WaitRet":
            out.append({"e": "WaitRet", "i": e["i"]}); raw.append(n)
        elif k == "Step":
            if e["d"] != last_d or grew:
                out.append({"e": "Observe", "d": e["d"]}); raw.append(n)
                last_d, grew = e["d"], False
    return out, raw


# ------------------------------------------------------------------ witnesses of the recorded findings
def witnesses(evs):
    """Implementation-level facts used ONLY to tell recorded findings from new violations
    (WaterMarkImpl.tla: late, raced).
      late[i]  : Begin counted index i (or dropped it as below the window) after a tryAdvance had
                 already examined slot i and found it empty, and this Begin call had not itself
                 published lastIndex before counting
                 (i.e. lastIndex >= i came from another, concurrent or out-of-order Begin).
      raced[i] : Begin's slot Add for i landed on a window that was replaced after the thread loaded
                 it, or on a slot a concurrent rebuildWindowLocked had already copied; or tryAdvance
                 read slot i (as empty) from a window that was replaced after it loaded it."""
    examined, late, raced, stores, th = set(), set(), set(), [], {}

    def st(t):
        return th.setdefault(t, {"kind": None, "pub": False, "adding": False, "acq": -1, "rb": None, "counted": set()})
    for n, e in enumerate(evs):
        k = e["e"]
        if k in ("BeginCall", "DoneCall", "WaitCall"):
            s = st(e["t"]); s["kind"], s["pub"], s["adding"], s["counted"] = k[:-4], False, False, set()
        elif k == "BeginRet":
            # an index below the (rebuilt) window is dropped by addIndex without any Add
            s = st(e["t"])
            for i in e["is"]:
                if i not in s["counted"] and i in examined and not s["pub"]:
                    late.add(i)
        elif k == "Step":
            s, f, fa = st(e["t"]), e["from"], e["fa"]
            if f in ("wm.last.load", "wm.last.cas") and s["kind"] == "Begin":
                # publication BEFORE the call's first addIndex (the order of the code as found)
                s["pub"] = s["pub"] or not s["adding"]
            elif f == "wm.win.load" and not s["adding"]:
                s["adding"], s["acq"] = True, n
            elif f == "wm.adv.slot" and e["to"] == "wm.adv.cas":
                examined.add(fa[0])
                if any(sn > s["acq"] and stt != e["t"] for sn, stt in stores):
                    raced.add(fa[0])   # tryAdvance read the slot from a window replaced since it loaded it
            elif f in ("wm.win.load", "wm.win.lock", "wm.adv.win"):
                s["acq"] = n
            elif f == "wm.rb.done":
                s["rb"] = set()
            elif f == "wm.rb.copy" and s["rb"] is not None:
                s["rb"].add(fa[0])
            elif f == "wm.rb.store":
                stores.append((n, e["t"])); s["rb"] = None; s["acq"] = n
            elif f == "wm.add.slot" and s["kind"] == "Begin":
                i = fa[0]
                s["counted"].add(i)
                if i in examined and not s["pub"]:
                    late.add(i)
                stale = any(sn > s["acq"] and stt != e["t"] for sn, stt in stores)
                copied = any(t != e["t"] and o["rb"] is not None and i in o["rb"] for t, o in th.items())
                if stale or copied:
                    raced.add(i)
    return late, raced


def passed_indices(pev, want):
    """Pending indices the rejected event contradicts, from the property layer's own report."""
    m = re.search(r'\{([^}]*)\}', want or "")
    pend = [int(x) for x in re.findall(r'\d+', m.group(1))] if m else []
    if pev["e"] == "Observe":
        return [i for i in pend if i <= pev["d"]]
    if pev["e"] == "WaitRet":
        return [i for i in pend if i <= pev["i"]]
    return []


def classify(sc, evs, pev, want):
    """-> finding id or None (= new violation)."""
    if want is None or "decreased" in want or in_envelope(sc):
        return None
    idx = passed_indices(pev, want)
    if not idx:
        return None
    late, raced = witnesses(evs)
    ids = set()
    for i in idx:
        if i in raced:
            ids.add("C32-window-race")
        elif i in late:
            ids.add("C32-late-begin")
        else:
            return None
    return sorted(ids)[0] if len(ids) == 1 else "C32-window-race"


def nontrivial(evs):
    """Some step is taken by a thread while another thread is parked inside a WaterMark call."""
    at = {}
    for e in evs:
        if e["e"] == "Step":
            if any(t != e["t"] and p.startswith("wm.") for t, p in at.items()):
                return True
            at[e["t"]] = e["to"]
    return False


# ------------------------------------------------------------------ C05: the oracle over the watermark
def scenarios_txn(rng):
    two = [scen(4, [TXB, TXC, TXB, TXC], [TXB, TXR, TXR]),
           scen(4, [TXB, TXC], [TXB, TXC, TXB, TXR]),
           scen(4, [TXB, TXC, TXB, TXR], [TXB, TXR, TXB, TXC])]
    three = [scen(4, [TXB, TXC], [TXB, TXC], [TXB, TXR, TXR]),
             scen(4, [TXB, TXC], [TXB, TXC, TXB, TXR], [TXB, TXR, TXB, TXR])]
    extra = rng.choice([[TXB, TXR, TXB, TXR, TXR], [TXB, TXC, TXB, TXR, TXR], [TXB, TXR, TXR, TXB, TXC]])
    three.append(scen(4, [TXB, TXC], [TXB, TXC], extra))
    return two, three


def project_txn(evs):
    """History first (it describes all commits that ever succeeded), then the begin/read/commit events in order."""
    out, raw = [], []
    # the DB is reused by consecutive schedules: timestamps are shifted so that each trace starts at 0
    # (the property is invariant under the shift; identical traces can then be validated once)
    lo = min([e["lo"] for e in evs if e["e"] == "History"] or [0])
    for n, e in enumerate(evs):
        if e["e"] == "History":
            out.append({"e": "History", "k": e["k"], "lo": e["lo"] - lo, "vals": e["vals"]}); raw.append(n)
    for n, e in enumerate(evs):
        if e["e"] == "TxBegin":
            out.append({"e": "TxBegin", "t": e["t"], "r": e["r"] - lo}); raw.append(n)
        elif e["e"] == "TxRead":
            out.append({"e": "TxRead", "t": e["t"], "k": e["k"], "v": e["v"]}); raw.append(n)
        elif e["e"] == "TxCommit":
            out.append({"e": "TxCommit", "t": e["t"], "tok": e["tok"], "ok": e["ok"], "ks": e["ks"]}); raw.append(n)
    return out, raw


def run_c05(ctx):
    pid, quick = ctx.pid, ctx.tier == "quick"
    ctx._specdir()
    ctx.build("txnoracle")
    pool = ThreadPoolExecutor(max_workers=16)   # one slot per TLC run; CPU use is bounded by the -workers given to each
    gating = ["MC_txn2.cfg", "MC_txn3.cfg"]
    fut_m1 = {c: pool.submit(ctx.tlc_or_undecided, "WaterMarkImpl", c, workers=max(1, ctx.workers // 3), timeout=1800, coverage=not quick, heap="3g")
              for c in gating}
    fut_red = None if quick else pool.submit(ctx.tlc_or_undecided, "WaterMarkImpl", "MC_txn_prefix.cfg", workers=1, timeout=600, heap="1g")
    two, three = scenarios_txn(ctx.rng)
    nsim = 300 if quick else 4000
    plan = [("t2", 2, two[:2] if quick else two, 2 if quick else 3, None), ("t3", 3, three, 1 if quick else 2, None),
            ("tsim2", 2, two, 1000, nsim), ("tsim3", 3, three, 1000, nsim)]
    if not quick:
        plan.append(("tsim3p", 3, three, 4, nsim))
    gens = [(name, pool.submit(gen_schedules, ctx, name, n, sc, k, simulate="num=%d" % sim if sim else None,
                               seed=ctx.seed * 100 + i if sim else None)) for i, (name, n, sc, k, sim) in enumerate(plan)]
    scheds, gen_counts, all_generated = [], {}, []

    def add(sc, hist, src, expect=None):
        lab = hist and isinstance(hist[0], dict)
        scheds.append({"id": len(scheds), "w": 0, "progs": [[{"op": o["op"]} for o in p] for p in sc["progs"]],
                       "sched": [h["t"] for h in hist] if lab else list(hist), "tail": True,
                       "labels": [h["at"] for h in hist] if lab else None, "src": src, "expect": expect})
    for name, f in gens:
        lst, r = f.result()
        gen_counts[name] = len(lst)
        ctx.log("M2 %s: %d schedules (TLC %.0fs)" % (name, len(lst), r.wall))
        if not lst:
            raise Undecided("schedule generation %s produced nothing:\n%s" % (name, r.out[-1500:]))
        for g in lst:
            add(g, g["hist"], name)
        all_generated += lst
    rl = runlength_schedules(all_generated)
    for sc, sched in rl:
        add(sc, sched, "rl")
    gen_counts["rl"] = len(rl)
    cap = 3200 if quick else 40000
    scheds[:] = thin(ctx, scheds, cap, ("t2",) if quick else ("t2", "t3"))
    red = None
    if fut_red is not None:
        red = fut_red.result()
        cex = parse_json_lines(red.out, "CEX")
        if not red.violated or not cex:
            raise Undecided("MC_txn_prefix.cfg is expected to be violated (it models the code as found) but TLC says: %s" % red.out[-1500:])
        for g in cex[:2]:
            add(g, g["hist"], "cex:MC_txn_prefix.cfg", expect="fixed")
    for rp in json.load(open(os.path.join(VERIF, "findings", "watermark_replays.json"))):
        if pid in rp["properties"]:
            add(rp["schedule"], rp["schedule"]["sched"], "replay:" + rp["id"], expect=rp["id"] if rp.get("status") == "open" else "fixed")
    ctx.log("M2: %s -> %d schedules" % (gen_counts, len(scheds)))
    traces = run_driver(ctx, scheds, cmd="txnoracle")
    if len(traces) != len(scheds):
        raise Undecided("driver returned %d traces for %d schedules (a schedule left the DB unusable?): last events %s"
                        % (len(traces), len(scheds), json.dumps([t[-1] for t in list(traces.values())[-2:]])[:1500]))
    nsteps, drift, drift_at = 0, 0, None
    for s in scheds:
        evs = traces[s["id"]]
        end = evs[-1]
        if end["e"] != "End" or end.get("err") or end.get("panics") or end.get("blocked"):
            raise Undecided("driver could not finish schedule %d (%s): %s" % (s["id"], s["src"], json.dumps(end)))
        steps = [e for e in evs if e["e"] == "Step"]
        nsteps += len(steps)
        if s["labels"] is not None and not s["src"].startswith("cex:"):
            got = [label_of(e["from"]) for e in steps if not e["tail"]]
            if got != s["labels"] or any(e["e"] == "Skip" for e in evs) or any(e["tail"] for e in steps):
                drift += 1
                if drift_at is None:
                    k = next((i for i, (a, b) in enumerate(zip(got, s["labels"])) if a != b), min(len(got), len(s["labels"])))
                    drift_at = "schedule %d (%s) step %d: code at %s, spec at %s" % (
                        s["id"], s["src"], k, got[k] if k < len(got) else "-", s["labels"][k] if k < len(s["labels"]) else "end")
    if drift:
        print("DRIFT family=WaterMark at=%s (%d of %d schedules: the code's step structure differs from WaterMarkImpl.tla)" % (drift_at, drift, len(scheds)), flush=True)
        ctx.notes.append("drift: %d schedules; first: %s" % (drift, drift_at))
    proj = {s["id"]: project_txn(traces[s["id"]]) for s in scheds}
    order = [s["id"] for s in scheds]
    # negative control: one recorded read replaced by another commit's token
    ctl = None
    for sid in order:
        t = proj[sid][0]
        idx = [j for j, e in enumerate(t) if e["e"] == "TxRead"]
        if idx:
            ctl = [dict(x) for x in t[:idx[-1] + 1]]
            ctl[-1]["v"] = "c9.9" if ctl[-1]["v"] != "c9.9" else "NOTFOUND"
            break
    if ctl is None:
        raise Undecided("no trace with a read: the driver is not exercising transactions")
    proj[-1] = (ctl, None)
    groups = {}
    for i in order:
        # token names and thread ids matter, schedule ids do not: identical abstract traces are validated once
        groups.setdefault(json.dumps(proj[i][0]), []).append(i)
    reps = [g[0] for g in groups.values()] + [-1]
    groups["control"] = [-1]
    parts = [p for p in chunks(reps, max(1, min(ctx.workers, 8))) if p]
    futs = [pool.submit(ctx.validate_traces, "TxnPropTrace", "TxnPropTrace.cfg", [proj[i][0] for i in part], timeout=1500) for part in parts]
    rejected, ctl_rejected = [], set()
    for part, f in zip(parts, futs):
        for (ti, line, pev, want) in f.result():
            if part[ti] < 0:
                ctl_rejected.add(line)
                continue
            for sid in groups[json.dumps(proj[part[ti]][0])]:
                rejected.append((sid, line, pev, want))
    if ctl_rejected != {len(ctl) - 1}:
        raise Undecided("negative control not rejected exactly at the corrupted read (%s): the trace specification does not bind read replies" % sorted(ctl_rejected))
    nevents = sum(len(proj[i][0]) for i in order)
    ctx.log("M3: %d traces / %d abstract events (%d scheduler steps; %d distinct abstract traces sent to TLC), %d contradictions"
            % (len(order), nevents, nsteps, len(reps) - 1, len(rejected)))
    reported = set()
    for (sid, line, pev, want) in sorted(rejected, key=lambda r: (r[0], r[1])):
        if sid in reported:
            continue
        reported.add(sid)
        s = scheds[sid]
        rp = ctx.save_replay("violation-%d.json" % sid, {"schedule": {k: s[k] for k in ("progs", "sched", "tail")}, "source": s["src"],
                                                         "rejected_event": pev, "expected": want, "trace": traces[sid]})
        ctx.violation(rp, "a transaction's read contradicts its snapshot: %s expected %s" % (json.dumps(pev), want))
    m1 = {}
    for c in gating:
        r = fut_m1[c].result()
        if r.violated or not r.ok:
            raise Undecided("M1: WaterMarkImpl.tla under %s: %s\n%s" % (c, r.violated or "did not complete", r.out[-2500:]))
        m1[c] = r
        ctx.log("M1 %s: %d generated, %d distinct, depth %d (%.0fs)" % (c, r.generated, r.distinct, r.depth, r.wall))
    if red is not None:
        ctx.log("M1 MC_txn_prefix.cfg (expected red, the code as found): %s after %d distinct states" % (red.violated, red.distinct))
    distinct = {json.dumps([s["progs"], s["sched"]]) for s in scheds if nontrivial_txn(traces[s["id"]])}
    sample = scheds[0]
    ctx.evidence("model_checking", {
        "states": sum(r.distinct for r in m1.values()), "transitions": sum(r.generated for r in m1.values()),
        "traces_validated_against_impl": len(order), "evaluations": len(scheds), "distinct_nontrivial": len(distinct),
        "rule": "schedules (thread ids) enumerated by TLC from WaterMarkImpl.tla with the oracle ops TxBegin/TxCommit/TxRead: every interleaving with <= k "
                "pre-emptions (2 threads k=%d, 3 threads k=%d) plus %d random walks per thread count, plus every single-pre-emption position in run-length form (thread a for j steps, then the others), plus recorded replays; each executed on a real DB "
                "(DetectConflicts=true) whose transaction threads park at the yield points of txn.go and, inside txnMark calls, of watermarker.go; "
                "non-trivial = a transaction begins (oracle.readTs) while a commit is between drawing its timestamp and finishing doneCommit; "
                "distinct by (programs, schedule)" % (plan[0][3], plan[1][3], nsim),
        "samples": [{"schedule": {k: sample[k] for k in ("progs", "sched")}, "abstract_events": proj[sample["id"]][0]}],
        "m1": {c: {"generated": r.generated, "distinct": r.distinct, "depth": r.depth, "coverage_zero": r.coverage_zero} for c, r in m1.items()},
        "generated": gen_counts, "scheduler_steps": nsteps, "abstract_events_validated": nevents,
        "distinct_abstract_traces_validated_by_tlc": len(reps) - 1, "contradictions": len(rejected), "drift_schedules": drift,
        "negative_control": "a recorded trace with one read reply replaced was rejected at that read",
        "checker_cmd": "tlc -config MC_txn3.cfg WaterMarkImpl.tla ; tlc -config TxnPropTrace.cfg TxnPropTrace.tla",
    }, assumptions=[
        "the reference for a read at timestamp r is what the same DB shows at version r after all transactions have finished (GetVersionedEntry, memtable only)",
        "calls on readMark run without scheduling points; the commit pipeline's background goroutines are not scheduled (a step lasts until the thread's next yield point)",
        "a commit of thread t writes the shared key k0 and its own key kt, no conflicts (committers do not read); window of 65536 slots: no rebuild (DB reopened every 400 schedules)",
        "TLC results hold for the scenarios in the cfg files (2 committers + 1 reader, or 2 threads with two transactions each)",
    ])
    pool.shutdown(wait=False)


def nontrivial_txn(evs):
    """Some thread takes a step of oracle.readTs while another is parked between drawing a commit timestamp and the end of doneCommit."""
    at = {}
    for e in evs:
        if e["e"] == "Step":
            if e["from"].startswith("txn.read") and any(
                    t != e["t"] and (p.startswith("wm.") or p in ("txn.commit.ts", "txn.commit.begun", "txn.commit.done")) for t, p in at.items()):
                return True
            at[e["t"]] = e["to"]
    return False


# ------------------------------------------------------------------ the check
def run(ctx):
    pid, quick = ctx.pid, ctx.tier == "quick"
    if pid == "C05":
        return run_c05(ctx)
    if pid != "C32":
        raise Undecided("checks/watermark.py serves C32 and C05 only")
    ctx._specdir()
    ctx.build("watermark")
    pool = ThreadPoolExecutor(max_workers=16)   # one slot per TLC run; CPU use is bounded by the -workers given to each
    w_m1 = max(1, ctx.workers // (3 if quick else 2))
    # ---------------------------------------------------------------- M1 (submitted; gathered below)
    gating = ["MC_serial2.cfg", "MC_witness2q.cfg"] if quick else ["MC_serial2.cfg", "MC_witness2.cfg", "MC_serial3.cfg", "MC_witness3.cfg"]
    red = {"MC_asis.cfg": "C32-late-begin", "MC_asis_rebuild.cfg": "C32-window-race", "MC_prefix.cfg": None}
    fut_m1 = {c: pool.submit(ctx.tlc_or_undecided, "WaterMarkImpl", c, workers=w_m1, timeout=2400, coverage=(not quick and c.endswith("2.cfg")),
                                heap="2g" if quick else "6g")
              for c in gating}
    if quick:
        red = {}   # quick tier: the recorded replays (themselves counterexamples of these configurations) stand in
    fut_red = {c: pool.submit(ctx.tlc_or_undecided, "WaterMarkImpl", c, workers=1, timeout=600, heap="1g") for c in red}
    # ---------------------------------------------------------------- M2 generation
    s2, s3 = scenarios2(ctx.rng, quick), scenarios3(ctx.rng, quick)
    # deepest pre-emption bound for two scenarios: the envelope (serialised Begins) and free Begins
    core2 = [s2[0], s2[5]]
    rest2 = [s for s in s2 if s not in core2]
    nsim = 500 if quick else 5000
    plan = [  # name, threads, scenarios, pre-emption bound, simulate
        ("p2", 2, core2, 2 if quick else 3, None),
        ("p2rest", 2, rest2, 1 if quick else 2, None),
        ("p3", 3, s3, 1, None),
        ("sim2", 2, s2, 1000, nsim), ("sim3", 3, s3, 1000, nsim),
    ] + ([] if quick else [("p3k2", 3, s3[:1], 2, None), ("sim2p", 2, s2, 3, nsim), ("sim3p", 3, s3, 3, nsim)])
    gens = [(name, pool.submit(gen_schedules, ctx, name, n, sc, k, simulate="num=%d" % sim if sim else None,
                               seed=ctx.seed * 100 + i if sim else None)) for i, (name, n, sc, k, sim) in enumerate(plan)]
    k2, k3 = plan[0][3], 1 if quick else 2

    scheds, origin = [], {}

    def add(sc, hist, src, expect=None):
        s = {"id": len(scheds), "w": sc["w"], "progs": sc["progs"], "sched": [h["t"] for h in hist] if hist and isinstance(hist[0], dict) else list(hist),
             "tail": True, "labels": [h["at"] for h in hist] if hist and isinstance(hist[0], dict) else None, "src": src, "expect": expect}
        scheds.append(s)
        return s

    gen_counts, all_generated = {}, []
    for name, f in gens:
        lst, r = f.result()
        gen_counts[name] = len(lst)
        ctx.log("M2 %s: %d schedules (TLC %.0fs)" % (name, len(lst), r.wall))
        if not lst:
            raise Undecided("schedule generation %s produced nothing:\n%s" % (name, r.out[-1500:]))
        for g in lst:
            add({"w": g["w"], "progs": g["progs"]}, g["hist"], name)
        all_generated += lst
    rl = runlength_schedules(all_generated)
    for sc, sched in rl:
        add(sc, sched, "rl")
    gen_counts["rl"] = len(rl)
    cap = 7500 if quick else 120000
    scheds = thin(ctx, scheds, cap, ("p2", "p3", "p3k2"))
    # counterexamples of the expected-red model configurations (DESIGN.md 2.3 rule 2)
    red_res = {}
    for c, fid in red.items():
        r = fut_red[c].result()
        cex = parse_json_lines(r.out, "CEX")
        if not r.violated or not cex:
            raise Undecided("%s is expected to be violated (it models a recorded deviation) but TLC says: %s" % (c, r.out[-1500:]))
        red_res[c] = r
        for g in cex[:2]:
            add({"w": g["w"], "progs": g["progs"]}, g["hist"], "cex:" + c, expect=fid or "fixed")
    # recorded replays (open findings and repaired defects stay in the schedule set)
    known = {f["id"]: f for f in ctx.load_known()}
    for rp in json.load(open(os.path.join(VERIF, "findings", "watermark_replays.json"))):
        if pid in rp["properties"]:
            add(rp["schedule"], rp["schedule"]["sched"], "replay:" + rp["id"], expect=rp["id"] if rp.get("status") == "open" else "fixed")
    ctx.log("M2: %s -> %d schedules" % (gen_counts, len(scheds)))
    # ---------------------------------------------------------------- run on the real code
    traces = run_driver(ctx, scheds)
    if len(traces) != len(scheds):
        raise Undecided("driver returned %d traces for %d schedules" % (len(traces), len(scheds)))
    nsteps = 0
    drift, drift_at = 0, None
    for s in scheds:
        evs = traces[s["id"]]
        end = evs[-1]
        if end["e"] != "End" or end.get("err") or end.get("panics"):
            raise Undecided("driver could not finish schedule %d (%s): %s" % (s["id"], s["src"], json.dumps(end)))
        steps = [e for e in evs if e["e"] == "Step"]
        nsteps += len(steps)
        if s["labels"] is not None and not s["src"].startswith("cex:MC_prefix"):
            got = [label_of(e["from"]) for e in steps if not e["tail"]]
            # generated schedules run to quiescence; a counterexample is only a prefix (the tail completes it)
            complete = not s["src"].startswith("cex:")
            if got != s["labels"] or any(e["e"] == "Skip" for e in evs) or (complete and any(e["tail"] for e in steps)):
                drift += 1
                if drift_at is None:
                    k = next((i for i, (a, b) in enumerate(zip(got, s["labels"])) if a != b), min(len(got), len(s["labels"])))
                    drift_at = "schedule %d (%s) step %d: code at %s, spec at %s" % (
                        s["id"], s["src"], k, got[k] if k < len(got) else "-", s["labels"][k] if k < len(s["labels"]) else "end")
    if drift:
        print("DRIFT family=WaterMark at=%s (%d of %d schedules: the code's step structure differs from WaterMarkImpl.tla)" % (drift_at, drift, len(scheds)), flush=True)
        ctx.notes.append("drift: %d schedules; first: %s" % (drift, drift_at))
    # ---------------------------------------------------------------- M3
    proj = {s["id"]: project(traces[s["id"]]) for s in scheds}
    order = [s["id"] for s in scheds]
    # binding self-test (negative controls), validated in the same TLC runs: a recorded trace with one
    # observation moved onto a pending index, a decreasing mark, a WaitForMark returning over a pending index
    ctl = None
    for sid in order:
        t, pend = proj[sid][0], {}
        for j, e in enumerate(t):
            if e["e"] == "BeginRet":
                for i in e["is"]:
                    pend[i] = pend.get(i, 0) + 1
            elif e["e"] == "DoneCall":
                for i in e["is"]:
                    pend[i] = pend.get(i, 0) - 1
            elif e["e"] == "Observe" and any(c > 0 for c in pend.values()) and e["d"] < min(i for i, c in pend.items() if c > 0):
                ctl = [dict(x) for x in t[:j + 1]]
                ctl[j]["d"] = min(i for i, c in pend.items() if c > 0)
                break
        if ctl:
            break
    if ctl is None:
        raise Undecided("no trace with a pending index above the mark at an observation: the driver is not exercising the watermark")
    controls = {-1: ctl, -2: [{"e": "Observe", "d": 2}, {"e": "Observe", "d": 1}], -3: [{"e": "BeginRet", "is": [1]}, {"e": "WaitRet", "i": 1}]}
    for cid, t in controls.items():
        proj[cid] = (t, None)
    # many schedules yield the same abstract event sequence: each distinct sequence is validated once
    groups = {}
    for i in order:
        groups.setdefault(json.dumps(proj[i][0]), []).append(i)
    reps = [g[0] for g in groups.values()]
    for cid in controls:
        groups["control%d" % cid] = [cid]
        reps.append(cid)
    parts = [p for p in chunks(reps, max(1, min(ctx.workers, 8))) if p]
    futs = [pool.submit(ctx.validate_traces, "WaterMarkPropTrace", "WaterMarkPropTrace.cfg", [proj[i][0] for i in part], timeout=1500)
            for part in parts]
    rejected, ctl_rejected = [], set()
    for part, f in zip(parts, futs):
        for (ti, line, pev, want) in f.result():
            if part[ti] < 0:
                ctl_rejected.add((part[ti], line))
                continue
            for sid in groups[json.dumps(proj[part[ti]][0])]:
                rejected.append((sid, line, pev, want))
    if ctl_rejected != {(-1, len(ctl) - 1), (-2, 1), (-3, 1)}:
        raise Undecided("negative controls not rejected exactly where corrupted (%s): the trace specification does not bind "
                        "observations / wait returns to pending indices" % sorted(ctl_rejected))
    nevents = sum(len(proj[i][0]) for i in order)
    ctx.log("M3: %d traces / %d abstract events (%d scheduler steps; %d distinct abstract traces sent to TLC), %d contradictions" % (len(order), nevents, nsteps, len(reps), len(rejected)))
    # ---------------------------------------------------------------- verdicts
    by_sched = {}
    for (sid, line, pev, want) in rejected:
        by_sched.setdefault(sid, []).append((line, pev, want))
    hits, reported = {}, set()
    for sid, lst in sorted(by_sched.items()):
        s = scheds[sid]
        for (line, pev, want) in lst:
            fid = classify(s, traces[sid], pev, want)
            if fid and fid in known and s["expect"] != "fixed":
                if fid not in hits:
                    ctx.known_finding("%s: %s (e.g. %s schedule %d: %s contradicts %s)" % (fid, known[fid]["what"], s["src"], sid, json.dumps(pev), want))
                hits[fid] = hits.get(fid, 0) + 1
            elif sid not in reported:
                reported.add(sid)
                rawn = proj[sid][1][line]
                rp = ctx.save_replay("violation-%d.json" % sid, {
                    "schedule": {k: s[k] for k in ("w", "progs", "sched", "tail")}, "source": s["src"], "rejected_event": pev, "contradicts": want,
                    "trace": traces[sid][:rawn + 1]})
                ctx.violation(rp, "the watermark contradicts the property: %s with %s" % (json.dumps(pev), want))
    # expected-red counterexamples and open replays must reproduce on the real code (else the spec misdescribes the code)
    for s in scheds:
        if s["expect"] and s["expect"] != "fixed" and s["id"] not in by_sched:
            if ctx.violations:      # the code changed under us: the violations above are the verdict
                ctx.notes.append("%s no longer shows %s" % (s["src"], s["expect"]))
                continue
            raise Undecided("%s (schedule %d) was expected to show %s on the real code but its trace satisfies the property: "
                            "spec/code divergence, or the defect is gone (then update findings/known.d/watermark.json and the as-is configuration)"
                            % (s["src"], s["id"], s["expect"]))
    # ---------------------------------------------------------------- M1 results
    m1 = {}
    for c in gating:
        r = fut_m1[c].result()
        if r.violated:
            raise Undecided("M1: WaterMarkImpl.tla violates %s under %s: the specification (design layer) needs attention\n%s" % (r.violated, c, r.out[-2500:]))
        if not r.ok:
            raise Undecided("M1 %s did not complete:\n%s" % (c, r.out[-1500:]))
        m1[c] = r
        ctx.log("M1 %s: %d generated, %d distinct, depth %d (%.0fs)" % (c, r.generated, r.distinct, r.depth, r.wall))
    for c, r in red_res.items():
        ctx.log("M1 %s (expected red): %s after %d distinct states" % (c, r.violated, r.distinct))
    # ---------------------------------------------------------------- evidence
    distinct = {json.dumps([s["w"], s["progs"], s["sched"]]) for s in scheds if nontrivial(traces[s["id"]])}
    envelope = sum(1 for s in scheds if in_envelope(s))
    sample = scheds[0]
    ctx.evidence("model_checking", {
        "states": sum(r.distinct for r in m1.values()), "transitions": sum(r.generated for r in m1.values()),
        "traces_validated_against_impl": len(order), "evaluations": len(scheds), "distinct_nontrivial": len(distinct),
        "rule": "schedules (sequences of thread ids) enumerated by TLC from WaterMarkImpl.tla: every interleaving with <= k pre-emptions "
                "(2 threads: k=%d for one scenario per usage class, k-1 for the others; 3 threads: k=1, thorough k=%d for the smallest scenario) plus %d random walks per thread count (thorough: also %d walks with <= 3 pre-emptions), plus every single-pre-emption position in run-length form (thread a for j steps, then the others; independent of the code's step structure), plus model counterexamples and recorded replays; "
                "each executed step by step on a real utils.WaterMark; non-trivial = some step runs while another thread is parked inside a WaterMark call; "
                "distinct by (window, programs, schedule)" % (k2, k3, nsim, nsim),
        "samples": [{"schedule": {k: sample[k] for k in ("w", "progs", "sched")}, "abstract_events": proj[sample["id"]][0][:14],
                     "first_steps": [{k: e[k] for k in ("t", "from", "fa", "to", "d", "last")} for e in traces[sample["id"]] if e["e"] == "Step"][:8]}],
        "m1": {c: {"generated": r.generated, "distinct": r.distinct, "depth": r.depth, "coverage_zero": r.coverage_zero} for c, r in m1.items()},
        "m1_expected_red": {c: {"violated": r.violated, "distinct": r.distinct} for c, r in red_res.items()},
        "generated": gen_counts, "schedules_in_safe_envelope": envelope, "scheduler_steps": nsteps, "abstract_events_validated": nevents,
        "distinct_abstract_traces_validated_by_tlc": len(reps), "contradictions": len(rejected), "known_finding_hits": hits, "drift_schedules": drift,
        "negative_control": "3 corrupted traces rejected as required",
        "checker_cmd": "tlc -config MC_serial2.cfg WaterMarkImpl.tla ; tlc -config MC_witness2.cfg WaterMarkImpl.tla ; tlc -config WaterMarkPropTrace.cfg WaterMarkPropTrace.tla",
    }, assumptions=[
        "sequentially consistent atomics: one scheduler step = one atomic operation of watermarker.go (Go's sync/atomic is sequentially consistent)",
        "critical sections of WaterMark.mu without a yield point inside are single steps",
        "SetDoneUntil / SetLastIndex (used only at open time) and context cancellation of WaitForMark are not exercised",
        "TLC results hold for the scenarios and window sizes in the cfg files (indices <= %d, 2-3 threads)" % MAXI,
    ])
    pool.shutdown(wait=False)


if __name__ == "__main__":
    main(run, FAM)
