#!/usr/bin/env python3
"""RaftWal family: C21 (persisted raft state survives a process crash) and C36 (WAL segment cleanup
never removes data still needed).  DESIGN.md section 5.

M1  TLC checks spec/RaftWal/RaftWal.tla: the WAL shared by LSM writes and the raft records (entries, hard
    states, snapshots) of one or two raft groups, segment removal by flush / watchdog / recovery (minimum
    over the groups' pointers), crash anywhere, replay.
M2  TLC -simulate generates operation histories of that spec; each is executed on a real DB whose WAL and
    manifest are shared with real engine.WALStorage instances (the DB's own watchdog, gated flush); the
    process is killed after every prefix of the history and at sampled file operations inside it; a second
    process reopens the DB and the storages and dumps them, then maintains the reopened store with the
    storages open (watchdog pass, rotate + flush, watchdog pass), closes, reopens and dumps once more.
M3  TLC validates each crash trace against spec/RaftWal/RaftWalPropTrace.tla.
"""
import json, os, sys, re, subprocess, shutil
from concurrent.futures import ThreadPoolExecutor
sys.path.insert(0, os.path.join(os.path.dirname(os.path.abspath(__file__)), "..", "lib"))
from vlib import *
from vpar import validate_traces_parallel

KEYS = ["k1", "k2", "k3"]


def gen_hists(ctx, num, depth, seed):
    src = open(os.path.join(ctx._specdir(), "Gen_RaftWal.cfg")).read()
    name = "Gen_RaftWal_%d.cfg" % depth
    open(os.path.join(ctx._specdir(), name), "w").write(re.sub(r"MaxHist = \d+", "MaxHist = %d" % depth, src))
    r = ctx.tlc_or_undecided("RaftWal", name, workers=1, simulate="num=%d" % num, depth=depth + 1, seed=seed, timeout=600)
    seen, out = set(), []
    for m in re.finditer(r'<<"SCHED", "(.*)">>', r.out):
        s = m.group(1).encode().decode("unicode_escape")
        if s not in seen:
            seen.add(s); out.append(json.loads(s))
    return out


def to_sched(sid, hist):
    ops, nput = [], 0
    for h in hist:
        o, g = h["op"], h.get("g", 1)
        if o == "Put":
            nput += 1
            ops.append({"op": "Put", "k": KEYS[nput % len(KEYS)], "v": "p%d" % nput})
        elif o == "RaftAppend":
            ents = [{"i": h["from"] + j, "t": h["term"]} for j in range(h["n"])]
            ops.append({"op": "RaftAppend", "g": g, "ents": ents})
        elif o == "RaftHS":
            ops.append({"op": "RaftHS", "g": g, "term": h["term"], "vote": 1, "commit": h.get("commit", 0)})
        elif o == "RaftCompact":
            ops.append({"op": "RaftCompact", "g": g, "idx": h["idx"]})
        elif o == "RaftSnap":
            ops.append({"op": "RaftSnap", "g": g, "idx": h["idx"], "term": h["term"]})
        elif o in ("Rotate", "Flush", "Watchdog"):
            ops.append({"op": o})
    groups = sorted({op["g"] for op in ops if "g" in op}) or [1]
    return {"id": sid, "keys": KEYS, "groups": groups, "sync": True, "ops": ops}


def run_point(binp, base, sp, mode, n):
    d = os.path.join(base, "%s%d" % (mode, n)); os.makedirs(d)
    db = os.path.join(d, "db"); os.makedirs(db)
    tr, rec = os.path.join(d, "t.ndjson"), os.path.join(d, "r.json")
    argv = [binp, "work", "-dir", db, "-sched", sp, "-trace", tr]
    argv += ["-upto", str(n)] if mode == "u" else ["-crashat", str(n)]
    p = subprocess.run(argv, stdout=subprocess.DEVNULL, stderr=subprocess.PIPE, text=True, timeout=120)
    if p.returncode != 77:
        return {"error": "work exit %d: %s" % (p.returncode, p.stderr[-600:])}
    evs = [json.loads(x) for x in open(tr)]
    # the maintenance stage (watchdog / rotate+flush / watchdog with the storages open, then a second reopen)
    # runs where the WAL can be ahead of a manifest pointer: crashes INSIDE an operation (mode "c")
    argv2 = [binp, "recover", "-dir", db, "-sched", sp, "-out", rec] + (["-maint"] if mode == "c" else [])
    p2 = subprocess.run(argv2, stdout=subprocess.DEVNULL, stderr=subprocess.PIPE, text=True, timeout=120)
    res = json.load(open(rec)) if os.path.exists(rec) else {"open": False, "err": "recover process died: " + p2.stderr[-400:]}
    shutil.rmtree(d, ignore_errors=True)
    return {"mode": mode, "n": n, "events": evs, "rec": res}


def to_trace(pid, sched, pt):
    t = [{"e": "Cfg", "prop": pid}]
    for ev in pt["events"]:
        e = ev["e"]
        if e in ("PutCall", "RaftAppendCall", "RaftHSCall", "RaftSnapCall"):
            t.append({k: v for k, v in ev.items() if k in ("e", "k", "v", "g", "ents", "term", "vote", "commit", "idx")})
        elif e in ("PutRet", "RaftAppendRet", "RaftHSRet", "RaftSnapRet"):
            t.append({"e": e, "ok": ev["ok"]})
        elif e == "RaftCompact":
            t.append({"e": e, "g": ev["g"], "idx": ev["idx"], "ok": ev["ok"]})
        elif e == "Maint":
            t.append({"e": "Maint"})
    def recovered(rec, stage):
        raft = []
        for g in rec.get("raft") or []:
            raft.append({k: g.get(k, 0) for k in ("g", "open", "term", "vote", "commit", "first", "last", "si", "st", "ents", "disk")})
        if not raft:
            raft = [{"g": g, "open": False, "term": 0, "vote": 0, "commit": 0, "first": 0, "last": 0, "si": 0, "st": 0, "ents": [], "disk": []} for g in sched["groups"]]
        return {"e": "Recovered", "stage": stage, "open": bool(rec.get("open")), "lsm": rec.get("lsm") or {k: "ERR" for k in sched["keys"]}, "raft": raft}
    rec = pt["rec"]
    t.append(recovered(rec, 1))
    # the reopened store was maintained with the raft storages open (watchdog, rotate + flush, watchdog), closed
    # and reopened once more: the same facts must still hold
    if rec.get("open") and rec.get("second"):
        t.append({"e": "Maint"})
        t.append(recovered(rec["second"], 2))
    return t


RAFT_RETS = ("RaftAppendRet", "RaftHSRet", "RaftSnapRet")


def gc_groups(pt, stage=1):
    """Witness of finding C21-log-gc (RaftWal.tla gcRaft), per raft group: the groups for which a WAL segment
    that received one of THEIR records (entry, hard state or snapshot) is no longer present at that stage
    (1 = after recovery, 2 = after maintenance and the second reopen), i.e. was garbage-collected by flush,
    watchdog or recovery."""
    rec = pt["rec"] if stage == 1 else (pt["rec"].get("second") or {})
    present = {int(re.sub(r"\D", "", f)) for f in (rec.get("wal_after") or [])}
    out = set()
    for e in pt["events"]:
        if e["e"] in RAFT_RETS and e.get("ok") and e["seg"] not in present:
            out.add(e["g"])
    return out


def known_gc(pt, want, stage=1):
    """A rejected Recovered event is the recorded finding only if, under one of the two readings of the
    in-flight call, EVERY contradicting item is a raft group one of whose record-bearing segments was
    garbage-collected. The LSM contents (item 0) or a group that lost no segment are never excused."""
    if not want:
        return False
    sets = [set(int(x) for x in re.findall(r"\d+", m)) for m in re.findall(r"\{([^}]*)\}", want)]
    gone = gc_groups(pt, stage)
    return bool(gone) and any(b and b <= gone for b in sets)


def run(ctx):
    pid, quick = ctx.pid, ctx.tier == "quick"
    # one group with snapshots (deeper) and two groups sharing the WAL (shallower in quick)
    m1s = []
    for cfg in (("MC_RaftWal_quick.cfg", "MC_RaftWal_quick2.cfg") if quick else ("MC_RaftWal.cfg", "MC_RaftWal_2g.cfg")):
        r = ctx.tlc_or_undecided("RaftWal", cfg, timeout=3000, coverage=not quick, workers=max(2, ctx.workers // 2) if quick else None)
        if r.violated:
            raise Undecided("M1: RaftWal.tla violates %s under %s\n%s" % (r.violated, cfg, r.out[-2000:]))
        ctx.log("M1 %s: %d generated / %d distinct, depth %d (%.0fs)" % (cfg, r.generated, r.distinct, r.depth, r.wall))
        m1s.append(r)
    hists = gen_hists(ctx, 40 if quick else 400, 9, ctx.seed * 10 + 1) + gen_hists(ctx, 30 if quick else 300, 12, ctx.seed * 10 + 2)
    # prefer histories that exercise segment removal together with raft records
    def score(h):
        ops = [x["op"] for x in h]
        commit_only = overwrite = False
        for g in {x.get("g") for x in h if "g" in x}:
            hs = [x for x in h if x["op"] == "RaftHS" and x["g"] == g]
            commit_only |= any(a["term"] == b["term"] for a, b in zip(hs, hs[1:]))   # a hard state that only moves the commit index
            ap = [x for x in h if x["op"] == "RaftAppend" and x["g"] == g]
            overwrite |= any(y["from"] >= x["from"] for i, x in enumerate(ap) for y in ap[:i])
        two = len({x.get("g") for x in h if "g" in x}) > 1
        # a snapshot followed by more raft records of the same group and a segment removal attempt
        snap_then = any(x["op"] == "RaftSnap" and any(y["op"] in ("RaftAppend", "RaftHS") and y["g"] == x["g"] for y in h[i + 1:])
                        and any(y["op"] in ("Flush", "Watchdog") for y in h[i + 1:]) for i, x in enumerate(h))
        return (("RaftAppend" in ops) + ("Rotate" in ops) + ("Flush" in ops) + ("Watchdog" in ops) + ("RaftCompact" in ops) + ("Put" in ops)
                + 2 * commit_only + overwrite + ("RaftSnap" in ops) + snap_then + two)
    hists.sort(key=lambda h: -score(h))
    ctx.rng.shuffle(hists[: max(10, len(hists) // 2)])
    nsch = 16 if quick else 80
    scheds = [to_sched(i, h) for i, h in enumerate(hists[:nsch])]
    for rp in json.load(open(os.path.join(VERIF, "findings", "raftwal_replays.json"))):
        if pid in rp["properties"]:
            s = dict(rp["schedule"]); s["id"] = len(scheds); s["replay"] = rp["id"]
            scheds.append(s)
    binp = ctx.build("raftwal")
    base = ctx.mkdtemp("rw")
    jobs = []
    for s in scheds:
        sp = os.path.join(base, "s%d.json" % s["id"]); json.dump(s, open(sp, "w"))
        full = run_point(binp, os.path.join(base, "c%d" % s["id"]), sp, "u", len(s["ops"]))
        if "error" in full:
            raise Undecided("schedule %d does not run: %s" % (s["id"], full["error"]))
        total = [e for e in full["events"] if e["e"] == "Exit"][0]["points"]
        for n in range(1, len(s["ops"]) + 1):
            jobs.append((s, sp, "u", n))
        inner = list(range(1, total + 1))
        cap = 12 if quick else 100000
        if len(inner) > cap:
            inner = sorted(ctx.rng.sample(inner, cap))
        for n in inner:
            jobs.append((s, sp, "c", n))
    ctx.log("M2: %d schedules, %d crash runs" % (len(scheds), len(jobs)))
    results = []
    with ThreadPoolExecutor(max_workers=ctx.workers) as ex:
        futs = [(s, ex.submit(run_point, binp, os.path.join(base, "w%d" % s["id"]), sp, mode, n)) for (s, sp, mode, n) in jobs]
        for s, f in futs:
            pt = f.result()
            if "error" in pt:
                raise Undecided("crash run failed: %s" % pt["error"])
            results.append((s, pt))
    traces = [to_trace(pid, s, pt) for s, pt in results]
    rejected = validate_traces_parallel(ctx, "RaftWalPropTrace", "RaftWalPropTrace.cfg", traces, timeout=1800, chunk=800)
    ctx.log("M3: %d crash traces validated, %d mismatches" % (len(traces), len(rejected)))
    known = {f["id"]: f for f in ctx.load_known()}
    hits, reported = {}, set()
    for (ti, line, pev, want) in rejected:
        s, pt = results[ti]
        fid = "%s-log-gc" % pid if (pev["e"] == "Recovered" and pev.get("open") and known_gc(pt, want, pev.get("stage", 1))) else None
        if fid and fid in known:
            if fid not in hits:
                ctx.known_finding("%s: %s (e.g. schedule %d crash %s%d)" % (fid, known[fid]["what"], s["id"], pt["mode"], pt["n"]))
            hits[fid] = hits.get(fid, 0) + 1
        elif (s["id"], pt["mode"], pt["n"]) not in reported:
            reported.add((s["id"], pt["mode"], pt["n"]))
            rp = ctx.save_replay("violation-s%d-%s%d.json" % (s["id"], pt["mode"], pt["n"]), {"schedule": s, "crash": [pt["mode"], pt["n"]], "trace": traces[ti], "recover": pt["rec"]})
            ctx.violation(rp, "recovered state contradicts what was persisted: %s" % json.dumps(pev)[:400])
    # negative control: a corrupted reply must be rejected. C21: a wrong last index. C36: every LSM value
    # replaced, so the chosen image must hold an acknowledged put (a snapshot may have truncated every entry)
    ctl = None
    for t in traces:
        ri = next(i for i, e in enumerate(t) if e["e"] == "Recovered")
        rec = t[ri]
        if not (rec["open"] and rec["raft"][0]["open"] and rec["raft"][0]["last"] > 0):
            continue
        if pid == "C36" and not any(a["e"] == "PutCall" and b["e"] == "PutRet" and b["ok"] for a, b in zip(t, t[1:])):
            continue
        ctl = json.loads(json.dumps(t[:ri + 1])); ctl[-1]["raft"][0]["last"] += 1; ctl[-1]["raft"][0]["disk"] = []; ctl[-1]["lsm"] = {k: "zz" for k in ctl[-1]["lsm"]}
        break
    if ctl is None:
        raise Undecided("no crash image with raft entries: schedules too small")
    if not ctx.validate_traces("RaftWalPropTrace", "RaftWalPropTrace.cfg", [ctl]):
        raise Undecided("negative control accepted")
    nontriv = {(s["id"], pt["mode"], pt["n"]) for s, pt in results
               if any(e["e"] == "RaftAppendRet" for e in pt["events"]) and any(e["e"] == "Maint" for e in pt["events"])}
    removed = sum(1 for s, pt in results if gc_groups(pt))
    removed2 = sum(1 for s, pt in results if gc_groups(pt, 2) - gc_groups(pt))
    two_groups = sum(1 for s in scheds if len(s["groups"]) > 1)
    with_snap = sum(1 for s in scheds if any(o["op"] == "RaftSnap" for o in s["ops"]))
    ctx.evidence("fault_enumeration", {
        "evaluations": len(traces), "distinct_nontrivial": len(nontriv),
        "rule": "one evaluation = (TLC-generated history, crash point): the process is killed after every prefix of the history and at sampled mutating file operations; "
                "non-trivial = raft records were persisted and at least one rotate/flush/watchdog ran before the crash",
        "samples": [{"schedule": results[0][0], "trace": traces[min(5, len(traces) - 1)]}],
        "states": sum(r.distinct for r in m1s), "transitions": sum(r.generated for r in m1s), "traces_validated_against_impl": len(traces),
        "schedules": len(scheds), "schedules_with_two_groups": two_groups, "schedules_with_snapshot": with_snap,
        "crash_images_with_gc_of_raft_segment": removed, "images_where_maintenance_after_reopen_collected_more": removed2, "mismatches": len(rejected), "known_finding_hits": hits,
        "m1_coverage_zero": sorted(set(sum((r.coverage_zero or [] for r in m1s), []))), "negative_control": "rejected as required",
    }, assumptions=["process crash only", "one or two raft groups per schedule; etcd-raft itself is not exercised (storage layer only)",
                    "flush is gated by the harness so that sealed memtables can stay unflushed across watchdog passes"])


if __name__ == "__main__":
    main(run, "RaftWal")
