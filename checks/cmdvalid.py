#!/usr/bin/env python3
"""Command validation: C25 (a region accepts a command only with its current epoch and with every
named key inside its range; scan results never leave the range).  See DESIGN.md section 5 (C25)
and docs/design.d/cmdvalid.md.

TLC is enumerator and oracle: spec/Regions/CmdValid.tla defines `Valid(c)` and writes one
(case, expected) pair for EVERY case of range shape {bounded, -inf, +inf, both} x epoch
{equal, older/newer version, older/newer conf, none} x command kind (7 kinds + a two-request
command) x key positions {empty, below start, just below start, =start, just above start, inside,
just below end, =end, just above end, above end} (all 1- and 2-key lists) x {ProposeCommand,
ReadCommand}.  harness/cmd/cmdvalid sends each command to a real one-node leader store over a
real DB.  Verdict (the property's direction): accepted => Valid, and every scanned key in range.
"""
import json, os, sys, re, subprocess
sys.path.insert(0, os.path.join(os.path.dirname(os.path.abspath(__file__)), "..", "lib"))
from vlib import *

# position -> byte key, ordered like the positions (checked below); 0 is the empty key
KEYS = [b"", b"a", b"k2\xff", b"k3", b"k3\x00", b"k4", b"k5\xff\xff", b"k6", b"k6\x00", b"z"]
S, E = 3, 7            # bounded start / end positions (MC_CmdValid.cfg)
TOP = len(KEYS)
REGION_ID = {"bounded": 1, "noStart": 2, "noEnd": 3, "both": 4}
POS = {k.hex(): i for i, k in enumerate(KEYS)}


def enumerate_cases(ctx):
    out = os.path.join(ctx.scratch, "cmdvalid.cases.ndjson")
    cfg = "MC_CmdValid.cfg" if ctx.tier == "quick" else "MC_CmdValid_big.cfg"     # thorough: key lists of up to 3 keys
    r = ctx.tlc_or_undecided("CmdValid", cfg, workers=1, env={"OUT": out}, timeout=600, heap="4g")
    m = re.search(r'<<"CASES", (\d+)>>', r.out)
    if not r.ok or not m or not os.path.exists(out):
        raise Undecided("TLC did not enumerate the cases:\n%s" % r.out[-2000:])
    cases = [json.loads(l) for l in open(out)]
    if len(cases) != int(m.group(1)) or len({json.dumps(c, sort_keys=True) for c in cases}) != len(cases):
        raise Undecided("case enumeration inconsistent: %d lines, TLC reports %s" % (len(cases), m.group(1)))
    return cases, r.wall


def bound(p, is_end):
    return b"" if (p == 0 and not is_end) or (p == TOP and is_end) else KEYS[p]


def run_driver(ctx, cases):
    """shards of cases -> one driver process (own DB + store) each; returns replies by case index"""
    binp = ctx.build("cmdvalid")
    shapes = {}
    for c in cases:
        shapes[c["shape"]] = (c["s"], c["e"])
    setup = {"setup": {"regions": [{"id": REGION_ID[n], "start": bound(s, False).hex(), "end": bound(e, True).hex(), "ver": 5, "conf": 5}
                                   for n, (s, e) in sorted(shapes.items())],
                       "preload": [k.hex() for k in KEYS[1:]]}}
    procs = []
    idx = list(range(len(cases)))
    for part in chunks(idx, ctx.workers):
        if not part:
            continue
        d = ctx.mkdtemp("drv")
        inp, outp = os.path.join(d, "in.ndjson"), os.path.join(d, "out.ndjson")
        with open(inp, "w") as fh:
            fh.write(json.dumps(setup) + "\n")
            for i in part:
                c = cases[i]
                fh.write(json.dumps({"i": i, "region": REGION_ID[c["shape"]], "epoch": None if c["epoch"] == "none" else [c["ver"], c["conf"]],
                                     "kind": c["kind"], "keys": [KEYS[p].hex() for p in c["keys"]], "via": c["via"]}) + "\n")
        p = subprocess.Popen([binp, "-in", inp, "-out", outp, "-dir", d], stdout=subprocess.PIPE, stderr=subprocess.STDOUT, text=True)
        procs.append((p, outp, part))
    replies = {}
    for p, outp, part in procs:
        try:
            out, _ = p.communicate(timeout=1500)
        except subprocess.TimeoutExpired:
            p.kill()
            raise Undecided("cmdvalid driver timed out")
        if p.returncode != 0:
            raise Undecided("cmdvalid driver failed (%d): %s" % (p.returncode, out[-3000:]))
        for l in open(outp):
            ev = json.loads(l)
            replies[ev["i"]] = ev
    return replies


def judge(case, reply):
    """C25's clauses on one reply. Returns a list of violated clause texts."""
    bad = []
    if reply["outcome"] == "accepted":
        if not case["valid"]:
            bad.append("accepted although %s" % ("the epoch is not the region's current one" if case["epoch"] != "equal" else "a named key lies outside the range"))
        for k in reply.get("scan", []):
            if k not in POS:
                bad.append("scan returned an unknown key %s" % k)
            elif POS[k] not in case["inrange"]:
                bad.append("scan returned key %r outside the range" % KEYS[POS[k]].decode("latin-1"))
    return bad


def describe(case):
    s, e = bound(case["s"], False), bound(case["e"], True)
    return "%s via %s keys=%s region=[%r,%r) request epoch=%s" % (case["kind"], case["via"], [KEYS[p].decode("latin-1") for p in case["keys"]],
                                                                 s.decode("latin-1"), e.decode("latin-1"), case["epoch"])


def run(ctx):
    if any(KEYS[i] >= KEYS[i + 1] for i in range(len(KEYS) - 1)):
        raise Undecided("key table is not ordered like the positions")
    cases, wall = enumerate_cases(ctx)
    if {(c["s"], c["e"]) for c in cases} != {(S, E), (0, E), (S, TOP), (0, TOP)}:
        raise Undecided("cfg constants and key table disagree")
    ctx.rng.shuffle(cases)       # the order in which commands hit the (stateful) store depends on the seed
    replies = run_driver(ctx, cases)
    # a Go error (not a region error) means the command passed validation and then failed to execute; tolerated only for
    # commands naming the empty key, which the DB refuses ("Key cannot be empty"): nothing was executed
    for i, r in replies.items():
        if r["outcome"] == "error" and not (0 in cases[i]["keys"] and "empty" in r.get("err", "").lower()):
            raise Undecided("command failed with a Go error (not a region error): %s: %s" % (describe(cases[i]), r.get("err")))
    if len(replies) != len(cases):
        raise Undecided("driver answered %d of %d cases" % (len(replies), len(cases)))
    known = {f["id"]: f for f in ctx.load_known()}
    counts = {"accepted": 0, "region_error": 0, "error": 0}
    converse, classes, reported = [], {}, {}
    scans_nonempty = 0
    for i, c in enumerate(cases):
        r = replies[i]
        counts[r["outcome"]] += 1
        if r.get("scan"):
            scans_nonempty += 1
        if c["valid"] and r["outcome"] != "accepted":
            converse.append(i)
        bad = judge(c, r)
        if not bad:
            continue
        cls = classify(c, r)
        fid = "%s-%s" % (ctx.pid, cls) if cls else None
        if fid and fid in known:
            if fid not in classes:
                ctx.known_finding("%s: %s (e.g. %s: %s)" % (fid, known[fid]["what"], describe(c), "; ".join(bad)))
            classes[fid] = classes.get(fid, 0) + 1
            continue
        key = (c["kind"], c["via"], bad[0].split(" key ")[0])
        reported[key] = reported.get(key, 0) + 1
        if reported[key] == 1 and len(reported) <= 20:
            rp = ctx.save_replay("violation-%d.json" % len(reported), {"case": c, "keys": [KEYS[p].decode("latin-1") for p in c["keys"]], "reply": r, "violated": bad})
            ctx.violation(rp, "%s: %s" % (describe(c), "; ".join(bad)))
    # the statement is one-directional ("accepted only if"); a valid command that is refused is reported, not convicted
    for i in converse[:5]:
        print("DRIFT family=CmdValid at=%s: a command the property allows was not accepted (%s)" % (describe(cases[i]), replies[i].get("region_error") or replies[i].get("err")), flush=True)
    if converse:
        ctx.notes.append("%d valid commands were refused (not a C25 violation; reported as drift)" % len(converse))
    # ------------------------------------------------------- binding self-test
    ctl = [i for i, c in enumerate(cases) if not c["valid"] and replies[i]["outcome"] == "region_error"]
    ctl2 = [i for i, c in enumerate(cases) if c["kind"] == "Scan" and replies[i].get("scan") and len(c["inrange"]) < TOP]
    if not ctl or not ctl2:
        raise Undecided("no rejected invalid command / no non-empty scan of a bounded region: the driver is not exercising validation")
    i = ctl[ctx.rng.randrange(len(ctl))]
    if not judge(cases[i], dict(replies[i], outcome="accepted")):
        raise Undecided("negative control: a flipped reply is not noticed")
    i = ctl2[ctx.rng.randrange(len(ctl2))]
    outside = [k for k in POS if POS[k] not in cases[i]["inrange"] and POS[k] != 0]
    if not judge(cases[i], dict(replies[i], scan=replies[i]["scan"] + [outside[0]])):
        raise Undecided("negative control: an out-of-range scan result is not noticed")
    if counts["accepted"] == 0 or counts["region_error"] == 0:
        raise Undecided("driver outcomes degenerate: %s" % counts)
    nontriv = sum(1 for c in cases if c["epoch"] == "equal" or all(p in c["inrange"] for p in c["keys"]))
    samples = [{"case": cases[i], "keys": [KEYS[p].decode("latin-1") for p in cases[i]["keys"]], "reply": replies[i]} for i in range(4)]
    ctx.evidence("exploration", {
        "evaluations": len(cases), "distinct_nontrivial": nontriv, "exhaustive": True,
        "rule": "every case of CmdValid.tla's domain (4 range shapes x 6 request epochs x {Get, Scan, CheckTxnStatus, Prewrite/Commit/BatchRollback/"
                "ResolveLock with every 1- and 2-key list, a two-request Get command} x 10 key positions x {ProposeCommand, ReadCommand where read-only}), "
                "each distinct (checked), executed on a real one-node leader store over a real DB in seeded random order; expected = CmdValid.tla Valid(c) evaluated by TLC; "
                "non-trivial = only one of the two conditions (epoch, key range) can be the reason for a rejection",
        "samples": samples, "outcomes": counts, "valid_cases": sum(1 for c in cases if c["valid"]),
        "nonempty_scans": scans_nonempty, "valid_but_refused": len(converse),
        "known_finding_hits": classes, "violating_cases": sum(reported.values()),
        "negative_control": "flipped reply and injected out-of-range scan key both noticed", "tlc_wall_s": round(wall, 1),
        "checker_cmd": "OUT=cases.ndjson tlc -config MC_CmdValid(_big).cfg CmdValid.tla ; harness/cmd/cmdvalid",
    }, assumptions=[
        "single store, one-node leader regions; four regions (one per range shape) share one DB preloaded with a committed value at every key position",
        "an empty key is an absent field and names no key: a scan without start key begins at the region's start, a point request without key is "
        "refused or skipped by the executor (Prewrite/Commit/BatchRollback abort 'empty key', ResolveLock skips it, Get/CheckTxnStatus fail with 'Key cannot be empty'); "
        "the code's validation deliberately skips empty keys",
        "a Prewrite's primary lock is its first mutation key (the primary of a real transaction may live in another region and is not a named key of the command)",
        "exhaustive only over the bounded domain of MC_CmdValid.cfg and the key table in checks/cmdvalid.py",
    ])


def classify(case, reply):
    """Witness classifiers of recorded (open) findings; none at present (see findings/known.d/cmdvalid.json)."""
    return None


if __name__ == "__main__":
    main(run, "Regions")
