#!/usr/bin/env python3
"""Optimistic-transaction family: C03 (serializable, snapshot reads), C04 (atomic commit with strictly
increasing versions; failed commits leave no trace).  See DESIGN.md section 5 and docs/design.d/txn.md.

M1  TLC exhaustively checks spec/Txn/Oracle.tla (implementation-shaped: nextTs, committed-transaction
    fingerprints, conflict check against commits above readTs, pruning by the read mark, per-transaction
    readTs/reads/pending writes, versioned store, error exits) against its refinement invariants
    (snapshot reads, serializability in commit order, the commit rule, one increasing version per commit,
    nothing stored but successful commits) for 3 transactions x 2 keys, all interleavings.
M2  TLC generates histories of that spec (-simulate; thorough adds the exhaustive 2-transaction graph);
    harness/cmd/txn executes each on a real DB (DetectConflicts=true) with several Txn objects driven by
    ONE goroutine, optionally with rotate/flush/compaction between steps, an observer transaction that
    reads every key after every step, Commit or CommitWith, small batch limits, Close + Reopen + Dump.
M3  the recorded events are validated by TLC against spec/Txn/TxnPropTrace.tla (property layer).
"""
import json, os, sys, re, subprocess
sys.path.insert(0, os.path.join(os.path.dirname(os.path.abspath(__file__)), "..", "lib"))
from vlib import *

ENGINES = [{"mem": "skiplist"}, {"mem": "art"}, {"mem": "skiplist", "vlog": True, "buckets": 1}, {"mem": "art", "vlog": True, "buckets": 3}]
MAINT = [[{"op": "Rotate"}], [{"op": "Rotate"}, {"op": "Flush"}], [{"op": "Flush"}],
         [{"op": "Compact", "kind": "l0", "base": 1}], [{"op": "Compact", "kind": "ingest-drain", "level": 1}],
         [{"op": "Rotate"}, {"op": "Flush"}, {"op": "Compact", "kind": "l0", "base": 1}]]
TXN_EVENTS = ("Begin", "Get", "Set", "Del", "Commit", "Discard")


def gen_hists(ctx, cfg, simulate=None, depth=None, seed=None, timeout=900):
    r = ctx.tlc_or_undecided("Oracle", cfg, workers=1 if simulate else ctx.workers, simulate=simulate, depth=depth, seed=seed, timeout=timeout)
    if r.violated:
        raise Undecided("Oracle generation: unexpected TLC verdict %s\n%s" % (r.violated, r.out[-2000:]))
    seen, out = set(), []
    for m in re.finditer(r'<<"SCHED", "(.*)">>', r.out):
        s = m.group(1).encode().decode("unicode_escape")
        if s in seen:
            continue
        seen.add(s)
        h = json.loads(s)
        if h:
            out.append(h)
    return out, r


def prelude(kind):
    """Committed base state written before the TLC history (transaction ids 8, 9): tombstones and expired
    entries, so that histories read DELETED / EXPIRED keys that a concurrent transaction then re-creates."""
    B = lambda t: {"op": "Begin", "t": t, "upd": True}
    C = lambda t: {"op": "Commit", "t": t}
    if kind == 1:
        return [B(9), {"op": "Set", "t": 9, "k": "k1", "v": "p1"}, {"op": "Del", "t": 9, "k": "k2"}, C(9)]
    if kind == 2:
        return [B(9), {"op": "Del", "t": 9, "k": "k1"}, {"op": "Set", "t": 9, "k": "k2", "v": "p2", "exp": True}, C(9)]
    if kind == 3:
        return [B(9), {"op": "Set", "t": 9, "k": "k1", "v": "p3"}, {"op": "Set", "t": 9, "k": "k2", "v": "p4"}, C(9),
                B(8), {"op": "Del", "t": 8, "k": "k1"}, C(8)]
    if kind == 4:      # one write per transaction (fits the smallest batch limit)
        return [B(9), {"op": "Del", "t": 9, "k": "k1"}, C(9), B(8), {"op": "Set", "t": 8, "k": "k2", "v": "p5", "exp": True}, C(8)]
    return []


def fillers(n, start):
    """n cheap committed transactions on a key of their own: they only advance the timestamps (and, with a
    shrunk read-mark window, force WaterMark.rebuildWindowLocked while older transactions are still open)."""
    ops = []
    for j in range(n):
        t = 50 + (start + j) % 40
        ops += [{"op": "Begin", "t": t, "upd": True}, {"op": "Set", "t": t, "k": "kf", "v": "f%d" % (start + j)}, {"op": "Commit", "t": t}]
    return ops


def to_schedule(hist, sid, rng, cfg, observe, maint, with_every=2, biglen=0, pre=0):
    """Model history -> driver schedule: integer transaction ids, unique value tokens, maintenance
    actions between steps, CommitWith for every with_every-th commit, Reopen + Dump at the end."""
    ops, n, closed, ncommit = prelude(pre), 0, False, 0
    nfill = 0
    active = set()
    for h in hist:
        o = h["op"]
        if o == "Close":
            ops.append({"op": "Close"}); closed = True
            continue
        t = int(str(h["t"]).lstrip("t"))
        if o == "Begin":
            active.add(t)
            ops.append({"op": "Begin", "t": t, "upd": bool(h["upd"])})
        elif o in ("Get", "Del"):
            ops.append({"op": o, "t": t, "k": h["k"]})
        elif o == "Scan":
            ops.append({"op": "Scan", "t": t})
        elif o == "Set":
            n += 1
            op = {"op": "Set", "t": t, "k": h["k"], "v": "v%d" % n}
            if biglen:
                op["len"] = biglen
            elif cfg.get("vlog") and n % 2:
                op["len"] = 64
            ops.append(op)
        elif o == "Commit":
            ncommit += 1
            ops.append({"op": "Commit", "t": t, "with": with_every > 0 and ncommit % with_every == 0})
        elif o == "Discard":
            ops.append({"op": "Discard", "t": t})
        else:
            raise Undecided("unknown model action %r" % o)
        if o in ("Commit", "Discard"):
            active.discard(t)
        if o == "Commit" and cfg.get("window") and not closed and rng.random() < 0.6:
            k = cfg["window"] + 2
            ops += fillers(k, nfill); nfill += k
        if maint and not closed and rng.random() < 0.3:
            ops += [dict(x) for x in rng.choice(MAINT)]
            if not active and rng.random() < 0.4:     # restart in the middle of a history (no transaction open)
                ops.append({"op": "Reopen"})
    if closed:
        ops.append({"op": "Reopen"})
    elif maint and rng.random() < 0.5:
        ops.append({"op": "Reopen"})
    ops.append({"op": "Dump"})
    return {"id": sid, "cfg": cfg, "keys": ["k1", "k2"], "observe": observe, "ops": ops}


def project(ev):
    """Fields TxnPropTrace.tla needs."""
    e = ev["e"]
    if e == "Maint":
        return {"e": "Maint", "ok": bool(ev.get("ok", True)) and not str(ev.get("res", "")).startswith("ERR")}
    if e in ("Panic", "Hang", "Open", "Close", "Crash"):
        return {"e": "Maint", "ok": False}      # the engine panicked / killed the process while executing a history
    if e == "Set" and ev.get("exp"):
        return {"e": "Del", "t": ev["t"], "k": ev["k"], "ok": ev["ok"]}      # an expired value reads like a tombstone
    if e == "CCommit":
        return {"e": "CCommit", "t": ev["t"], "r": ev["r"], "w": ev["w"]}
    if e == "CDump":
        return {"e": "CDump", "ents": ev["ents"]}
    if e == "Commit":
        return {"e": "Commit", "t": ev["t"], "r": ev["r"], "vers": ev["vers"], "nk": ev["nk"]}
    return {k: ev[k] for k in ("e", "t", "rts", "upd", "k", "v", "r", "ok", "ents", "res") if k in ev}


def project_trace(events):
    """An expired value is projected as a tombstone (Set exp -> Del); the same goes for the stored entry
    that carries its (unique) value token in a dump."""
    exp = {ev["v"] for ev in events if ev["e"] == "Set" and ev.get("exp")}
    out = []
    for ev in events:
        p = project(ev)
        if exp and "ents" in p:
            p = dict(p, ents=[dict(x, v="TOMB") if x["v"] in exp else x for x in p["ents"]])
        out.append(p)
    return out


def run_driver(ctx, scheds):
    binp = ctx.build("txn")
    procs = []
    for part in chunks(scheds, ctx.workers):
        if not part:
            continue
        d = ctx.mkdtemp("drv")
        inp, outp = os.path.join(d, "in.ndjson"), os.path.join(d, "out.ndjson")
        with open(inp, "w") as fh:
            for s in part:
                fh.write(json.dumps(s) + "\n")
        p = subprocess.Popen([binp, "-in", inp, "-out", outp, "-dir", d], stdout=subprocess.PIPE, stderr=subprocess.STDOUT, text=True)
        procs.append((p, outp))
    traces = {}
    for p, outp in procs:
        try:
            out, _ = p.communicate(timeout=1800)
        except subprocess.TimeoutExpired:
            p.kill()
            raise Undecided("txn driver timed out")
        if p.returncode != 0:
            raise Undecided("txn driver failed (%d): %s" % (p.returncode, out[-3000:]))
        for line in open(outp):
            ev = json.loads(line)
            traces.setdefault(ev["s"], []).append(ev)
    return traces


def classify(events, line):
    """Witness classifiers of recorded findings (findings/known.d/txn.json)."""
    ev = events[line]
    if ev["e"] == "Commit" and ev["r"] == "ok":
        # C03-readts-zero-untracked: the wrongly committed transaction began with read timestamp 0
        for b in reversed(events[:line]):
            if b["e"] == "Begin" and b["t"] == ev["t"]:
                return "readts-zero-untracked" if b["rts"] == 0 else None
    return None


def overlap_features(evs):
    """(conflict replies, ok commits of read-write txns that overlapped another commit, error replies)"""
    conflicts = errors = overlaps = 0
    begun, commits = {}, 0
    for e in evs:
        if e["e"] == "Begin":
            begun[e["t"]] = commits
        elif e["e"] == "Commit":
            if e["r"] == "conflict":
                conflicts += 1
            elif e["r"] == "ok" and e["vers"]:
                if commits > begun.get(e["t"], commits):
                    overlaps += 1
                commits += 1
            elif e["r"] != "ok":
                errors += 1
        elif e["e"] in ("Set", "Del") and not e.get("ok", True):
            errors += 1
    return conflicts, overlaps, errors


def run(ctx):
    pid, quick = ctx.pid, ctx.tier == "quick"
    c04 = pid == "C04"
    # ---------------------------------------------------------------- M1
    m1cfgs = ["MC_Oracle_err.cfg"] if c04 else ["MC_Oracle.cfg"]
    if not quick:
        m1cfgs = ["MC_Oracle_err.cfg", "MC_Oracle_collide.cfg"] if c04 else ["MC_Oracle_big.cfg", "MC_Oracle_collide.cfg", "MC_Oracle_reopen.cfg"]
    ctx._specdir()
    import concurrent.futures as cf

    def run_m1():
        out = []
        for c in m1cfgs:
            r = ctx.tlc_or_undecided("Oracle", c, timeout=2400, coverage=not quick, workers=max(2, ctx.workers - 2))
            if r.violated:
                raise Undecided("M1: Oracle.tla violates %s under %s: the specification (design layer) needs attention\n%s" % (r.violated, c, r.out[-2500:]))
            ctx.log("M1 %s: %d generated, %d distinct, depth %d (%.0fs)" % (c, r.generated, r.distinct, r.depth, r.wall))
            # vacuity: every action must have been taken, except those the configuration switches off
            text = open(os.path.join(ctx._specdir(), c)).read()
            off = {a for a, sw in (("Scan", "WithScan = FALSE"), ("Close", "AllowClose = FALSE")) if sw in text}
            vac = sorted(set(r.coverage_zero) - off)
            if vac:
                raise Undecided("M1 %s: actions never taken: %s" % (c, vac))
            r.coverage_zero = sorted(set(r.coverage_zero) & off)
            out.append((c, r))
        return out
    m1pool = cf.ThreadPoolExecutor(max_workers=1)
    m1fut = m1pool.submit(run_m1)        # M1 runs while the histories are generated, executed and validated
    # ---------------------------------------------------------------- M2
    hists = []
    num = 150 if quick else 1500
    gens = [("Gen_Oracle_err.cfg", 21)] if c04 else [("Gen_Oracle.cfg", 20), ("Gen_Oracle_ro.cfg", 20), ("Gen_Oracle_hot.cfg", 14)]
    for i, (g, depth) in enumerate(gens):
        # TLC draws 12x as many behaviours as are executed; those in which the model itself reports a conflict
        # (flag c of the Commit action) are preferred, up to 60 % of the share, the rest is taken as drawn
        share = num // len(gens)
        hs, r = gen_hists(ctx, g, simulate="num=%d" % (12 * share), depth=depth, seed=ctx.seed * 100 + i)
        hot = [h for h in hs if any(x["op"] == "Commit" and x.get("c") for x in h)]
        cold = [h for h in hs if not any(x["op"] == "Commit" and x.get("c") for x in h)]
        pick = hot[:share * 6 // 10]
        pick += cold[:share - len(pick)]
        hists += [(g, h) for h in pick]
    nsim = len(hists)
    nall = 0
    if not quick and not c04:
        hs, r = gen_hists(ctx, "Gen_Oracle_all.cfg", timeout=1200)
        nall = len(hs)
        hists += [("Gen_Oracle_all.cfg", h) for h in hs]
        ctx.log("exhaustive 2-transaction graph: %d maximal histories, %d states" % (nall, r.distinct))
    ctx.rng.shuffle(hists)
    scheds = []
    for i, (g, h) in enumerate(hists):
        cfg = dict(ENGINES[(i + ctx.seed) % len(ENGINES)])
        biglen = 0
        if g == "Gen_Oracle_err.cfg":
            if i % 3 == 2:       # the size limit instead of the count limit: the third ~100-byte write is too big
                cfg["maxsize"] = 330; biglen = 100
            else:
                cfg["maxcount"] = 3 + (i % 3)          # limit-1 / limit writes around the model's bound
            if i % 5 == 4:
                cfg["hotlimit"] = 4                     # hot-key throttling makes some Set/Delete calls fail
            pre = (0, 4, 4)[i % 3]
        else:
            pre = (0, 1, 2, 3)[i % 4]                   # deleted / expired keys in the base state
            if g == "Gen_Oracle_hot.cfg":
                pre = (2, 3)[i % 2]                     # the single hot key is a tombstone in the base state
            if i % 4 == 3:
                cfg["window"] = 4                       # read-mark window of 4 indices + filler commits
        scheds.append(to_schedule(h, len(scheds), ctx.rng, cfg, observe=(i % 2 == 0), maint=(i % 3 != 0), biglen=biglen, pre=pre))
    nconc = 0
    if c04:
        # free-running commits: several goroutines commit at the same moment (coalesced into batches by
        # WriteBatchWait), in most schedules one WAL file write fails in the middle
        for j in range(12 if quick else 60):
            cfg = dict(ENGINES[j % 2], fault=True, waitms=250)
            # each request costs about two WAL file writes: failing write 1..4 hits the first or second request of
            # the batch, so that un-applied requests sit behind it
            ops = prelude((0, 1, 3)[j % 3]) + [{"op": "Concurrent", "n": 4 + j % 3, "fail": (0 if j % 6 == 5 else 1 + ctx.rng.randrange(4))}]
            scheds.append({"id": len(scheds), "cfg": cfg, "keys": ["k1", "k2"], "observe": False, "ops": ops})
            nconc += 1
    replays = json.load(open(os.path.join(VERIF, "findings", "txn_replays.json")))
    nrep = 0
    for rp in replays:
        if pid not in rp["properties"]:
            continue
        for cfg in ENGINES[:2]:
            if "ops" in rp:      # driver-level schedule (maintenance positions matter)
                s = {"id": len(scheds), "cfg": dict(cfg, **rp.get("cfg", {})), "keys": ["k1", "k2"], "observe": False, "ops": rp["ops"]}
            else:
                s = to_schedule(rp["hist"], len(scheds), ctx.rng, dict(cfg, **rp.get("cfg", {})), observe=False, maint=False, with_every=0)
            s["replay"] = rp["id"]
            scheds.append(s); nrep += 1
    ctx.log("M2: %d TLC histories (%d simulated, %d exhaustive) -> %d schedules incl. %d free-running and %d recorded replays" % (len(hists), nsim, nall, len(scheds), nconc, nrep))
    traces = run_driver(ctx, scheds)
    order = sorted(traces)
    if len(order) != len(scheds):
        raise Undecided("driver produced %d traces for %d schedules" % (len(order), len(scheds)))
    tl = [project_trace(traces[s]) for s in order]
    # ---------------------------------------------------------------- M3
    rejected = []
    parts = [p for p in chunks(list(range(len(tl))), max(1, min(ctx.workers, 6))) if p]
    with cf.ThreadPoolExecutor(max_workers=len(parts)) as ex:
        futs = [(part, ex.submit(ctx.validate_traces, "TxnPropTrace", "TxnPropTrace.cfg", [tl[i] for i in part], "Txn", 1500)) for part in parts]
        for part, f in futs:
            for (ti, line, pev, want) in f.result():
                rejected.append((part[ti], line, pev, want))
    nevents = sum(len(t) for t in tl)
    ctx.log("M3: %d traces / %d events validated, %d rejected replies" % (len(tl), nevents, len(rejected)))
    known = {f["id"]: f for f in ctx.load_known()}
    classes, reported = {}, set()
    for (ti, line, pev, want) in rejected:
        sid = order[ti]
        cls = classify(traces[sid], line)
        fid = "%s-%s" % (pid, cls) if cls else None
        if fid and fid in known:
            if fid not in classes:
                ctx.known_finding("%s: %s (e.g. schedule %d line %d: %s)" % (fid, known[fid]["what"], sid, line, json.dumps(pev)))
            classes[fid] = classes.get(fid, 0) + 1
        elif sid not in reported:
            reported.add(sid)
            rp = ctx.save_replay("violation-%d.json" % sid, {"schedule": scheds[sid], "rejected_line": line, "event": traces[sid][line],
                                                             "expected": want, "trace": traces[sid][:line + 1]})
            ctx.violation(rp, "reply contradicts the transaction reference: %s expected %s" % (json.dumps(pev), want))
    m1 = m1fut.result()
    # ------------------------------------------------------- binding self-test
    c1 = c2 = None
    for t in tl:
        gi = [i for i, e in enumerate(t) if e["e"] == "Get" and e["r"] != "NOTFOUND"]
        ci = [i for i, e in enumerate(t) if e["e"] == "Commit" and e["r"] == "ok" and e["vers"]]
        if gi and c1 is None:
            c1 = json.loads(json.dumps(t)); c1[gi[-1]]["r"] = "zz-corrupted"
        if ci and c2 is None:
            c2 = json.loads(json.dumps(t)); c2[ci[0]]["vers"] = [c2[ci[0]]["vers"][0], c2[ci[0]]["vers"][0] + 1]
        if c1 and c2:
            break
    if c1 is None or c2 is None:
        raise Undecided("no trace with a successful read and a successful commit: the driver is not exercising transactions")
    if not ctx.validate_traces("TxnPropTrace", "TxnPropTrace.cfg", [c1], family="Txn") or \
       not ctx.validate_traces("TxnPropTrace", "TxnPropTrace.cfg", [c2], family="Txn"):
        raise Undecided("negative control accepted: the trace specification does not bind replies")
    # -------------------------------------------------------------- evidence
    distinct, tot = set(), [0, 0, 0]
    replies = {}
    for sid in order:
        c, o, e = overlap_features(traces[sid])
        tot[0] += c; tot[1] += o; tot[2] += e
        for ev in traces[sid]:
            if ev["e"] == "CCommit":
                replies["concurrent:" + ev["r"]] = replies.get("concurrent:" + ev["r"], 0) + 1
                e += ev["r"] != "ok"
            if ev["e"] == "Commit":
                replies[ev["r"]] = replies.get(ev["r"], 0) + 1
            elif ev["e"] in ("Set", "Del") and not ev["ok"]:
                replies["write:" + ev["r"]] = replies.get("write:" + ev["r"], 0) + 1
        nt = (c + o > 0) if not c04 else (e + c > 0)
        if nt:
            distinct.add(json.dumps([scheds[sid]["ops"], scheds[sid]["cfg"], scheds[sid]["observe"]], sort_keys=True))
    big = max(m1, key=lambda x: x[1].distinct)[1]
    ctx.evidence("model_checking", {
        "states": big.distinct, "transitions": big.generated, "traces_validated_against_impl": len(tl),
        "evaluations": len(tl), "distinct_nontrivial": len(distinct),
        "rule": ("histories of Oracle.tla generated by TLC (-simulate, thorough: plus every maximal history of the 2-transaction graph), executed on a real DB "
                 "by one goroutine driving several Txn objects; non-trivial = " +
                 ("a Commit/Set/Delete reported an error (conflict, too big, blocked, throttled) and later reads / the final dump were checked"
                  if c04 else "a read-write commit overlapped another transaction's commit (answered ok or conflict)")),
        "samples": [{"schedule": scheds[order[0]], "first_events": tl[0][:14]}],
        "m1": [{"cfg": c, "generated": r.generated, "distinct": r.distinct, "depth": r.depth, "disabled_by_cfg": r.coverage_zero} for c, r in m1],
        "events_validated": nevents, "conflict_replies": tot[0], "overlapping_ok_commits": tot[1], "error_replies": tot[2],
        "reply_histogram": replies, "rejected_replies": len(rejected), "known_finding_hits": classes,
        "negative_control": "rejected as required (corrupted read reply; commit stored under two versions)",
        "checker_cmd": "tlc -config %s Oracle.tla ; tlc -config TxnPropTrace.cfg TxnPropTrace.tla" % m1cfgs[0],
    }, assumptions=[
        "transactions are driven from one goroutine (deterministic histories); concurrent begin/commit interleavings inside the oracle are C05/C32",
        "commit versions are observed as the versions of the entries a Commit call added to the store (internal iterator dump before/after)",
        "conflict replies are always accepted for read-write transactions (fingerprint collisions may only add conflicts)",
        "TLC results hold for the constants in the cfg files (3 transactions, 2 keys, <= 3 operations each)",
    ])


if __name__ == "__main__":
    main(run, "Txn")
