#!/usr/bin/env python3
"""Latch family: C20 (key latches exclude overlapping requests without deadlock).

M1  TLC exhaustively checks spec/Latch/Latch.tla (PlusCal: hash/de-duplicate/sort, one stripe Lock
    per step, Release, second Release) for 3 requests over 3 stripes and every key set of the
    family (duplicates collapse, colliding keys A/D, the empty key E): MutualExclusion at key level,
    TLC's deadlock check, and <>acquired under weak fairness (liveness run without constraint); the
    design that skips empty keys must violate MutualExclusion.
M2/M3 (a) slot lists of real guards vs the spec's (implementation layer, drift only);
    (b) TLC-enumerated interleavings (all for 2 requests, pre-emption bounded for 3) replayed on the
    real Manager with the verif yield point before each stripe Lock; a request stepped into a held
    stripe blocks in the real mutex; "nobody can move, not all done" is a Deadlock event;
    (c) free-running goroutines with random key sets.
    Acquired/Released/Release2/Deadlock events are validated by TLC against LatchPropTrace.tla.
"""
import json, os, sys, re, subprocess, itertools
sys.path.insert(0, os.path.join(os.path.dirname(os.path.abspath(__file__)), "..", "lib"))
from vlib import *
from vpar import validate_traces_parallel

GEN = """SPECIFICATION Spec
CONSTANTS
 Requests = {%(r)s}
 Keys = {"A","B","C","D","E"}
 StripeOf <- DefaultStripe
 NStripes = 3
 KeySets <- %(ks)s
 Deviations = {%(dev)s}
 LateReleasers = {1}
 MaxHist = 100
 MaxPre = %(pre)d
 defaultInitValue = 0
ACTION_CONSTRAINT GateGrain
CONSTRAINT PreBound
INVARIANT EmitHist
CHECK_DEADLOCK FALSE
"""
NAMES = {1: "A", 2: "B", 3: "C", 4: "D", 5: "E"}


def gen(ctx, n, ks, pre, dev):
    name = "Gen_%d_%s_%d_%s.cfg" % (n, ks, pre, "asis" if dev else "fixed")
    open(os.path.join(ctx._specdir(), name), "w").write(GEN % {"r": ",".join(str(i + 1) for i in range(n)), "ks": ks, "pre": pre, "dev": dev})
    r = ctx.tlc_or_undecided("Latch", name, timeout=1200, workers=1)
    if not r.ok:
        raise Undecided("behaviour generation failed (%s):\n%s" % (name, r.out[-2000:]))
    seen, out = set(), []
    for m in re.finditer(r'<<"SCHED", "(.*)">>', r.out):
        s = m.group(1).encode().decode("unicode_escape")
        if s not in seen:
            seen.add(s)
            d = json.loads(s)
            out.append({"mode": "threads", "keys": [[NAMES[k] for k in ks_] for ks_ in d["keys"]], "steps": d["steps"], "late": [1]})
    return out, r


def run_driver(ctx, scheds):
    binp = ctx.build("latch")
    procs = []
    for part in chunks(scheds, ctx.workers):
        if not part:
            continue
        d = ctx.mkdtemp("drv")
        inp, outp = os.path.join(d, "in.ndjson"), os.path.join(d, "out.ndjson")
        with open(inp, "w") as fh:
            for s in part:
                fh.write(json.dumps(s) + "\n")
        p = subprocess.Popen([binp, "-in", inp, "-out", outp], stdout=subprocess.PIPE, stderr=subprocess.STDOUT, text=True)
        procs.append((p, outp, inp, part))
    traces, crashed = {}, []
    for p, outp, inp, part in procs:
        start = 0
        for attempt in range(40):
            try:
                out, _ = p.communicate(timeout=1500)
            except subprocess.TimeoutExpired:
                p.kill()
                raise Undecided("latch driver timed out")
            if p.returncode == 0:
                break
            if "fatal error" not in out:
                raise Undecided("latch driver failed (%d): %s" % (p.returncode, out[-3000:]))
            # the code under test aborted the process: keep what was recorded, continue after that schedule
            last = None
            for line in open(outp):
                ev = json.loads(line)
                if ev["e"] == "Begin":
                    last = ev
            if last is None:
                raise Undecided("latch driver aborted before its first schedule: %s" % out[-1000:])
            crashed.append((last["s"], out.strip().splitlines()[0][:200]))
            start = last["i"] + 1
            if start >= len(part):
                break
            p = subprocess.Popen([binp, "-in", inp, "-out", outp, "-from", str(start)], stdout=subprocess.PIPE, stderr=subprocess.STDOUT, text=True)
        for line in open(outp):
            ev = json.loads(line)
            if ev["e"] != "Begin":
                traces.setdefault(ev["s"], []).append(ev)
            else:
                traces.setdefault(ev["s"], [])
    ctx.crashed = crashed
    return traces


def project(evs):
    out = []
    for ev in evs:
        if ev["e"] == "Acquired":
            out.append({"e": "Acquired", "t": ev["t"], "keys": ev["keys"] or []})
        elif ev["e"] == "Released":
            out.append({"e": "Released", "t": ev["t"]})
        elif ev["e"] == "Release2":
            out.append({"e": "Release2", "t": ev["t"], "ok": ev["ok"]})
        elif ev["e"] == "Deadlock":
            out.append({"e": "Deadlock"})
    return out


def run(ctx):
    quick = ctx.tier == "quick"
    # ---------------------------------------------------------------- M1
    mc = "MC_Latch_quick.cfg" if quick else "MC_Latch.cfg"
    m1 = ctx.tlc_or_undecided("Latch", mc, timeout=1500, coverage=not quick)
    if m1.violated or not m1.ok:
        raise Undecided("M1: Latch.tla violates %s under %s: the specification needs attention\n%s" % (m1.violated, mc, m1.out[-2500:]))
    lv = "MC_Latch_live_quick.cfg" if quick else "MC_Latch_live.cfg"
    live = ctx.tlc_or_undecided("Latch", lv, timeout=1500)
    if live.violated or not live.ok:
        raise Undecided("M1: Latch.tla violates %s under %s (liveness)\n%s" % (live.violated, lv, live.out[-2500:]))
    asis = ctx.tlc_or_undecided("Latch", "MC_Latch_asis.cfg", timeout=900)
    if asis.violated != "MutualExclusion":
        raise Undecided("M1: the design that skips empty keys no longer violates MutualExclusion: model lost its sensitivity")
    ctx.log("M1 %s: %d generated, %d distinct, depth %d, no deadlock; liveness %s: %d distinct; empty-key-skipping design violates MutualExclusion as expected"
            % (mc, m1.generated, m1.distinct, m1.depth, lv, live.distinct))
    # ---------------------------------------------------------------- M2
    ctx._specdir()
    from concurrent.futures import ThreadPoolExecutor
    ASIS = '"EmptyKeyUnlatched"'
    jobs = [(2, "Gen2KeySets", 100, ASIS), (3, "TriKeySets", 2, ASIS)] + ([] if quick else [(3, "PairKeySets", 2, ASIS)])
    with ThreadPoolExecutor(max_workers=max(1, min(3, ctx.workers // 2))) as ex:
        futs = [ex.submit(gen, ctx, *j) for j in jobs]
    scheds, genstates, per = [], 0, {}
    for j, f in zip(jobs, futs):
        ss, r = f.result()
        genstates += r.distinct
        per["%d requests, %s, <=%d pre-emptions" % (j[0], j[1], j[2])] = len(ss)
        if quick and j[0] == 3:
            ctx.rng.shuffle(ss)
            ss = ss[:3000]
        scheds += ss
    nthreads = len(scheds)
    # (a) slot lists for every key set over the five names
    allsets = [list(c) for n in range(6) for c in itertools.combinations("ABCDE", n)]
    scheds.append({"mode": "slots", "keys": allsets})
    nfree = 6 if quick else 60
    for i in range(nfree):
        scheds.append({"mode": "free", "n": 3 + i % 4, "loops": 150, "seed": ctx.seed * 1000 + i, "stripes": 3 if i % 2 == 0 else 16})
    replays = json.load(open(os.path.join(VERIF, "findings", "latch_replays.json")))
    for rp in replays:
        scheds.append(dict(rp["schedule"]))
    for i, s in enumerate(scheds):
        s["id"] = i
    ctx.log("M2: %d schedules (%d TLC interleavings, 1 slot-list sweep over %d key sets, %d free-running, %d recorded replays)"
            % (len(scheds), nthreads, len(allsets), nfree, len(replays)))
    traces = run_driver(ctx, scheds)
    if len(traces) != len(scheds):
        raise Undecided("driver returned %d traces for %d schedules" % (len(traces), len(scheds)))
    hung = [s for s in traces if any(e["e"] == "Hang" for e in traces[s])]
    order = [s for s in sorted(traces) if scheds[s]["mode"] != "slots"]
    tl = [project(traces[s]) for s in order]
    # ---------------------------------------------------------------- M3
    rejected = validate_traces_parallel(ctx, "LatchPropTrace", "LatchPropTrace.cfg", tl, timeout=1500)
    nevents = sum(len(t) for t in tl)
    ctx.log("M3: %d traces / %d events validated, %d contradicting events" % (len(tl), nevents, len(rejected)))
    bysched = {}
    for (ti, line, pev, want) in rejected:
        bysched.setdefault(order[ti], []).append((line, pev, want))
    for n, (sid, rs) in enumerate(sorted(bysched.items(), key=lambda kv: (scheds[kv[0]]["mode"] != "threads", len(scheds[kv[0]].get("steps", []))))):
        if n >= 8:
            ctx.notes.append("%d further failing schedules not listed" % (len(bysched) - 8))
            break
        line, pev, want = rs[0]
        what = {"Acquired": "two requests sharing a key hold their latches at the same time", "Deadlock": "deadlock: no request can move",
                "Release2": "second Release was not harmless"}.get(pev["e"], "event not explained")
        rp = ctx.save_replay("violation-%d.json" % sid, {"schedule": scheds[sid], "rejected_line": line, "event": pev, "expected": want, "trace": traces[sid][:400]})
        ctx.violation(rp, "%s: %s (keys %s, steps %s; %d failing schedules in total)" % (what, json.dumps(pev), scheds[sid].get("keys"), scheds[sid].get("steps"), len(bysched)))
    for sid, msg in ctx.crashed[:5]:
        ctx.notes.append("schedule %d aborted the driver process: %s" % (sid, msg))
    if ctx.crashed and not bysched:
        raise Undecided("the code under test aborted the driver process in %d schedules (%s) and no recorded event contradicts the property" % (len(ctx.crashed), ctx.crashed[0][1]))
    if hung and not bysched:
        raise Undecided("%d free-running runs did not finish within the time limit and no gated schedule failed (no scheduler there: not a verdict)" % len(hung))
    if hung:
        ctx.notes.append("%d free-running runs did not finish within the time limit" % len(hung))
    # (a) implementation layer: drift only
    slot_sid = [s for s in traces if scheds[s]["mode"] == "slots"][0]
    sl = [{"e": "Slots", "stripes": e["stripes"], "slots": e["slots"]} for e in traces[slot_sid] if e["e"] == "Slots"]
    drift = ctx.validate_traces("LatchSlotsTrace", "LatchSlotsTrace.cfg", [sl])
    for (_, line, pev, want) in drift[:5]:
        print("DRIFT family=Latch at=Slots keys=%s slots=%s expected=%s" % (traces[slot_sid][line]["keys"], pev["slots"], want), flush=True)
    # ------------------------------------------------------- binding self-test
    ctl = None
    for t in tl:
        held = {}
        for i, e in enumerate(t):
            if e["e"] == "Acquired":
                held[e["t"]] = set(e["keys"])
            elif e["e"] == "Released":
                other = [k for h, ks in held.items() if h != e["t"] for k in ks]
                if other and i + 1 < len(t):
                    ctl = [dict(x) for x in t]
                    # a request is reported to acquire a key another request still holds
                    ctl.insert(i, {"e": "Acquired", "t": 99, "keys": [other[0]]})
                    break
                held.pop(e["t"], None)
        if ctl:
            break
    if ctl is None:
        raise Undecided("no trace with two overlapping holders-in-time: driver is not exercising contention")
    if not ctx.validate_traces("LatchPropTrace", "LatchPropTrace.cfg", [ctl]):
        raise Undecided("negative control accepted: the trace specification does not bind acquisitions")
    # -------------------------------------------------------------- evidence
    blocked = sum(1 for s in order for e in traces[s] if e["e"] == "Step" and e["state"] == "blocked")
    def nontrivial(sid):
        if scheds[sid]["mode"] != "threads":
            return True
        ks = [set(k) for k in scheds[sid]["keys"]]
        return any(ks[i] & ks[j] for i in range(len(ks)) for j in range(i + 1, len(ks)))
    distinct = {json.dumps([scheds[s].get("keys"), scheds[s].get("steps"), scheds[s].get("seed", 0)]) for s in order if nontrivial(s)}
    ctx.evidence("model_checking", {
        "states": m1.distinct, "transitions": m1.generated, "traces_validated_against_impl": len(tl),
        "evaluations": len(tl), "distinct_nontrivial": len(distinct),
        "rule": "gate-level interleavings (gate = before each stripe Lock, and while holding) enumerated by TLC from Latch.tla: all for 2 requests over 12 key "
                "sets (incl. colliding keys A/D and the empty key), pre-emption bounded (2) for 3 requests; replayed on a real 3-stripe Manager; plus "
                "free-running goroutines (3 and 16 stripes) and the slot-list sweep over all 32 key sets; non-trivial = two of the requests share a key",
        "samples": [{"schedule": scheds[order[len(order) // 2]], "events": tl[len(order) // 2]}],
        "m1": {"cfg": mc, "generated": m1.generated, "distinct": m1.distinct, "depth": m1.depth, "coverage_zero": m1.coverage_zero,
               "deadlock_check": "on, none", "liveness": {"cfg": lv, "property": "EventuallyAcquired", "distinct": live.distinct, "generated": live.generated},
               "deviant_design": {"cfg": "MC_Latch_asis.cfg", "violates": asis.violated}},
        "generation_states": genstates, "interleavings_by_source": per, "events_validated": nevents,
        "steps_blocked_in_a_held_stripe": blocked, "slot_lists_checked": len(sl), "slot_list_drift": len(drift),
        "failing_schedules": len(bysched), "negative_control": "rejected as required",
        "checker_cmd": "tlc -config %s Latch.tla ; tlc -config %s Latch.tla ; tlc -config LatchPropTrace.cfg LatchPropTrace.tla" % (mc, lv),
    }, assumptions=[
        "a request holds its latches from the return of Acquire until it calls Release",
        "3 stripes in gated runs (16 in half of the free-running ones); real keys are found per process for the wanted stripes (MemHash is seeded)",
        "eventual success on the real code is observed as 'all requests finish when released one at a time after the schedule'; fairness of sync.Mutex is assumed",
        "TLC results hold for the constants in the cfg files",
    ])


if __name__ == "__main__":
    main(run, "Latch")
