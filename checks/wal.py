#!/usr/bin/env python3
"""Wal family: C13 (WAL replays exactly what was appended, tolerating any torn tail).
See DESIGN.md section 5 (C13) and docs/design.d/wal.md.

M1  TLC checks spec/Wal/Wal.tla (record framing, Cut(n) for every byte offset, VerifyDir, Replay,
    ReopenAppend) over tiny records.
M2  TLC -simulate generates record-sequence shapes (4 record types, payload sizes
    {0, 1, 7, 600 (> write buffer), 4096}, rotations); harness/cmd/wal builds each with the real
    wal.Manager and then, for every byte offset of the final segment (quick: every offset of
    segments <= 2.3 KiB, boundary neighbourhoods + stride of larger ones), cuts a copy, runs
    VerifyDir + Open + Replay, appends two records and replays again.
M3  the recorded observations are validated by TLC against spec/Wal/WalPropTrace.tla.
"""
import json, os, sys, re, subprocess
sys.path.insert(0, os.path.join(os.path.dirname(os.path.abspath(__file__)), "..", "lib"))
from vlib import *


def fastdir(ctx, name):
    """Driver work directory on tmpfs when available (the WAL / manifest code fsyncs on every
    step; on the disk-backed scratch that dominates the run). Removed at exit."""
    import atexit, shutil, tempfile
    base = "/dev/shm" if os.path.isdir("/dev/shm") and os.access("/dev/shm", os.W_OK) else ctx.scratch
    d = tempfile.mkdtemp(prefix="verif-%s-%s-" % (ctx.pid, name), dir=base)
    atexit.register(shutil.rmtree, d, True)
    return d


def gen_shapes(ctx, nrecs, num, seed):
    d = ctx._specdir()
    src = open(os.path.join(d, "Gen_Wal.cfg")).read()
    name = "Gen_Wal_%d.cfg" % nrecs
    open(os.path.join(d, name), "w").write(re.sub(r"MaxRecs = \d+", "MaxRecs = %d" % nrecs, src))
    r = ctx.tlc_or_undecided("Wal", name, workers=1, simulate="num=%d" % num, depth=nrecs + 4, seed=seed, timeout=300)
    seen, out = set(), []
    for m in re.finditer(r'<<"SCHED", "(.*)">>', r.out):
        s = m.group(1).encode().decode("unicode_escape")
        if s not in seen:
            seen.add(s)
            out.append(json.loads(s))
    return out


def final_bytes(ops):
    n = 0
    for o in ops:
        n = 0 if o["op"] == "Rotate" else n + o["size"] + 9
    return n


def run_driver(ctx, shapes):
    binp = ctx.build("wal")
    procs = []
    # balance by estimated work
    parts = [[] for _ in range(max(1, ctx.workers))]
    load = [0] * len(parts)
    for s in sorted(shapes, key=lambda s: -s["_work"]):
        i = load.index(min(load))
        parts[i].append(s); load[i] += s["_work"]
    for part in parts:
        if not part:
            continue
        d = ctx.mkdtemp("drv")
        work = fastdir(ctx, "drv")
        inp, outp = os.path.join(d, "in.ndjson"), os.path.join(d, "out.ndjson")
        with open(inp, "w") as fh:
            for s in part:
                fh.write(json.dumps({k: v for k, v in s.items() if not k.startswith("_")}) + "\n")
        p = subprocess.Popen([binp, "-in", inp, "-out", outp, "-dir", work], stdout=subprocess.PIPE, stderr=subprocess.STDOUT, text=True)
        procs.append((p, outp))
    traces = {}
    for p, outp in procs:
        try:
            out, _ = p.communicate(timeout=1700)
        except subprocess.TimeoutExpired:
            p.kill()
            raise Undecided("wal driver timed out")
        if p.returncode != 0:
            raise Undecided("wal driver failed (%d): %s" % (p.returncode, out[-3000:]))
        for line in open(outp):
            ev = json.loads(line)
            traces.setdefault(ev["s"], []).append(ev)
    return traces


def project(ev):
    e = ev["e"]
    if e == "Append":
        return {"e": e, "seg": ev["seg"], "rec": ev["rec"], "end": ev["end"]}
    if e in ("Rotate", "Final"):
        return {"e": e, "seg": ev["seg"]}
    return {k: ev[k] for k in ("e", "from", "to", "vok", "ook", "ok1", "aok", "ok2", "recs1", "recs2", "added")}


def run(ctx):
    quick = ctx.tier == "quick"
    # ---------------------------------------------------------------- M1
    cfg = "MC_Wal_quick.cfg" if quick else "MC_Wal.cfg"
    m1 = ctx.tlc_or_undecided("Wal", cfg, timeout=1200, coverage=not quick)
    if m1.violated or not m1.ok:
        raise Undecided("M1: Wal.tla under %s: %s\n%s" % (cfg, m1.violated, m1.out[-2500:]))
    ctx.log("M1 %s: %d generated, %d distinct, depth %d (%.0fs)" % (cfg, m1.generated, m1.distinct, m1.depth, m1.wall))
    # ---------------------------------------------------------------- M2
    hists = []
    for n in ((4,) if quick else (2, 3, 4, 5, 6, 8)):
        hists += gen_shapes(ctx, n, 9 if quick else 14, ctx.seed * 131 + n)
    ctx.rng.shuffle(hists)
    shapes = []
    variants = [(512, False, False), (512, True, True), (0, False, True), (5000, True, False)]   # bufsize, sync, batch
    for i, ops in enumerate(hists):
        fb = final_bytes(ops)
        for (buf, sync, batch) in ([variants[(i + ctx.seed) % 4]] if quick else [variants[i % 4], variants[(i + 2) % 4]]):
            allc = (fb <= 2300) or not quick
            shapes.append({"id": len(shapes), "ops": ops, "cuts": "all" if allc else "near", "stride": 61 + (ctx.seed % 7), "bufsize": buf,
                           "segsize": 65536, "sync": sync, "batch": batch, "seed": ctx.seed * 100 + i,
                           "_work": (fb if allc else 200 + fb // 60) * (1 + sum(o.get("size", 0) for o in ops) // 4000)})
    # size-triggered rotation: 64 KiB segments filled with 4 KiB records, then a few small ones
    big = [{"op": "Append", "type": ["entry", "raft_entry", "raft_snapshot"][k % 3], "size": 4096} for k in range(17)] + \
          [{"op": "Append", "type": "raft_state", "size": 7}, {"op": "Append", "type": "entry", "size": 0}, {"op": "Append", "type": "entry", "size": 600}]
    for (buf, sync, batch) in ([variants[ctx.seed % 4]] if quick else variants[:2]):
        shapes.append({"id": len(shapes), "ops": big, "cuts": "near" if quick else "all", "stride": 211, "bufsize": buf, "segsize": 65536,
                       "sync": sync, "batch": batch, "seed": ctx.seed * 100 + 99, "_work": 2000 if quick else 60000})
    # records larger than the configured segment size (legal: such a record gets a segment of its own)
    huge = [
        [{"op": "Append", "type": "entry", "size": 7}, {"op": "Append", "type": "raft_entry", "size": 70000},
         {"op": "Append", "type": "entry", "size": 1}, {"op": "Append", "type": "raft_state", "size": 600}],
        [{"op": "Append", "type": "raft_state", "size": 0}, {"op": "Append", "type": "raft_snapshot", "size": 70000}],
        [{"op": "Append", "type": "raft_snapshot", "size": 131072}, {"op": "Rotate"}, {"op": "Append", "type": "entry", "size": 7}],
    ]
    for k, ops in enumerate(huge if not quick else huge[:2]):
        buf, sync, batch = variants[(k + ctx.seed) % 4]
        shapes.append({"id": len(shapes), "ops": ops, "cuts": "near", "stride": 4099 + 2 * ctx.seed, "bufsize": buf, "segsize": 65536,
                       "sync": sync, "batch": batch, "seed": ctx.seed * 100 + 90 + k, "_work": 1500})
    ctx.log("M2: %d TLC shapes -> %d driver runs" % (len(hists), len(shapes)))
    traces = run_driver(ctx, shapes)
    order = sorted(traces)
    if len(order) != len(shapes):
        raise Undecided("driver returned %d of %d shapes" % (len(order), len(shapes)))
    tl = [[project(e) for e in traces[s]] for s in order]
    # ---------------------------------------------------------------- M3
    rejected = ctx.validate_traces("WalPropTrace", "WalPropTrace.cfg", tl, timeout=1500)
    nevents = sum(len(t) for t in tl)
    ctx.log("M3: %d traces / %d events validated, %d rejected" % (len(tl), nevents, len(rejected)))
    reported = set()
    for (ti, line, pev, want) in rejected:
        sid = order[ti]
        if sid in reported:
            continue
        reported.add(sid)
        ev = traces[sid][line]
        rp = ctx.save_replay("violation-%d.json" % sid, {"shape": {k: v for k, v in shapes[sid].items() if not k.startswith("_")},
                                                         "rejected_line": line, "event": ev, "expected": want,
                                                         "appends": [e for e in traces[sid] if e["e"] in ("Append", "Rotate", "Final")]})
        ctx.violation(rp, "final segment cut at byte %s..%s: %s (errors: %s; replay returned %d records, after reopen+append %d)"
                      % (ev.get("from"), ev.get("to"), want, ev.get("err"), len(ev.get("recs1", [])), len(ev.get("recs2", []))))
    # ------------------------------------------------------- binding self-test
    ctl = None
    for t in tl:
        idx = [i for i, e in enumerate(t) if e["e"] == "CutRange" and e["recs1"]]
        if idx:
            ctl = [json.loads(json.dumps(x)) for x in t]
            ctl[idx[-1]]["recs1"] = ctl[idx[-1]]["recs1"][:-1]
            ctl2 = [json.loads(json.dumps(x)) for x in t]
            ctl2[idx[-1]]["recs2"] = ctl2[idx[-1]]["recs2"][:-1]
            break
    if ctl is None:
        raise Undecided("no cut returned any record: driver is not exercising the WAL")
    rej = ctx.validate_traces("WalPropTrace", "WalPropTrace.cfg", [ctl, ctl2])
    if not any(r[0] == 0 for r in rej) or not any(r[0] == 1 for r in rej):
        raise Undecided("negative control accepted: the trace specification does not bind replayed records")
    # -------------------------------------------------------------- evidence
    cuts = torn = 0
    distinct = set()
    for s in order:
        ends = {}
        for e in traces[s]:
            if e["e"] == "Append":
                ends.setdefault(e["seg"], set()).add(e["end"])
        fin = [e for e in traces[s] if e["e"] == "Final"][0]
        bset = ends.get(fin["seg"], set()) | {0}
        for e in traces[s]:
            if e["e"] == "CutRange":
                for n in range(e["from"], e["to"] + 1):
                    cuts += 1
                    if n not in bset:
                        torn += 1
                        distinct.add((json.dumps(shapes[s]["ops"]), shapes[s]["bufsize"], shapes[s]["sync"], shapes[s]["batch"], n))
    ctx.evidence("fault_enumeration", {
        "evaluations": cuts, "distinct_nontrivial": len(distinct),
        "rule": "record-sequence shapes generated by TLC -simulate from Wal.tla (types x payload sizes {0,1,7,600,4096} x rotations) plus a "
                "size-triggered-rotation shape and shapes with records larger than the segment size (70000, 131072 B), built with the real wal.Manager under {buffer size, SyncOnWrite, batched AppendRecords} variants; "
                "one evaluation = one cut offset of the final segment (VerifyDir + Open + Replay + append 2 + Replay); non-trivial = the cut "
                "falls strictly inside a record (torn tail), distinct by (shape, variant, offset)",
        "samples": [{"shape": {k: v for k, v in shapes[order[0]].items() if not k.startswith("_")}, "events": traces[order[0]][:10]}],
        "exhaustive": not quick,
        "states": m1.distinct, "transitions": m1.generated, "traces_validated_against_impl": len(tl),
        "m1": {"cfg": cfg, "generated": m1.generated, "distinct": m1.distinct, "depth": m1.depth, "coverage_zero": m1.coverage_zero},
        "shapes": len(shapes), "events_validated": nevents, "cut_offsets": cuts, "torn_offsets": torn, "rejected": len(rejected),
        "negative_control": "rejected as required",
        "checker_cmd": "tlc -config %s Wal.tla ; tlc -config WalPropTrace.cfg WalPropTrace.tla" % cfg,
    }, assumptions=[
        "a torn tail is a prefix of the bytes of the final segment (process crash / truncated file); earlier segments are intact",
        "a record's extent is the file size measured after AppendRecords + Sync",
        "quick tier: segments above 2.3 KiB are cut at every offset within 16 bytes of a record boundary and on a stride, not at every byte",
    ])


if __name__ == "__main__":
    main(run, "Wal")
