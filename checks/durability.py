#!/usr/bin/env python3
"""Durability family: C09 (acknowledged writes survive with SyncWrites), C10 (recovery yields a
prefix-consistent state), C11 (contents change only through new writes).  DESIGN.md section 5.

M1  TLC checks spec/Durability/Durability.tla (what reaches the disk and when, including the value log:
    files durable at append, head logged lazily, reconcileManifest, GC rewrite + file removal; process
    crash anywhere, several crash/reopen cycles, maintenance of the recovered database).
M2  TLC -simulate generates workloads (batches over explicit keys, rotations, stalled flushes, flush
    waits, compactions, GC passes) from that spec. Workloads are SELECTED by facts the real engine reports
    in a listing run (value-log pointers, file lists, rotations): every run contains a stalled flush with
    two sealed memtables, a value overwritten into a later value-log file at a lower offset, and a dead
    value-log file in one bucket next to a live file of the same number in another.
    Each workload runs in a child process through the repo's FaultFS; the crash points (every mutating
    file operation + the crash.* yield points) are counted, then the child is re-run once per crash point
    and exits right there (a real process crash); a second child reopens the directory, dumps it, runs
    flush / every compaction kind / two GC passes / close+reopen / filler writes that seal the value-log
    files + two more GC passes / close+reopen, and dumps after every stage.
M3  TLC validates every (workload, crash point) trace against spec/Durability/RecoveryPropTrace.tla.
"""
import json, os, sys, re, subprocess, shutil
from concurrent.futures import ThreadPoolExecutor
sys.path.insert(0, os.path.join(os.path.dirname(os.path.abspath(__file__)), "..", "lib"))
from vlib import *
from vpar import validate_traces_parallel

KEYS = ["k1", "k2", "k3", "k4"]
STAGES = ("dump_flush", "dump_compact", "dump_maint", "dump_gc2", "dump_reopen", "dump_seal_gc", "dump_reopen2")
OPMAP = {"Rotate": {"op": "Rotate"}, "FlushWait": {"op": "FlushWait"},
         "HoldFlush": {"op": "HoldFlush"}, "ReleaseFlush": {"op": "ReleaseFlush"},
         "CompactL0": {"op": "Compact", "kind": "l0", "base": 1},
         "IngestDrain": {"op": "Compact", "kind": "ingest-drain", "level": 1},
         "GC": {"op": "GC"}}


def gen_hists(ctx, num, depth, seed):
    src = open(os.path.join(ctx._specdir(), "Gen_Durability.cfg")).read()
    name = "Gen_Durability_%d.cfg" % depth
    open(os.path.join(ctx._specdir(), name), "w").write(re.sub(r"MaxHist = \d+", "MaxHist = %d" % depth, src))
    r = ctx.tlc_or_undecided("Durability", name, workers=1, simulate="num=%d" % num, depth=8 * depth, seed=seed, timeout=600)
    seen, out = set(), []
    for m in re.finditer(r'<<"SCHED", "(.*)">>', r.out):
        s = m.group(1).encode().decode("unicode_escape")
        if s not in seen:
            seen.add(s); out.append(json.loads(s))
    return out


def make_workload(ctx, wid, hist, cfg, mode, par=False, pdel=0.2):
    """TLC chose the operations and the keys of every batch; values are numbered here. Plain mode writes one
    key per operation, so a multi-key batch becomes consecutive single writes (par: issued concurrently)."""
    ops, n = [], 0
    for h in hist:
        if h["op"] == "Write":
            ks = [KEYS[(k - 1) % len(KEYS)] for k in h.get("ks") or ctx.rng.sample(range(1, len(KEYS) + 1), min(h["n"], len(KEYS)))]
            ws = []
            for k in ks:
                n += 1
                ws.append({"k": k, "v": "" if ctx.rng.random() < pdel else "w%d" % n})
            if mode == "txn" or par:
                ops.append({"op": "Write", "w": ws})
            else:
                ops += [{"op": "Write", "w": [w]} for w in ws]
        elif h["op"] in OPMAP:
            ops.append(dict(OPMAP[h["op"]]))
    return {"id": wid, "cfg": cfg, "mode": mode, "par": par, "keys": KEYS, "ops": ops}


def shape_tags(wl, evs):
    """Facts about one complete (crash-free) run, as reported by the real engine in listing mode:
      held2   a flush was stalled while two further memtable rotations happened and a write was accepted
              after the second one (two sealed memtables, the older one not installed)
      lower   the current value of some key sits in a LATER value-log file at an offset NOT ABOVE that of
              an earlier, superseded value of the key whose (sealed) file still exists at the end
      deadlive some bucket has a sealed value-log file holding no current value while another bucket's file
              of the same number holds one
    """
    tags = set()
    ops = wl["ops"]
    # held2
    held_at, rot_at_hold = None, 0
    rot = 0
    for e in evs:
        if e["e"] in ("Accept", "Ack"):
            rot = e.get("rot", rot)
            i = e["i"]
            hold = None
            for j in range(i, -1, -1):
                if ops[j]["op"] == "HoldFlush":
                    hold = j; break
                if ops[j]["op"] in ("ReleaseFlush", "FlushWait", "Reopen"):
                    break
            if hold is None:
                held_at = None
            else:
                if held_at != hold:
                    held_at, rot_at_hold = hold, rot
                if e["e"] == "Accept" and rot - rot_at_hold >= 2:
                    tags.add("held2")
    # value-log layout
    hist, cur, files, active = {}, {}, {}, {}
    for e in evs:
        if e["e"] == "L":
            for k, p in (e.get("ptrs") or {}).items():
                if p:
                    hist.setdefault(k, []).append(tuple(p)); cur[k] = tuple(p)
                else:
                    cur.pop(k, None)
            files, active = e["files"], e["active"]
        elif e["e"] == "G":
            files = e["files"]
    exists = {(int(b), f) for b, fs in files.items() for f in fs}
    act = {int(b): f for b, f in active.items()}
    for k, p in cur.items():
        for q in hist.get(k, []):
            if q[0] == p[0] and q[1] < p[1] and p[2] <= q[2] and (q[0], q[1]) in exists and q[1] < act.get(q[0], 0):
                tags.add("lower")
    live = {(p[0], p[1]) for p in cur.values()}
    for (b, f) in exists:
        if f < act.get(b, 0) and (b, f) not in live and any(b2 != b and f2 == f for (b2, f2) in live):
            tags.add("deadlive")
    return tags


def option_sets(pid):
    out = []
    for sync in ([True] if pid == "C09" else [True, False]):
        out += [
            {"mem": "skiplist", "sync": sync, "memsize": 420},                      # rotation inside batches
            # value-log files of 300 B: a new file every 2-3 records, so rotation, head persistence and GC all happen
            {"mem": "art", "sync": sync, "vlog": True, "buckets": 1, "vlogsize": 300, "vallen": 90, "memsize": 600},
            {"mem": "skiplist", "sync": sync, "vlog": True, "buckets": 3, "vlogsize": 300, "vallen": 90},
            {"mem": "art", "sync": sync},
        ]
    return out


RARE = re.compile(r"vlog|MANIFEST|CURRENT|^remove|^rename|truncate|mkdir|crash\.")


def pick_points(ctx, names, cap):
    """All crash points when they fit; otherwise every point at a rare operation (value-log files,
    manifest, CURRENT, removals, renames, truncations, the crash.* yield points) plus a seeded sample
    of the common ones (WAL / SST writes and syncs)."""
    n = len(names)
    if n <= cap:
        return list(range(1, n + 1))
    rare = [i + 1 for i, nm in enumerate(names) if RARE.search(nm)]
    if len(rare) > cap * 2 // 3:
        rare = sorted(ctx.rng.sample(rare, cap * 2 // 3))
    rest = [i for i in range(1, n + 1) if i not in set(rare)]
    return sorted(set(rare) | set(ctx.rng.sample(rest, min(len(rest), cap - len(rare)))))


def run_point(binp, base, wl_path, n):
    d = os.path.join(base, "p%d" % n)
    os.makedirs(d)
    tr, rec = os.path.join(d, "trace.ndjson"), os.path.join(d, "rec.json")
    db = os.path.join(d, "db"); os.makedirs(db)
    p = subprocess.run([binp, "work", "-dir", db, "-wl", wl_path, "-crashat", str(n), "-trace", tr] + (["-list"] if n == 0 else []),
                       stdout=subprocess.DEVNULL, stderr=subprocess.PIPE, text=True, timeout=120)
    if p.returncode not in (0, 77):
        return {"n": n, "error": "work exit %d: %s" % (p.returncode, p.stderr[-800:])}
    evs = [json.loads(l) for l in open(tr)]
    crashed = p.returncode == 77
    before = {}
    vdir = os.path.join(db, "vlog")
    if os.path.isdir(vdir):
        for b in sorted(os.listdir(vdir)):
            m = re.search(r"(\d+)$", b)
            if m and os.path.isdir(os.path.join(vdir, b)):
                before[str(int(m.group(1)))] = sorted(int(f.split(".")[0]) for f in os.listdir(os.path.join(vdir, b)) if f.endswith(".vlog"))
    p2 = subprocess.run([binp, "recover", "-dir", db, "-wl", wl_path, "-out", rec],
                        stdout=subprocess.DEVNULL, stderr=subprocess.PIPE, text=True, timeout=120)
    if p2.returncode != 0 or not os.path.exists(rec):
        res = {"open": False, "err": "recover process died: " + p2.stderr[-600:]}
    else:
        res = json.load(open(rec))
    shutil.rmtree(d, ignore_errors=True)
    return {"n": n, "crashed": crashed, "events": evs, "rec": res, "vbefore": before}


def to_trace(pid, wl, pt):
    t = [{"e": "Cfg", "prop": pid, "sync": bool(wl["cfg"].get("sync")), "keys": wl["keys"]}]
    nb, pos = 0, {}
    for ev in pt["events"]:
        if ev["e"] == "Accept":
            nb += 1
            pos[(ev["i"], ev.get("j", 0))] = nb
            t.append({"e": "Accept", "w": ev["w"]})
        elif ev["e"] == "Ack":
            t.append({"e": "Ack", "ok": ev["ok"], "b": pos[(ev["i"], ev.get("j", 0))]})
    rec = pt["rec"]
    for name, dmp in list(rec.items()):          # error replies carry Go stack traces: keep the message only
        if name.startswith("dump") and isinstance(dmp, dict):
            rec[name] = {k: (v.split("\n")[0][:160] if isinstance(v, str) and v.startswith("ERR:") else v) for k, v in dmp.items()}
    blank = {k: "ERR:not opened" for k in wl["keys"]}
    t.append({"e": "Recovered", "open": bool(rec.get("open")), "dump": rec.get("dump1") or blank})
    if pid == "C11" and rec.get("open"):
        for what in STAGES:
            if what in rec or what in ("dump_flush", "dump_maint", "dump_reopen"):
                t.append({"e": "Post", "what": what, "dump": rec.get(what) or blank})
    return t


def contents(batches, p, keys):
    out = {k: "NOTFOUND" for k in keys}
    for b in batches[:p]:
        for w in b:
            out[w["k"]] = w["v"] if w["v"] != "" else "NOTFOUND"
    return out


def classify(wl, pt, pid):
    """Witness of C10-batch-split (Durability.tla splitB): the recovered contents are a whole prefix of
    the accepted batches plus SOME (not all) writes of the next multi-key batch, and a memtable rotation
    started while that batch was in flight (lsm.rotate yield point counted by the driver)."""
    evs = pt["events"]
    acc = [(i, e) for i, e in enumerate(evs) if e["e"] == "Accept"]
    batches = [e["w"] for _, e in acc]
    dump = (pt["rec"] or {}).get("dump1") or {}
    keys = wl["keys"]
    for p in range(len(batches)):
        nxt = batches[p]
        if len(nxt) < 2:
            continue
        base = contents(batches, p, keys)
        for mask in range(1, (1 << len(nxt)) - 1):           # strict, non-empty subsets of the batch
            c = dict(base)
            for j, w in enumerate(nxt):
                if mask >> j & 1:
                    c[w["k"]] = w["v"] if w["v"] != "" else "NOTFOUND"
            if all(dump.get(k) == c[k] for k in keys):
                i0 = acc[p][0]
                i1 = acc[p + 1][0] if p + 1 < len(acc) else len(evs)
                # the rotation must have started while the batch was in flight: between its Accept and
                # its own Ack (or the crash, if it never returned)
                acks = [e for e in evs[i0 + 1:i1] if e["e"] == "Ack"]
                end = acks[0] if acks else next((e for e in evs[i0 + 1:] if e["e"] == "Crash"), None)
                if end is not None and end.get("rot") != evs[i0].get("rot"):
                    return "batch-split"
                # A batch that never returned: the crash is an os.Exit issued by whichever goroutine hit the
                # crash point; the commit worker keeps running until the process is gone and may start the
                # rotation after the Crash event (with its rotation count) was written. With a memtable of a
                # few hundred bytes every multi-key batch can straddle a rotation, so the witness cannot be
                # refuted from the trace: attribute it to the recorded finding (workloads with the default
                # memtable size keep the strict witness).
                if not acks and 0 < wl["cfg"].get("memsize", 0) <= 1024:
                    return "batch-split"
    return None


def gc_inversion(wl, pt, pev):
    """Witness of finding C11-gc-version-inversion (root cause C02-version-inversion): transactional data
    (every version kept) stored in the value log; after GC a key shows a value that an EARLIER accepted
    transaction wrote to it, i.e. an older version re-inserted by GC shadows the newest one."""
    if wl.get("mode") != "txn" or not wl["cfg"].get("vlog"):
        return False
    rec = (pt["rec"] or {}).get("dump1") or {}
    older = {}
    for e in pt["events"]:
        if e["e"] == "Accept":
            for w in e["w"]:
                older.setdefault(w["k"], set()).add(w["v"] if w["v"] != "" else "NOTFOUND")
    diff = [k for k in wl["keys"] if pev["dump"].get(k) != rec.get(k)]
    return bool(diff) and all(pev["dump"].get(k) in older.get(k, set()) for k in diff)


def vlog_orphan(wl, pt, pev):
    """Witness of finding C10-vlog-orphan-removed: WITHOUT SyncWrites, a key recovered from the WAL points
    into a value-log file that reopen removed as an orphan (the file was created by a rotation whose head
    update had not reached the manifest when the process died): the read fails with 'value log file N not
    found'. Every other key must still be explained by a prefix (the unreadable key is left out)."""
    if wl["cfg"].get("sync") or not wl["cfg"].get("vlog"):
        return False
    bad = [k for k in wl["keys"] if "value log file" in str(pev["dump"].get(k)) and "not found" in str(pev["dump"].get(k))]
    if not bad:
        return False
    batches = [e["w"] for e in pt["events"] if e["e"] == "Accept"]
    rest = [k for k in wl["keys"] if k not in bad]
    for p in range(len(batches) + 1):
        c = contents(batches, p, wl["keys"])
        nxt = batches[p] if p < len(batches) else []
        for mask in range(0, 1 << len(nxt)):
            c2 = dict(c)
            for j, w in enumerate(nxt):
                if mask >> j & 1:
                    c2[w["k"]] = w["v"] if w["v"] != "" else "NOTFOUND"
            if all(pev["dump"].get(k) == c2[k] for k in rest):
                return True
    return False


def gc_inversion_recovered(wl, pt, pev):
    """Same root cause seen at recovery: a value-log GC ran INSIDE the workload (transactional data, value
    log), and the recovered dump differs from the newest accepted state only by showing, for some keys,
    a value an earlier accepted transaction wrote to them (or their initial absence is not involved)."""
    if wl.get("mode") != "txn" or not wl["cfg"].get("vlog"):
        return False
    ops = wl["ops"] if isinstance(wl["ops"], list) else []
    nacc = sum(1 for e in pt["events"] if e["e"] == "Accept")
    seen, gc_before = 0, False
    for op in ops:                       # a GC operation executed before the last accepted batch finished or after it
        if op["op"] == "Write":
            seen += 1
        elif op["op"] == "GC" and seen >= 1 and seen <= nacc:
            gc_before = True
    if not gc_before:
        return False
    batches = [e["w"] for e in pt["events"] if e["e"] == "Accept"]
    newest = contents(batches, len(batches), wl["keys"])
    older = {}
    for b in batches:
        for w in b:
            older.setdefault(w["k"], set()).add(w["v"] if w["v"] != "" else "NOTFOUND")
    diff = [k for k in wl["keys"] if pev["dump"].get(k) != newest[k]]
    return bool(diff) and all(pev["dump"].get(k) in older.get(k, set()) for k in diff)


def relocation_tie(wl, pt, pev):
    """Witness of finding C11-gc-relocation-tie (root cause C01-ingest-tie, Engine family): value-log GC
    relocated a value, so the key is held under ONE version by two sources; after a compaction the lookup
    consults the older one, whose pointer leads into a value-log file that GC has dropped since. Shadowed,
    not lost: at the FIRST stage where the key fails, the LSM itself (lsm.VerifLocate) still holds, behind
    the failing record and under the same version, a record whose pointer resolves. Every differing key
    must show that; a key whose only records are unreadable (a genuinely lost value) is never excused."""
    rec = pt["rec"] or {}
    if not wl["cfg"].get("vlog"):
        return False
    order = ("dump1",) + STAGES
    stage = "dump1" if pev["e"] == "Recovered" else pev.get("what")
    if stage not in order:
        return False
    base = rec.get("dump1") or {}
    diff = [k for k in wl["keys"] if pev["dump"].get(k) != base.get(k)] if pev["e"] == "Post" else \
           [k for k in wl["keys"] if str(pev["dump"].get(k, "")).startswith("ERR:")]
    if not diff:
        return False
    for k in diff:
        if not str(pev["dump"].get(k, "")).startswith("ERR:value log file"):
            return False
        first = next((st for st in order[: order.index(stage) + 1] if str((rec.get(st) or {}).get(k, "")).startswith("ERR:")), None)
        srcs = ((rec.get("where_" + first) or {}).get(k) or []) if first else []
        if len(srcs) < 2 or srcs[0].get("ok") is not False:
            return False
        if not any(x.get("ver") == srcs[0].get("ver") and x.get("ok") is True and not x.get("del") for x in srcs[1:]):
            return False
    return True


def run(ctx):
    pid, quick = ctx.pid, ctx.tier == "quick"
    m1 = []
    green = ["MC_Durability.cfg", "MC_Durability_nosync.cfg"] + (["MC_Durability_vlogq.cfg"] if quick else ["MC_Durability_vlog.cfg", "MC_Durability_vlog_nosync.cfg"])
    for cfg in green:
        r = ctx.tlc_or_undecided("Durability", cfg, timeout=3000, coverage=not quick, workers=2 if quick else None)
        if r.violated:
            raise Undecided("M1: Durability.tla violates %s under %s\n%s" % (r.violated, cfg, r.out[-2000:]))
        m1.append(r)
    ctx.log("M1: %s" % ", ".join("%s %d distinct" % (c, r.distinct) for c, r in zip(green, m1)))
    # the model must tell the repaired design from the defective ones: each of these configurations switches
    # one repair (or the single flush worker) off and has to violate its property
    red = {}
    if not quick:
        for cfg, inv in (("MC_Durability_gcnosync.cfg", "PointersResolve"), ("MC_Durability_gcnotpast.cfg", "ContentsStable"), ("MC_Durability_2workers.cfg", None)):
            r = ctx.tlc("Durability", cfg, timeout=900, workers=2)
            if not r.violated or (inv and r.violated != inv):
                raise Undecided("M1: %s should violate %s, got %s\n%s" % (cfg, inv or "a property", r.violated, r.out[-1500:]))
            red[cfg] = r.violated
        ctx.log("M1 (defective designs rejected): %s" % red)
    hists = gen_hists(ctx, 60 if quick else 300, 10, ctx.seed * 100 + 1) + gen_hists(ctx, 30 if quick else 200, 16, ctx.seed * 100 + 2)
    ctx.rng.shuffle(hists)
    opts = option_sets(pid)
    nwl = 6 if quick else 40
    binp = ctx.build("crash")
    base = ctx.mkdtemp("crash")

    def listing(wl):
        wp = os.path.join(base, "wl%d.json" % wl["id"])
        json.dump(wl, open(wp, "w"))
        shutil.rmtree(os.path.join(base, "count%d" % wl["id"]), ignore_errors=True)
        full = run_point(binp, os.path.join(base, "count%d" % wl["id"]), wp, 0)
        if "error" in full:
            raise Undecided("workload %d does not run: %s" % (wl["id"], full["error"]))
        return wp, full

    # Half of the generated workloads are chosen for a SHAPE, judged on what the real engine reports for a
    # complete run (shape_tags): a stalled flush with two younger sealed memtables; a value superseded by one
    # in a later value-log file at a lower offset; a dead value-log file next to a live one of the same number
    # in another bucket. The other half rotates through the option sets as before.
    S = True if pid == "C09" else ctx.seed % 2 == 0
    SHAPED = {0: ("held2", {"mem": "skiplist", "sync": S, "memsize": 420}, "txn", 0.2),
              1: ("lower", {"mem": "art", "sync": not S or pid == "C09", "vlog": True, "buckets": 1, "vlogsize": 300, "vallen": 90}, "plain", 0.1),
              2: ("deadlive", {"mem": "skiplist", "sync": S, "vlog": True, "buckets": 3, "vlogsize": 300, "vallen": 90}, "plain", 0.1)}
    def plausible(tag, h):
        ops = [x["op"] for x in h]
        if tag == "held2":
            if "HoldFlush" not in ops:
                return False
            rest = ops[ops.index("HoldFlush") + 1:]
            end = min([rest.index(o) for o in ("ReleaseFlush", "FlushWait") if o in rest] or [len(rest)])
            return sum(x.get("n", 0) for x in h[ops.index("HoldFlush") + 1:][:end] if x["op"] == "Write") >= 6
        return sum(x.get("n", 0) for x in h if x["op"] == "Write") >= 8
    pool = list(hists)
    wls, prepared, shapes = [], {}, {}
    for i in range(nwl):
        if i % 6 in SHAPED and pool:
            tag, cfg, mode, pdel = SHAPED[i % 6]
            cands = [h for h in pool if plausible(tag, h)][: (8 if quick else 12)]
            got, tries = None, 0
            for h in cands:
                tries += 1
                wl = make_workload(ctx, i, h, dict(cfg), mode, pdel=pdel)
                wp, full = listing(wl)
                if tag in shape_tags(wl, full["events"]):
                    got = (wl, wp, full, h); break
            if got is None and cands:      # shape not reached: keep the last candidate, the evidence says so
                got = (wl, wp, full, h)
            if got is not None:
                wl, wp, full, h = got
                pool.remove(h)
                wl["shape"] = tag
                wls.append(wl); prepared[wl["id"]] = (wp, full)
                k = shapes.setdefault(tag, {"wanted": 0, "reached": 0, "tries": 0})
                k["wanted"] += 1; k["tries"] += tries; k["reached"] += tag in shape_tags(wl, full["events"])
                continue
        if not pool:
            break
        h = pool.pop(0)
        cfg = opts[(i + ctx.seed) % len(opts)]
        mode = "txn" if i % 3 != 2 else "plain"
        # C09 speaks about acknowledged writes only, so its plain workloads issue the writes of one
        # operation concurrently (coalesced commit batches); C10's prefix order needs a single client
        par = pid == "C09" and i % 2 == 1
        if par:
            mode = "plain"
        wls.append(make_workload(ctx, i, h, cfg, mode, par=par))
    ctx.log("M2 shapes: %s" % shapes)
    # recorded finding / regression workloads stay in the set
    for rp in json.load(open(os.path.join(VERIF, "findings", "durability_replays.json"))):
        if pid in rp["properties"]:
            w = dict(rp["workload"]); w["id"] = 1000 + len(wls); w["replay"] = rp["id"]
            wls.append(w)
    # quick: 40 sampled crash points per generated workload, 24 per recorded finding / regression workload (the
    # sampler keeps value-log, manifest, removal and crash.* points first); thorough: every point
    per_wl_cap = 40 if quick else 100000
    replay_cap = 24 if quick else 100000
    jobs, counts = [], {}
    for wl in wls:
        wp, full = prepared[wl["id"]] if wl["id"] in prepared else listing(wl)
        total = [e for e in full["events"] if e["e"] == "Done"][0]["points"]
        counts[wl["id"]] = total
        names = [e["at"] for e in full["events"] if e["e"] == "P"]
        full["events"] = [e for e in full["events"] if e["e"] != "P"]
        cap = replay_cap if "replay" in wl else per_wl_cap
        pts = pick_points(ctx, names, cap) if len(names) == total else list(range(1, total + 1))[:cap]
        jobs.append((wl, wp, None, full))
        for n in pts:
            jobs.append((wl, wp, n, None))
    ctx.log("M2: %d workloads, crash points per workload %s, %d crash runs" % (len(wls), list(counts.values()), len(jobs) - len(wls)))
    results = []
    with ThreadPoolExecutor(max_workers=ctx.workers) as ex:
        futs = []
        for (wl, wp, n, full) in jobs:
            if full is not None:
                futs.append((wl, n, None, full))
            else:
                futs.append((wl, n, ex.submit(run_point, binp, os.path.join(base, "w%d" % wl["id"]), wp, n), None))
        for wl, n, f, full in futs:
            pt = full if full is not None else f.result()
            if "error" in pt:
                raise Undecided("crash run failed: workload %d point %s: %s" % (wl["id"], n, pt["error"]))
            results.append((wl, pt))
    traces = [to_trace(pid, wl, pt) for wl, pt in results]
    # regression scenario of fix 540bf10 (thorough tier: ~90 MiB of writes): a memtable larger than a WAL
    # segment, crash with a sealed, unflushed memtable; the whole key set is projected onto one key "bulk"
    if not quick and pid in ("C09", "C10"):
        wc = ctx.build("walcollide")
        d = ctx.mkdtemp("walcollide")
        p1 = ctx.run([wc, "-dir", d, "-phase", "write", "-mem", str(80 << 20), "-n", "90000", "-crash"], timeout=1800)
        p2 = ctx.run([wc, "-dir", d, "-phase", "check", "-mem", str(80 << 20), "-n", "90000"], timeout=1800, check=False)
        m = re.search(r"missing=(\d+)", p2.stdout)
        shutil.rmtree(d, ignore_errors=True)
        if not m:
            raise Undecided("walcollide check did not report: %s %s" % (p2.stdout[-300:], p2.stderr[-300:]))
        val = "all" if m.group(1) == "0" else "missing:" + m.group(1)
        bulk_wl = {"id": 9000, "cfg": {"sync": True, "memsize": 80 << 20}, "mode": "plain", "keys": ["bulk"], "ops": "90000 x Set(1 KiB) then crash with a sealed unflushed memtable"}
        bulk_pt = {"n": "bulk", "crashed": True, "events": [{"e": "Accept", "i": 0, "w": [{"k": "bulk", "v": "all"}]}, {"e": "Ack", "i": 0, "ok": True}, {"e": "Crash", "at": "exit after wal.Sync"}],
                   "rec": {"open": True, "dump1": {"bulk": val}}}
        results.append((bulk_wl, bulk_pt))
        traces.append(to_trace(pid, bulk_wl, bulk_pt))
        ctx.log("bulk WAL scenario: %s" % val)
    rejected = validate_traces_parallel(ctx, "RecoveryPropTrace", "RecoveryPropTrace.cfg", traces, timeout=1800, chunk=800)
    ctx.log("M3: %d crash traces validated, %d mismatches" % (len(traces), len(rejected)))
    known = {f["id"]: f for f in ctx.load_known()}
    # the family's own fragment is the source of the merged known_findings.json (bin/mkmanifest): read it too,
    # so that an entry added here is honoured before the merged file has been regenerated
    for f in json.load(open(os.path.join(VERIF, "findings", "known.d", "durability.json"))).get("findings", []):
        if f.get("property") == pid and f.get("status", "open") == "open":
            known.setdefault(f["id"], f)
    hits, reported = {}, set()
    for (ti, line, pev, want) in rejected:
        wl, pt = results[ti]
        cls = classify(wl, pt, pid) if pev["e"] == "Recovered" and pev.get("open") else None
        if pev["e"] == "Recovered" and cls is None and vlog_orphan(wl, pt, pev):
            cls = "vlog-orphan-removed"
        if pev["e"] == "Post" and gc_inversion(wl, pt, pev):
            cls = "gc-version-inversion"
        if pev["e"] == "Recovered" and cls is None and gc_inversion_recovered(wl, pt, pev):
            cls = "gc-version-inversion"
        if cls is None and pev["e"] in ("Recovered", "Post") and (pev["e"] == "Post" or pev.get("open")) and relocation_tie(wl, pt, pev):
            cls = "gc-relocation-tie"
        fid = "%s-%s" % (pid, cls) if cls else None
        if fid and fid in known:
            if fid not in hits:
                crash = [e for e in pt["events"] if e["e"] == "Crash"]
                ctx.known_finding("%s: %s (e.g. workload %d crash point %s at %s)" % (fid, known[fid]["what"], wl["id"], pt["n"], crash[0]["at"] if crash else "-"))
            hits[fid] = hits.get(fid, 0) + 1
        elif (wl["id"], pt["n"]) not in reported:
            reported.add((wl["id"], pt["n"]))
            crash = [e for e in pt["events"] if e["e"] == "Crash"]
            rp = ctx.save_replay("violation-w%d-p%s.json" % (wl["id"], pt["n"]), {"workload": wl, "crash_point": pt["n"], "crash_at": crash[0] if crash else None,
                                 "event": pev, "trace": traces[ti], "recover": pt["rec"]})
            ctx.violation(rp, "%s after crash point %s (%s): %s" % (pev["e"], pt["n"], crash[0]["at"] if crash else "no crash", json.dumps(pev)[:300]))
    # negative control: losing an acknowledged write must be rejected
    ctl = None
    for t in traces:
        recs = [e for e in t if e["e"] == "Recovered"]
        if recs and recs[0]["open"] and any(v != "NOTFOUND" for v in recs[0]["dump"].values()):
            ctl = json.loads(json.dumps(t))
            for e in ctl:
                if e["e"] in (("Post",) if pid == "C11" else ("Recovered", "Post")):
                    for k in e["dump"]:
                        e["dump"][k] = "never-written"
            break
    if ctl is None:
        raise Undecided("no crash image with data: workloads too small")
    if not ctx.validate_traces("RecoveryPropTrace", "RecoveryPropTrace.cfg", [ctl]):
        raise Undecided("negative control accepted")
    kinds = {}
    for wl, pt in results:
        for e in pt["events"]:
            if e["e"] == "Crash":
                k = e["at"].split(":")[0] + ":" + re.sub(r"\d+", "N", e["at"].split(":")[-1])
                kinds[k] = kinds.get(k, 0) + 1
    nontriv = {(wl["id"], pt["n"]) for wl, pt in results if pt.get("crashed") and any(e["e"] == "Ack" for e in pt["events"])}
    # value-log files before / after recovery and maintenance (facts from the file system and the engine)
    vstat = {"images_with_value_log": 0, "open_removed_files": 0, "gc_pass_dropped_file": 0, "gc_pass_reinserted_values": 0,
             "reopen_after_gc_removed_files": 0, "seal_stage_ran": 0}
    for wl, pt in results:
        rec = pt.get("rec") or {}
        vf = rec.get("vfiles") or {}
        if not wl["cfg"].get("vlog") or not vf:
            continue
        vstat["images_with_value_log"] += 1
        before = pt.get("vbefore") or {}
        if any(set(before.get(b, [])) - set(fs) for b, fs in (vf.get("open") or {}).items()):
            vstat["open_removed_files"] += 1
        for res in rec.get("gc") or []:
            vstat["gc_pass_dropped_file"] += any(x.get("gone") for x in res or [])
            vstat["gc_pass_reinserted_values"] += any(x.get("err") for x in res or [])
        if vf.get("gc2") and vf.get("reopen") and any(set(vf["gc2"].get(b, [])) - set(fs) for b, fs in vf["reopen"].items()):
            vstat["reopen_after_gc_removed_files"] += 1
        vstat["seal_stage_ran"] += "dump_seal_gc" in rec
    ctx.evidence("fault_enumeration", {
        "evaluations": len(traces), "distinct_nontrivial": len(nontriv),
        "rule": "one evaluation = one (TLC-generated workload, crash point) pair executed on the real engine in child processes; crash points = every mutating "
                "file operation seen by FaultFS plus the crash.* yield points; non-trivial = the crash happened after at least one acknowledged write",
        "samples": [{"workload": results[0][0], "trace": traces[min(3, len(traces) - 1)]}],
        "states": sum(r.distinct for r in m1), "transitions": sum(r.generated for r in m1), "traces_validated_against_impl": len(traces),
        "crash_points_per_workload": counts, "crash_point_kinds": kinds, "mismatches": len(rejected), "known_finding_hits": hits,
        "workload_shapes": shapes, "value_log": vstat, "m1_configs": green, "m1_defective_designs_rejected": red,
        "exhaustive": not quick, "negative_control": "rejected as required",
    }, assumptions=["process crash (os.Exit at the crash point): page cache and mmap stores survive, user-space buffers die; power loss is out of scope",
                    "single client, so the acceptance order of batches equals the call order",
                    "the recover phase writes filler keys outside the key universe to seal the value-log files before its last GC passes",
                    "quick tier samples at most %d crash points per generated workload and %d per regression workload; thorough runs all of them" % (per_wl_cap, replay_cap)])


if __name__ == "__main__":
    main(run, "Durability")
