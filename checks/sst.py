#!/usr/bin/env python3
"""SST family: C35 (an SST table serves exactly the sorted entries it was built from).

M1  TLC checks spec/SST/SST.tla exhaustively: for every key subset of a small universe, EVERY way of
    cutting it into data blocks and every target, the block-wise algorithm of lsm/table.go (index of
    first keys, last block with baseKey <= target, in-block seek, walk on) returns what the sorted
    sequence returns. MC_SST_dev.cfg (the pre-fix behaviour, ascending seek stops at the end of the
    chosen block) must fail: it is the negative control of the model.
M2  the same spec prints every (entries, cuts) state as a CASE; this file realises the cuts on the
    real builder through value sizes (observed block first-keys are recorded) and adds seeded
    natural-layout tables: block sizes 64 B .. 4 KiB, bloom fp {0, 0.01}, values {0 B, 1 B, small,
    larger than a block}, prefix-related keys, table sizes {1, 2, every observed block boundary -1/0/+1,
    3+ blocks}. harness/cmd/sst builds each table with the real builder, probes every stored key and
    every gap (Search, bloom, Seek in both directions, full iterations), closes it, reopens the file with
    cold caches and repeats.
M3  every trace is validated by TLC against spec/SST/SSTPropTrace.tla.
"""
import json, os, sys, re, subprocess
sys.path.insert(0, os.path.join(os.path.dirname(os.path.abspath(__file__)), "..", "lib"))
from vlib import *
from vstruct import *

VERS = [1, 2, 3, 5, 8, 255, 256, 65535, 999999, MAXV]


def skey(k):
    return internal_sort_key(k)


def probes_for(entries, rng, cap):
    """Every stored key and every gap around it (same user key with neighbouring versions, one-byte
    extensions and truncations of the user key, other column family)."""
    stored = {(e["cf"], tuple(e["k"]), e["ver"]) for e in entries}
    out, seen = [], set()

    def add(cf, k, v):
        t = (cf, tuple(k), v)
        if t not in seen and 0 <= v <= MAXV and (v <= 999999 or v == MAXV):
            seen.add(t); out.append({"cf": cf, "k": list(k), "ver": v})
    for e in entries:
        add(e["cf"], e["k"], e["ver"])
    gaps = []
    for e in entries:
        v = e["ver"]
        for w in ([999999, 0] if v == MAXV else [v + 1, v - 1]):
            gaps.append((e["cf"], e["k"], w))
        gaps.append((e["cf"], e["k"] + [0], MAXV))
        gaps.append((e["cf"], e["k"] + [255], rng.choice(VERS)))
        if e["k"]:
            gaps.append((e["cf"], e["k"][:-1], 0))
            gaps.append((e["cf"], e["k"][:-1] + [(e["k"][-1] + 1) % 256], MAXV))
        gaps.append(((e["cf"] + 1) % 3, e["k"], v))
    if len(gaps) + len(out) > cap:
        gaps = rng.sample(gaps, max(0, cap - len(out)))
    for g in gaps:
        add(*g)
    return out


def realise_cuts(h, block=4096):
    """Entries of a TLC case with value sizes that make the real builder cut blocks at h['cuts']."""
    ents, cuts = h["entries"], set(h["cuts"])
    blocks, cur = [], []
    for i, e in enumerate(ents, 1):
        cur.append(e)
        if i in cuts:
            blocks.append(cur); cur = []
    blocks.append(cur)
    out = []
    for b in blocks:
        for e in b:
            out.append(dict(e, val="v%d" % (len(out) + 1), pad=block // max(len(b), 1) - 64))
    return out, [b[0] for b in blocks]


def key_pool(rng, n):
    pool = set()
    bases = [b"", b"a", bytes([0]), bytes([255]), bytes(rng.randrange(256) for _ in range(rng.randint(1, 5))),
             bytes(rng.randrange(256) for _ in range(rng.choice([12, 30, 70])))]
    while len(pool) < n:
        b = rng.choice(bases)
        for _ in range(rng.randint(0, 3)):
            b += bytes([rng.choice([0, 255, 97, 97, rng.randrange(256)])])
            if rng.random() < 0.6:
                pool.add(b)
        pool.add(b)
        if rng.random() < 0.3:
            bases.append(b)
    return [list(k) for k in pool]


def natural_list(rng, n, block):
    """A sorted entry list (python sorts with the same order the trace spec checks in its Build action)."""
    pool = key_pool(rng, max(3, n // rng.choice([1, 2, 5])))
    cfs = [0] if rng.random() < 0.6 else [0, 1, 2]
    seen, ents = set(), []
    while len(ents) < n:
        k = {"cf": rng.choice(cfs), "k": rng.choice(pool), "ver": rng.choice(VERS) if rng.random() < 0.7 else rng.randrange(1, 50)}
        t = (k["cf"], tuple(k["k"]), k["ver"])
        if t in seen:
            continue
        seen.add(t)
        c = rng.random()
        if c < 0.15:
            k["val"] = ""                      # 0 B
        elif c < 0.3:
            k["val"] = "x"                     # 1 B
        elif c < 0.36:
            k["val"] = "b%d" % len(ents); k["pad"] = block + rng.choice([1, 50, 3000])   # larger than a block
        else:
            k["val"] = "v%d" % len(ents)
            if rng.random() < 0.3:
                k["pad"] = rng.choice([1, 7, 40])
        if rng.random() < 0.15:
            k["meta"] = rng.choice([1, 2, 4])
        if rng.random() < 0.1:
            k["exp"] = rng.choice([1, 300, 1 << 40])
        ents.append(k)
    ents.sort(key=skey)
    return ents


def run_driver(ctx, cases):
    binp = ctx.build("sst")
    procs = []
    for part in chunks(cases, ctx.workers):
        if not part:
            continue
        d = ctx.mkdtemp("drv")
        inp, outp = os.path.join(d, "in.ndjson"), os.path.join(d, "out.ndjson")
        with open(inp, "w") as fh:
            for c in part:
                fh.write(json.dumps(c) + "\n")
        procs.append((subprocess.Popen([binp, "-in", inp, "-out", outp, "-dir", d], stdout=subprocess.PIPE, stderr=subprocess.STDOUT, text=True), outp))
    traces = {}
    for p, outp in procs:
        try:
            out, _ = p.communicate(timeout=1800)
        except subprocess.TimeoutExpired:
            p.kill()
            raise Undecided("sst driver timed out")
        if p.returncode != 0:
            raise Undecided("sst driver failed (%d): %s" % (p.returncode, out[-3000:]))
        for line in open(outp):
            ev = json.loads(line)
            traces.setdefault(ev.pop("s"), []).append(ev)
    return traces


def project(ev):
    return {k: v for k, v in ev.items() if k not in ("bases", "msg", "blocks", "bloom")}


def in_block_gap(bases_keys, last_keys, t):
    """t lies strictly after the last key of some block and before the first key of the next one."""
    ts = skey(t)
    return any(skey(last_keys[i]) < ts < skey(bases_keys[i + 1]) for i in range(len(bases_keys) - 1))


def run(ctx):
    quick = ctx.tier == "quick"
    rng = ctx.rng
    os.environ.setdefault("JAVA_TOOL_OPTIONS", "-XX:ParallelGCThreads=2")
    # ------------------------------------------------------------------ M1
    m1 = []
    for cfg in (["MC_SST.cfg"] if quick else ["MC_SST.cfg", "MC_SST_4.cfg"]):
        r = ctx.tlc_or_undecided("SST", cfg, timeout=1500)
        if r.violated:
            raise Undecided("M1: SST.tla violates %s under %s: the block-wise algorithm as modelled does not refine the sorted sequence\n%s" % (r.violated, cfg, r.out[-2500:]))
        ctx.log("M1 %s: %d generated, %d distinct (%.0fs)" % (cfg, r.generated, r.distinct, r.wall))
        m1.append((cfg, r))
    rd = ctx.tlc("SST", "MC_SST_dev.cfg", timeout=600)
    if rd.violated != "SeekAscOK":
        raise Undecided("M1 negative control: MC_SST_dev.cfg (seek stops at block end) should violate SeekAscOK, got %s" % rd.violated)
    ctx.log("M1 negative control: pre-fix seek behaviour violates SeekAscOK in the model, as it must")
    # ------------------------------------------------------------------ M2: cases
    r = ctx.tlc_or_undecided("SST", "Gen_SST.cfg" if quick else "Gen_SST_4.cfg", workers=2, timeout=900)
    hs = tlc_json_lines(r.out, "CASE")
    total_tlc = len(hs)
    cap = 500 if quick else 5000
    if len(hs) > cap:
        # keep every multi-block layout of up to 3 entries, sample the rest
        small = [h for h in hs if len(h["entries"]) <= 3]
        rest = [h for h in hs if len(h["entries"]) > 3]
        hs = small[:cap] + rng.sample(rest, max(0, min(len(rest), cap - len(small))))
    cases, meta, want_bases = [], {}, {}
    for i, h in enumerate(hs):
        ents, bases = realise_cuts(h)
        c = {"id": len(cases), "block": 4096, "bloom": [0, 0.01][i % 2], "entries": ents, "lim": 0}
        c["probes"] = probes_for(ents, rng, 60)
        c["targets"] = c["probes"]
        meta[c["id"]] = "tlc-cuts"; want_bases[c["id"]] = [kproj(b) for b in bases]
        cases.append(c)
    # natural layouts, phase 1: full lists (3+ blocks) to learn where the real builder cuts
    fulls = []
    plan = [(64, 8), (128, 14), (256, 24), (1024, 70), (4096, 260)]
    reps = 2 if quick else 6
    for rep in range(reps):
        for block, n in plan:
            ents = natural_list(rng, n + rng.randint(0, n // 3), block)
            c = {"id": len(cases), "block": block, "bloom": rng.choice([0, 0.01]), "entries": ents, "lim": 2}
            c["probes"] = probes_for(ents, rng, 500)
            c["targets"] = rng.sample(c["probes"], min(len(c["probes"]), 160))
            meta[c["id"]] = "natural-full-%d" % block
            cases.append(c); fulls.append(c)
    ctx.log("M2 phase 1: %d TLC layouts (of %d) + %d natural tables" % (len(hs), total_tlc, len(fulls)))
    traces = run_driver(ctx, cases)
    # phase 2: prefixes of the natural lists at 1, 2 and every observed block boundary -1/0/+1
    phase2 = []
    for c in fulls:
        b = [e for e in traces[c["id"]] if e["e"] == "Build"]
        if not b:
            continue
        firsts = [(x["cf"], tuple(x["k"]), x["ver"]) for x in b[0]["bases"]]
        pos = [i for i, e in enumerate(c["entries"]) if (e["cf"], tuple(e["k"]), e["ver"]) in set(firsts)]
        sizes = {1, 2}
        for p in pos[1:(4 if quick else 8)]:
            sizes |= {p - 1, p, p + 1}            # p entries fill the blocks before position p exactly
        for n in sorted(s for s in sizes if 0 < s < len(c["entries"])):
            ents = c["entries"][:n]
            d = {"id": len(cases) + len(phase2), "block": c["block"], "bloom": 0.01 - c["bloom"], "entries": ents, "lim": 2}
            d["probes"] = probes_for(ents, rng, 300)
            d["targets"] = rng.sample(d["probes"], min(len(d["probes"]), 100))
            meta[d["id"]] = "natural-boundary-%d" % c["block"]
            phase2.append(d)
    cases += phase2
    traces.update(run_driver(ctx, phase2))
    order = sorted(traces)
    if len(order) != len(cases):
        raise Undecided("driver returned %d traces for %d cases" % (len(order), len(cases)))
    tl = [[project(e) for e in traces[s]] for s in order]
    # ------------------------------------------------------------------ M3
    rejected = validate_parallel(ctx, "SSTPropTrace", "SSTPropTrace.cfg", tl, timeout=1500)
    nevents = sum(len(t) for t in tl)
    ctx.log("M3: %d traces / %d events validated, %d replies rejected" % (len(tl), nevents, len(rejected)))
    reported = set()
    for (ti, line, ev, want) in rejected:
        sid = order[ti]
        if sid in reported:
            continue
        reported.add(sid)
        c = cases[sid]
        detail = ""
        if want is not None and ev["e"] in ("Search", "Seek"):
            w = json.loads(tla_unquote(want))
            got = ev["rs"] if ev["e"] == "Search" else ev["outs"]
            qs = ev["ps"] if ev["e"] == "Search" else ev["ts"]
            for i in range(len(qs)):
                g = got[i] if i < len(got) else None
                if ev["e"] == "Search":
                    g = [] if not g or not g.get("found") else [{k: g[k] for k in ("cf", "k", "ver", "val")}]
                if g != w[i]:
                    detail = " %s %s: got %s, the sorted sequence gives %s" % (ev["e"], json.dumps(qs[i]), json.dumps(g)[:200], json.dumps(w[i])[:200])
                    break
        reopened = any(e["e"] == "Reopen" for e in traces[sid][:line])
        rp = ctx.save_replay("violation-%d.json" % sid, {"case": c, "origin": meta[sid], "rejected_line": line, "event": ev, "expected": want,
                                                         "after_reopen": reopened, "blocks": traces[sid][0].get("bases")})
        ctx.violation(rp, "table answers differ from the entries it was built from (%s, block=%d, %d entries, %d blocks, %s%s):%s" % (
            meta[sid], c["block"], len(c["entries"]), traces[sid][0].get("blocks", 0), ev.get("e"), " after reopen" if reopened else "", detail))
    # ------------------------------------------------------------------ negative controls
    bad = {r[0] for r in rejected}
    ctl = ctl2 = None
    for ti, t in enumerate(tl):
        if ti in bad:
            continue
        for i, e in enumerate(t):
            if ctl is None and e["e"] == "Search" and any(r["found"] for r in e["rs"]):
                ctl = [dict(x) for x in t]
                rs = [dict(r) for r in e["rs"]]
                j = max(i2 for i2, r in enumerate(rs) if r["found"])
                rs[j] = {"found": False}
                ctl[i]["rs"] = rs
            if ctl2 is None and e["e"] == "Bloom" and traces[order[ti]][0].get("bloom") and any(e["rs"]):
                stored = {(x["cf"], tuple(x["k"])) for x in t[0]["entries"]}
                js = [j for j, k in enumerate(e["ks"]) if (k["cf"], tuple(k["k"])) in stored]
                if js:
                    ctl2 = [dict(x) for x in t]
                    rs = list(e["rs"]); rs[js[-1]] = False
                    ctl2[i]["rs"] = rs
        if ctl and ctl2:
            break
    if (ctl is None or ctl2 is None) and not ctx.violations:
        raise Undecided("no accepted trace with a successful lookup and a bloom filter: the driver is not exercising the table")
    for name, c in (("lookup of a stored key", ctl), ("bloom answer of a stored key", ctl2)):
        if c is not None and not ctx.validate_traces("SSTPropTrace", "SSTPropTrace.cfg", [c]):
            raise Undecided("negative control accepted: the trace specification does not bind the %s" % name)
    # ------------------------------------------------------------------ evidence
    realised = sum(1 for sid, wb in want_bases.items()
                   if [kproj(x) for x in traces[sid][0].get("bases", [])] == wb)
    stats = {"multi_block": 0, "gap_targets": 0, "big_value": 0, "reopened": 0, "with_bloom": 0}
    nontrivial = set()
    for sid in order:
        c, b = cases[sid], traces[sid][0]
        if b.get("e") != "Build":
            continue
        bases = b.get("bases", [])
        firsts = {(x["cf"], tuple(x["k"]), x["ver"]) for x in bases}
        idx = [i for i, e in enumerate(c["entries"]) if (e["cf"], tuple(e["k"]), e["ver"]) in firsts]
        lasts = [c["entries"][i - 1] for i in idx[1:]]
        gap = len(bases) > 1 and any(in_block_gap(bases, lasts, t) for t in c["targets"])
        big = any(e.get("pad", 0) > c["block"] for e in c["entries"])
        stats["multi_block"] += len(bases) > 1
        stats["gap_targets"] += bool(gap)
        stats["big_value"] += bool(big)
        stats["with_bloom"] += bool(b.get("bloom"))
        stats["reopened"] += any(e["e"] == "Reopen" for e in traces[sid])
        if gap or big or (len(bases) > 1 and has_prefix_pair(c["entries"])):
            nontrivial.add(json.dumps([c["entries"], c["block"], c["bloom"]], sort_keys=True))
    kinds = {}
    for sid in order:
        kinds[meta[sid]] = kinds.get(meta[sid], 0) + 1
    s0 = cases[0]
    ctx.evidence("model_checking", {
        "evaluations": len(cases), "distinct_nontrivial": len(nontrivial),
        "rule": "cases = (entries, block cuts) states printed by TLC from SST.tla with the cuts realised on the real builder through value sizes, "
                "plus seeded natural-layout tables over block sizes 64 B..4 KiB, bloom fp {0,0.01}, value sizes {0 B, 1 B, small, > block} and their prefixes at "
                "1, 2 and every observed block boundary -1/0/+1; each is built, probed (every stored key and every gap: Search, bloom, Seek asc/desc, iterations), closed, "
                "reopened cold and probed again; distinct by (entries, block size, bloom); non-trivial = a seek target falls between two blocks, or a value is larger than a block, "
                "or a multi-block table holds prefix-related user keys",
        "samples": [{"origin": meta[s0["id"]], "block": s0["block"], "bloom": s0["bloom"], "entries": s0["entries"], "observed_block_first_keys": traces[s0["id"]][0].get("bases"),
                     "first_probes": s0["probes"][:6]}],
        "states": sum(r.distinct for _, r in m1), "transitions": sum(r.generated for _, r in m1),
        "traces_validated_against_impl": len(tl),
        "m1": [{"cfg": cfg, "generated": r.generated, "distinct": r.distinct} for cfg, r in m1],
        "m1_negative_control": "MC_SST_dev.cfg violates SeekAscOK",
        "tlc_layouts_generated": total_tlc, "tlc_layouts_executed": len(hs), "tlc_layouts_realised_exactly": realised,
        "case_origins": kinds, "case_stats": stats, "events_validated": nevents, "replies_rejected": len(rejected),
        "negative_control": "rejected as required (lookup of a stored key, bloom answer of a stored key)",
        "checker_cmd": "tlc -config MC_SST.cfg SST.tla ; tlc -config SSTPropTrace.cfg SSTPropTrace.tla",
    }, assumptions=[
        "stored versions are >= 1 (table.Search never returns version 0 by design: it accepts only versions above the caller's running maximum, initially 0)",
        "entries are handed to the builder strictly sorted (checked by the trace spec's Build action), as flush and compaction do",
        "bloom filter: only the absence of false negatives is judged; TLC results hold for the constants in spec/SST/*.cfg",
    ])


if __name__ == "__main__":
    main(run, "SST")
