#!/usr/bin/env python3
"""Directory lock family: C33 (at most one database holds a working directory at a time).

M1  TLC exhaustively checks spec/DirLock/DirLock.tla (PlusCal; Open / Flock / Verify / WriteInfo /
    three Release steps, inodes as values, 3 contenders): the repaired design satisfies
    AtMostOneHolder; the three weaker designs (as before the fix, only the reordered Release, only
    the inode check) must each violate it (the model is sensitive to both halves of the repair).
M2  TLC enumerates gate-level interleavings of that spec (all for 2 contenders, pre-emption bounded
    for 3; from the design before the fix and from the repaired design); harness/cmd/dirlock replays
    them on the real utils.AcquireDirLock/Release with real flock in a temp dir - contenders as
    goroutines, and as separate processes for a sample - plus free-running goroutines.
M3  Acquire/Release events are validated by TLC against spec/DirLock/DirLockPropTrace.tla.
"""
import json, os, sys, re, subprocess
sys.path.insert(0, os.path.join(os.path.dirname(os.path.abspath(__file__)), "..", "lib"))
from vlib import *
from vpar import validate_traces_parallel, fast_tmp

GEN = """SPECIFICATION Spec
CONSTANTS
 Contenders = {%(c)s}
 MaxInode = 6
 Deviations = {%(dev)s}
 MaxHist = 100
 MaxPre = %(pre)d
 defaultInitValue = 0
ACTION_CONSTRAINT GateGrain
CONSTRAINT PreBound
INVARIANT EmitHist
CHECK_DEADLOCK FALSE
"""
ASIS = '"UnlinkAfterUnlock","NoInodeCheck"'


def gen(ctx, n, dev, pre):
    name = "Gen_%d_%d_%s.cfg" % (n, pre, "asis" if dev else "fixed")
    open(os.path.join(ctx._specdir(), name), "w").write(GEN % {"c": ",".join(str(i + 1) for i in range(n)), "dev": dev, "pre": pre})
    r = ctx.tlc_or_undecided("DirLock", name, timeout=900, workers=1)
    if not r.ok:
        raise Undecided("behaviour generation failed (%s):\n%s" % (name, r.out[-2000:]))
    seen, out = set(), []
    for m in re.finditer(r'<<"SCHED", "(.*)">>', r.out):
        s = m.group(1)
        if s not in seen:
            seen.add(s)
            out.append({"n": n, "steps": json.loads(s), "mode": "threads"})
    return out, r


def run_driver(ctx, scheds):
    binp = ctx.build("dirlock")
    procs = []
    for part in [scheds[i::ctx.workers] for i in range(ctx.workers)]:   # strided: slow modes spread over the shards
        if not part:
            continue
        d = ctx.mkdtemp("drv")
        work = fast_tmp(ctx, "work")
        inp, outp = os.path.join(d, "in.ndjson"), os.path.join(d, "out.ndjson")
        with open(inp, "w") as fh:
            for s in part:
                fh.write(json.dumps(s) + "\n")
        p = subprocess.Popen([binp, "-in", inp, "-out", outp, "-dir", work], stdout=subprocess.PIPE, stderr=subprocess.STDOUT, text=True)
        procs.append((p, outp))
    traces = {}
    for p, outp in procs:
        try:
            out, _ = p.communicate(timeout=1500)
        except subprocess.TimeoutExpired:
            p.kill()
            raise Undecided("dirlock driver timed out")
        if p.returncode != 0:
            raise Undecided("dirlock driver failed (%d): %s" % (p.returncode, out[-3000:]))
        for line in open(outp):
            ev = json.loads(line)
            traces.setdefault(ev["s"], []).append(ev)
    return traces


def project(evs):
    return [{k: v for k, v in ev.items() if k in ("e", "t", "ok")} for ev in evs if ev["e"] in ("Acquire", "Release")]


def run(ctx):
    quick = ctx.tier == "quick"
    # ---------------------------------------------------------------- M1
    m1 = ctx.tlc_or_undecided("DirLock", "MC_DirLock.cfg", timeout=900, coverage=not quick)
    if m1.violated or not m1.ok:
        raise Undecided("M1: DirLock.tla (repaired design) violates %s: the specification needs attention\n%s" % (m1.violated, m1.out[-2500:]))
    weaker = {}
    for cfg in ("MC_DirLock_asis.cfg", "MC_DirLock_reorder_only.cfg", "MC_DirLock_check_only.cfg"):
        r = ctx.tlc_or_undecided("DirLock", cfg, timeout=900)
        if r.violated != "AtMostOneHolder":
            raise Undecided("M1: %s no longer violates AtMostOneHolder: model lost its sensitivity" % cfg)
        weaker[cfg] = r.distinct
    ctx.log("M1 MC_DirLock.cfg: %d generated, %d distinct, depth %d; the three weaker designs violate AtMostOneHolder as expected" % (m1.generated, m1.distinct, m1.depth))
    # ---------------------------------------------------------------- M2
    ctx._specdir()
    from concurrent.futures import ThreadPoolExecutor
    jobs = [(2, ASIS, 100), (2, "", 100), (3, ASIS, 2), (3, "", 2)] + ([] if quick else [(3, ASIS, 3), (3, "", 3)])
    with ThreadPoolExecutor(max_workers=max(1, min(4, ctx.workers // 2))) as ex:
        futs = [ex.submit(gen, ctx, *j) for j in jobs]
    scheds, seen, genstates, per = [], set(), 0, {}
    for j, f in zip(jobs, futs):
        ss, r = f.result()
        genstates += r.distinct
        per["%d contenders, %s design, <=%d pre-emptions" % (j[0], "as-before-fix" if j[1] else "repaired", j[2])] = len(ss)
        for s in ss:
            k = (s["n"], tuple(s["steps"]))
            if k not in seen:
                seen.add(k)
                scheds.append(s)
    nthreads = len(scheds)
    # the same interleavings with the contenders in separate processes (flock across processes)
    pick = list(range(nthreads))
    ctx.rng.shuffle(pick)
    nprocs = 40 if quick else 300
    for i in pick[:nprocs]:
        scheds.append({"n": scheds[i]["n"], "steps": scheds[i]["steps"], "mode": "procs"})
    nfree = 4 if quick else 30
    for i in range(nfree):
        scheds.append({"n": 3, "steps": [], "mode": "free", "seed": ctx.seed * 1000 + i, "loops": 150})
    # whole databases (NoKV.Open / db.Close) as contenders: the directory must stay held until Close is done with it
    ndb = 10 if quick else 80
    two = [s for s in scheds[:nthreads] if s["n"] == 2]
    ctx.rng.shuffle(two)
    for s in two[:ndb]:
        scheds.append({"n": 2, "steps": s["steps"], "mode": "db"})
    replays = json.load(open(os.path.join(VERIF, "findings", "dirlock_replays.json")))
    nrep = 0
    for rp in replays:
        for mode in rp.get("modes", ("threads", "procs")):
            nrep += 1
            s = dict(rp["schedule"]); s["mode"] = mode
            scheds.append(s)
    for i, s in enumerate(scheds):
        s["id"] = i
    ctx.log("M2: %d schedules (%d TLC interleavings as goroutines, %d of them also as processes, %d free-running, %d recorded replays)"
            % (len(scheds), nthreads, nprocs, nfree, nrep) + "; %d interleavings with whole databases as contenders" % ndb)
    traces = run_driver(ctx, scheds)
    if len(traces) != len(scheds):
        raise Undecided("driver returned %d traces for %d schedules" % (len(traces), len(scheds)))
    order = sorted(traces)
    tl = [project(traces[s]) for s in order]
    # ---------------------------------------------------------------- M3
    rejected = validate_traces_parallel(ctx, "DirLockPropTrace", "DirLockPropTrace.cfg", tl, timeout=1500)
    nevents = sum(len(t) for t in tl)
    ctx.log("M3: %d traces / %d events validated, %d contradicting acquisitions" % (len(tl), nevents, len(rejected)))
    bysched = {}
    for (ti, line, pev, want) in rejected:
        bysched.setdefault(order[ti], []).append((line, pev, want))
    for n, (sid, rs) in enumerate(sorted(bysched.items(), key=lambda kv: (scheds[kv[0]]["mode"] != "threads", len(scheds[kv[0]]["steps"])))):
        if n >= 8:
            ctx.notes.append("%d further failing schedules not listed" % (len(bysched) - 8))
            break
        line, pev, want = rs[0]
        rp = ctx.save_replay("violation-%d.json" % sid, {"schedule": scheds[sid], "rejected_line": line, "event": pev, "expected": want, "trace": traces[sid]})
        ctx.violation(rp, "two holders of one directory: %s succeeded while another contender holds it (mode %s, steps %s; %d failing schedules in total)"
                      % (json.dumps(pev), scheds[sid]["mode"], scheds[sid]["steps"], len(bysched)))
    # ------------------------------------------------------- binding self-test
    ctl = None
    for t in tl:
        held = set()
        for i, e in enumerate(t):
            if e["e"] == "Acquire" and e["ok"]:
                held.add(e["t"])
            elif e["e"] == "Release":
                held.discard(e["t"])
            elif e["e"] == "Acquire" and held - {e["t"]}:
                ctl = [dict(x) for x in t]
                ctl[i]["ok"] = True          # a contender refused while another one holds is reported as a second holder
                break
        if ctl:
            break
    if ctl is None:
        raise Undecided("no trace with a refused acquisition: driver is not exercising contention")
    if not ctx.validate_traces("DirLockPropTrace", "DirLockPropTrace.cfg", [ctl]):
        raise Undecided("negative control accepted: the trace specification does not bind acquisitions")
    # -------------------------------------------------------------- evidence
    def nontrivial(sid):
        evs = [e for e in traces[sid] if e["e"] in ("Acquire", "Release")]
        got = [e for e in evs if e["e"] == "Acquire" and e["ok"]]
        refused = [e for e in evs if e["e"] == "Acquire" and not e["ok"]]
        return len(got) >= 2 or (got and refused)
    distinct = {json.dumps([scheds[s]["n"], scheds[s]["steps"], scheds[s]["mode"], scheds[s].get("seed", 0)]) for s in order if nontrivial(s)}
    stats = {"acquired": 0, "refused": 0, "released": 0}
    for s in order:
        for e in traces[s]:
            if e["e"] == "Acquire":
                stats["acquired" if e["ok"] else "refused"] += 1
            elif e["e"] == "Release":
                stats["released"] += 1
    ctx.evidence("model_checking", {
        "states": m1.distinct, "transitions": m1.generated, "traces_validated_against_impl": len(tl),
        "evaluations": len(tl), "distinct_nontrivial": len(distinct),
        "rule": "gate-level interleavings enumerated by TLC from DirLock.tla (gates: before flock, before truncate, holding, before close, before "
                "remove): all for 2 contenders, pre-emption bounded (quick 2, thorough 3) for 3 contenders, from the design before the fix and from the "
                "repaired design; replayed on real flock in-process and, for a seeded sample, with one process per contender; plus free-running "
                "goroutines. non-trivial = at least two successful acquisitions, or a successful and a refused one, in the run",
        "samples": [{"schedule": scheds[order[len(order) // 3]], "events": tl[len(order) // 3]}],
        "m1": {"cfg": "MC_DirLock.cfg", "generated": m1.generated, "distinct": m1.distinct, "depth": m1.depth, "coverage_zero": m1.coverage_zero,
               "weaker_designs_violating": weaker},
        "generation_states": genstates, "db_level_schedules": ndb, "interleavings_by_source": per, "events_validated": nevents, "driver_stats": stats,
        "failing_schedules": len(bysched), "negative_control": "rejected as required",
        "checker_cmd": "tlc -config MC_DirLock.cfg DirLock.tla ; tlc -config DirLockPropTrace.cfg DirLockPropTrace.tla",
    }, assumptions=[
        "lock level: a contender holds the directory from the return of AcquireDirLock until it calls Release; database level (mode db): from the return "
        "of NoKV.Open until db.Close has returned (a closing database is parked only where it still has file work to do after giving up the lock)",
        "Linux flock semantics on a local file system (per open file description, dropped on close); no NFS",
        "each contender opens once and closes once per schedule (free-running goroutines loop 150 times)",
        "TLC results hold for the constants in the cfg files",
    ])


if __name__ == "__main__":
    main(run, "DirLock")
