#!/usr/bin/env python3
"""Codec family: C16 (encodings round-trip, keys order correctly, decoders fail safely).

spec/Codec/Codec.tla is generator and oracle: it states the wire layout of every persisted / wire
encoding (entry records, value pointers and value structs, internal keys, the eight manifest edit
types, percolator lock and write records, raft WAL payloads, raft command frames), enumerates their
boundary field vectors (TLC) and the structured mutations of every length / count / integer field.
harness/cmd/codec assembles the bytes each frame prescribes and runs the REAL code:
 (a) valid frames: the real encoder must produce exactly the prescribed bytes and the real decoder
     must return exactly the field values (companion decoders of the same bytes must agree);
 (b) utils.CompareKeys over kv.InternalKey encodings of a key universe must order as KeyOrder!KeyLess;
 (c) mutated frames, every truncation and byte replacements {00,7F,80,FF} of valid encodings: error or
     some value, never a panic / fatal error / runaway, allocation < 1 MiB + 64 x len(input).
TLC validates every recorded outcome against spec/Codec/CodecPropTrace.tla.
"""
import json, os, sys, re, subprocess
sys.path.insert(0, os.path.join(os.path.dirname(os.path.abspath(__file__)), "..", "lib"))
from vlib import *
from vstruct import *


def run_driver(ctx, frames):
    binp = ctx.build("codec")
    procs = []
    # interleave so that the expensive (large-body) frames spread over the shards
    parts = [frames[i::ctx.workers] for i in range(ctx.workers)]
    for part in parts:
        if not part:
            continue
        d = ctx.mkdtemp("drv")
        inp, outp = os.path.join(d, "in.ndjson"), os.path.join(d, "out.ndjson")
        with open(inp, "w") as fh:
            for c in part:
                fh.write(json.dumps(c) + "\n")
        procs.append((subprocess.Popen([binp, "-in", inp, "-out", outp], stdout=subprocess.PIPE, stderr=subprocess.STDOUT, text=True), outp))
    traces = {}
    for p, outp in procs:
        try:
            out, _ = p.communicate(timeout=2400)
        except subprocess.TimeoutExpired:
            p.kill()
            raise Undecided("codec driver timed out")
        if p.returncode != 0:
            raise Undecided("codec driver failed (%d): %s" % (p.returncode, out[-3000:]))
        for line in open(outp):
            ev = json.loads(line)
            traces.setdefault(ev.pop("s"), []).append(ev)
    return traces


def project(ev):
    drop = ("msg", "encNote", "bad", "how")
    return {k: v for k, v in ev.items() if k not in drop}


def describe(f, ev):
    if ev["e"] == "Frame":
        mutv = [x["v"] for x in ev["fields"] if x["n"] == ev.get("mut")]
        vals = {x["n"]: x["v"] for x in ev["fields"]}
        if ev["valid"]:
            diff = {k: (v, ev["decoded"].get(k)) for k, v in vals.items() if k in ev["decoded"] and ev["decoded"].get(k) != v}
            return "valid %s frame %s: encEqual=%s outcome=%s %s decoded-differs=%s aux=%s %s" % (
                ev["codec"], json.dumps(vals), ev["encEqual"], ev["outcome"], ev.get("msg", "")[:120], diff, ev.get("aux"), ev.get("encNote", "")[:160])
        return "%s with field %s=%s (%d bytes): outcome=%s %s alloc=%d" % (ev["codec"], ev.get("mut"), mutv, ev["len"], ev["outcome"], ev.get("msg", "")[:160], ev["alloc"])
    if ev["e"] == "Bytes":
        return "%s %s of a %d-byte encoding: %d of %d inputs panicked, worst allocation excess %d: %s" % (
            ev["codec"], {"trunc": "truncations", "byte": "byte replacements"}[ev["kind"]], ev["len"], ev["panics"], ev["tried"], ev["worst"], ev.get("bad", "")[:200])
    if ev["e"] == "Crash":
        return "%s decoder took the process down (field %s): %s" % (ev["codec"], ev.get("mut"), ev.get("how", "")[:300])
    return "%s %s" % (ev["e"], json.dumps(ev)[:300])


def run(ctx):
    quick = ctx.tier == "quick"
    rng = ctx.rng
    os.environ.setdefault("JAVA_TOOL_OPTIONS", "-XX:ParallelGCThreads=2")
    # ------------------------------------------------------------------ generation (TLC)
    r = ctx.tlc_or_undecided("Codec", "Gen_Codec.cfg" if quick else "Gen_Codec_thorough.cfg", workers=2, timeout=900)
    if r.violated:
        raise Undecided("Codec.tla: %s violated (layout table is inconsistent)" % r.violated)
    frames = tlc_json_lines(r.out, "CASE")
    if not frames:
        raise Undecided("Codec.tla produced no frames:\n" + r.out[-2000:])
    rng.shuffle(frames)
    nfuzz = 0
    for i, f in enumerate(frames):
        f["id"] = i
        big = any(x["v"] == "LMAX" or x["v"].endswith(":LMAX") for x in f["fields"])
        # byte-level loops: every valid frame in the thorough tier; quick: the short ones and every 8th large one
        # (the varint-boundary extension frames get them in the thorough tier only)
        f["fuzz"] = bool(f["valid"] and (not quick or ((not big or i % 8 == 0) and f.get("mut") != "ext")))
        nfuzz += f["fuzz"]
    ctx.log("TLC: %d frames (%d valid, %d mutated, %d with byte-level loops), %d states" % (
        len(frames), sum(f["valid"] for f in frames), sum(not f["valid"] for f in frames), nfuzz, r.distinct))
    traces = run_driver(ctx, frames)
    order = sorted(traces)
    if len(order) != len(frames):
        raise Undecided("driver returned traces for %d of %d frames" % (len(order), len(frames)))
    tl = [[project(e) for e in traces[s]] for s in order]
    # ------------------------------------------------------------------ validation (TLC)
    rejected = validate_parallel(ctx, "CodecPropTrace", "CodecPropTrace.cfg", tl, timeout=1500)
    nevents = sum(len(t) for t in tl)
    ctx.log("M3: %d traces / %d events validated, %d rejected" % (len(tl), nevents, len(rejected)))
    reported = {}
    for (ti, line, ev, want) in rejected:
        sid = order[ti]
        full = traces[sid][line]
        key = (full.get("codec", full["e"]), full["e"], full.get("mut", ""), full.get("kind", ""))
        if key in reported:
            reported[key] += 1
            continue
        reported[key] = 1
        rp = ctx.save_replay("violation-%d.json" % sid, {"frame": frames[sid], "rejected_line": line, "event": full, "expected": want})
        ctx.violation(rp, describe(frames[sid], full))
    # ------------------------------------------------------------------ negative controls
    bad = {r[0] for r in rejected}
    ctls = {}
    for ti, t in enumerate(tl):
        if ti in bad:
            continue
        for i, e in enumerate(t):
            if "decode" not in ctls and e["e"] == "Frame" and e["valid"] and e["decoded"]:
                c = [dict(x) for x in t]; d = dict(e["decoded"]); k = sorted(d)[0]; d[k] = "ZZ"; c[i]["decoded"] = d
                ctls["decode"] = c
            if "panic" not in ctls and e["e"] == "Frame" and not e["valid"] and e["outcome"] == "error":
                c = [dict(x) for x in t]; c[i]["outcome"] = "panic"; ctls["panic"] = c
            if "alloc" not in ctls and e["e"] == "Bytes":
                c = [dict(x) for x in t]; c[i]["worst"] = 1 << 20; ctls["alloc"] = c
            if "order" not in ctls and e["e"] == "Cmp" and len(e["signs"]) > 2:
                c = [dict(x) for x in t]; s = list(e["signs"]); s[1] = -s[1] if s[1] else 1; c[i]["signs"] = s; ctls["order"] = c
    for name in ("decode", "panic", "alloc", "order"):
        if name not in ctls:
            if ctx.violations:      # every candidate trace was rejected: the violation verdict stands
                ctx.notes.append("negative control '%s' skipped: no accepted trace left" % name)
                continue
            raise Undecided("no accepted trace to build the negative control '%s' from" % name)
        if not ctx.validate_traces("CodecPropTrace", "CodecPropTrace.cfg", [ctls[name]]):
            raise Undecided("negative control '%s' accepted: the trace specification does not bind it" % name)
    # ------------------------------------------------------------------ evidence
    per = {}
    inputs = 0
    for sid in order:
        for e in traces[sid]:
            if e["e"] == "Frame":
                p = per.setdefault(e["codec"], {"valid": 0, "mutated": 0, "mutated_rejected_by_decoder": 0, "byte_level_inputs": 0})
                p["valid" if e["valid"] else "mutated"] += 1
                p["mutated_rejected_by_decoder"] += (not e["valid"]) and e["outcome"] == "error"
                inputs += 1
            elif e["e"] == "Bytes":
                per[e["codec"]]["byte_level_inputs"] += e["tried"]; inputs += e["tried"]
            elif e["e"] == "Cmp":
                p = per.setdefault("ikey", {"keys": 0, "pairs_compared": 0}); p["keys"] += 1; p["pairs_compared"] += len(e["signs"]); inputs += len(e["signs"])
    nontrivial = {json.dumps([f["codec"], f["fields"]]) for f in frames
                  if f["codec"] != "ikey" and (not f["valid"] or any(x["v"] not in ("Z", "L0", "0", "=", "1", "NoKV") for x in f["fields"]))}
    sample = next(f for f in frames if not f["valid"])
    ctx.evidence("exploration", {
        "evaluations": inputs, "distinct_nontrivial": len(nontrivial),
        "rule": "frames = field vectors TLC enumerates from the wire layouts of Codec.tla (full product of boundary domains for small records, all-min/all-max plus each field over its "
                "domain for wide ones; plus every integer field at every varint length boundary 2^(7k)-1, 2^(7k), 2^(7k)+1 and bodies of 127/128/129/16383/16384/16385 bytes) and one-field mutations of every length/count/integer field by {0,1,len+1,2^31,2^63,2^64-1}; evaluations additionally count every truncation and "
                "byte replacement {00,7F,80,FF} tried on valid encodings and every CompareKeys pair; distinct by (codec, field vector); non-trivial = mutated, or a valid frame with a "
                "non-minimal field value",
        "samples": [{"frame": sample, "events": [project(e) for e in traces[sample["id"]]][:2]}],
        "states": r.distinct, "transitions": r.generated, "traces_validated_against_impl": len(tl),
        "frames": len(frames), "frames_valid": sum(f["valid"] for f in frames), "frames_mutated": sum(not f["valid"] for f in frames),
        "frames_with_byte_level_loops": nfuzz, "per_codec": per, "events_validated": nevents, "rejected": len(rejected),
        "negative_control": "rejected as required (decoded field, panic outcome, allocation bound, comparison sign)",
        "checker_cmd": "tlc -config Gen_Codec.cfg Codec.tla ; tlc -config CodecPropTrace.cfg CodecPropTrace.tla",
    }, assumptions=[
        "only structured inputs are explored: boundary field vectors, one-field mutations, truncations and single-byte replacements of valid encodings (DESIGN.md section 9)",
        "kv.ValueStruct.DecodeValue has no error return and is checked for round trip only; protobuf bodies (etcd raftpb, NoKV pb) are marshalled by the protobuf runtime and trusted",
        "maximal lengths are represented by 70000-byte bodies; allocation is the /gc/heap/allocs:bytes delta (the counter behind MemStats.TotalAlloc); a decoder that kills or stalls the worker process is a Crash event",
    ])


if __name__ == "__main__":
    main(run, "Codec")
