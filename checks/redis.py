#!/usr/bin/env python3
"""Redis gateway family: C29 (command semantics), C30 (concurrent clients), C31 (RESP framing).
See DESIGN.md section 5 and docs/design.d/redis.md.

The gateway is package main: the check builds the REAL binary from the tree under test
(`go build -tags verif ./cmd/nokv-redis` in VERIF_REPO or /repo) and harness/cmd/redis talks
RESP to it over loopback TCP.

C29  M1  TLC explores spec/Redis/Redis.tla (reference model RedisModel.tla, int64 edge values
         represented symbolically) and checks its sanity invariants.
     M2  TLC -simulate generates command sequences from the same spec (hist + EmitHist).
     M3  replies recorded from the binary are validated by TLC against RedisPropTrace.tla.
C30  M1  TLC checks RedisConc.tla (optimistic read-modify-write with / without conflict detection).
     M2/M3 4-8 free-running TCP clients x 50 commands; TLC validates replies + final GET against
         RedisConcTrace.tla (order-independent sum, at most one SET NX winner).
C31  TLC enumerates token sequences of the RESP framing automaton (Resp.tla) with the expected
     outcome; each is sent to the binary; TLC judges the observations with RespTrace.tla
     (process alive, TotalAlloc growth bounded, well-formed input parsed into exactly its arguments).
"""
import json, os, sys, re, subprocess, signal, threading
sys.path.insert(0, os.path.join(os.path.dirname(os.path.abspath(__file__)), "..", "lib"))
from vlib import *

INCR_FAMILY = ("INCR", "DECR", "INCRBY", "DECRBY")
TICK_MS = 6000                        # one logical Sleep tick
SHORT = {"@S1": 4, "@S2": 10}         # seconds; dead after 1 / 2 ticks, alive before, margin >= 1.2 s + 1 s granularity
MARGIN = 1.2
MAX_WRITES_PER_KEY = 100              # the engine throttles a key after 128 writes (Options.WriteHotKeyLimit)


# ------------------------------------------------------------------ gateway binary
def build_gateway(ctx):
    if "gateway" in ctx._bins:
        return ctx._bins["gateway"]
    out = os.path.join(ctx.scratch, "nokv-redis")
    env = dict(os.environ); env.update(GOENV)
    p = subprocess.run([GO, "build", "-tags", "verif", "-o", out, "./cmd/nokv-redis"], cwd=ctx.repo, env=env,
                       stdout=subprocess.PIPE, stderr=subprocess.STDOUT, text=True)
    if p.returncode != 0:
        raise Undecided("cannot build cmd/nokv-redis in %s:\n%s" % (ctx.repo, p.stdout[-3000:]))
    ctx._bins["gateway"] = out
    return out


def run_driver(ctx, mode, shards, conns=4, timeout=1500):
    """Runs one driver process (= one gateway process) per shard. Returns the list of event lists
    (one per shard). Every child is killed on every exit path."""
    drv, gw = ctx.build("redis"), build_gateway(ctx)
    procs = []
    try:
        for part in shards:
            if not part:
                continue
            d = ctx.mkdtemp("rd")
            inp, outp = os.path.join(d, "in.ndjson"), os.path.join(d, "out.ndjson")
            with open(inp, "w") as fh:
                for s in part:
                    fh.write(json.dumps(s) + "\n")
            p = subprocess.Popen([drv, "-gateway", gw, "-mode", mode, "-in", inp, "-out", outp, "-dir", d, "-conns", str(conns)],
                                 stdout=subprocess.PIPE, stderr=subprocess.STDOUT, text=True, start_new_session=True)
            procs.append((p, outp))
        res = []
        for p, outp in procs:
            try:
                out, _ = p.communicate(timeout=timeout)
            except subprocess.TimeoutExpired:
                raise Undecided("redis driver timed out")
            if p.returncode != 0:
                raise Undecided("redis driver failed (%d): %s" % (p.returncode, out[-2000:]))
            res.append([json.loads(l) for l in open(outp)])
        return res
    finally:
        for p, _ in procs:
            if p.poll() is None:
                try:
                    os.killpg(p.pid, signal.SIGTERM)   # the driver stops its gateway on SIGTERM
                    p.wait(timeout=5)
                except Exception:
                    pass
            try:
                os.killpg(p.pid, signal.SIGKILL)
            except Exception:
                pass


def _join_wrapped(out):
    """TLC pretty-prints long tuples over several lines; vlib matches MISMATCH tuples per line."""
    res, i = [], 0
    while True:
        j = out.find('<< "MISMATCH",', i)
        if j < 0:
            res.append(out[i:])
            break
        res.append(out[i:j])
        k, depth, instr = j, 0, False
        while k < len(out):
            ch = out[k]
            if instr:
                if ch == "\\":
                    k += 1
                elif ch == '"':
                    instr = False
            elif ch == '"':
                instr = True
            elif out.startswith("<<", k):
                depth += 1; k += 1
            elif out.startswith(">>", k):
                depth -= 1; k += 1
                if depth == 0:
                    break
            k += 1
        body = re.sub(r"\s*\n\s*", " ", out[j + 2:k - 1]).strip()
        m = re.match(r'"MISMATCH",\s*(\d+),\s*(.*)$', body, re.S)
        res.append('<<"MISMATCH", %s, %s>>' % (m.group(1), m.group(2)) if m else out[j:k + 1])
        i = k + 1
    return "".join(res)


def patch_tlc(ctx):
    orig = ctx.tlc
    def tlc(*a, **kw):
        r = orig(*a, **kw)
        r.out = _join_wrapped(r.out)
        return r
    ctx.tlc = tlc


class Bg:
    """Runs fn() in a thread; .get() re-raises its exception (TLC runs overlap with driver work)."""
    def __init__(self, fn):
        self.res, self.exc = None, None
        def go():
            try:
                self.res = fn()
            except BaseException as e:   # noqa
                self.exc = e
        self.t = threading.Thread(target=go, daemon=True)
        self.t.start()

    def get(self):
        self.t.join()
        if self.exc is not None:
            raise self.exc
        return self.res


def err_class(item):
    if not item.startswith("-"):
        return item
    low = item.lower()
    if "not an integer" in low:
        return "-NOTINT"
    if "overflow" in low:
        return "-OVERFLOW"
    return "-ERR"


def tla_strings(s):
    """["a", "b"] out of a printed TLA+ tuple <<"a", "b">> (no escapes needed for our alphabet)."""
    return re.findall(r'"((?:[^"\\]|\\.)*)"', s)


# ================================================================== C29
def gen_hists(ctx, base_cfg, num, depth, seed, **over):
    d = ctx._specdir()
    src = open(os.path.join(d, base_cfg)).read()
    over["MaxHist"] = depth
    for k, v in over.items():
        src = re.sub(r"(?m)^ %s = .*$" % k, " %s = %s" % (k, v), src)
    name = "G_%d_%d.cfg" % (depth, seed)
    open(os.path.join(d, name), "w").write(src)
    r = ctx.tlc_or_undecided("Redis", name, workers=1, simulate="num=%d" % num, depth=depth + 1, seed=seed, timeout=900)
    seen, out = set(), []
    for m in re.finditer(r'<<"SCHED", "(.*)">>', r.out):
        s = m.group(1).encode().decode("unicode_escape")
        if s not in seen:
            seen.add(s)
            out.append(json.loads(s))
    if not out:
        raise Undecided("TLC generated no behaviours (%s):\n%s" % (name, r.out[-1500:]))
    return out


OPT_NAMES = ("NX", "XX", "EX", "PX", "EXAT", "PXAT")


def concretize(ctx, sid, hist, rng):
    """Model command sequence -> (driver steps, trace commands). Keys get a per-schedule prefix, symbolic
    times become numbers, command / option names get random letter case. Purely lexical."""
    pre = "s%d:" % sid
    writes = {}
    cmds = [list(c) for c in hist]
    quit_at_end = bool(cmds) and cmds[-1] == ["QUIT"]
    if quit_at_end:
        cmds.pop()
    cmds.append(["MGET", "k1", "k2"])
    cmds.append(["EXISTS", "k1", "k2"])
    if quit_at_end:
        cmds.append(["QUIT"])
    steps, tcmds = [], []
    for c in cmds:
        if c == ["SLEEP"]:
            steps.append({"sleep_ms": TICK_MS}); tcmds.append(None)
            continue
        t = [pre + x if x in ("k1", "k2") else x for x in c]
        if c[0] in ("SET", "MSET", "DEL") + INCR_FAMILY:
            stop = False
            for x in set(t[1:]):
                if x.startswith(pre):
                    writes[x] = writes.get(x, 0) + t[1:].count(x)
                    stop = stop or writes[x] > MAX_WRITES_PER_KEY
            if stop:
                break
        send = list(t)
        for i, x in enumerate(t):
            if x.startswith("@"):
                opt = t[i - 1]
                if opt in ("EX", "PX"):
                    secs = {"@LONG": 7200}.get(x) or SHORT[x]
                    send[i] = str(secs * (1000 if opt == "PX" else 1))
                else:
                    secs = {"@PAST": 1000000000, "@FUT": 4000000000}[x]
                    send[i] = str(secs * (1000 if opt == "PXAT" else 1))
        for i, x in enumerate(send):
            if (i == 0 or (t[0] == "SET" and i >= 3 and x in OPT_NAMES)) and rng.random() < 0.3:
                send[i] = x.lower() if rng.random() < 0.5 else x.capitalize()
        steps.append({"send": send}); tcmds.append(t)
    return steps, tcmds


def timing_safe(tcmds, evs):
    """Time never decides a verdict: a schedule with short expiries is judged only if every later
    command ran clearly before or clearly after each deadline (recorded monotonic times)."""
    ticks = 0
    sets = []  # (ticks at set, tb, t, seconds, deadline in ticks)
    for c, e in zip(tcmds, evs):
        if c is None:
            ticks += 1
            continue
        for (t0, tb, te, secs, d) in sets:
            n = ticks - t0
            if n >= d:
                if (e["tb"] - te) / 1000.0 < secs + MARGIN:
                    return False
            else:
                if (e["t"] - tb) / 1000.0 > secs - 1 - MARGIN:
                    return False
        for i, x in enumerate(c):
            if x in SHORT:
                sets.append((ticks, e["tb"], e["t"], SHORT[x], 1 if x == "@S1" else 2))
    return True


def lenient_int(s):
    """Texts Go's TrimSpace/ParseInt accept as int64 although they are not canonical decimal integers."""
    if s.strip() == "":
        return True
    if re.fullmatch(r"[+-]?[0-9]+", s):
        try:
            v = int(s)
        except ValueError:
            return False
        return -2**63 <= v < 2**63 and str(v) != s
    return False


def classify_c29(cmd, got, want, ctx_):
    if cmd and cmd[0] in INCR_FAMILY and want == ["-NOTINT"] and len(got) == 1 and re.fullmatch(r":-?[0-9]+", got[0]) \
            and len(ctx_) == 2 and ctx_[0] == "stored" and lenient_int(ctx_[1]):
        return "C29-lenient-int"
    return None


def run_c29(ctx):
    quick = ctx.tier == "quick"
    # ---------------------------------------------------------------- M1
    mc = "MC_Redis.cfg" if quick else "MC_Redis_big.cfg"
    ctx._specdir()
    m1job = Bg(lambda: ctx.tlc_or_undecided("Redis", mc, timeout=2400, workers=max(2, ctx.workers - 2)))
    # ---------------------------------------------------------------- M2
    hists = []
    plan = [(12, 70, {}), (40, 24, {}), (12, 10, {"AvoidLenient": "FALSE"})] if quick else \
           [(12, 400, {}), (40, 120, {}), (100, 40, {}), (12, 60, {"AvoidLenient": "FALSE"}), (40, 20, {"AvoidLenient": "FALSE"}),
            (14, 150, {"Shorts": '{"@S1","@S2"}', "MaxNow": "3"})]
    jobs = [Bg(lambda n=n, depth=depth, num=num, over=over: gen_hists(ctx, "Gen_Redis.cfg", num, depth, ctx.seed * 100 + n, **over))
            for n, (depth, num, over) in enumerate(plan)]
    for j in jobs:
        hists += j.get()
    extra = json.load(open(os.path.join(VERIF, "findings", "redis_replays.json")))
    for rp in extra:
        if "C29" in rp["properties"]:
            hists.append(rp["schedule"])
    scheds, tcs = [], []
    for h in hists:
        steps, tcmds = concretize(ctx, len(scheds), h, ctx.rng)
        scheds.append({"id": len(scheds), "steps": steps}); tcs.append(tcmds)
    slow = [s for s in scheds if any("sleep_ms" in st for st in s["steps"])]
    slow_ids = {s["id"] for s in slow}
    fast = [s for s in scheds if s["id"] not in slow_ids]
    ctx.log("M2: %d TLC behaviours (%d with real sleeps)" % (len(scheds), len(slow)))
    evs = {}
    ctx.build("redis"); build_gateway(ctx)
    # schedules with real sleeps run beside the fast ones (their own gateway processes)
    slowjob = Bg(lambda: run_driver(ctx, "seq", chunks(slow, max(1, min(len(slow), ctx.workers // 2))), conns=24)) if slow else None
    for part in run_driver(ctx, "seq", chunks(fast, ctx.workers), conns=4) + (slowjob.get() if slowjob else []):
        for e in part:
            evs.setdefault(e["s"], []).append(e)
    # ---------------------------------------------------------------- M3
    order, traces, dropped = [], [], 0
    for s in scheds:
        es = sorted(evs.get(s["id"], []), key=lambda e: e["i"])
        tc = tcs[s["id"]]
        body = [e for e in es if e["e"] != "End"]
        if not es or es[-1]["e"] != "End":
            raise Undecided("driver recorded no End event for schedule %d" % s["id"])
        if any("sleep_ms" in st for st in s["steps"]) and not timing_safe(tc[:len(body)], body):
            dropped += 1
            continue
        t = []
        for e in body:
            if e["e"] == "Sleep":
                t.append({"e": "Sleep"})
            else:
                t.append({"e": "Cmd", "cmd": tc[e["i"]], "r": [err_class(x) for x in e["r"]]})
        t.append({"e": "End", "closed": bool(es[-1]["closed"])})
        order.append(s["id"]); traces.append(t)
    if dropped:
        ctx.notes.append("%d of %d schedules with real sleeps missed a timing margin and were not judged" % (dropped, len(slow)))
    if slow and not quick and dropped > len(slow) // 2:
        raise Undecided("%d of %d sleep schedules missed their timing margins (machine too loaded)" % (dropped, len(slow)))
    # binding self-test rides along as the last trace: one corrupted reply that must be reported
    ctl = None
    for t in traces:
        idx = [i for i, e in enumerate(t) if e["e"] == "Cmd" and e["cmd"][0] in ("GET", "MGET") and e["r"] not in (["nil"], ["-ERR"])]
        if idx:
            ctl = [dict(e) for e in t]
            ctl[idx[-1]] = dict(ctl[idx[-1]], r=["$zz-corrupted"])
            break
    if ctl is None:
        raise Undecided("no trace with a successful read: driver is not exercising the gateway")
    rejected = ctx.validate_traces("RedisPropTrace", "RedisPropTrace.cfg", traces + [ctl], timeout=1500)
    if not any(r[0] == len(traces) and r[2].get("r") == ["$zz-corrupted"] for r in rejected):
        raise Undecided("negative control accepted: the trace specification does not bind replies: " + json.dumps(ctl)[:800])
    rejected = [r for r in rejected if r[0] < len(traces)]
    nevents = sum(len(t) for t in traces)
    ctx.log("M3: %d traces / %d events validated, %d mismatching replies, %d schedules dropped for timing" % (len(traces), nevents, len(rejected), dropped))
    known = {f["id"]: f for f in ctx.load_known()}
    first = {}
    for (ti, line, ev, want) in rejected:
        if ti not in first or line < first[ti][0]:
            first[ti] = (line, ev, want)
    hits = {}
    for ti, (line, ev, want) in sorted(first.items()):
        sid = order[ti]
        if want is None:
            wl, cl, text = None, [], "event not explained by the reference model"
        else:
            parts = re.findall(r"<<[^<>]*>>", want)
            wl, cl = tla_strings(parts[0]) if parts else [], tla_strings(parts[1]) if len(parts) > 1 else []
            if "?RANGE" in wl:
                raise Undecided("schedule %d left the integer window of the model (R too small)" % sid)
            text = "reply %s, reference model %s (key %s)" % (json.dumps(ev.get("r", ev.get("closed"))), json.dumps(wl), json.dumps(cl))
        cls = classify_c29(ev.get("cmd"), ev.get("r", []), wl, cl) if want is not None else None
        # only the first contradiction of a trace is judged: later ones may be its consequences
        if cls and cls in known:
            if cls not in hits:
                ctx.known_finding("%s: %s (e.g. schedule %d line %d: %s -> %s)" % (cls, known[cls]["what"], sid, line, json.dumps(ev["cmd"]), json.dumps(ev["r"])))
            hits[cls] = hits.get(cls, 0) + 1
        else:
            rp = ctx.save_replay("violation-%d.json" % sid, {"schedule": hists[sid], "sent": scheds[sid], "rejected_line": line, "event": ev,
                                                             "expected": want, "trace": traces[ti][:line + 1]})
            ctx.violation(rp, "%s: %s" % (json.dumps(ev.get("cmd", "End")), text))
    m1 = m1job.get()
    if m1.violated:
        raise Undecided("M1: Redis.tla violates %s under %s: the reference model needs attention\n%s" % (m1.violated, mc, m1.out[-2500:]))
    if not m1.ok:
        raise Undecided("M1 did not complete:\n" + m1.out[-2000:])
    ctx.log("M1 %s: %d generated, %d distinct, depth %d (%.0fs, overlapped)" % (mc, m1.generated, m1.distinct, m1.depth, m1.wall))
    # -------------------------------------------------------------- evidence
    MAXS, MINS = "9223372036854775807", "-9223372036854775808"
    def nontrivial(t):
        # some INCR-family command works at an int64 limit, or an expiry option decided a later reply
        edge = any(e["e"] == "Cmd" and e["cmd"][0] in INCR_FAMILY and (e["r"] == ["-OVERFLOW"] or (len(e["r"]) == 1 and e["r"][0][1:11] in (MAXS[:10], MINS[:10])))
                   for e in t)
        exp = any(e["e"] == "Cmd" and e["cmd"][0] == "SET" and any(x.startswith("@") for x in e["cmd"]) and e["r"] == ["+OK"] for e in t)
        return edge or exp
    distinct = {json.dumps(t) for t in traces if nontrivial(t)}
    kinds = {}
    for t in traces:
        for e in t:
            if e["e"] == "Cmd":
                k = e["cmd"][0] + " -> " + (e["r"][0][:1] + ("" if e["r"][0][:1] in "+:$*" else e["r"][0][1:]) if e["r"] else "")
                kinds[k] = kinds.get(k, 0) + 1
    ctx.evidence("model_checking", {
        "states": m1.distinct, "transitions": m1.generated, "traces_validated_against_impl": len(traces),
        "evaluations": len(traces), "distinct_nontrivial": len(distinct),
        "rule": "command sequences = behaviours of Redis.tla produced by TLC -simulate (lengths 12/40/100, 2 keys, value set of DESIGN.md C29, "
                "int64 edge deltas, every SET option list of the alphabet), sent to the real nokv-redis binary; non-trivial = some INCR-family "
                "command replies at an int64 limit (MAX/MIN neighbourhood or overflow) or a SET with an expiry option succeeded",
        "samples": [{"commands": hists[order[0]], "events": traces[0][:14]}],
        "m1": {"cfg": mc, "generated": m1.generated, "distinct": m1.distinct, "depth": m1.depth},
        "events_validated": nevents, "command_reply_classes_seen": kinds, "mismatching_replies": len(rejected),
        "known_finding_hits": hits, "schedules_dropped_for_timing": dropped, "sleep_schedules": len(slow),
        "negative_control": "rejected as required",
        "checker_cmd": "tlc -config %s Redis.tla ; tlc -config RedisPropTrace.cfg RedisPropTrace.tla" % mc,
    }, assumptions=[
        "black box: the gateway binary built from the tree under test, embedded backend, one connection per command sequence (several sequences in parallel on disjoint keys)",
        "expiry is decided only >= 1 h away from the wall clock (EXAT/PXAT 2001 / 2096, EX/PX 7200 s) or, thorough tier, by real sleeps with >= 1.2 s margin around the gateway's one-second granularity; schedules that miss the margin are dropped, not judged",
        "at most %d writes per key per sequence (the engine throttles a key after 128 writes: Options.WriteHotKeyLimit)" % MAX_WRITES_PER_KEY,
        "error replies are compared by class (error / not-an-integer / overflow, the latter two for the INCR family only)",
        "integers are modelled in windows of +-1200 around 0, 2^63-1 and -2^63; TLC results hold for the constants in the cfg files",
    ])


def run(ctx):
    patch_tlc(ctx)
    {"C29": run_c29, "C30": run_c30, "C31": run_c31}[ctx.pid](ctx)


# ================================================================== C30
MAXS, MINS = "9223372036854775807", "-9223372036854775808"
NEAR_MAX, NEAR_MIN = "9223372036854773307", "-9223372036854773308"     # 2^63-1-2500, -2^63+2500


def neg_text(d):
    return d[1:] if d.startswith("-") else ("0" if d == "0" else "-" + d)


def conc_schedule(sid, rng, quick):
    pre = "c%d:" % sid
    ctrs = [pre + "ctr%d" % i for i in (1, 2, 3)]
    nxs = [pre + "nx%d" % i for i in (1, 2, 3, 4)]
    inits = rng.sample([None, "0", "-7", NEAR_MAX, NEAR_MIN, "41"], 3)
    init = [["SET", k, v] for k, v in zip(ctrs, inits) if v is not None]
    nclients = rng.randint(4, 8)
    clients = []
    for c in range(nclients):
        cmds = []
        for _ in range(50):
            x = rng.random()
            k = rng.choice(ctrs[:1] if rng.random() < 0.5 else ctrs)
            if x < 0.12:
                cmds.append(["SET", rng.choice(nxs), "client%d" % c, "NX"])
            elif x < 0.45:
                cmds.append(["INCR", k])
            elif x < 0.6:
                cmds.append(["DECR", k])
            elif x < 0.85:
                cmds.append(["INCRBY", k, rng.choice(["1", "2", "5", "-3"])])
            else:
                cmds.append(["DECRBY", k, rng.choice(["1", "3", "-2"])])
        clients.append(cmds)
    final = [["GET", k] for k in ctrs + nxs]
    return {"id": sid, "init": init, "clients": clients, "final": final}, dict(zip(ctrs, inits)), ctrs, nxs


ROUND_CLIENTS = 8


def rounds_schedule(sid, rng, n_nx, n_incr):
    """Hundreds of one-command rounds, each on a key nobody has written before: 8 clients are released together and
    send SET <fresh key> NX, or an INCR-family command on a fresh counter. The window for a lost update on a
    never-written key is the first commit, so it has to be hit often, not long."""
    pre = "c%d:" % sid
    kinds = ["nx"] * n_nx + ["incr"] * n_incr
    rng.shuffle(kinds)
    rounds, ctrs = [], []
    for r, kind in enumerate(kinds):
        if kind == "nx":
            k = pre + "rn%d" % r
            rounds.append([["SET", k, "client%d" % c, "NX"] for c in range(ROUND_CLIENTS)])
        else:
            k = pre + "ri%d" % r
            ctrs.append(k)
            row = []
            for c in range(ROUND_CLIENTS):
                x = rng.random()
                row.append(["INCR", k] if x < 0.5 else ["DECR", k] if x < 0.6 else ["INCRBY", k, rng.choice(["2", "5", "-3"])] if x < 0.85
                           else ["DECRBY", k, rng.choice(["1", "-2"])])
            rounds.append(row)
    return {"id": sid, "init": [], "clients": [], "rounds": rounds, "final": [["GET", k] for k in ctrs]}, {k: None for k in ctrs}, ctrs, []


def conc_trace(sched, inits, ctrs, evs):
    t = [{"e": "Start", "k": k, "has": inits[k] is not None, "init": inits[k] or ""} for k in ctrs]
    winners = {}
    for e in evs:
        if e["c"] < 0:
            continue
        c = e["cmd"]
        if c[0] == "SET":
            t.append({"e": "NX", "k": c[1], "ok": e["r"] == ["+OK"]})
            continue
        d = {"INCR": "1", "DECR": "-1"}.get(c[0]) or (c[2] if c[0] == "INCRBY" else neg_text(c[2]))
        ok = len(e["r"]) == 1 and re.fullmatch(r":-?[0-9]+", e["r"][0]) is not None
        t.append({"e": "Incr", "k": c[1], "d": d, "ok": ok})
    for e in evs:
        if e["c"] == -2 and e["cmd"][1] in ctrs:
            has = e["r"] != ["nil"]
            t.append({"e": "Final", "k": e["cmd"][1], "has": has, "v": e["r"][0][1:] if has else ""})
    return t


def run_c30(ctx):
    quick = ctx.tier == "quick"
    # ---------------------------------------------------------------- M1
    ctx._specdir()
    jm1 = Bg(lambda: ctx.tlc_or_undecided("RedisConc", "MC_RedisConc.cfg", timeout=1200, workers=max(2, ctx.workers // 2)))
    joff = Bg(lambda: ctx.tlc_or_undecided("RedisConc", "MC_RedisConc_nodetect.cfg", timeout=600, workers=1))
    jraft = Bg(lambda: ctx.tlc_or_undecided("RedisConc", "MC_RedisConc_raft.cfg", timeout=600, workers=1))
    # ---------------------------------------------------------------- M2
    nsched = 8 if quick else 60
    scheds, meta = [], []
    for i in range(nsched):
        s, inits, ctrs, nxs = conc_schedule(i, ctx.rng, quick)
        scheds.append(s); meta.append((inits, ctrs, nxs))
    nround_scheds = 3 if quick else 10
    round_ids = set()
    for i in range(nround_scheds):
        s, inits, ctrs, nxs = rounds_schedule(len(scheds), ctx.rng, 400, 200)
        round_ids.add(s["id"]); scheds.append(s); meta.append((inits, ctrs, nxs))
    for rp in json.load(open(os.path.join(VERIF, "findings", "redis_replays.json"))):
        if "C30" in rp["properties"] and "conc_schedule" in rp:   # recorded run: same commands again (the interleaving is free)
            s = dict(rp["conc_schedule"]); s["id"] = len(scheds)
            ctrs = [c[1] for c in s["final"] if ":ctr" in c[1]]
            inits = {k: None for k in ctrs}
            inits.update({c[1]: c[2] for c in s["init"]})
            scheds.append(s); meta.append((inits, ctrs, []))
    nsched = len(scheds)
    evs = {}
    for part in run_driver(ctx, "conc", chunks(scheds, min(ctx.workers, 4))):
        for e in part:
            evs.setdefault(e["s"], []).append(e)
    traces = [conc_trace(scheds[i], meta[i][0], meta[i][1], evs.get(i, [])) for i in range(nsched)]
    # ---------------------------------------------------------------- M3
    ctl = [dict(e) for e in traces[0]]
    fi = [i for i, e in enumerate(ctl) if e["e"] == "Final" and e["has"]]
    if not fi:
        raise Undecided("no counter survived the first run: driver is not exercising the gateway")
    ctl[fi[0]]["v"] = "123456"
    rejected = ctx.validate_traces("RedisConcTrace", "RedisConcTrace.cfg", traces + [ctl], timeout=1500)
    if not any(r[0] == len(traces) for r in rejected):
        raise Undecided("negative control accepted: the trace specification does not bind the final counter")
    rejected = [r for r in rejected if r[0] < len(traces)]
    nevents = sum(len(t) for t in traces)
    ctx.log("M3: %d concurrent runs / %d events validated, %d contradictions" % (len(traces), nevents, len(rejected)))
    reported = set()
    known = {f["id"]: f for f in ctx.load_known()}
    hits = {}
    # ---- fresh-key rounds: every failing round is a contradiction of the property; they are counted per kind.
    # The recorded engine race (C30-oracle-race) shows up in well under 0.1 % of rounds; anything at or above
    # max(5, 1 %) of the rounds of a kind is not that finding.
    fail = {"nx": {}, "incr": {}}
    for (ti, line, ev, want) in rejected:
        if ti in round_ids and ev["e"] in ("NX", "Final"):
            fail["nx" if ev["e"] == "NX" else "incr"].setdefault(ti, []).append((ev, want))
    total = {"nx": 400 * len(round_ids), "incr": 200 * len(round_ids)}
    round_stats = {}
    for kind in ("nx", "incr"):
        nfail = sum(len(v) for v in fail[kind].values())
        round_stats[kind] = {"rounds": total[kind], "failing": nfail}
        if nfail == 0:
            continue
        ti = sorted(fail[kind])[0]
        ev, want = fail[kind][ti][0]
        what = ("%d of %d rounds of %d concurrent SET NX on a never-written key had more than one OK reply" if kind == "nx" else
                "%d of %d rounds of %d concurrent INCR-family commands on a never-written counter lost an acknowledged update") % (nfail, total[kind], ROUND_CLIENTS)
        nconf = sum(1 for t in round_ids for e in evs.get(t, []) if e["c"] >= 0 and e["r"][0].startswith("-") and "conflict" in e["r"][0].lower())
        if nfail < max(5, total[kind] // 100) and nconf > 0 and "C30-oracle-race" in known:
            if "C30-oracle-race" not in hits:
                ctx.known_finding("C30-oracle-race: %s (%s; e.g. %s, expected %s)" % (known["C30-oracle-race"]["what"], what, json.dumps(ev), want))
            hits["C30-oracle-race"] = hits.get("C30-oracle-race", 0) + nfail
        else:
            rp = ctx.save_replay("violation-rounds-%s.json" % kind, {"schedule": scheds[ti], "failing_rounds": nfail, "rounds": total[kind],
                                 "examples": [{"event": e, "expected": w_} for e, w_ in fail[kind][ti][:10]],
                                 "replies_of_first": [e for e in evs.get(ti, []) if e["cmd"][1] == ev["k"]]})
            ctx.violation(rp, what + " (e.g. %s, expected %s)" % (json.dumps(ev), want))
    rejected = [r for r in rejected if r[0] not in round_ids or r[2]["e"] not in ("NX", "Final")]
    for (ti, line, ev, want) in rejected:
        if want is not None and "?RANGE" in want:
            raise Undecided("run %d left the integer window of the model" % ti)
        if ti in reported:
            continue
        reported.add(ti)
        # witness of the recorded engine-level finding: conflict detection is demonstrably active in this run
        # (some command was refused with the transaction-conflict error), yet an update got lost
        nconf = sum(1 for e in evs.get(ti, []) if e["c"] >= 0 and "conflict" in e["r"][0].lower() and e["r"][0].startswith("-"))
        if nconf > 0 and "C30-oracle-race" in known and ev["e"] in ("Final", "NX"):
            if "C30-oracle-race" not in hits:
                ctx.known_finding("C30-oracle-race: %s (run %d: %s, expected %s; %d commands of the run were refused with the conflict error)"
                                  % (known["C30-oracle-race"]["what"], ti, json.dumps(ev), want, nconf))
            hits["C30-oracle-race"] = hits.get("C30-oracle-race", 0) + 1
            ctx.save_replay("known-%d.json" % ti, {"schedule": scheds[ti], "event": ev, "expected": want,
                                                   "replies": sorted(evs.get(ti, []), key=lambda e: (e["c"], e["i"]))})
            continue
        if ev["e"] == "Final":
            acked = sum(1 for e in traces[ti] if e["e"] == "Incr" and e["ok"] and e["k"] == ev["k"])
            text = "counter %s: final GET %s but initial value + deltas of the %d successfully replied INCR-family commands = %s (lost or phantom update)" % (
                ev["k"], json.dumps(ev["v"]), acked, want)
        elif ev["e"] == "NX":
            text = "second SET NX on absent key %s replied OK" % ev["k"]
        else:
            text = "event not explained: %s" % json.dumps(ev)
        rp = ctx.save_replay("violation-%d.json" % ti, {"schedule": scheds[ti], "rejected_line": line, "event": ev, "expected": want,
                                                         "replies": sorted(evs.get(ti, []), key=lambda e: (e["c"], e["i"]))})
        ctx.violation(rp, text)
    m1, off, raft = jm1.get(), joff.get(), jraft.get()
    if m1.violated or not m1.ok:
        raise Undecided("M1: RedisConc.tla (conflict detection on) violates %s:\n%s" % (m1.violated, m1.out[-2000:]))
    if not off.violated:
        raise Undecided("RedisConc.tla is insensitive: without conflict detection it must lose updates")
    ctx.log("M1 RedisConc: embedded+detect %d distinct states, holds; without detection: %s violated; raft-style read-then-write: %s"
            % (m1.distinct, off.violated, ("%s violated" % raft.violated) if raft.violated else "holds"))
    if raft.violated:
        ctx.notes.append("model level only: the raft backend's read at one timestamp followed by a write transaction with a later start "
                         "timestamp violates %s in RedisConc.tla (MC_RedisConc_raft.cfg); no raft deployment is driven by this check" % raft.violated)
    # -------------------------------------------------------------- evidence
    stats = {"incr_ok": 0, "incr_err": 0, "nx_ok": 0, "nx_nil": 0, "errors": {}}
    contended = 0
    for i in range(nsched):
        per = {}
        for e in evs.get(i, []):
            if e["c"] < 0:
                continue
            isnx = e["cmd"][0] == "SET"
            if e["r"][0].startswith("-"):
                stats["incr_err"] += 0 if isnx else 1
                msg = re.sub(r"[0-9]+", "N", e["r"][0])[:60]
                stats["errors"][msg] = stats["errors"].get(msg, 0) + 1
            elif isnx:
                stats["nx_ok" if e["r"] == ["+OK"] else "nx_nil"] += 1
            else:
                stats["incr_ok"] += 1
                per.setdefault(e["cmd"][1], set()).add(e["c"])
        if any(len(v) >= 2 for v in per.values()):
            contended += 1
    ctx.evidence("model_checking", {
        "states": m1.distinct, "transitions": m1.generated, "traces_validated_against_impl": len(traces),
        "evaluations": len(traces), "distinct_nontrivial": contended,
        "rule": "one evaluation = 4-8 free-running TCP clients x 50 INCR/DECR/INCRBY/DECRBY/SET NX commands on 3 counters (initial values absent, small, "
                "or = 600 barrier-released one-command rounds of 8 clients on never-written keys (400 SET NX, 200 INCR-family); "
                "2^63-1-2500, -2^63+2500) and 4 NX keys of one gateway process; non-trivial = at least two clients got successful INCR-family replies on the same counter",
        "samples": [{"clients": len(scheds[0]["clients"]), "init": scheds[0]["init"], "client0_first": scheds[0]["clients"][0][:6], "events": traces[0][:10]}],
        "m1": {"embedded_detect": {"generated": m1.generated, "distinct": m1.distinct}, "without_detection_violates": off.violated,
               "raft_read_then_write_violates": raft.violated},
        "events_validated": nevents, "reply_stats": stats, "contradictions": len(rejected), "known_finding_hits": hits,
        "fresh_key_rounds": round_stats,
        "negative_control": "rejected as required",
        "checker_cmd": "tlc -config MC_RedisConc.cfg RedisConc.tla ; tlc -config RedisConcTrace.cfg RedisConcTrace.tla",
    }, assumptions=[
        "embedded backend only; free-running goroutine/TCP concurrency (interleavings are whatever the scheduler produces, not enumerated)",
        "a reply that is an error (transaction conflict, hot-key throttle) counts as not executed, as the property says 'replied successfully'",
        "raft-backed deployment (nokv pd + nokv serve + nokv-redis --raft-config) is not driven; its read-then-write shape is model-checked only",
    ])


# ================================================================== C31
SYM = {"CR": b"\r", "LF": b"\n", "SP": b" "}
TOKBYTES = {"CRLF": b"\r\n", "CR": b"\r", "LF": b"\n", "SP": b" ", "A1": b"*1\r\n", "A2": b"*2\r\n", "B1": b"$1\r\na\r\n",
            "B0": b"$0\r\n\r\n", "H256M": b"$268435456\r\n", "P70K": b"a" * 70000}


def tok_bytes(toks):
    return b"".join(TOKBYTES.get(t, t.encode()) for t in toks)


def to_syms(b):
    inv = {13: "CR", 10: "LF", 32: "SP"}
    return [inv.get(x) or chr(x) for x in b]


def from_syms(syms):
    return b"".join(SYM.get(x, x.encode()) for x in syms)


def run_c31(ctx):
    quick = ctx.tier == "quick"
    depth = 5 if quick else 8
    d = ctx._specdir()
    cfg = "MC_Resp_%d.cfg" % depth
    open(os.path.join(d, cfg), "w").write(re.sub(r"Depth = \d+", "Depth = %d" % depth, open(os.path.join(d, "MC_Resp.cfg")).read()))
    m1 = ctx.tlc_or_undecided("Resp", cfg, timeout=1500)
    if m1.violated or not m1.ok:
        raise Undecided("Resp.tla enumeration failed:\n" + m1.out[-2000:])
    cases = []
    for m in re.finditer(r'<<"CASE", "(.*)">>', m1.out):
        cases.append(json.loads(m.group(1).encode().decode("unicode_escape")))
    if len(cases) < 100:
        raise Undecided("Resp.tla produced only %d cases" % len(cases))
    ctx.log("Resp.tla depth %d: %d token sequences (one per abstract automaton state), %d generated states" % (depth, len(cases), m1.generated))
    # driver input: bytes in one or two chunks (complete requests first: the gateway may hold back replies while a frame is unfinished)
    CAL = b"*1\r\n$2\r\nzz\r\n"
    dcases = [{"id": 0, "chunks": [CAL.hex()], "lines": []}]
    for i, c in enumerate(cases):
        b, o = tok_bytes(c["toks"]), c["out"]
        if o["wf"] and o["tail"] and 0 < o["cut"] < len(b) and o["exp"]:
            exp = from_syms(o["exp"])
            dcases.append({"id": i + 1, "chunks": [b[:o["cut"]].hex(), b[o["cut"]:].hex()], "lines": [exp.count(b"\r\n")]})
        else:
            dcases.append({"id": i + 1, "chunks": [b.hex()], "lines": []})
    ctx.rng.shuffle(dcases)
    obs = {}
    stalls = 0
    for part in run_driver(ctx, "resp", chunks(dcases, ctx.workers)):
        for e in part:
            if e["s"] < 0:
                stalls += 1
            else:
                obs[e["s"]] = e
    cal = obs.get(0)
    if not cal or not bytes.fromhex(cal["out"]).startswith(b"-ERR unknown command 'zz'\r\n"):
        raise Undecided("reflection channel unavailable: '*1 $2 zz' answered %r" % (cal and bytes.fromhex(cal["out"])))
    events, dead = [], 0
    for i, c in enumerate(cases):
        e = obs.get(i + 1)
        if e is None:
            raise Undecided("no observation for case %d" % i)
        dead += 0 if e["alive"] else 1
        kib = 0 if e["alloc"] < 0 else min((e["alloc"] + 1023) // 1024, 100000000)
        events.append({"e": "Case", "toks": c["toks"], "out": to_syms(bytes.fromhex(e["out"])), "alive": bool(e["alive"]), "allockib": kib, "sent": e["sent"]})
    traces = [events[i:i + 250] for i in range(0, len(events), 250)]
    good = [e for e, c in zip(events, cases) if c["out"]["wf"] and not c["out"]["tail"] and c["out"]["ncmds"] > 0]
    if not good:
        raise Undecided("no complete well-formed request among the cases")
    ctl = [dict(good[0], out=good[0]["out"][:-3] + ["x", "CR", "LF"]), dict(good[0], alive=False), dict(good[0], allockib=2000000)]
    rejected = ctx.validate_traces("RespTrace", "RespTrace.cfg", traces + [ctl], timeout=1500)
    if len({r[1] for r in rejected if r[0] == len(traces)}) != 3:
        raise Undecided("negative controls accepted (corrupted reply / dead process / 2 GiB allocation)")
    rejected = [r for r in rejected if r[0] < len(traces)]
    ctx.log("%d cases sent to the binary, %d judged failing, gateway died %d times" % (len(events), len({(r[0], r[1]) for r in rejected}), dead))
    per = {}
    for (ti, line, ev, want) in rejected:
        per.setdefault(ti * 250 + line, []).append((want or "unexplained").strip('"'))
    shown = 0
    for idx in sorted(per):
        c, e = cases[idx], obs[idx + 1]
        what = per[idx]
        txt = []
        if "dead" in what:
            txt.append("the gateway process stopped answering (no reply from its metrics endpoint for 80 s)" if e.get("unresponsive") else "the gateway process died")
        if "alloc" in what:
            txt.append("TotalAlloc grew by %d bytes for %d bytes sent (bound 1 MiB + 64 x sent)" % (e["alloc"], e["sent"]))
        if "replies" in what:
            txt.append("well-formed input answered %r, expected %r%s" % (bytes.fromhex(e["out"]), from_syms(c["out"]["exp"]), " (+ optional error for the unfinished tail)" if c["out"]["tail"] else ""))
        if "unexplained" in what:
            txt.append("observation not explained")
        rp = ctx.save_replay("violation-%d.json" % idx, {"tokens": c["toks"], "bytes_hex": tok_bytes(c["toks"]).hex(), "expected": c["out"], "observed": e, "failed": what})
        shown += 1
        if shown <= 40:
            ctx.violation(rp, "%s: %s" % (json.dumps(c["toks"]), "; ".join(txt)))
        else:
            ctx.violations.append((rp, "suppressed line"))
    if shown > 40:
        print("(%d further failing cases not printed; replays are in %s)" % (shown - 40, ctx.outdir), flush=True)
    if stalls:
        ctx.notes.append("%d times a gateway process stopped answering between two cases and was restarted" % stalls)
        if not per:
            raise Undecided("a gateway process stopped answering between cases (%d times) although no case was judged failing" % stalls)
    # -------------------------------------------------------------- evidence
    def nontrivial(c):
        return (c["out"]["wf"] and c["out"]["ncmds"] > 0) or any(t in ("2147483648", "9223372036854775807") for t in c["toks"])
    nt = {json.dumps(c["toks"]) for c in cases if nontrivial(c)}
    classes = {}
    for c in cases:
        k = "well-formed complete" if c["out"]["wf"] and not c["out"]["tail"] else "well-formed + unfinished tail" if c["out"]["wf"] else "ill-formed"
        classes[k] = classes.get(k, 0) + 1
    allocs = sorted(e["alloc"] for e in obs.values() if e["alloc"] >= 0)
    ctx.evidence("exploration", {
        "evaluations": len(cases), "distinct_nontrivial": len(nt), "exhaustive": False,
        "rule": "TLC enumerates the token sequences of Resp.tla up to depth %d over the alphabet {*, $, -1, 0, 1, 2, 2^31, 2^63-1, x, a, CRLF, CR, LF, SP, PING, -2, A1/A2 = '*1/*2 CRLF', B1 = '$1 CRLF a CRLF', B0 = '$0 CRLF CRLF', H256M = '$268435456 CRLF', P70K = 70 000 payload bytes} "
                "(one representative per abstract automaton state, extension stops once the stream is ill-formed); each is sent to the real binary "
                "on a fresh connection followed by EOF; non-trivial = contains a complete well-formed request or a 2^31 / 2^63-1 length" % depth,
        "samples": [{"tokens": c["toks"], "expected": c["out"], "observed": {k: obs[i + 1][k] for k in ("out", "alive", "alloc", "sent")}} for i, c in list(enumerate(cases))[:3]],
        "case_classes": classes, "states": m1.distinct, "transitions": m1.generated,
        "alloc_bytes_max": allocs[-1] if allocs else None, "alloc_bytes_median": allocs[len(allocs) // 2] if allocs else None,
        "gateway_deaths": dead, "failing_cases": len(per), "negative_control": "3 of 3 rejected as required",
        "checker_cmd": "tlc -config MC_Resp.cfg Resp.tla ; tlc -config RespTrace.cfg RespTrace.tla",
    }, assumptions=[
        "structured inputs only (token sequences), not all byte strings; lengths above 9 digits are one class",
        "TotalAlloc is read from the gateway's expvar endpoint before and after each case (cases run one at a time per gateway process); the reading itself allocates ~50-100 KiB, far below the 1 MiB allowance",
        "replies are observed through PING and the unknown-command error text, calibrated against the binary at the start of every run",
        "nothing is demanded about replies to ill-formed streams (null bulk argument, bare CR/LF, non-canonical or non-numeric lengths)",
    ])


if __name__ == "__main__":
    main(run, "Redis")
