#!/usr/bin/env python3
"""Client2PC family: C28 (client two-phase commit is atomic across regions).  docs/design.d/client2pc.md

M1  TLC exhaustively checks spec/Client2PC/Client2PC.tla: the client's RPC sequence over 1..3 regions, a fault
    (lost before apply / lost after apply / NotLeader) at every RPC, leader changes, the client's retry loop, a
    second Mutate by the application, resolver passes (CheckTxnStatus + ResolveLocks) after and -- concurrent
    configurations -- between the client's RPCs.
M2  TLC generates the schedules: an exhaustive BFS (histories kept in the state) yields every behaviour with at
    most one fault for every layout; -simulate yields deeper ones (two faults, leader changes, application
    retries, concurrent resolver passes).  harness/cmd/client2pc executes them with the REAL
    raftstore/client.Client over gRPC/bufconn against in-process stores that wrap raftstore/kv.Apply on real
    DBs behind a fault injector, resolves, and reads all keys back through the client.
M3  the recorded events are validated by TLC against spec/Client2PC/Client2PCPropTrace.tla (property layer).
"""
import json, os, sys, re, subprocess, threading, shutil
from concurrent.futures import ThreadPoolExecutor
sys.path.insert(0, os.path.join(os.path.dirname(os.path.abspath(__file__)), "..", "lib"))
from vlib import *

INVS = ["Atomic", "LocksResolved", "PrimaryDecides", "SuccessIsVisible", "FailedStaysOut", "PrimaryFirst"]
BASE = dict(NK=3, MaxFaults=1, MaxLead=1, MaxAttempts=2, MaxRetries=2, MaxPasses=0, CheckTs="{25, 40}",
            Concurrent="FALSE", Dev="{}", Orders='"all"', PlanMax=0, MaxHist=0)


def write_gen_cfg(ctx, name, **kw):
    c = dict(BASE); c.update(kw)
    out = "SPECIFICATION Spec\nCONSTANTS\n" + "".join(" %s = %s\n" % (k, v) for k, v in c.items())
    out += "INVARIANT EmitHist\nACTION_CONSTRAINT GenStop\nACTION_CONSTRAINT GenCanon\nCHECK_DEADLOCK FALSE\n"
    open(os.path.join(ctx._specdir(), name), "w").write(out)
    return name


def parse_scheds(out):
    res = []
    for m in re.finditer(r'<<"(?:SCHED|CEX)", "(.*)">>', out):
        res.append(json.loads(m.group(1).encode().decode("unicode_escape")))
    return res


def gen(ctx, cfg, simulate=None, depth=None, seed=None, workers=1, timeout=1500):
    r = ctx.tlc_or_undecided("Client2PC", cfg, workers=workers, simulate=simulate, depth=depth, seed=seed, timeout=timeout)
    if r.violated:
        raise Undecided("behaviour generation %s stopped on %s:\n%s" % (cfg, r.violated, r.out[-2000:]))
    return parse_scheds(r.out), r


def steps_of(j):
    """What the driver can act on: whose RPC moves next and what happens to it (the region a request goes to is
    the client's choice: Go map order), when Mutate is called again, when a resolver pass starts, leader moves."""
    out = []
    for st in j["steps"]:
        s = {"a": st["a"]}
        if st["a"] in ("c", "r"):
            s["f"] = st["f"]; s["k"] = st["k"]
        elif st["a"] == "pass":
            s["cur"] = st["cur"]; s["k"] = st["k"]      # after | during the client's Mutate call
        elif st["a"] == "lead":
            s["r"] = st["r"]
        out.append(s)
    return out


def step_key(st):
    return (st["a"], st.get("f") or "", st.get("cur") or 0, st.get("r") or 0, st.get("k") if st["a"] == "pass" else "")


def canon(layout, steps):
    """identity of a behaviour for the driver: layout + what steps_of keeps"""
    return (json.dumps([layout["reg"], layout["order"], layout["primary"]]), tuple(step_key(st) for st in steps))


def dedup(hists):
    """distinct (layout, driver-visible steps); a history that is a proper prefix of another adds nothing"""
    seen = {}
    for j in hists:
        seen.setdefault(canon(j, steps_of(j)), j)
    keys = sorted(seen)
    keep = []
    for i, k in enumerate(keys):
        if i + 1 < len(keys):
            n = keys[i + 1]
            if n[0] == k[0] and len(n[1]) > len(k[1]) and n[1][:len(k[1])] == k[1]:
                continue
        keep.append(seen[k])
    return keep


def to_sched(rng, j, sid, origin):
    nk = len(j["reg"])
    while True:
        kinds = ["del" if rng.random() < 0.25 else "put" for _ in range(nk)]
        pre = [rng.random() < 0.6 for _ in range(nk)]
        if sum(1 for i in range(nk) if kinds[i] == "put" or pre[i]) >= min(2, nk):
            break       # at least two keys whose old and new value differ
    return {"id": sid, "reg": j["reg"], "order": j["order"], "primary": j["primary"], "kinds": kinds, "pre": pre,
            "maxretries": 2, "readts": [19, 20, 50], "steps": steps_of(j), "origin": origin}


def project(ev):
    e = ev["e"]
    if e == "Begin":
        return {"e": "Begin", "primary": ev["primary"], "commit": ev["commit"], "old": ev["old"], "new": ev["new"]}
    if e == "Rpc":
        return {"e": "Rpc", "who": ev["who"], "kind": ev["kind"], "keys": ev["keys"], "applied": ev["applied"], "real": ev["real"]}
    if e == "ClientRet":
        return {"e": "ClientRet", "ok": ev["ok"]}
    if e == "Resolve":
        return {"e": "Resolve", "status": ev["status"], "cv": ev["cv"]}
    if e == "FinalRead":
        return {"e": "FinalRead", "k": ev["k"], "ts": ev["ts"], "r": ev["r"]}
    return {"e": "Note"}


def build_quietly(ctx):
    try:
        ctx.build("client2pc")
    except Undecided:
        pass                        # reported by run_driver, which builds again


def run_driver(ctx, scheds):
    binp = ctx.build("client2pc")
    shm = "/dev/shm" if os.path.isdir("/dev/shm") and os.access("/dev/shm", os.W_OK) else None
    procs, dirs = [], []
    for part in chunks(scheds, ctx.workers):
        if not part:
            continue
        d = ctx.mkdtemp("drv")
        dbdir = d
        if shm:                                   # the WAL fsyncs: tmpfs is an order of magnitude faster
            dbdir = os.path.join(shm, "verif-client2pc-%d-%d" % (os.getpid(), len(procs)))
            shutil.rmtree(dbdir, ignore_errors=True)
            os.makedirs(dbdir)
            dirs.append(dbdir)
        inp, outp = os.path.join(d, "in.ndjson"), os.path.join(d, "out.ndjson")
        with open(inp, "w") as fh:
            for s in part:
                fh.write(json.dumps(s) + "\n")
        p = subprocess.Popen([binp, "-in", inp, "-out", outp, "-dir", dbdir], stdout=subprocess.PIPE, stderr=subprocess.STDOUT, text=True)
        procs.append((p, outp))
    traces = {}
    try:
        for p, outp in procs:
            try:
                out, _ = p.communicate(timeout=2400)
            except subprocess.TimeoutExpired:
                p.kill()
                raise Undecided("client2pc driver timed out")
            if p.returncode != 0:
                raise Undecided("client2pc driver failed (%d): %s" % (p.returncode, out[-3000:]))
            for line in open(outp):
                ev = json.loads(line)
                traces.setdefault(ev["s"], []).append(ev)
    finally:
        for p, _ in procs:
            if p.poll() is None:
                p.kill()
        for d in dirs:
            shutil.rmtree(d, ignore_errors=True)
    return traces


def validate_parallel(ctx, tl):
    """validate_traces over chunks in parallel; trace indices are global."""
    n = max(1, min(ctx.workers, len(tl), sum(len(t) for t in tl) // 5000))
    size = (len(tl) + n - 1) // n
    parts = [(i, tl[i:i + size]) for i in range(0, len(tl), size)]
    def one(p):
        for attempt in (1, 2):
            try:
                return [(p[0] + ti, ln, ev, want) for (ti, ln, ev, want) in
                        ctx.validate_traces("Client2PCPropTrace", "Client2PCPropTrace.cfg", p[1], timeout=1800)]
            except Undecided as e:      # a JVM killed from outside (shared box) leaves no TRACE_HW line: try once more
                if attempt == 2 or "no TRACE_HW" not in str(e) or "Error" in str(e):
                    raise
                ctx.notes.append("one trace-validation run died without output and was repeated")
    with ThreadPoolExecutor(max_workers=n) as ex:
        res = list(ex.map(one, parts))
    return [r for part in res for r in part]


def m1(ctx, quick, box):
    try:
        runs = []
        cfgs = ["MC_Client2PC_quick.cfg"] if quick else ["MC_Client2PC_conc.cfg", "MC_Client2PC.cfg", "MC_Client2PC_conc_big.cfg", "MC_Client2PC_conc2.cfg"]
        for c in cfgs:
            r = ctx.tlc_or_undecided("Client2PC", c, timeout=3000, coverage=(not quick and c == "MC_Client2PC_conc2.cfg"),   # the cfg that enables every action
                                     workers=max(2, ctx.workers // 2))
            if r.violated:
                raise Undecided("M1: Client2PC.tla violates %s under %s: the specification (design layer) needs attention\n%s"
                                % (r.violated, c, r.out[-2500:]))
            ctx.log("M1 %s: %d generated, %d distinct, depth %d (%.0fs)" % (c, r.generated, r.distinct, r.depth, r.wall))
            runs.append((c, r))
        if not quick:
            # the repaired deviation, switched on, must still be found: the invariants are not vacuous
            r = ctx.tlc("Client2PC", "Asis_CommitKeysInMutationOrder.cfg", workers=1, timeout=900)
            cex = parse_scheds(r.out)
            if r.violated is None or not cex:
                raise Undecided("deviation CommitKeysInMutationOrder no longer yields a counterexample: Client2PC.tla lost sensitivity\n%s" % r.out[-1500:])
            box["cex"] = cex[:1]
            ctx.log("M1 Asis_CommitKeysInMutationOrder: counterexample of %d steps (expected)" % len(cex[0]["steps"]))
        box["runs"] = runs
    except Exception as e:          # re-raised in the main thread
        box["err"] = e


def negative_controls(tl, raw):
    """(a) one key's read at/after the commit version swapped to the other value; (b) every such read of a
    rolled-back mutation swapped to the new value.  Both must be rejected."""
    ctl = []
    for t, evs in zip(tl, raw):
        b = t[0]
        reads = [i for i, e in enumerate(t) if e["e"] == "FinalRead" and e["ts"] >= b["commit"] and b["old"][str(e["k"])] != b["new"][str(e["k"])]]
        if not reads or any(e["e"] == "Resolve" and e["status"] not in ("committed", "rollback", "alive") for e in t):
            continue
        swap = lambda e: dict(e, r=b["new"][str(e["k"])] if e["r"] == b["old"][str(e["k"])] else b["old"][str(e["k"])])
        if len(ctl) == 0 and len({t[i]["k"] for i in reads}) >= 2:
            c = [dict(e) for e in t]
            c[reads[-1]] = swap(c[reads[-1]])
            ctl.append(c)
        elif len(ctl) == 1 and t[reads[0]]["r"] == b["old"][str(t[reads[0]]["k"])]:
            c = [dict(e) for e in t]
            for i in reads:
                c[i] = swap(c[i])
            ctl.append(c)
        if len(ctl) == 2:
            break
    return ctl


def run(ctx):
    pid, quick = ctx.pid, ctx.tier == "quick"
    orig_tlc = ctx.tlc
    ctx.tlc = lambda module, cfg, **kw: orig_tlc(module, cfg, **dict({"heap": "3g"}, **kw))   # several JVMs side by side
    box = {}
    ctx._specdir()
    th = threading.Thread(target=m1, args=(ctx, quick, box))
    th.start()
    bt = threading.Thread(target=build_quietly, args=(ctx,))
    bt.start()
    try:
        # ------------------------------------------------------------ M2
        seed = ctx.seed
        jobs = [  # (name, constants, simulate num, depth)
            ("Gen_all3.cfg", dict(MaxLead=0, MaxAttempts=1, CheckTs="{40}", MaxHist=40), None, None),
            ("Gen_all2.cfg", dict(NK=2, MaxFaults=1 if quick else 2, MaxLead=0, MaxAttempts=2 if quick else 1, CheckTs="{40}", MaxHist=60), None, None),
            ("Gen_seq3.cfg", dict(MaxFaults=2, PlanMax=14, MaxHist=60), 70 if quick else 700, 61),
            ("Gen_conc3.cfg", dict(Concurrent="TRUE", MaxPasses=2, MaxFaults=1, PlanMax=16, MaxHist=60), 110 if quick else 1100, 61),
            ("Gen_conc2.cfg", dict(NK=2, Concurrent="TRUE", MaxPasses=2, MaxFaults=2, PlanMax=14, CheckTs="{15, 25, 40}", MaxHist=60), 60 if quick else 600, 61),
        ]
        def one(j):
            name, consts, num, depth = j
            write_gen_cfg(ctx, name, **consts)
            hs, r = gen(ctx, name, simulate=("num=%d" % num) if num else None, depth=depth,
                        seed=(seed * 7919 + len(name)) if num else None, workers=1 if num else 2)
            return name, dedup(hs), r
        with ThreadPoolExecutor(max_workers=len(jobs)) as ex:
            gens = list(ex.map(one, jobs))
        scheds, origin_count = [], {}
        exhaustive_total = 0
        for name, hs, r in gens:
            if name.startswith("Gen_all"):
                exhaustive_total += len(hs)
                if quick:                       # a seed-dependent sample; the thorough tier runs all of them
                    ctx.rng.shuffle(hs)
                    hs = hs[:220 if name == "Gen_all3.cfg" else 60]
            ctx.log("M2 %s: %d distinct behaviours%s" % (name, len(hs), " (%d states)" % r.distinct if r.distinct else ""))
            for j in hs:
                scheds.append(to_sched(ctx.rng, j, len(scheds), name))
            origin_count[name] = len(hs)
        # recorded replays (repaired defects stay in the schedule set; a reappearance is an ordinary violation)
        for rp in json.load(open(os.path.join(VERIF, "findings", "client2pc_replays.json"))):
            for variant in rp["schedules"]:
                s = dict(variant); s["id"] = len(scheds); s["origin"] = "replay:" + rp["id"]
                scheds.append(s)
        th.join()
        if "err" in box:
            raise box["err"]
        for j in box.get("cex", []):
            scheds.append(to_sched(ctx.rng, j, len(scheds), "asis-counterexample"))
        bt.join()
        ctx.log("M2: %d schedules" % len(scheds))
        traces = run_driver(ctx, scheds)
        ctx.log("driver: %d runs recorded" % len(traces))
        if len(traces) != len(scheds):
            raise Undecided("driver produced %d traces for %d schedules" % (len(traces), len(scheds)))
        order = sorted(traces)
        for s in order:
            if traces[s][-1]["e"] != "End":
                raise Undecided("trace of schedule %d is incomplete" % s)
        # ------------------------------------------------------------ M3
        tl = [[project(e) for e in traces[s]] for s in order]
        rejected = validate_parallel(ctx, tl)
        nevents = sum(len(t) for t in tl)
        ctx.log("M3: %d traces / %d events validated, %d replies rejected" % (len(tl), nevents, len(rejected)))
        unresolved = [s for s in order if not traces[s][-1]["resolved"]]
        reported = set()
        for (ti, line, pev, want) in rejected:
            sid = order[ti]
            if sid in reported:
                continue
            reported.add(sid)
            rp = ctx.save_replay("violation-%d.json" % sid, {"schedule": scheds[sid], "rejected_line": line, "event": traces[sid][line],
                                                             "expected": want, "trace": traces[sid]})
            ctx.violation(rp, "schedule %d (%s): %s contradicts C28, expected %s" % (sid, scheds[sid]["origin"], json.dumps(pev), want))
        if unresolved and not reported:
            raise Undecided("the locks of %d runs could not be resolved by four fault-free resolver passes (e.g. schedule %s): "
                            "the state 'once its locks are resolved' was not reached" % (len(unresolved), json.dumps(scheds[unresolved[0]])))
        diverged = [s for s in order if traces[s][-1]["diverged"]]
        if diverged:
            # the client visits regions in Go map order, the generated behaviours in ascending order: a few runs end a call one
            # RPC earlier or later than scheduled (the driver then skips / completes steps).  Many such runs mean the specification
            # no longer describes the client's RPC sequence.
            ctx.save_replay("drift.json", [{"schedule": scheds[s], "trace": traces[s]} for s in diverged[:5]])
            ctx.log("%d runs had scheduled steps the real client did not take (e.g. schedule %d)" % (len(diverged), diverged[0]))
            if len(diverged) * 5 > len(order):
                print("DRIFT family=Client2PC at=%d of %d runs left the scheduled RPC sequence (out/C28/drift.json)" % (len(diverged), len(order)), flush=True)
        # ------------------------------------------------------------ negative controls
        good = [i for i in range(len(tl)) if order[i] not in reported]
        ctl = negative_controls([tl[i] for i in good], [traces[order[i]] for i in good])
        if len(ctl) < 2:
            raise Undecided("no trace suitable for the negative controls: the driver is not exercising the protocol")
        rej = ctx.validate_traces("Client2PCPropTrace", "Client2PCPropTrace.cfg", ctl)
        if {r[0] for r in rej} != {0, 1}:
            raise Undecided("negative control accepted: the trace specification does not bind the final reads (%s)" % rej)
        # ------------------------------------------------------------ evidence
        def facts(evs):
            f = {"faults": 0, "redirect": 0, "applied_prewrite": 0, "passes": 0, "conc": False, "attempts": 0, "outcome": "?", "regions": 0}
            busy = False
            for e in evs:
                if e["e"] == "Begin":
                    f["regions"] = len(set(e["reg"].values()))
                if e["e"] == "Rpc":
                    f["faults"] += e["fault"] != "none"
                    f["redirect"] += e["out"] == "redirect"
                    f["applied_prewrite"] += e["kind"] == "prewrite" and e["applied"]
                    if e["who"] == "r" and busy:
                        f["conc"] = True
                    if e["who"] == "c":
                        busy = True
                if e["e"] == "ClientRet":
                    busy = False; f["attempts"] += 1
                    f["ok"] = f.get("ok", False) or e["ok"]
                if e["e"] == "Resolve":
                    f["passes"] += 1
                    if e["status"] in ("committed", "rollback"):
                        f["outcome"] = e["status"]
            return f
        fx = {s: facts(traces[s]) for s in order}
        nontriv = {canon(scheds[s], scheds[s]["steps"]) for s in order
                   if fx[s]["applied_prewrite"] and (fx[s]["faults"] or fx[s]["redirect"] or fx[s]["conc"] or fx[s]["attempts"] > 1)}
        hist = {}
        for s in order:
            f = fx[s]
            k = "regions=%d %s%s" % (f["regions"], f["outcome"], " client-ok" if f.get("ok") else "")
            hist[k] = hist.get(k, 0) + 1
        fk = {}
        for s in order:
            for e in traces[s]:
                if e["e"] == "Rpc" and (e["fault"] != "none" or e["out"] == "redirect"):
                    k = "%s:%s:%s" % (e["who"], e["kind"], e["fault"] if e["fault"] != "none" else "redirect")
                    fk[k] = fk.get(k, 0) + 1
        runs = box["runs"]
        sample_sid = next((s for s in order if fx[s]["faults"] and fx[s]["regions"] >= 2), order[0])
        ctx.evidence("model_checking", {
            "states": sum(r.distinct for _, r in runs), "transitions": sum(r.generated for _, r in runs),
            "traces_validated_against_impl": len(tl), "evaluations": len(tl), "distinct_nontrivial": len(nontriv),
            "rule": "behaviours of Client2PC.tla generated by TLC: exhaustive BFS with the history in the state (every layout of 2 and 3 keys "
                    "over 1..3 regions x primary x mutation order, at most one fault at every RPC of the prewrite/commit/resolve sequence; "
                    "quick tier: a seeded sample of them) plus -simulate (two faults, leader changes, a second Mutate, resolver passes between the "
                    "client's RPCs); each executed by the real raftstore/client.Client over gRPC/bufconn against kv.Apply on real DBs; "
                    "distinct = (layout, driver-visible step sequence); non-trivial = a prewrite was applied and the run had an injected fault, a "
                    "NotLeader redirect, a second Mutate or a resolver RPC between two RPCs of the client",
            "samples": [{"schedule": scheds[sample_sid], "trace": traces[sample_sid][:14]}],
            "m1": [{"cfg": c, "generated": r.generated, "distinct": r.distinct, "depth": r.depth, "coverage_zero": r.coverage_zero} for c, r in runs],
            "schedules_by_origin": origin_count, "exhaustive_single_fault_behaviours": exhaustive_total,
            "exhaustive": (not quick), "events_validated": nevents, "outcomes": hist, "rpcs_faulted_or_redirected": fk,
            "runs_with_unscheduled_steps": len(diverged), "rejected_replies": len(rejected),
            "negative_control": "2 corrupted traces rejected as required",
            "checker_cmd": "tlc -config MC_Client2PC_conc.cfg Client2PC.tla ; tlc -config Client2PCPropTrace.cfg Client2PCPropTrace.tla",
        }, assumptions=[
            "the stores are in-process gRPC servers that hand each request to raftstore/kv.Apply on a real DB behind the fault injector: raft replication, epoch checks and the store's own NotLeader detection are replaced by the injector (leader = a variable of the harness)",
            "one mutation set at a time (start 10, commit 20, TTL 20); conflicts with other transactions are the subject of C17-C19",
            "lock expiry is decided by the logical currentTs of CheckTxnStatus (15/25 alive, 40 expired); no wall clock",
            "the DBs never flush during a run, so the storage-engine findings recorded under C01/C02 (and their C17-C19 consequences) cannot interfere",
            "the order in which the client visits regions is Go map iteration order and is not scheduled",
            "TLC results hold for the constants in the cfg files",
        ])
    finally:
        th.join()


if __name__ == "__main__":
    main(run, "Client2PC")
