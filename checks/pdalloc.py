#!/usr/bin/env python3
"""PD allocation family: C27 (timestamps and ids unique and increasing, across restarts).

M1  TLC exhaustively checks spec/PD/PDAlloc.tla (PlusCal; Reserve / ReadId / ReadTs / WriteTmp /
    Rename / Reply per request, crash anywhere, restart from the checkpoint, two allocations after
    the restart) for 3 mixed requests: the repaired design must satisfy Safe, the design before the
    repair (deviation CheckpointOutsideLock) must violate it (the model is sensitive to the defect).
M2  TLC enumerates, from the same spec at gate granularity (ACTION_CONSTRAINT GateGrain), every
    interleaving prefix of 2 requests and (sampled in quick, all in thorough) of 3 requests under
    the deviant design (a superset of what the repaired code allows); harness/cmd/pdalloc replays
    each on the real pd/server.Service + LocalStore with harness-side gates, kills the process
    image at the end of the prefix, restarts it like cmd/nokv/pd.go and allocates again.
M3  calls and delivered replies are validated by TLC against spec/PD/PDAllocPropTrace.tla.
"""
import json, os, sys, re, subprocess
sys.path.insert(0, os.path.join(os.path.dirname(os.path.abspath(__file__)), "..", "lib"))
from vlib import *
from vpar import validate_traces_parallel, fast_tmp

GEN = """SPECIFICATION Spec
CONSTANTS
 Reqs = {%(reqs)s}
 IdReqs = {%(ids)s}
 Batch2 = {%(b2)s}
 Deviations = {"CheckpointOutsideLock"}
 FailChoices = {{%(fail)s}}
 MaxHist = 100
 defaultInitValue = 0
ACTION_CONSTRAINT GateGrain
INVARIANT EmitHist
CHECK_DEADLOCK FALSE
"""

# request mixes: (kinds, batch sizes)
MIX2 = [("ts ts", "1 1"), ("ts ts", "1 2"), ("ts id", "1 1"), ("id ts", "2 1"), ("id id", "1 2")]
# mixes in which one request's checkpoint write fails (storage fault injected by the harness store)
FAIL2 = [("ts ts", "1 1", (1,)), ("ts ts", "2 1", (2,)), ("ts id", "1 2", (1,)), ("id ts", "1 1", (1,))]
FAIL3 = [("ts ts ts", "1 1 1", (2,)), ("ts id ts", "1 1 2", (1,))]
MIX3 = [("ts ts id", "1 2 1"), ("id ts id", "1 1 2"), ("ts ts ts", "1 1 1")]


def gen(ctx, kinds, batches, fail=()):
    kinds, batches = kinds.split(), [int(b) for b in batches.split()]
    n = len(kinds)
    name = "Gen_%s_%s_f%s.cfg" % ("".join(k[0] for k in kinds), "".join(map(str, batches)), "".join(map(str, fail)))
    open(os.path.join(ctx._specdir(), name), "w").write(GEN % {
        "reqs": ",".join(str(i + 1) for i in range(n)),
        "ids": ",".join(str(i + 1) for i in range(n) if kinds[i] == "id"),
        "b2": ",".join(str(i + 1) for i in range(n) if batches[i] == 2), "fail": ",".join(map(str, fail))})
    r = ctx.tlc_or_undecided("PDAlloc", name, timeout=600, workers=1)
    if not r.ok:
        raise Undecided("behaviour generation failed (%s):\n%s" % (name, r.out[-2000:]))
    reqs = [{"kind": kinds[i], "n": batches[i]} for i in range(n)]
    seen, out = set(), []
    for m in re.finditer(r'<<"SCHED", "(.*)">>', r.out):
        s = m.group(1).encode().decode("unicode_escape")
        if s in seen:
            continue
        seen.add(s)
        out.append({"reqs": reqs, "steps": json.loads(s), "fail": list(fail)})
    return out, r


def build_nokv(ctx):
    """the real nokv binary, built from the tree under test (black-box restart schedules)"""
    out = os.path.join(ctx.scratch, "nokv")
    env = dict(os.environ); env.update(GOENV)
    p = subprocess.run([GO, "build", "-o", out, "./cmd/nokv"], cwd=ctx.repo, env=env, stdout=subprocess.PIPE, stderr=subprocess.STDOUT, text=True)
    if p.returncode != 0:
        raise Undecided("building cmd/nokv failed:\n" + p.stdout[-3000:])
    return out


def run_driver(ctx, scheds):
    binp = ctx.build("pdalloc")
    nokv = build_nokv(ctx)
    procs = []
    for part in chunks(scheds, ctx.workers):
        if not part:
            continue
        d = ctx.mkdtemp("drv")
        work = fast_tmp(ctx, "work")
        inp, outp = os.path.join(d, "in.ndjson"), os.path.join(d, "out.ndjson")
        with open(inp, "w") as fh:
            for s in part:
                fh.write(json.dumps(s) + "\n")
        p = subprocess.Popen([binp, "-nokv", nokv, "-in", inp, "-out", outp, "-dir", work], stdout=subprocess.PIPE, stderr=subprocess.STDOUT, text=True)
        procs.append((p, outp))
    traces = {}
    for p, outp in procs:
        try:
            out, _ = p.communicate(timeout=1500)
        except subprocess.TimeoutExpired:
            p.kill()
            raise Undecided("pdalloc driver timed out")
        if p.returncode != 0:
            raise Undecided("pdalloc driver failed (%d): %s" % (p.returncode, out[-3000:]))
        for line in open(outp):
            ev = json.loads(line)
            traces.setdefault(ev["s"], []).append(ev)
    return traces


def project(evs):
    out = []
    for ev in evs:
        if ev["e"] in ("Call", "Reply", "Restart"):
            out.append({k: v for k, v in ev.items() if k in ("e", "t", "kind", "n", "first", "ok")})
    return out


def preemptions(evs):
    """switches away from a thread that was still parked at a gate (could have continued)"""
    n, last = 0, None
    for ev in evs:
        if ev["e"] != "Step":
            continue
        if last is not None and last["t"] != ev["t"] and last["state"] == "parked":
            n += 1
        last = ev
    return n


def run(ctx):
    quick = ctx.tier == "quick"
    # ---------------------------------------------------------------- M1
    m1 = ctx.tlc_or_undecided("PDAlloc", "MC_PDAlloc.cfg", timeout=900, coverage=not quick)
    if m1.violated or not m1.ok:
        raise Undecided("M1: PDAlloc.tla (repaired design) violates %s: the specification needs attention\n%s" % (m1.violated, m1.out[-2500:]))
    asis = ctx.tlc_or_undecided("PDAlloc", "MC_PDAlloc_asis.cfg", timeout=900)
    if asis.violated != "Safe":
        raise Undecided("M1: the deviant design (counters read outside the lock) no longer violates Safe: model lost its sensitivity")
    ctx.log("M1 MC_PDAlloc.cfg: %d generated, %d distinct, depth %d; deviant design violates Safe as expected" % (m1.generated, m1.distinct, m1.depth))
    # ---------------------------------------------------------------- M2
    scheds, genstates = [], 0
    rot = MIX3[(ctx.seed % len(MIX3)):] + MIX3[:(ctx.seed % len(MIX3))]
    mixes3 = rot[:1] if quick else rot[:2]
    failmix3 = FAIL3[(ctx.seed % 2):][:1]
    ctx._specdir()
    from concurrent.futures import ThreadPoolExecutor
    with ThreadPoolExecutor(max_workers=max(1, min(4, ctx.workers // 2))) as ex:
        futs = {m: ex.submit(gen, ctx, *m) for m in MIX2 + mixes3 + FAIL2 + failmix3}
    for m in MIX2:
        ss, r = futs[m].result()
        genstates += r.distinct
        scheds += ss
    nfail = 0
    for m in FAIL2 + failmix3:
        ss, r = futs[m].result()
        genstates += r.distinct
        if len(m[0].split()) == 3:
            ctx.rng.shuffle(ss)
            ss = ss[:400 if quick else 4000]
        nfail += len(ss)
        scheds += ss
    n2 = len(scheds) - nfail
    n3all = 0
    for m in mixes3:
        ss, r = futs[m].result()
        genstates += r.distinct
        n3all += len(ss)
        if quick:
            ctx.rng.shuffle(ss)
            ss = ss[:1500]
        scheds += ss
    # free-running goroutines (real concurrency), clean restart afterwards
    nfree = 40 if quick else 400
    for i in range(nfree):
        k = ctx.rng.randint(2, 6)
        scheds.append({"reqs": [{"kind": ctx.rng.choice(["ts", "id"]), "n": ctx.rng.randint(1, 3)} for _ in range(k)], "steps": [], "free": True,
                       "fail": [ctx.rng.randint(2, 4)] if i % 2 else []})
    # the real `nokv pd` binary: concurrent requests over gRPC, SIGKILL, restart (exercises cmd/nokv/pd.go itself)
    nbb = 6 if quick else 40
    for i in range(nbb):
        k = ctx.rng.randint(2, 5)
        scheds.append({"reqs": [{"kind": ctx.rng.choice(["ts", "id"]), "n": ctx.rng.randint(1, 3)} for _ in range(k)], "steps": [],
                       "blackbox": True, "rounds": 3})
    # the interleaving that demonstrated the defect before the repair stays in the set
    replays = json.load(open(os.path.join(VERIF, "findings", "pdalloc_replays.json")))
    for rp in replays:
        scheds.append(dict(rp["schedule"]))
    for i, s in enumerate(scheds):
        s["id"] = i
    ctx.log("M2: %d schedules (%d two-request prefixes = all, %d of %d three-request prefixes, %d free-running, %d recorded replays)"
            % (len(scheds), n2, len(scheds) - n2 - nfail - nfree - nbb - len(replays), n3all, nfree, len(replays)) + "; %d black-box runs of the nokv binary; %d prefixes with a failing checkpoint write" % (nbb, nfail))
    traces = run_driver(ctx, scheds)
    if len(traces) != len(scheds):
        raise Undecided("driver returned %d traces for %d schedules" % (len(traces), len(scheds)))
    order = sorted(traces)
    tl = [project(traces[s]) for s in order]
    # ---------------------------------------------------------------- M3
    rejected = validate_traces_parallel(ctx, "PDAllocPropTrace", "PDAllocPropTrace.cfg", tl, family="PD", timeout=1500)
    nevents = sum(len(t) for t in tl)
    ctx.log("M3: %d traces / %d events validated, %d contradicting replies" % (len(tl), nevents, len(rejected)))
    bysched = {}
    for (ti, line, pev, want) in rejected:
        bysched.setdefault(order[ti], []).append((line, pev, want))
    for n, (sid, rs) in enumerate(sorted(bysched.items(), key=lambda kv: len(scheds[kv[0]]["steps"]))):
        if n >= 8:
            ctx.notes.append("%d further failing schedules not listed" % (len(bysched) - 8))
            break
        line, pev, want = rs[0]
        what = "reply not explained by the property layer"
        if want is not None:
            what = "value handed out twice" if want.strip() == "{}" else ("value not above earlier allocations" if want.strip() == "TRUE" else "wrong kind/count")
        rp = ctx.save_replay("violation-%d.json" % sid, {"schedule": scheds[sid], "rejected_line": line, "event": pev, "expected": want,
                                                         "trace": traces[sid]})
        ctx.violation(rp, "%s: %s (schedule steps %s, %d failing schedules in total)" % (what, json.dumps(pev), scheds[sid]["steps"], len(bysched)))
    # ------------------------------------------------------- binding self-test
    ctl = None
    for t in tl:
        oks = [e for e in t if e["e"] == "Reply" and e["ok"] and e["kind"] == "ts"]
        post = [i for i, e in enumerate(t) if e["e"] == "Reply" and e["t"] == 101]
        if oks and post and oks[0]["t"] != 101:
            ctl = [dict(e) for e in t]
            ctl[post[0]]["first"] = oks[0]["first"]       # the restarted PD re-issues a delivered timestamp
            break
    if ctl is None:
        raise Undecided("no trace with a delivered timestamp before the restart: driver is not exercising the service")
    if not ctx.validate_traces("PDAllocPropTrace", "PDAllocPropTrace.cfg", [ctl], family="PD"):
        raise Undecided("negative control accepted: the trace specification does not bind replies")
    # -------------------------------------------------------------- evidence
    def nontrivial(sid):
        evs = traces[sid]
        replied = any(e["e"] == "Reply" and e["ok"] and e["t"] < 100 for e in evs)
        return replied and (preemptions(evs) >= 1 or scheds[sid].get("free") or scheds[sid].get("blackbox"))
    distinct = {json.dumps([scheds[s]["reqs"], scheds[s]["steps"], i if (scheds[s].get("free") or scheds[s].get("blackbox")) else 0]) for i, s in enumerate(order) if nontrivial(s)}
    blocked = sum(1 for s in order for e in traces[s] if e["e"] == "Step" and e["state"] == "blocked")
    sample = order[min(len(order) - 1, n2 // 2)]
    ctx.evidence("model_checking", {
        "states": m1.distinct, "transitions": m1.generated, "traces_validated_against_impl": len(tl),
        "evaluations": len(tl), "distinct_nontrivial": len(distinct),
        "exhaustive": (not quick),
        "rule": "every interleaving prefix (gate granularity: counters read / tmp written / renamed / replied) of 2 requests for 5 kind-batch mixes and "
                "of 3 requests (quick: seeded sample of one mix, thorough: all of 2 of the 3 mixes, rotating with the seed), enumerated by TLC from PDAlloc.tla under the deviant design, "
                "each followed by a process death, a restart and two allocations; plus free-running goroutine runs. non-trivial = at least one "
                "pre-emption of a request parked at a gate and at least one reply delivered before the crash",
        "samples": [{"schedule": scheds[sample], "events": tl[order.index(sample)]}],
        "m1": {"cfg": "MC_PDAlloc.cfg", "generated": m1.generated, "distinct": m1.distinct, "depth": m1.depth, "coverage_zero": m1.coverage_zero,
               "deviant_design": {"cfg": "MC_PDAlloc_asis.cfg", "violates": asis.violated, "distinct_until_counterexample": asis.distinct}},
        "generation_states": genstates, "blackbox_runs_of_nokv_pd": nbb, "prefixes_with_failing_checkpoint_write": nfail, "two_request_prefixes": n2, "three_request_prefixes_available": n3all,
        "events_validated": nevents, "failing_schedules": len(bysched),
        "steps_blocked_by_a_lock": blocked, "negative_control": "rejected as required",
        "checker_cmd": "tlc -config MC_PDAlloc.cfg PDAlloc.tla ; tlc -config PDAllocPropTrace.cfg PDAllocPropTrace.tla",
    }, assumptions=[
        "process crash = the files as they are on disk at a quiescent instant (all requests parked at gates); no power-loss model (no fsync reasoning)",
        "gates exist where the harness can interpose without touching /repo: SaveAllocatorState entry/exit and the rename of the checkpoint file; "
        "Reserve and the two counter loads are not separated from each other",
        "in gated schedules the restart sequence is a transcription of cmd/nokv/pd.go (package main cannot be imported); the black-box schedules run the built binary itself",
        "TLC results hold for the constants in the cfg files",
    ])


if __name__ == "__main__":
    main(run, "PD")
