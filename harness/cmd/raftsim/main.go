// raftsim: executes fault schedules on a real 3-store raftstore cluster assembled in one process
// (internal/netsim) and records what the stores applied and what the client calls returned
// (RaftStore family, C22 / C23).
// usage: raftsim -in schedules.ndjson -out events.ndjson -dir scratch
//
// schedule: {"id":n,"stores":[1,2,3],"regions":[{"id":1,"start":"a","end":"m"},...],"ops":[...]}
// ops (every choice is the schedule's; the driver has no model of raft):
//
//	{"op":"tick","s":1,"r":1,"n":1}        n ticks of one peer
//	{"op":"beat","r":1,"q":[1,2]}          one tick of every peer of region r on stores q that reports itself leader
//	{"op":"campaign","s":2,"r":1}          peer.Campaign()
//	{"op":"deliver"|"dup"|"drop","i":k}    k-th queued message (mod queue length)
//	{"op":"drain","r":1,"q":[1,2],"max":n} deliver queued messages of region r (0=all) between stores q (null=all), FIFO, until none
//	{"op":"lose","r":1,"q":[1,2],"in":b}   drop queued messages of region r with both ends in q (in=true) or not (in=false); q null = all
//	{"op":"elect","s":2,"r":1,"q":[2,3]}   campaign + drain among q + lose the rest of region r's messages
//	{"op":"sync","r":1,"q":[1,2]}          drain among q, beat, drain among q
//	{"op":"vote","s":2,"r":1,"q":[2,3]}    campaign + deliver only election messages among q + lose the other election messages of r
//	{"op":"push","r":1,"s":1,"f":2,"ack":b,"hold":h} beat s; deliver region r's messages s->f; ack: full exchange between s and f,
//	                                       else the replies f->s are lost (hold=false) or stay queued (hold=true: delayed)
//	{"op":"race","s":2,"r":1}              deliver the messages queued for s with two concurrent steppers while the first applied command is slow
//	{"op":"wait","n":3300}                 let n milliseconds of wall-clock time pass (ReadIndex timeout)
//	{"op":"partition","a":[1],"b":[2,3]} {"op":"heal"}
//	{"op":"propose","s":1,"r":1,"k":"b"} {"op":"read","s":1,"r":1,"k":"b"}
//	{"op":"restart","s":1}
package main

import (
	"bufio"
	"encoding/json"
	"flag"
	"fmt"
	"os"
	"path/filepath"
	"runtime/pprof"
	"time"

	"verif/harness/internal/netsim"
	"verif/harness/internal/vt"
)

type op struct {
	Op   string   `json:"op"`
	S    uint64   `json:"s"`
	R    uint64   `json:"r"`
	N    int      `json:"n"`
	I    int      `json:"i"`
	K    string   `json:"k"`
	Q    []uint64 `json:"q"`
	A    []uint64 `json:"a"`
	B    []uint64 `json:"b"`
	Max  int      `json:"max"`
	F    uint64   `json:"f"`
	Ack  bool     `json:"ack"`
	Hold bool     `json:"hold"`
	In   bool     `json:"in"`
}

type sched struct {
	ID      int                 `json:"id"`
	Stores  []uint64            `json:"stores"`
	Regions []netsim.RegionSpec `json:"regions"`
	Ops     []op                `json:"ops"`
}

func beat(c *netsim.Cluster, r uint64, q []uint64) int {
	n := 0
	if q == nil {
		q = c.Stores
	}
	for _, s := range q {
		for _, reg := range c.Regions {
			if r != 0 && reg.ID != r {
				continue
			}
			if c.Peer(s, reg.ID).Status().RaftState.String() == "StateLeader" {
				_ = c.TickPeer(s, reg.ID)
				n++
			}
		}
	}
	return n
}

func run(sc *sched, dir string, w *vt.Writer) (err error) {
	emit := func(ev vt.Ev) { ev["sid"] = sc.ID; w.Emit(ev) }
	defer func() {
		if p := recover(); p != nil {
			emit(vt.Ev{"e": "Panic", "what": fmt.Sprint(p)})
			err = fmt.Errorf("schedule %d: panic: %v", sc.ID, p)
		}
	}()
	c, err := netsim.New(dir, sc.Stores, sc.Regions, emit)
	if err != nil {
		return err
	}
	emit(vt.Ev{"e": "Init", "stores": sc.Stores, "regions": sc.Regions, "aligned": c.Aligned})
	max := func(o op) int {
		if o.Max > 0 {
			return o.Max
		}
		return 400
	}
	t0 := time.Now()
	for i, o := range sc.Ops {
		info := map[string]any{}
		switch o.Op {
		case "tick":
			n := o.N
			if n <= 0 {
				n = 1
			}
			for j := 0; j < n; j++ {
				if e := c.TickPeer(o.S, o.R); e != nil {
					info["err"] = e.Error()
				}
			}
		case "beat":
			info["n"] = beat(c, o.R, o.Q)
		case "campaign":
			if e := c.Campaign(o.S, o.R); e != nil {
				info["err"] = e.Error()
			}
		case "deliver":
			m, e := c.Deliver(o.I)
			info["m"], info["err"] = netsim.MsgInfo(m), e
		case "dup":
			m, e := c.Duplicate(o.I)
			info["m"], info["err"] = netsim.MsgInfo(m), e
		case "drop":
			info["m"] = netsim.MsgInfo(c.Drop(o.I))
		case "drain":
			info["n"] = c.Drain(o.R, o.Q, max(o))
		case "lose":
			info["n"] = c.DropMatching(o.R, o.Q, o.In)
		case "elect":
			if e := c.Campaign(o.S, o.R); e != nil {
				info["err"] = e.Error()
			}
			info["n"] = c.Drain(o.R, o.Q, max(o))
			info["lost"] = c.DropMatching(o.R, o.Q, false)
		case "vote":
			if e := c.Campaign(o.S, o.R); e != nil {
				info["err"] = e.Error()
			}
			in := map[uint64]bool{}
			for _, x := range o.Q {
				in[x] = true
			}
			info["n"] = c.DrainSel(func(m *netsim.Msg) bool { return m.Region == o.R && netsim.IsVote(m) && in[m.From] && in[m.To] }, max(o))
			info["lost"] = c.DropSel(func(m *netsim.Msg) bool { return m.Region == o.R && netsim.IsVote(m) })
		case "push":
			beat(c, o.R, []uint64{o.S})
			if o.Ack {
				info["n"] = c.Drain(o.R, []uint64{o.S, o.F}, max(o))
			} else {
				info["n"] = c.DrainSel(func(m *netsim.Msg) bool { return m.Region == o.R && m.From == o.S && m.To == o.F }, max(o))
				if !o.Hold {
					info["lost"] = c.DropSel(func(m *netsim.Msg) bool { return m.Region == o.R && m.From == o.F && m.To == o.S })
				}
			}
		case "race":
			info["race"] = c.Race(o.S, o.R, 300*time.Millisecond)
		case "wait":
			c.Wait(time.Duration(o.N) * time.Millisecond)
		case "sync":
			n := c.Drain(o.R, o.Q, max(o))
			beat(c, o.R, o.Q)
			info["n"] = n + c.Drain(o.R, o.Q, max(o))
		case "partition":
			c.Partition(o.A, o.B)
		case "heal":
			c.Heal()
		case "propose":
			c.Propose(o.S, o.R, o.K)
		case "read":
			c.Read(o.S, o.R, o.K)
		case "restart":
			if e := c.Restart(o.S); e != nil {
				return fmt.Errorf("schedule %d op %d: restart: %w", sc.ID, i, e)
			}
		default:
			return fmt.Errorf("schedule %d: unknown op %q", sc.ID, o.Op)
		}
		info["q"] = c.QueueLen()
		info["us"] = time.Since(t0).Microseconds()
		emit(vt.Ev{"e": "Op", "i": i, "op": o.Op, "info": info})
	}
	emit(vt.Ev{"e": "Final", "snap": c.Snapshot(), "sent": c.Sent, "lost": c.Lost})
	c.Close()
	emit(vt.Ev{"e": "Closed", "us": time.Since(t0).Microseconds()})
	return nil
}

func main() {
	in := flag.String("in", "", "schedules (ndjson)")
	out := flag.String("out", "", "events (ndjson)")
	dir := flag.String("dir", "", "scratch directory")
	prof := flag.String("cpuprofile", "", "write a CPU profile (diagnostics)")
	flag.Parse()
	if *prof != "" {
		pf, err := os.Create(*prof)
		if err != nil {
			vt.Fatal("%v", err)
		}
		_ = pprof.StartCPUProfile(pf)
		defer pprof.StopCPUProfile()
	}
	f, err := os.Open(*in)
	if err != nil {
		vt.Fatal("%v", err)
	}
	defer f.Close()
	w, err := vt.NewWriter(*out)
	if err != nil {
		vt.Fatal("%v", err)
	}
	rd := bufio.NewScanner(f)
	rd.Buffer(make([]byte, 1<<20), 1<<26)
	failed := 0
	for rd.Scan() {
		if len(rd.Bytes()) == 0 {
			continue
		}
		var sc sched
		if err := json.Unmarshal(rd.Bytes(), &sc); err != nil {
			vt.Fatal("bad schedule: %v", err)
		}
		d := filepath.Join(*dir, fmt.Sprintf("c%d", sc.ID))
		_ = os.RemoveAll(d) // never start from the image of an earlier, aborted run
		if err := run(&sc, d, w); err != nil {
			fmt.Fprintln(os.Stderr, err)
			failed++
		}
		_ = os.RemoveAll(d)
	}
	if err := w.Close(); err != nil {
		vt.Fatal("%v", err)
	}
	if failed > 0 {
		pprof.StopCPUProfile()
		os.Exit(4)
	}
}
