// crash: process-crash fault enumeration for C09/C10/C11/C36.
//
//	crash work    -dir D -wl W.json -crashat N -trace T   run the workload through FaultFS; os.Exit(77)
//	                                                      right before the N-th crash point (N=0: never)
//	crash recover -dir D -wl W.json -out R.json           reopen, dump, run maintenance (flush, compactions,
//	                                                      two value-log GC passes, close/reopen), dump after
//	                                                      each stage and list the value-log files
//
// A crash point is every mutating file operation the engine performs (the repo's own FaultFS calls
// the hook before each one) and every "crash.*" yield point (places invisible to the VFS because the
// stores are mmap'ed). The trace (Accept/Ack per operation) is written synchronously with plain
// os.File writes outside the FaultFS, so it survives the exit.
package main

import (
	"encoding/json"
	"errors"
	"flag"
	"fmt"
	"io"
	"log"
	"math"
	"os"
	"sort"
	"strings"
	"sync"
	"sync/atomic"

	NoKV "github.com/feichai0017/NoKV"
	"github.com/feichai0017/NoKV/kv"
	"github.com/feichai0017/NoKV/utils"
	"github.com/feichai0017/NoKV/vfs"

	"verif/harness/internal/eng"
)

type W struct {
	K string `json:"k"`
	V string `json:"v"` // "" = delete
}

type Op struct {
	Op     string `json:"op"` // Write | Rotate | FlushWait | Compact | GC | Reopen | HoldFlush | ReleaseFlush
	Writes []W    `json:"w,omitempty"`
	Kind   string `json:"kind,omitempty"`
	Level  int    `json:"level,omitempty"`
	Base   int    `json:"base,omitempty"`
	Len    int    `json:"len,omitempty"`
}

type Workload struct {
	Par  bool     `json:"par"` // plain mode: the writes of one operation are issued concurrently (coalesced batch)
	ID   int      `json:"id"`
	Cfg  eng.Cfg  `json:"cfg"`
	Mode string   `json:"mode"` // plain | txn
	Keys []string `json:"keys"`
	Ops  []Op     `json:"ops"`
}

var (
	listPoints bool
	points     int64
	crashAt    int64
	traceF     *os.File
	lastWal    atomic.Value // name of the WAL segment opened last (segment switches are visible to the VFS)
	rots       int64        // memtable rotations started so far (lsm.rotate yield point)
)

func curWal() string {
	if v, ok := lastWal.Load().(string); ok {
		return v
	}
	return ""
}

// ---- stalled flush: HoldFlush parks the NEXT flush task that reaches the "lsm.flush" yield point (the
// oldest sealed memtable: tasks are handed out in sealing order) until ReleaseFlush. With the code's single
// flush worker every younger memtable queues behind it; any additional worker would overtake it.
var hold struct {
	mu    sync.Mutex
	armed bool
	ch    chan struct{}
}

func installHold() {
	prev := utils.VerifHook
	utils.VerifHook = func(p string, a ...uint64) {
		if p == "lsm.flush" {
			hold.mu.Lock()
			var ch chan struct{}
			if hold.armed {
				hold.armed = false
				hold.ch = make(chan struct{})
				ch = hold.ch
			}
			hold.mu.Unlock()
			if ch != nil {
				<-ch
			}
		}
		if prev != nil {
			prev(p, a...)
		}
	}
}

func holdFlush() {
	hold.mu.Lock()
	if hold.ch == nil {
		hold.armed = true
	}
	hold.mu.Unlock()
}

func releaseFlush() {
	hold.mu.Lock()
	hold.armed = false
	if hold.ch != nil {
		close(hold.ch)
		hold.ch = nil
	}
	hold.mu.Unlock()
}

// ---- value-log layout (only facts the real engine reports; used for workload selection and evidence)
func vfiles(db *NoKV.DB) map[string][]uint32 {
	out := map[string][]uint32{}
	files, _ := db.VerifVlogFiles()
	for b, fids := range files {
		fs := append([]uint32{}, fids...)
		sort.Slice(fs, func(i, j int) bool { return fs[i] < fs[j] })
		out[fmt.Sprint(b)] = fs
	}
	return out
}

// where the LSM currently points for key k: [bucket, fid, offset], nil when the value is inline or absent
func locate(db *NoKV.DB, k string) []uint32 {
	e, err := db.VerifLSM().Get(kv.InternalKey(kv.CFDefault, []byte(k), math.MaxUint64))
	if err != nil || e == nil {
		return nil
	}
	defer e.DecrRef()
	if e.Meta&kv.BitValuePointer == 0 || e.Meta&kv.BitDelete != 0 {
		return nil
	}
	var vp kv.ValuePtr
	vp.Decode(e.Value)
	return []uint32{vp.Bucket, vp.Fid, vp.Offset}
}

// one GC pass over every sealed value-log file (snapshot of the file lists taken first, as RunValueLogGC's
// candidates are); returns per file what rewrite reported and whether the file is gone afterwards
func gcPass(db *NoKV.DB) []map[string]any {
	var res []map[string]any
	files, active := db.VerifVlogFiles()
	bs := make([]uint32, 0, len(files))
	for b := range files {
		bs = append(bs, b)
	}
	sort.Slice(bs, func(i, j int) bool { return bs[i] < bs[j] })
	for _, b := range bs {
		fids := append([]uint32{}, files[b]...)
		sort.Slice(fids, func(i, j int) bool { return fids[i] < fids[j] })
		for _, fid := range fids {
			if fid >= active[b] {
				continue
			}
			err := db.VerifGCRewrite(b, fid)
			gone := true
			now, _ := db.VerifVlogFiles()
			for _, f := range now[b] {
				if f == fid {
					gone = false
				}
			}
			es := ""
			if err != nil {
				es = err.Error()
			}
			res = append(res, map[string]any{"b": b, "f": fid, "err": es, "gone": gone})
		}
	}
	return res
}

// bucketsOf maps every key of the universe to its value-log bucket
func bucketsOf(w *Workload) map[string]uint32 {
	nb := uint32(max(w.Cfg.Buckets, 1))
	out := map[string]uint32{}
	for _, k := range w.Keys {
		out[k] = kv.ValueLogBucket(kv.InternalKey(kv.CFDefault, []byte(k), math.MaxUint64), nb)
	}
	return out
}

// whereErr reports, for every key whose read failed, each source of the LSM that holds the key in lookup
// order (memtables, L0 newest first, ingest buffers, levels) with its version, its value pointer and
// whether that pointer's value-log file still exists. Plain facts for classifying a failure: a key that
// is unreadable although another source holds a resolvable copy under the same version is shadowed, not lost.
func whereErr(db *NoKV.DB, d map[string]string) map[string][]map[string]any {
	var out map[string][]map[string]any
	for k, v := range d {
		if !strings.HasPrefix(v, "ERR:") {
			continue
		}
		files, _ := db.VerifVlogFiles()
		var srcs []map[string]any
		for _, src := range db.VerifLSM().VerifLocate(kv.CFDefault, []byte(k)) {
			m := map[string]any{"kind": src.Kind, "level": src.Level, "id": src.ID, "ver": fmt.Sprint(src.Version), "del": src.Meta&kv.BitDelete != 0}
			if src.Meta&kv.BitValuePointer != 0 && src.Meta&kv.BitDelete == 0 {
				var vp kv.ValuePtr
				vp.Decode(src.Value)
				ok := false
				for _, f := range files[vp.Bucket] {
					if f == vp.Fid {
						ok = true
					}
				}
				m["ptr"], m["ok"] = []uint32{vp.Bucket, vp.Fid, vp.Offset}, ok
			}
			srcs = append(srcs, m)
		}
		if out == nil {
			out = map[string][]map[string]any{}
		}
		out[k] = srcs
	}
	return out
}

// seal writes filler keys (never part of the workload's key universe) until the value-log file that
// was active in each bucket has been rotated away
func seal(db *NoKV.DB, w *Workload) {
	_, before := db.VerifVlogFiles()
	nb := uint32(len(before))
	vl := vlen(w, Op{})
	for n := 0; n < 400; n++ {
		_, now := db.VerifVlogFiles()
		done := true
		for b, f := range before {
			if now[b] <= f {
				done = false
			}
		}
		if done {
			return
		}
		k := []byte(fmt.Sprintf("~fill%03d", n))
		b := uint32(0)
		if nb > 1 {
			b = kv.ValueLogBucket(kv.InternalKey(kv.CFDefault, k, math.MaxUint64), nb)
		}
		if now[b] > before[b] {
			continue
		}
		_ = db.Set(k, eng.Expand("fill", vl))
	}
}

var emitMu sync.Mutex

func emit(v map[string]any) {
	emitMu.Lock()
	defer emitMu.Unlock()
	b, _ := json.Marshal(v)
	b = append(b, '\n')
	if _, err := traceF.Write(b); err != nil {
		os.Exit(3)
	}
}

func point(name string) {
	n := atomic.AddInt64(&points, 1)
	if crashAt == 0 && listPoints {
		emit(map[string]any{"e": "P", "n": n, "at": name})
	}
	if crashAt > 0 && n == crashAt {
		emit(map[string]any{"e": "Crash", "point": n, "at": name, "wal": curWal(), "rot": atomic.LoadInt64(&rots)})
		os.Exit(77)
	}
}

func mutating(op vfs.Op) bool {
	switch op {
	case vfs.OpOpenFile, vfs.OpFileWrite, vfs.OpFileSync, vfs.OpFileTrunc, vfs.OpMkdirAll, vfs.OpRemoveAll,
		vfs.OpRemove, vfs.OpRename, vfs.OpWriteFile, vfs.OpTruncate:
		return true
	}
	return false
}

func loadWL(path string) *Workload {
	b, err := os.ReadFile(path)
	if err != nil {
		fmt.Fprintln(os.Stderr, err)
		os.Exit(3)
	}
	var w Workload
	if err := json.Unmarshal(b, &w); err != nil {
		fmt.Fprintln(os.Stderr, err)
		os.Exit(3)
	}
	return &w
}

func vlen(w *Workload, op Op) int {
	if op.Len > 0 {
		return op.Len
	}
	if w.Cfg.ValLen > 0 {
		return w.Cfg.ValLen
	}
	return 48
}

func write(db *NoKV.DB, w *Workload, op Op) error {
	if w.Mode == "txn" {
		txn := db.NewTransaction(true)
		defer txn.Discard()
		for _, x := range op.Writes {
			var err error
			if x.V == "" {
				err = txn.Delete([]byte(x.K))
			} else {
				err = txn.Set([]byte(x.K), eng.Expand(x.V, vlen(w, op)))
			}
			if err != nil {
				return err
			}
		}
		return txn.Commit()
	}
	if len(op.Writes) != 1 {
		return errors.New("plain mode writes one key per operation")
	}
	x := op.Writes[0]
	if x.V == "" {
		return db.Del([]byte(x.K))
	}
	return db.Set([]byte(x.K), eng.Expand(x.V, vlen(w, op)))
}

func work(dir, wl, trace string) {
	w := loadWL(wl)
	var err error
	traceF, err = os.OpenFile(trace, os.O_CREATE|os.O_WRONLY|os.O_TRUNC, 0o644)
	if err != nil {
		os.Exit(3)
	}
	fs := vfs.NewFaultFS(vfs.OSFS{}, func(op vfs.Op, path string) error {
		if mutating(op) {
			point(string(op) + ":" + path[strings.LastIndex(path, "/")+1:])
		}
		if op == vfs.OpOpenFile && strings.HasSuffix(path, ".wal") {
			lastWal.Store(path[strings.LastIndex(path, "/")+1:])
		}
		return nil
	})
	eng.SetExtraHook(func(p string, a ...uint64) {
		if p == "lsm.rotate" {
			atomic.AddInt64(&rots, 1)
		}
		if strings.HasPrefix(p, "crash.") {
			point(p)
		}
	})
	installHold()
	r := &eng.Runner{Dir: dir, Cfg: w.Cfg, FS: fs}
	utils.VerifPause("compaction", true)
	eng.SetGated(false)
	db := NoKV.Open(r.Opts())
	r.DB = db
	emit(map[string]any{"e": "B", "buckets": bucketsOf(w)})
	layout := func(i int, op Op) {
		if !listPoints || crashAt != 0 {
			return
		}
		ptrs := map[string][]uint32{}
		for _, x := range op.Writes {
			ptrs[x.K] = locate(db, x.K)
		}
		_, active := db.VerifVlogFiles()
		act := map[string]uint32{}
		for b, f := range active {
			act[fmt.Sprint(b)] = f
		}
		emit(map[string]any{"e": "L", "i": i, "ptrs": ptrs, "files": vfiles(db), "active": act, "rot": atomic.LoadInt64(&rots)})
	}
	for i, op := range w.Ops {
		switch op.Op {
		case "HoldFlush":
			holdFlush()
		case "ReleaseFlush":
			releaseFlush()
		case "Write":
			if w.Par && w.Mode != "txn" && len(op.Writes) > 1 {
				// independent single-key writes issued at the same time: one coalesced commit batch
				errs := make([]error, len(op.Writes))
				var wg sync.WaitGroup
				start := make(chan struct{})
				for j, x := range op.Writes {
					emit(map[string]any{"e": "Accept", "i": i, "j": j, "w": []W{x}, "wal": curWal(), "rot": atomic.LoadInt64(&rots)})
					wg.Add(1)
					go func(j int, x W) {
						defer wg.Done()
						<-start
						errs[j] = write(db, w, Op{Op: "Write", Writes: []W{x}, Len: op.Len})
					}(j, x)
				}
				close(start)
				wg.Wait()
				for j := range op.Writes {
					es := ""
					if errs[j] != nil {
						es = errs[j].Error()
					}
					emit(map[string]any{"e": "Ack", "i": i, "j": j, "ok": errs[j] == nil, "err": es, "wal": curWal(), "rot": atomic.LoadInt64(&rots)})
				}
				break
			}
			emit(map[string]any{"e": "Accept", "i": i, "w": op.Writes, "wal": curWal(), "rot": atomic.LoadInt64(&rots)})
			err := write(db, w, op)
			es := ""
			if err != nil {
				es = err.Error()
			}
			emit(map[string]any{"e": "Ack", "i": i, "ok": err == nil, "err": es, "wal": curWal(), "rot": atomic.LoadInt64(&rots)})
		case "Rotate":
			db.VerifLSM().Rotate()
		case "FlushWait":
			releaseFlush()
			r.WaitFlushIdle()
		case "Compact":
			_ = db.VerifLSM().VerifCompact(op.Kind, op.Level, op.Base)
		case "GC":
			emit(map[string]any{"e": "G", "i": i, "res": gcPass(db), "files": vfiles(db)})
		case "Reopen":
			releaseFlush()
			_ = db.Close()
			db = NoKV.Open(r.Opts())
			r.DB = db
		}
		if op.Op == "Write" {
			layout(i, op)
		}
	}
	releaseFlush()
	_ = db.Close()
	emit(map[string]any{"e": "Done", "points": atomic.LoadInt64(&points)})
}

func dump(db *NoKV.DB, w *Workload) (map[string]string, []string) {
	out := map[string]string{}
	for _, k := range w.Keys {
		var val []byte
		var err error
		if w.Mode == "txn" {
			err = db.View(func(txn *NoKV.Txn) error {
				it, e := txn.Get([]byte(k))
				if e != nil {
					return e
				}
				val, e = it.ValueCopy(nil)
				return e
			})
		} else {
			var e *kv.Entry
			e, err = db.Get([]byte(k))
			if err == nil {
				val = e.Value
			}
		}
		switch {
		case err == nil:
			out[k] = eng.Shrink(val)
		case errors.Is(err, utils.ErrKeyNotFound):
			out[k] = "NOTFOUND"
		default:
			out[k] = "ERR:" + err.Error()
		}
	}
	// every key the iterator yields must be one of the universe's keys and agree with the point read
	var extra []string
	if w.Mode != "txn" {
		it := db.NewIterator(&utils.Options{IsAsc: true})
		for it.Rewind(); it.Valid(); it.Next() {
			e := it.Item().Entry()
			if e.Meta&kv.BitDelete != 0 {
				continue // whether iterators skip tombstones is property C06's business
			}
			k := string(e.Key)
			if v, ok := out[k]; !ok || v != eng.Shrink(e.Value) {
				extra = append(extra, k+"="+eng.Shrink(e.Value))
			}
		}
		_ = it.Close()
	}
	return out, extra
}

func recoverCmd(dir, wl, outp string) {
	w := loadWL(wl)
	res := map[string]any{"open": true}
	finish := func() {
		b, _ := json.Marshal(res)
		_ = os.WriteFile(outp, b, 0o644)
	}
	func() {
		defer func() {
			if p := recover(); p != nil {
				res["open"] = false
				res["err"] = fmt.Sprint(p)
			}
		}()
		r := &eng.Runner{Dir: dir, Cfg: w.Cfg}
		utils.VerifPause("compaction", true)
		eng.SetGated(false)
		db := NoKV.Open(r.Opts())
		r.DB = db
		d1, x1 := dump(db, w)
		res["dump1"], res["extra1"] = d1, x1
		if wh := whereErr(db, d1); wh != nil {
			res["where_dump1"] = wh
		}
		// C11: background work on the recovered database must not change the contents
		db.VerifLSM().Rotate()
		r.WaitFlushIdle()
		d2, _ := dump(db, w)
		res["dump_flush"] = d2
		if wh := whereErr(db, d2); wh != nil {
			res["where_dump_flush"] = wh
		}
		for _, c := range [][2]any{{"l0", 0}, {"ingest-keep", 1}, {"ingest-drain", 1}, {"regular", 1}, {"l0", 0}} {
			_ = db.VerifLSM().VerifCompact(c[0].(string), c[1].(int), 1)
		}
		dc, _ := dump(db, w)
		res["dump_compact"] = dc
		if wh := whereErr(db, dc); wh != nil {
			res["where_dump_compact"] = wh
		}
		// value-log GC, twice: the first pass over a file with live values re-inserts them (and, as the
		// code stands, leaves the file in place); only the next pass finds it dead and removes it
		vf := map[string]any{"open": vfiles(db)}
		gc1 := gcPass(db)
		d3, x3 := dump(db, w)
		res["dump_maint"], res["extra_maint"] = d3, x3
		if wh := whereErr(db, d3); wh != nil {
			res["where_dump_maint"] = wh
		}
		vf["gc1"] = vfiles(db)
		gc2 := gcPass(db)
		d5, x5 := dump(db, w)
		res["dump_gc2"], res["extra_gc2"] = d5, x5
		if wh := whereErr(db, d5); wh != nil {
			res["where_dump_gc2"] = wh
		}
		vf["gc2"] = vfiles(db)
		res["gc"] = [][]map[string]any{gc1, gc2}
		if err := db.Close(); err != nil {
			res["close_err"] = err.Error()
		}
		// reopen AFTER the GC: the manifest's tombstones and heads are reconciled with the files
		db = NoKV.Open(r.Opts())
		d4, x4 := dump(db, w)
		res["dump_reopen"], res["extra_reopen"] = d4, x4
		if wh := whereErr(db, d4); wh != nil {
			res["where_dump_reopen"] = wh
		}
		vf["reopen"] = vfiles(db)
		// New client writes to OTHER keys (outside the key universe) seal every active value-log file, so
		// that GC also scans the file that was active at the crash: leftover records of an interrupted
		// write live there. The universe's keys must still read the same.
		if w.Cfg.Vlog {
			seal(db, w)
			gc3 := gcPass(db)
			gc4 := gcPass(db)
			d6, x6 := dump(db, w)
			res["dump_seal_gc"], res["extra_seal_gc"] = d6, x6
			if wh := whereErr(db, d6); wh != nil {
				res["where_dump_seal_gc"] = wh
			}
			vf["seal_gc"] = vfiles(db)
			res["gc"] = [][]map[string]any{gc1, gc2, gc3, gc4}
			if err := db.Close(); err != nil {
				res["close_err2"] = err.Error()
			}
			db = NoKV.Open(r.Opts())
			d7, x7 := dump(db, w)
			res["dump_reopen2"], res["extra_reopen2"] = d7, x7
			if wh := whereErr(db, d7); wh != nil {
				res["where_dump_reopen2"] = wh
			}
			vf["reopen2"] = vfiles(db)
		}
		res["vfiles"] = vf
		_ = db.Close()
	}()
	finish()
}

func main() {
	log.SetOutput(io.Discard)
	if len(os.Args) < 2 {
		os.Exit(2)
	}
	fset := flag.NewFlagSet(os.Args[1], flag.ExitOnError)
	dir := fset.String("dir", "", "")
	wl := fset.String("wl", "", "")
	trace := fset.String("trace", "", "")
	outp := fset.String("out", "", "")
	at := fset.Int64("crashat", 0, "")
	fset.BoolVar(&listPoints, "list", false, "with -crashat 0: log every crash point")
	_ = fset.Parse(os.Args[2:])
	crashAt = *at
	switch os.Args[1] {
	case "work":
		work(*dir, *wl, *trace)
	case "recover":
		recoverCmd(*dir, *wl, *outp)
	}
}
