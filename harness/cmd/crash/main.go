// crash: process-crash fault enumeration for C09/C10/C11/C36.
//
//	crash work    -dir D -wl W.json -crashat N -trace T   run the workload through FaultFS; os.Exit(77)
//	                                                      right before the N-th crash point (N=0: never)
//	crash recover -dir D -wl W.json -out R.json           reopen, dump, run maintenance, dump again
//
// A crash point is every mutating file operation the engine performs (the repo's own FaultFS calls
// the hook before each one) and every "crash.*" yield point (places invisible to the VFS because the
// stores are mmap'ed). The trace (Accept/Ack per operation) is written synchronously with plain
// os.File writes outside the FaultFS, so it survives the exit.
package main

import (
	"encoding/json"
	"errors"
	"flag"
	"fmt"
	"io"
	"log"
	"os"
	"strings"
	"sync"
	"sync/atomic"

	NoKV "github.com/feichai0017/NoKV"
	"github.com/feichai0017/NoKV/kv"
	"github.com/feichai0017/NoKV/utils"
	"github.com/feichai0017/NoKV/vfs"

	"verif/harness/internal/eng"
)

type W struct {
	K string `json:"k"`
	V string `json:"v"` // "" = delete
}

type Op struct {
	Op     string `json:"op"` // Write | Rotate | FlushWait | Compact | GC | Reopen
	Writes []W    `json:"w,omitempty"`
	Kind   string `json:"kind,omitempty"`
	Level  int    `json:"level,omitempty"`
	Base   int    `json:"base,omitempty"`
	Len    int    `json:"len,omitempty"`
}

type Workload struct {
	Par  bool     `json:"par"` // plain mode: the writes of one operation are issued concurrently (coalesced batch)
	ID   int      `json:"id"`
	Cfg  eng.Cfg  `json:"cfg"`
	Mode string   `json:"mode"` // plain | txn
	Keys []string `json:"keys"`
	Ops  []Op     `json:"ops"`
}

var (
	listPoints bool
	points  int64
	crashAt int64
	traceF  *os.File
	lastWal atomic.Value // name of the WAL segment opened last (segment switches are visible to the VFS)
	rots    int64        // memtable rotations started so far (lsm.rotate yield point)
)

func curWal() string {
	if v, ok := lastWal.Load().(string); ok {
		return v
	}
	return ""
}

var emitMu sync.Mutex

func emit(v map[string]any) {
	emitMu.Lock()
	defer emitMu.Unlock()
	b, _ := json.Marshal(v)
	b = append(b, '\n')
	if _, err := traceF.Write(b); err != nil {
		os.Exit(3)
	}
}

func point(name string) {
	n := atomic.AddInt64(&points, 1)
	if crashAt == 0 && listPoints {
		emit(map[string]any{"e": "P", "n": n, "at": name})
	}
	if crashAt > 0 && n == crashAt {
		emit(map[string]any{"e": "Crash", "point": n, "at": name, "wal": curWal(), "rot": atomic.LoadInt64(&rots)})
		os.Exit(77)
	}
}

func mutating(op vfs.Op) bool {
	switch op {
	case vfs.OpOpenFile, vfs.OpFileWrite, vfs.OpFileSync, vfs.OpFileTrunc, vfs.OpMkdirAll, vfs.OpRemoveAll,
		vfs.OpRemove, vfs.OpRename, vfs.OpWriteFile, vfs.OpTruncate:
		return true
	}
	return false
}

func loadWL(path string) *Workload {
	b, err := os.ReadFile(path)
	if err != nil {
		fmt.Fprintln(os.Stderr, err)
		os.Exit(3)
	}
	var w Workload
	if err := json.Unmarshal(b, &w); err != nil {
		fmt.Fprintln(os.Stderr, err)
		os.Exit(3)
	}
	return &w
}

func vlen(w *Workload, op Op) int {
	if op.Len > 0 {
		return op.Len
	}
	if w.Cfg.ValLen > 0 {
		return w.Cfg.ValLen
	}
	return 48
}

func write(db *NoKV.DB, w *Workload, op Op) error {
	if w.Mode == "txn" {
		txn := db.NewTransaction(true)
		defer txn.Discard()
		for _, x := range op.Writes {
			var err error
			if x.V == "" {
				err = txn.Delete([]byte(x.K))
			} else {
				err = txn.Set([]byte(x.K), eng.Expand(x.V, vlen(w, op)))
			}
			if err != nil {
				return err
			}
		}
		return txn.Commit()
	}
	if len(op.Writes) != 1 {
		return errors.New("plain mode writes one key per operation")
	}
	x := op.Writes[0]
	if x.V == "" {
		return db.Del([]byte(x.K))
	}
	return db.Set([]byte(x.K), eng.Expand(x.V, vlen(w, op)))
}

func work(dir, wl, trace string) {
	w := loadWL(wl)
	var err error
	traceF, err = os.OpenFile(trace, os.O_CREATE|os.O_WRONLY|os.O_TRUNC, 0o644)
	if err != nil {
		os.Exit(3)
	}
	fs := vfs.NewFaultFS(vfs.OSFS{}, func(op vfs.Op, path string) error {
		if mutating(op) {
			point(string(op) + ":" + path[strings.LastIndex(path, "/")+1:])
		}
		if op == vfs.OpOpenFile && strings.HasSuffix(path, ".wal") {
			lastWal.Store(path[strings.LastIndex(path, "/")+1:])
		}
		return nil
	})
	eng.SetExtraHook(func(p string, a ...uint64) {
		if p == "lsm.rotate" {
			atomic.AddInt64(&rots, 1)
		}
		if strings.HasPrefix(p, "crash.") {
			point(p)
		}
	})
	r := &eng.Runner{Dir: dir, Cfg: w.Cfg, FS: fs}
	utils.VerifPause("compaction", true)
	eng.SetGated(false)
	db := NoKV.Open(r.Opts())
	r.DB = db
	for i, op := range w.Ops {
		switch op.Op {
		case "Write":
			if w.Par && w.Mode != "txn" && len(op.Writes) > 1 {
				// independent single-key writes issued at the same time: one coalesced commit batch
				errs := make([]error, len(op.Writes))
				var wg sync.WaitGroup
				start := make(chan struct{})
				for j, x := range op.Writes {
					emit(map[string]any{"e": "Accept", "i": i, "j": j, "w": []W{x}, "wal": curWal(), "rot": atomic.LoadInt64(&rots)})
					wg.Add(1)
					go func(j int, x W) {
						defer wg.Done()
						<-start
						errs[j] = write(db, w, Op{Op: "Write", Writes: []W{x}, Len: op.Len})
					}(j, x)
				}
				close(start)
				wg.Wait()
				for j := range op.Writes {
					es := ""
					if errs[j] != nil {
						es = errs[j].Error()
					}
					emit(map[string]any{"e": "Ack", "i": i, "j": j, "ok": errs[j] == nil, "err": es, "wal": curWal(), "rot": atomic.LoadInt64(&rots)})
				}
				break
			}
			emit(map[string]any{"e": "Accept", "i": i, "w": op.Writes, "wal": curWal(), "rot": atomic.LoadInt64(&rots)})
			err := write(db, w, op)
			es := ""
			if err != nil {
				es = err.Error()
			}
			emit(map[string]any{"e": "Ack", "i": i, "ok": err == nil, "err": es, "wal": curWal(), "rot": atomic.LoadInt64(&rots)})
		case "Rotate":
			db.VerifLSM().Rotate()
		case "FlushWait":
			r.WaitFlushIdle()
		case "Compact":
			_ = db.VerifLSM().VerifCompact(op.Kind, op.Level, op.Base)
		case "GC":
			files, active := db.VerifVlogFiles()
			for b, fids := range files {
				for _, fid := range fids {
					if fid < active[b] {
						_ = db.VerifGCRewrite(b, fid)
					}
				}
			}
		case "Reopen":
			_ = db.Close()
			db = NoKV.Open(r.Opts())
			r.DB = db
		}
	}
	_ = db.Close()
	emit(map[string]any{"e": "Done", "points": atomic.LoadInt64(&points)})
}

func dump(db *NoKV.DB, w *Workload) (map[string]string, []string) {
	out := map[string]string{}
	for _, k := range w.Keys {
		var val []byte
		var err error
		if w.Mode == "txn" {
			err = db.View(func(txn *NoKV.Txn) error {
				it, e := txn.Get([]byte(k))
				if e != nil {
					return e
				}
				val, e = it.ValueCopy(nil)
				return e
			})
		} else {
			var e *kv.Entry
			e, err = db.Get([]byte(k))
			if err == nil {
				val = e.Value
			}
		}
		switch {
		case err == nil:
			out[k] = eng.Shrink(val)
		case errors.Is(err, utils.ErrKeyNotFound):
			out[k] = "NOTFOUND"
		default:
			out[k] = "ERR:" + err.Error()
		}
	}
	// every key the iterator yields must be one of the universe's keys and agree with the point read
	var extra []string
	if w.Mode != "txn" {
		it := db.NewIterator(&utils.Options{IsAsc: true})
		for it.Rewind(); it.Valid(); it.Next() {
			e := it.Item().Entry()
			if e.Meta&kv.BitDelete != 0 {
				continue // whether iterators skip tombstones is property C06's business
			}
			k := string(e.Key)
			if v, ok := out[k]; !ok || v != eng.Shrink(e.Value) {
				extra = append(extra, k+"="+eng.Shrink(e.Value))
			}
		}
		_ = it.Close()
	}
	return out, extra
}

func recoverCmd(dir, wl, outp string) {
	w := loadWL(wl)
	res := map[string]any{"open": true}
	finish := func() {
		b, _ := json.Marshal(res)
		_ = os.WriteFile(outp, b, 0o644)
	}
	func() {
		defer func() {
			if p := recover(); p != nil {
				res["open"] = false
				res["err"] = fmt.Sprint(p)
			}
		}()
		r := &eng.Runner{Dir: dir, Cfg: w.Cfg}
		utils.VerifPause("compaction", true)
		eng.SetGated(false)
		db := NoKV.Open(r.Opts())
		r.DB = db
		d1, x1 := dump(db, w)
		res["dump1"], res["extra1"] = d1, x1
		// C11: background work on the recovered database must not change the contents
		db.VerifLSM().Rotate()
		r.WaitFlushIdle()
		d2, _ := dump(db, w)
		res["dump_flush"] = d2
		for _, c := range [][2]any{{"l0", 0}, {"ingest-keep", 1}, {"ingest-drain", 1}, {"regular", 1}, {"l0", 0}} {
			_ = db.VerifLSM().VerifCompact(c[0].(string), c[1].(int), 1)
		}
		files, active := db.VerifVlogFiles()
		for b, fids := range files {
			for _, fid := range fids {
				if fid < active[b] {
					_ = db.VerifGCRewrite(b, fid)
				}
			}
		}
		d3, x3 := dump(db, w)
		res["dump_maint"], res["extra_maint"] = d3, x3
		if err := db.Close(); err != nil {
			res["close_err"] = err.Error()
		}
		db = NoKV.Open(r.Opts())
		d4, x4 := dump(db, w)
		res["dump_reopen"], res["extra_reopen"] = d4, x4
		_ = db.Close()
	}()
	finish()
}

func main() {
	log.SetOutput(io.Discard)
	if len(os.Args) < 2 {
		os.Exit(2)
	}
	fset := flag.NewFlagSet(os.Args[1], flag.ExitOnError)
	dir := fset.String("dir", "", "")
	wl := fset.String("wl", "", "")
	trace := fset.String("trace", "", "")
	outp := fset.String("out", "", "")
	at := fset.Int64("crashat", 0, "")
	fset.BoolVar(&listPoints, "list", false, "with -crashat 0: log every crash point")
	_ = fset.Parse(os.Args[2:])
	crashAt = *at
	switch os.Args[1] {
	case "work":
		work(*dir, *wl, *trace)
	case "recover":
		recoverCmd(*dir, *wl, *outp)
	}
}
