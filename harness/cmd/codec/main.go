// codec: runs C16 frames on the real encoders/decoders. A frame (printed by TLC from
// spec/Codec/Codec.tla) lists the wire fields of one encoding with symbolic values. The driver
// assembles the bytes the layout prescribes, for valid frames also asks the REAL encoder for its bytes,
// feeds the bytes to the REAL decoder under recover() with allocation accounting, and for valid frames
// additionally tries every truncation and structured byte replacements. No judgement happens here:
// outcomes are recorded and judged by spec/Codec/CodecPropTrace.tla.
//
// usage: codec -in frames.ndjson -out trace.ndjson
package main

import (
	"bufio"
	"bytes"
	"encoding/binary"
	"encoding/hex"
	"encoding/json"
	"flag"
	"fmt"
	"hash/crc32"
	"math"
	"os"
	"os/exec"
	"runtime"
	"runtime/debug"
	"runtime/metrics"
	"strconv"
	"strings"
	"sync"
	"sync/atomic"
	"syscall"
	"time"

	"github.com/feichai0017/NoKV/kv"
	"github.com/feichai0017/NoKV/manifest"
	"github.com/feichai0017/NoKV/pb"
	"github.com/feichai0017/NoKV/percolator"
	myraft "github.com/feichai0017/NoKV/raft"
	"github.com/feichai0017/NoKV/raftstore/command"
	"github.com/feichai0017/NoKV/raftstore/engine"
	"github.com/feichai0017/NoKV/utils"

	"verif/harness/internal/vt"
)

type Field struct {
	N  string `json:"n"`
	T  string `json:"t"`
	Of string `json:"of"`
	V  string `json:"v"`
}

type KeyRec struct {
	CF  int   `json:"cf"`
	K   []int `json:"k"`
	Ver int   `json:"ver"`
}

type Frame struct {
	ID     int      `json:"id"`
	Codec  string   `json:"codec"`
	Valid  bool     `json:"valid"`
	Mut    string   `json:"mut"`
	Count  string   `json:"count"`
	Fields []Field  `json:"fields"`
	Keys   []KeyRec `json:"keys,omitempty"` // codec "ikey": key universe
	Fuzz   bool     `json:"fuzz"`           // run the truncation / byte replacement loops on this (valid) frame
}

const lmax = 70000

var syms = map[string]uint64{"Z": 0, "ONE": 1, "TWO": 2, "B255": 255, "U31": 1 << 31, "U32M": math.MaxUint32,
	"U63": 1 << 63, "U64M": math.MaxUint64, "L0": 0, "L1": 1, "LMAX": lmax}

// varint boundary symbols: V<k>M = 2^(7k)-1, V<k> = 2^(7k), V<k>P = 2^(7k)+1; N<n> = n (a body length)
func boundary(s string) (uint64, bool) {
	if len(s) >= 2 && s[0] == 'N' {
		v, err := strconv.ParseUint(s[1:], 10, 32)
		return v, err == nil
	}
	if len(s) < 2 || s[0] != 'V' || s[1] < '1' || s[1] > '9' {
		return 0, false
	}
	base := uint64(1) << (7 * uint(s[1]-'0'))
	switch s[2:] {
	case "M":
		return base - 1, true
	case "":
		return base, true
	case "P":
		return base + 1, true
	}
	return 0, false
}

func val(s string) uint64 {
	if v, ok := syms[s]; ok {
		return v
	}
	if v, ok := boundary(s); ok {
		return v
	}
	v, err := strconv.ParseUint(s, 10, 64)
	if err != nil {
		vt.Fatal("bad symbol %q", s)
	}
	return v
}

// usym names an integer by its symbol when it has one.
func usym(v uint64) string {
	for _, s := range []string{"Z", "ONE", "U31", "U32M", "U63", "U64M"} {
		if syms[s] == v {
			return s
		}
	}
	for k := uint(1); k <= 9; k++ {
		switch base := uint64(1) << (7 * k); v {
		case base - 1:
			return fmt.Sprintf("V%dM", k)
		case base:
			return fmt.Sprintf("V%d", k)
		case base + 1:
			return fmt.Sprintf("V%dP", k)
		}
	}
	return strconv.FormatUint(v, 10)
}

func filler(n int) []byte {
	b := make([]byte, n)
	for i := range b {
		b[i] = byte(i*7 + 3)
	}
	return b
}

// lsym names a byte string by its length class when it is the filler of that length.
func lsym(b []byte) string {
	for _, s := range []string{"L0", "L1", "LMAX"} {
		if len(b) == int(syms[s]) && bytes.Equal(b, filler(len(b))) {
			return s
		}
	}
	if bytes.Equal(b, filler(len(b))) {
		return fmt.Sprintf("N%d", len(b))
	}
	return fmt.Sprintf("DIFF:%d", len(b))
}

// ---------------------------------------------------------------- protobuf bodies (trusted runtime)
func pbBody(tok string) []byte {
	p := strings.Split(tok, ":")
	switch p[0] {
	case "E":
		e := myraft.Entry{Term: val(p[1]), Index: val(p[2]), Data: filler(int(val(p[4])))}
		if p[3] == "1" {
			e.Type = 1
		}
		if len(e.Data) == 0 {
			e.Data = nil
		}
		b, err := e.Marshal()
		must(err)
		return b
	case "H":
		h := myraft.HardState{Term: val(p[1]), Vote: val(p[2]), Commit: val(p[3])}
		b, err := h.Marshal()
		must(err)
		return b
	case "S":
		s := snapOf(p)
		b, err := s.Marshal()
		must(err)
		return b
	case "C":
		b, err := command.Encode(cmdOf(p))
		must(err)
		return b[1:] // without the frame prefix
	}
	vt.Fatal("bad pb token %q", tok)
	return nil
}

func snapOf(p []string) myraft.Snapshot {
	var s myraft.Snapshot
	s.Metadata.Index, s.Metadata.Term = val(p[1]), val(p[2])
	if n := int(val(p[3])); n > 0 {
		s.Data = filler(n)
	}
	return s
}

func cmdOf(p []string) *pb.RaftCmdRequest {
	req := &pb.RaftCmdRequest{Header: &pb.CmdHeader{RegionId: val(p[1]), RequestId: val(p[2])}}
	n, _ := strconv.Atoi(p[3])
	for i := 0; i < n; i++ {
		req.Requests = append(req.Requests, &pb.Request{CmdType: pb.CmdType_CMD_GET,
			Cmd: &pb.Request_Get{Get: &pb.GetRequest{Key: filler(i + 1), Version: uint64(i)}}})
	}
	return req
}

func entryTok(e myraft.Entry) string {
	return fmt.Sprintf("E:%s:%s:%d:%s", usym(e.Term), usym(e.Index), int(e.Type), lsym(e.Data))
}

func must(err error) {
	if err != nil {
		vt.Fatal("%v", err)
	}
}

// ---------------------------------------------------------------- generic assembler (layout from the spec)
func assemble(f *Frame) []byte {
	body := map[string][]byte{}
	for _, x := range f.Fields {
		switch x.T {
		case "raw", "tail":
			body[x.N] = filler(int(val(x.V)))
		case "pb":
			body[x.N] = pbBody(x.V)
		case "magic":
			body[x.N] = []byte(x.V)
		}
	}
	rel := func(v string, actual uint64) uint64 {
		switch v {
		case "=":
			return actual
		case "LP1":
			return actual + 1
		}
		return val(v)
	}
	var out []byte
	l32 := -1
	var l32v string
	for _, x := range f.Fields {
		switch x.T {
		case "u8":
			out = append(out, byte(val(x.V)))
		case "uv":
			out = binary.AppendUvarint(out, val(x.V))
		case "u32be":
			out = binary.BigEndian.AppendUint32(out, uint32(val(x.V)))
		case "raw", "tail", "pb", "magic":
			out = append(out, body[x.N]...)
		case "len":
			out = binary.AppendUvarint(out, rel(x.V, uint64(len(body[x.Of]))))
		case "cnt":
			out = binary.AppendUvarint(out, rel(x.V, val(f.Count)))
		case "len32":
			l32, l32v = len(out), x.V
			out = append(out, 0, 0, 0, 0)
		case "crc":
			out = binary.BigEndian.AppendUint32(out, crc32.Checksum(out, kv.CastagnoliCrcTable))
		default:
			vt.Fatal("unknown field type %q", x.T)
		}
	}
	if l32 >= 0 {
		binary.LittleEndian.PutUint32(out[l32:], uint32(rel(l32v, uint64(len(out)-l32-4))))
	}
	return out
}

func (f *Frame) get(n string) string {
	for _, x := range f.Fields {
		if x.N == n {
			return x.V
		}
	}
	vt.Fatal("frame %s has no field %q", f.Codec, n)
	return ""
}
func (f *Frame) u(n string) uint64   { return val(f.get(n)) }
func (f *Frame) raw(n string) []byte { return filler(int(f.u(n))) }

func nz(b []byte) []byte {
	if len(b) == 0 {
		return nil
	}
	return b
}

// ---------------------------------------------------------------- real encoders
func realEncode(f *Frame) ([]byte, error) {
	switch c := f.Codec; {
	case c == "lock":
		return percolator.EncodeLock(percolator.Lock{Primary: f.raw("primary"), Ts: f.u("ts"), TTL: f.u("ttl"),
			Kind: pb.Mutation_Op(f.u("kind")), MinCommitTs: f.u("mincommit")}), nil
	case c == "write0":
		return percolator.EncodeWrite(percolator.Write{Kind: pb.Mutation_Op(f.u("kind")), StartTs: f.u("startts")}), nil
	case c == "write1":
		return percolator.EncodeWrite(percolator.Write{Kind: pb.Mutation_Op(f.u("kind")), StartTs: f.u("startts"), ShortValue: f.raw("short")}), nil
	case c == "entry":
		b, err := kv.EncodeEntry(nil, &kv.Entry{Key: f.raw("key"), Value: f.raw("val"), Meta: byte(f.u("meta")), ExpiresAt: f.u("exp")})
		return append([]byte(nil), b...), err
	case c == "valueptr":
		return kv.ValuePtr{Len: uint32(f.u("len")), Offset: uint32(f.u("offset")), Fid: uint32(f.u("fid")), Bucket: uint32(f.u("bucket"))}.Encode(), nil
	case c == "valuestruct":
		vs := kv.ValueStruct{Meta: byte(f.u("meta")), ExpiresAt: f.u("exp"), Value: f.raw("val")}
		b := make([]byte, vs.EncodedSize())
		n := vs.EncodeValue(b)
		return b[:n], nil
	case strings.HasPrefix(c, "m_"):
		return manifest.VerifEncodeEdit(editOf(f))
	case c == "raftentries0":
		return engine.VerifEncodeRaftEntries(f.u("group"), nil)
	case c == "raftentries2":
		var es []myraft.Entry
		for _, n := range []string{"e1", "e2"} {
			var e myraft.Entry
			must(e.Unmarshal(pbBody(f.get(n))))
			es = append(es, e)
		}
		return engine.VerifEncodeRaftEntries(f.u("group"), es)
	case c == "rafthard":
		p := strings.Split(f.get("body"), ":")
		return engine.VerifEncodeRaftHardState(f.u("group"), myraft.HardState{Term: val(p[1]), Vote: val(p[2]), Commit: val(p[3])})
	case c == "raftsnap":
		return engine.VerifEncodeRaftSnapshot(f.u("group"), snapOf(strings.Split(f.get("body"), ":")))
	case c == "raftcmd":
		return command.Encode(cmdOf(strings.Split(f.get("body"), ":")))
	}
	vt.Fatal("no encoder for %q", f.Codec)
	return nil, nil
}

// safeEncode: a panicking encoder is a wrong encoder, not a dead harness.
func safeEncode(f *Frame) (enc []byte, err error) {
	defer func() {
		if p := recover(); p != nil {
			enc, err = nil, fmt.Errorf("encoder panic: %v", p)
		}
	}()
	return realEncode(f)
}

func editOf(f *Frame) manifest.Edit {
	vl := func(withOff, withValid bool) *manifest.ValueLogMeta {
		m := &manifest.ValueLogMeta{Bucket: uint32(f.u("bucket")), FileID: uint32(f.u("fid"))}
		if withOff {
			m.Offset = f.u("off")
		}
		if withValid {
			m.Valid = f.u("valid") == 1
		}
		return m
	}
	switch f.Codec {
	case "m_addfile", "m_delfile":
		t := manifest.EditAddFile
		if f.Codec == "m_delfile" {
			t = manifest.EditDeleteFile
		}
		return manifest.Edit{Type: t, File: &manifest.FileMeta{Level: int(f.u("level")), FileID: f.u("fileid"), Size: f.u("size"),
			Smallest: f.raw("smallest"), Largest: f.raw("largest"), CreatedAt: f.u("created"), ValueSize: f.u("valuesize"), Ingest: f.u("ingest") == 1}}
	case "m_logptr":
		return manifest.Edit{Type: manifest.EditLogPointer, LogSeg: uint32(f.u("seg")), LogOffset: f.u("off")}
	case "m_vloghead":
		return manifest.Edit{Type: manifest.EditValueLogHead, ValueLog: vl(true, false)}
	case "m_vlogdel":
		return manifest.Edit{Type: manifest.EditDeleteValueLog, ValueLog: vl(false, false)}
	case "m_vlogupd":
		return manifest.Edit{Type: manifest.EditUpdateValueLog, ValueLog: vl(true, true)}
	case "m_raftptr":
		return manifest.Edit{Type: manifest.EditRaftPointer, Raft: &manifest.RaftLogPointer{GroupID: f.u("group"), Segment: uint32(f.u("seg")),
			Offset: f.u("off"), AppliedIndex: f.u("appidx"), AppliedTerm: f.u("appterm"), Committed: f.u("committed"), SnapshotIndex: f.u("snapidx"),
			SnapshotTerm: f.u("snapterm"), TruncatedIndex: f.u("truncidx"), TruncatedTerm: f.u("truncterm"), SegmentIndex: f.u("segidx"), TruncatedOffset: f.u("truncoff")}}
	case "m_regiondel":
		return manifest.Edit{Type: manifest.EditRegion, Region: &manifest.RegionEdit{Meta: manifest.RegionMeta{ID: f.u("id")}, Delete: true}}
	case "m_region0", "m_region2":
		m := manifest.RegionMeta{ID: f.u("id"), StartKey: f.raw("start"), EndKey: f.raw("end"),
			Epoch: manifest.RegionEpoch{Version: f.u("ver"), ConfVersion: f.u("confver")}, State: manifest.RegionState(f.u("state"))}
		if f.Codec == "m_region2" {
			m.Peers = []manifest.PeerMeta{{StoreID: f.u("store1"), PeerID: f.u("peer1")}, {StoreID: f.u("store2"), PeerID: f.u("peer2")}}
		}
		return manifest.Edit{Type: manifest.EditRegion, Region: &manifest.RegionEdit{Meta: m}}
	}
	vt.Fatal("no edit for %q", f.Codec)
	return manifest.Edit{}
}

// ---------------------------------------------------------------- real decoders
// decode returns the decoded fields by layout name. aux reports companion decoders of the same bytes.
func decode(codec string, data []byte) (map[string]string, string, error) {
	d := map[string]string{}
	b8 := func(v byte) string { return strconv.Itoa(int(v)) }
	bo := func(v bool) string {
		if v {
			return "1"
		}
		return "0"
	}
	switch c := codec; {
	case c == "lock":
		l, err := percolator.DecodeLock(data)
		if err != nil {
			return nil, "", err
		}
		d["primary"], d["ts"], d["ttl"], d["kind"], d["mincommit"] = lsym(l.Primary), usym(l.Ts), usym(l.TTL), strconv.Itoa(int(l.Kind)), usym(l.MinCommitTs)
	case c == "write0" || c == "write1":
		w, err := percolator.DecodeWrite(data)
		if err != nil {
			return nil, "", err
		}
		d["kind"], d["startts"] = strconv.Itoa(int(w.Kind)), usym(w.StartTs)
		if c == "write1" || len(w.ShortValue) > 0 {
			d["short"] = lsym(w.ShortValue)
		}
	case c == "entry":
		// companion decoders of the same record bytes: header-only and value-log slice view
		aux := "ok"
		var h kv.EntryHeader
		_, herr := h.Decode(data)
		vsl, vh, verr := kv.DecodeValueSlice(data)
		e, err := kv.DecodeEntry(data)
		if err != nil {
			if verr == nil {
				aux = "valueslice accepted what DecodeEntry rejected"
			}
			return nil, aux, err
		}
		defer e.DecrRef()
		d["meta"], d["exp"], d["key"], d["val"] = usymMeta(e.Meta), usym(e.ExpiresAt), lsym(e.Key), lsym(e.Value)
		switch {
		case herr != nil || int(h.KeyLen) != len(e.Key) || int(h.ValueLen) != len(e.Value) || h.Meta != e.Meta || h.ExpiresAt != e.ExpiresAt:
			aux = fmt.Sprintf("header decode differs: %+v err=%v", h, herr)
		case verr != nil || !bytes.Equal(vsl, e.Value) || vh != h:
			aux = fmt.Sprintf("value slice differs: len=%d err=%v", len(vsl), verr)
		}
		return d, aux, nil
	case c == "valueptr":
		var p kv.ValuePtr
		p.Decode(data)
		if len(data) < 16 && !p.IsZero() {
			return nil, "", nil
		}
		d["len"], d["offset"], d["fid"], d["bucket"] = usym(uint64(p.Len)), usym(uint64(p.Offset)), usym(uint64(p.Fid)), usym(uint64(p.Bucket))
	case c == "valuestruct":
		var vs kv.ValueStruct
		vs.DecodeValue(data)
		d["meta"], d["exp"], d["val"] = b8(vs.Meta), usym(vs.ExpiresAt), lsym(vs.Value)
	case strings.HasPrefix(c, "m_"):
		e, err := manifest.VerifReadEdit(data)
		aux := "ok"
		if len(data) >= 4 {
			// the payload decoder alone must agree with the framed reader whenever the frame length is exact
			e2, err2 := manifest.VerifDecodeEdit(data[4:])
			if int(binary.LittleEndian.Uint32(data)) == len(data)-4 && ((err == nil) != (err2 == nil) || (err == nil && fmt.Sprintf("%+v", editFields(e)) != fmt.Sprintf("%+v", editFields(e2)))) {
				aux = fmt.Sprintf("decodeEdit differs from readEdit: %v / %v", err, err2)
			}
		}
		if err != nil {
			return nil, aux, err
		}
		return editFields(e), aux, nil
	case c == "raftentries0" || c == "raftentries2":
		g, es, err := engine.VerifDecodeRaftEntries(data)
		if err != nil {
			return nil, "", err
		}
		d["group"] = usym(g)
		for i, e := range es {
			d[fmt.Sprintf("e%d", i+1)] = entryTok(e)
		}
	case c == "rafthard":
		g, h, err := engine.VerifDecodeRaftHardState(data)
		if err != nil {
			return nil, "", err
		}
		d["group"], d["body"] = usym(g), fmt.Sprintf("H:%s:%s:%s", usym(h.Term), usym(h.Vote), usym(h.Commit))
	case c == "raftsnap":
		g, s, err := engine.VerifDecodeRaftSnapshot(data)
		if err != nil {
			return nil, "", err
		}
		d["group"], d["body"] = usym(g), fmt.Sprintf("S:%s:%s:%s", usym(s.Metadata.Index), usym(s.Metadata.Term), lsym(s.Data))
	case c == "raftcmd":
		req, is, err := command.Decode(data)
		if err != nil {
			return nil, "", err
		}
		if !is || req == nil {
			return nil, "", fmt.Errorf("not a command frame")
		}
		h := req.GetHeader()
		d["body"] = fmt.Sprintf("C:%s:%s:%d", usym(h.GetRegionId()), usym(h.GetRequestId()), len(req.GetRequests()))
		for i, r := range req.GetRequests() {
			if r.GetCmdType() != pb.CmdType_CMD_GET || !bytes.Equal(r.GetGet().GetKey(), filler(i+1)) || r.GetGet().GetVersion() != uint64(i) {
				d["body"] += ":DIFF"
			}
		}
	default:
		vt.Fatal("no decoder for %q", codec)
	}
	_ = bo
	return d, "ok", nil
}

func usymMeta(m byte) string {
	if m == 255 {
		return "B255"
	}
	return usym(uint64(m))
}

func editFields(e manifest.Edit) map[string]string {
	d := map[string]string{}
	bo := func(v bool) string {
		if v {
			return "1"
		}
		return "0"
	}
	switch e.Type {
	case manifest.EditAddFile, manifest.EditDeleteFile:
		if m := e.File; m != nil {
			d["level"], d["fileid"], d["size"], d["smallest"], d["largest"] = usym(uint64(m.Level)), usym(m.FileID), usym(m.Size), lsym(m.Smallest), lsym(m.Largest)
			d["created"], d["valuesize"], d["ingest"] = usym(m.CreatedAt), usym(m.ValueSize), bo(m.Ingest)
		}
	case manifest.EditLogPointer:
		d["seg"], d["off"] = usym(uint64(e.LogSeg)), usym(e.LogOffset)
	case manifest.EditValueLogHead, manifest.EditDeleteValueLog, manifest.EditUpdateValueLog:
		if m := e.ValueLog; m != nil {
			d["bucket"], d["fid"] = usym(uint64(m.Bucket)), usym(uint64(m.FileID))
			if e.Type != manifest.EditDeleteValueLog {
				d["off"] = usym(m.Offset)
			}
			if e.Type == manifest.EditUpdateValueLog {
				d["valid"] = bo(m.Valid)
			}
		}
	case manifest.EditRaftPointer:
		if r := e.Raft; r != nil {
			d["group"], d["seg"], d["off"], d["appidx"], d["appterm"], d["committed"] = usym(r.GroupID), usym(uint64(r.Segment)), usym(r.Offset), usym(r.AppliedIndex), usym(r.AppliedTerm), usym(r.Committed)
			d["snapidx"], d["snapterm"], d["truncidx"], d["truncterm"], d["segidx"], d["truncoff"] = usym(r.SnapshotIndex), usym(r.SnapshotTerm), usym(r.TruncatedIndex), usym(r.TruncatedTerm), usym(r.SegmentIndex), usym(r.TruncatedOffset)
		}
	case manifest.EditRegion:
		if r := e.Region; r != nil {
			d["id"] = usym(r.Meta.ID)
			if !r.Delete {
				d["start"], d["end"], d["ver"], d["confver"], d["state"] = lsym(r.Meta.StartKey), lsym(r.Meta.EndKey), usym(r.Meta.Epoch.Version), usym(r.Meta.Epoch.ConfVersion), strconv.Itoa(int(r.Meta.State))
				for i, p := range r.Meta.Peers {
					d[fmt.Sprintf("store%d", i+1)], d[fmt.Sprintf("peer%d", i+1)] = usym(p.StoreID), usym(p.PeerID)
				}
			}
		}
	}
	d["type"] = strconv.Itoa(int(e.Type))
	return d
}

// ---------------------------------------------------------------- guarded execution
var allocSample = []metrics.Sample{{Name: "/gc/heap/allocs:bytes"}}

func allocated() uint64 {
	metrics.Read(allocSample)
	return allocSample[0].Value.Uint64()
}

type result struct {
	outcome string // ok | error | panic
	dec     map[string]string
	aux     string
	msg     string
	alloc   uint64
}

// guarded runs the decoder once; a measurement over the bound is repeated after a GC (the allocation counter
// is process wide and receives delayed per-P flushes of earlier small allocations), the smallest delta counts:
// a decoder that really allocates from the declared length does so every time.
func guarded(codec string, data []byte) (r result) {
	r = guardedOnce(codec, data)
	for i := 0; i < 3 && r.outcome != "panic" && r.alloc >= 1<<20+64*uint64(len(data)); i++ {
		runtime.GC()
		if r2 := guardedOnce(codec, data); r2.alloc < r.alloc || r2.outcome == "panic" {
			r = r2
		}
	}
	return r
}

func guardedOnce(codec string, data []byte) (r result) {
	before := allocated()
	defer func() {
		if p := recover(); p != nil {
			r.outcome, r.msg = "panic", fmt.Sprint(p)
		}
		r.alloc = allocated() - before
	}()
	d, aux, err := decode(codec, data)
	r.aux = aux
	if err != nil {
		r.outcome, r.msg = "error", err.Error()
		return
	}
	if d == nil {
		r.outcome, r.msg = "error", "rejected (zero value)"
		return
	}
	r.outcome, r.dec = "ok", d
	return
}

func clamp(v uint64) int {
	if v > math.MaxInt32 {
		return math.MaxInt32
	}
	return int(v)
}

// positions to mutate in an encoding of length n: everything for short inputs; for long ones both ends
// (where headers, lengths and checksums live) plus an even sample of the middle
func positions(n int) []int {
	if n <= 1536 {
		out := make([]int, n)
		for i := range out {
			out[i] = i
		}
		return out
	}
	var out []int
	for i := 0; i < 96; i++ {
		out = append(out, i)
	}
	for i := 96; i < n-96; i += (n - 192) / 96 {
		out = append(out, i)
	}
	for i := n - 96; i < n; i++ {
		out = append(out, i)
	}
	return out
}

func fuzz(f *Frame, enc []byte, emit func(vt.Ev)) {
	run := func(kind string, inputs func(yield func([]byte))) {
		tried, panics, worst := 0, 0, int64(math.MinInt64)
		var firstBad string
		inputs(func(in []byte) {
			what := fmt.Sprintf("frame %d %s %s len=%d hex=%s", f.ID, f.Codec, kind, len(in), hex.EncodeToString(in[:min(len(in), 48)]))
			current.Store(&what)
			r := guarded(f.Codec, in)
			current.Store(nil)
			tried++
			excess := int64(r.alloc) - 64*int64(len(in))
			if excess > worst {
				worst = excess
			}
			if (r.outcome == "panic" || excess >= 1<<20) && firstBad == "" {
				h := in
				if len(h) > 64 {
					h = h[:64]
				}
				firstBad = fmt.Sprintf("%s len=%d alloc=%d %s hex=%s", r.outcome, len(in), r.alloc, r.msg, hex.EncodeToString(h))
			}
			if r.outcome == "panic" {
				panics++
			}
		})
		if worst > math.MaxInt32 {
			worst = math.MaxInt32
		}
		if worst < 0 {
			worst = 0
		}
		emit(vt.Ev{"e": "Bytes", "codec": f.Codec, "kind": kind, "len": len(enc), "tried": tried, "panics": panics, "worst": int(worst), "bad": firstBad})
	}
	run("trunc", func(yield func([]byte)) {
		for _, n := range positions(len(enc)) {
			yield(enc[:n])
		}
	})
	run("byte", func(yield func([]byte)) {
		buf := make([]byte, len(enc))
		for _, i := range positions(len(enc)) {
			for _, b := range []byte{0x00, 0x7F, 0x80, 0xFF} {
				if enc[i] == b {
					continue
				}
				copy(buf, enc)
				buf[i] = b
				yield(buf)
			}
		}
	})
}

// ---------------------------------------------------------------- internal keys
func keysCase(f *Frame, emit func(vt.Ev)) {
	ver := func(v int) uint64 {
		if v == 1000000 {
			return math.MaxUint64
		}
		return uint64(v)
	}
	tok := func(ts uint64) int {
		if ts == math.MaxUint64 {
			return 1000000
		}
		if ts >= 1000000 {
			return -1
		}
		return int(ts)
	}
	enc := make([][]byte, len(f.Keys))
	recs := make([]vt.Ev, len(f.Keys))
	for i, k := range f.Keys {
		u := make([]byte, len(k.K))
		for j, b := range k.K {
			u[j] = byte(b)
		}
		enc[i] = kv.InternalKey(kv.ColumnFamily(k.CF), u, ver(k.Ver))
		kk := k.K
		if kk == nil {
			kk = []int{}
		}
		recs[i] = vt.Ev{"cf": k.CF, "k": kk, "ver": k.Ver}
		// round trip through every accessor of the layout
		cf, uk, ts := kv.SplitInternalKey(enc[i])
		ok := []int{}
		for _, b := range uk {
			ok = append(ok, int(b))
		}
		base := kv.EncodeKeyWithCF(kv.ColumnFamily(k.CF), u)
		cf2, uk2, isCF := kv.DecodeKeyCF(kv.ParseKey(enc[i]))
		consistent := bytes.Equal(kv.ParseKey(enc[i]), base) && kv.ParseTs(enc[i]) == ver(k.Ver) && bytes.Equal(kv.KeyWithTs(base, ver(k.Ver)), enc[i]) &&
			isCF && cf2 == cf && bytes.Equal(uk2, uk) && kv.SameKey(enc[i], kv.KeyWithTs(base, 7))
		emit(vt.Ev{"e": "KeyRT", "key": recs[i], "out": vt.Ev{"cf": int(cf), "k": ok, "ver": tok(ts)}, "consistent": consistent})
	}
	for i := range enc {
		signs := make([]int, len(enc))
		for j := range enc {
			signs[j] = utils.CompareKeys(enc[i], enc[j])
		}
		emit(vt.Ev{"e": "Cmp", "a": recs[i], "bs": recs, "signs": signs})
	}
}

// ---------------------------------------------------------------- process structure
// The parent hands frames to a worker child (this binary with -worker) and collects its events. A decoder
// that dies with a fatal runtime error, loops, or eats memory cannot be recovered in-process: the worker's
// watchdog (or its death) is turned into a "Crash" event for the frame it was working on, and a new worker
// continues with the next frame.
var current atomic.Pointer[string] // what the worker is doing right now (for the watchdog)

func watchdog(enc *json.Encoder, mu *sync.Mutex) {
	var since time.Time
	var last *string
	var base uint64
	var cpu0 time.Duration
	for {
		time.Sleep(20 * time.Millisecond)
		cur := current.Load()
		if cur != last {
			last, since, base, cpu0 = cur, time.Now(), allocated(), cpuTime()
			continue
		}
		if cur == nil {
			continue
		}
		grown := allocated() - base
		// stalled = the process itself burnt CPU for the whole window (a loaded machine only delays us)
		spinning := time.Since(since) > 10*time.Second && cpuTime()-cpu0 > 8*time.Second
		if spinning || time.Since(since) > 10*time.Minute || grown > 1<<30 {
			mu.Lock()
			_ = enc.Encode(map[string]any{"e": "_watchdog", "what": *cur, "seconds": int(time.Since(since).Seconds()), "allocMiB": int(grown >> 20)})
			os.Stdout.Sync()
			os.Exit(3)
		}
	}
}

func cpuTime() time.Duration {
	var ru syscall.Rusage
	if syscall.Getrusage(syscall.RUSAGE_SELF, &ru) != nil {
		return 0
	}
	return time.Duration(ru.Utime.Nano() + ru.Stime.Nano())
}

func worker() {
	debug.SetGCPercent(50)
	var mu sync.Mutex
	enc := json.NewEncoder(os.Stdout)
	go watchdog(enc, &mu)
	sc := bufio.NewScanner(os.Stdin)
	sc.Buffer(make([]byte, 1<<20), 1<<28)
	b0 := allocated()
	sink := make([]byte, 2<<20)
	if d := allocated() - b0; d < 2<<20 || len(sink) == 0 {
		vt.Fatal("allocation counter is not exact enough: 2 MiB allocation measured as %d", d)
	}
	runtime.KeepAlive(sink)
	for sc.Scan() {
		var f Frame
		must(json.Unmarshal(sc.Bytes(), &f))
		emit := func(ev vt.Ev) {
			ev["s"] = f.ID
			mu.Lock()
			_ = enc.Encode(ev)
			mu.Unlock()
		}
		runFrame(&f, emit)
		emit(vt.Ev{"e": "_done"})
	}
}

func runFrame(f *Frame, emit func(vt.Ev)) {
	if f.Codec == "ikey" {
		keysCase(f, emit)
		return
	}
	data := assemble(f)
	ev := vt.Ev{"e": "Frame", "codec": f.Codec, "valid": f.Valid, "mut": f.Mut, "fields": f.Fields, "len": len(data)}
	encEqual, encNote := true, ""
	if f.Valid {
		enc, err := safeEncode(f)
		if err != nil {
			encEqual, encNote = false, "encoder error: "+err.Error()
		} else if !bytes.Equal(enc, data) {
			encEqual, encNote = false, fmt.Sprintf("encoder produced %d bytes %s..., layout prescribes %d bytes %s...", len(enc), hex.EncodeToString(enc[:min(len(enc), 40)]), len(data), hex.EncodeToString(data[:min(len(data), 40)]))
		}
	}
	var r result
	if f.Codec == "valuestruct" {
		d, aux, _ := decode(f.Codec, data) // no error return by design: round trip only, no robustness claim
		r = result{outcome: "ok", dec: d, aux: aux}
	} else {
		what := fmt.Sprintf("frame %d %s mut=%s hex=%s", f.ID, f.Codec, f.Mut, hex.EncodeToString(data[:min(len(data), 48)]))
		current.Store(&what)
		r = guarded(f.Codec, data)
		current.Store(nil)
	}
	dec := r.dec
	if dec == nil {
		dec = map[string]string{}
	}
	ev["encEqual"], ev["encNote"], ev["outcome"], ev["msg"], ev["decoded"], ev["aux"], ev["alloc"] = encEqual, encNote, r.outcome, r.msg, dec, r.aux, clamp(r.alloc)
	emit(ev)
	if f.Valid && f.Fuzz && f.Codec != "valuestruct" {
		fuzz(f, data, emit)
	}
}

func main() {
	in := flag.String("in", "", "frames (ndjson)")
	out := flag.String("out", "", "trace (ndjson)")
	isWorker := flag.Bool("worker", false, "internal: decode frames from stdin, events to stdout")
	flag.Parse()
	if *isWorker {
		worker()
		return
	}
	frames, err := vt.ReadNDJSON[Frame](*in)
	must(err)
	w, err := vt.NewWriter(*out)
	must(err)
	self, err := os.Executable()
	must(err)
	next := 0
	crashes := map[string]int{} // per codec: after 3 dead workers the byte-level loops are skipped for that codec
	for next < len(frames) {
		cmd := exec.Command(self, "-worker")
		stdin, err := cmd.StdinPipe()
		must(err)
		stdout, err := cmd.StdoutPipe()
		must(err)
		var stderr bytes.Buffer
		cmd.Stderr = &stderr
		must(cmd.Start())
		first := next
		skip := map[string]bool{}
		for c, n := range crashes {
			skip[c] = n >= 3
		}
		go func() {
			e := json.NewEncoder(stdin)
			for i := first; i < len(frames); i++ {
				if skip[frames[i].Codec] {
					frames[i].Fuzz = false
				}
				if e.Encode(&frames[i]) != nil {
					break
				}
			}
			stdin.Close()
		}()
		sc := bufio.NewScanner(stdout)
		sc.Buffer(make([]byte, 1<<20), 1<<28)
		var dog map[string]any
		for sc.Scan() {
			var ev vt.Ev
			if json.Unmarshal(sc.Bytes(), &ev) != nil {
				continue
			}
			switch ev["e"] {
			case "_done":
				next++
			case "_watchdog":
				dog = ev
			default:
				w.Emit(ev)
			}
		}
		werr := cmd.Wait()
		if next < len(frames) {
			// the worker died while working on frames[next]
			f := &frames[next]
			how := fmt.Sprint(werr)
			if dog != nil {
				how = fmt.Sprintf("watchdog: %v s, %v MiB allocated, %v", dog["seconds"], dog["allocMiB"], dog["what"])
			} else if t := stderr.String(); t != "" {
				how += ": " + t[:min(len(t), 300)]
			}
			crashes[f.Codec]++
			w.Emit(vt.Ev{"e": "Crash", "s": f.ID, "codec": f.Codec, "valid": f.Valid, "mut": f.Mut, "fields": f.Fields, "how": how})
			next++
		}
	}
	must(w.Close())
}
