// client2pc: runs client two-phase-commit schedules (C28) on the real code.
//
// The REAL raftstore/client.Client talks gRPC over bufconn to two in-process TinyKv stores.
// A store hands every request to the public raftstore/kv.Apply on the real DB of the addressed
// region (one DB per region number) unless the fault injector says otherwise: on command from
// the schedule an RPC fails before it is applied, fails after it was applied, or is answered
// NotLeader (without a hint); after a leader change the old leader answers NotLeader naming
// the new one, as a store does.  Three client instances exist per run: "c" commits the mutation
// set (Mutate), "r" is another reader resolving the locks it would meet (the protocol of
// cmd/nokv-redis resolveSingleLock on top of Client.CheckTxnStatus / Client.ResolveLocks),
// "reader" reads all keys back at the end.  "c" and "r" run in their own goroutines and park at
// the injector before every RPC; the schedule decides who moves next and what happens to that
// RPC, so a run is deterministic up to Go's map iteration order inside the client.
//
// The driver holds no model of the protocol: it records what the stores applied and answered
// (Rpc), what the client calls returned (ClientRet, Resolve) and what the final reads returned
// (FinalRead).
// usage: client2pc -in schedules.ndjson -out trace.ndjson [-dir scratch]
package main

import (
	"bytes"
	"context"
	"flag"
	"fmt"
	"net"
	"os"
	"path/filepath"
	"sort"
	"sync"
	"time"

	NoKV "github.com/feichai0017/NoKV"
	"github.com/feichai0017/NoKV/pb"
	"github.com/feichai0017/NoKV/raftstore/client"
	rkv "github.com/feichai0017/NoKV/raftstore/kv"
	"github.com/feichai0017/NoKV/utils"
	"google.golang.org/grpc"
	"google.golang.org/grpc/codes"
	"google.golang.org/grpc/credentials/insecure"
	"google.golang.org/grpc/metadata"
	"google.golang.org/grpc/status"
	"google.golang.org/grpc/test/bufconn"

	"verif/harness/internal/vt"
)

const (
	startTs  = 10
	commitTs = 20
	lockTTL  = 20
	finalCur = 40 // >= startTs + lockTTL: the lock has expired (logical time, no wall clock)
	settleTO = 300 * time.Second
)

type Step struct {
	A   string `json:"a"`           // c | r : next RPC of that actor; retry; pass; lead
	K   string `json:"k,omitempty"` // c, r: the request kind the generator expected (informative); pass: after | during Mutate
	R   int    `json:"r,omitempty"`
	F   string `json:"f,omitempty"` // none | before | after | nl | nlx
	Cur uint64 `json:"cur,omitempty"`
}

type Schedule struct {
	ID         int      `json:"id"`
	Reg        []int    `json:"reg"`     // region (1..3) of key i+1; non-decreasing
	Order      []int    `json:"order"`   // mutation order (key numbers)
	Primary    int      `json:"primary"` // key number
	Kinds      []string `json:"kinds"`   // per key: put | del
	Pre        []bool   `json:"pre"`     // per key: an older committed value exists
	MaxRetries int      `json:"maxretries"`
	ReadTs     []uint64 `json:"readts"`
	Steps      []Step   `json:"steps"`
}

// ---------------------------------------------------------------- harness (per process)

type harness struct {
	dbs       [3]*NoKV.DB
	listeners map[string]*bufconn.Listener
	mu        sync.Mutex
	cur       *run
	w         *vt.Writer
}

type arrival struct {
	kind   string
	region uint64
	reply  chan string
	done   chan struct{}
}

type actor struct {
	name    string
	arrive  chan *arrival
	ret     chan vt.Ev
	pending *arrival
	busy    bool
	last    vt.Ev
}

type run struct {
	h       *harness
	s       *Schedule
	prefix  string
	keys    map[int][]byte
	regions []*pb.RegionMeta
	leader  map[uint64]uint64
	actors  map[string]*actor
	primary []byte
	allKeys [][]byte
}

func (r *run) emit(ev vt.Ev) {
	ev["s"] = r.s.ID
	r.h.w.Emit(ev)
}

func (r *run) keyNo(k []byte) int {
	for i, b := range r.keys {
		if bytes.Equal(b, k) {
			return i
		}
	}
	return 0
}

func (r *run) keyNos(ks [][]byte) []int {
	out := make([]int, 0, len(ks))
	for _, k := range ks {
		out = append(out, r.keyNo(k))
	}
	return out
}

// ---------------------------------------------------------------- store with fault injector

type store struct {
	pb.UnimplementedTinyKvServer
	id uint64
	h  *harness
}

func role(ctx context.Context) string {
	if md, ok := metadata.FromIncomingContext(ctx); ok {
		if v := md.Get("verif-role"); len(v) > 0 {
			return v[0]
		}
	}
	return ""
}

func keyErrClass(e *pb.KeyError) string {
	switch {
	case e == nil:
		return "ok"
	case e.GetLocked() != nil:
		return "locked"
	case e.GetWriteConflict() != nil:
		return "conflict"
	case e.GetCommitTsExpired() != nil:
		return "expired"
	case e.GetAbort() != "":
		return "abort"
	case e.GetRetryable() != "":
		return "retryable"
	}
	return "keyerr"
}

// replyClass projects the store's reply to a request onto what the protocol distinguishes.
func replyClass(resp *pb.Response) string {
	switch {
	case resp.GetPrewrite() != nil:
		if errs := resp.GetPrewrite().GetErrors(); len(errs) > 0 {
			return keyErrClass(errs[0])
		}
		return "ok"
	case resp.GetCommit() != nil:
		return keyErrClass(resp.GetCommit().GetError())
	case resp.GetResolveLock() != nil:
		return keyErrClass(resp.GetResolveLock().GetError())
	case resp.GetCheckTxnStatus() != nil:
		c := resp.GetCheckTxnStatus()
		if c.GetError() != nil {
			return keyErrClass(c.GetError())
		}
		if c.GetCommitVersion() > 0 {
			return "committed"
		}
		switch c.GetAction() {
		case pb.CheckTxnStatusAction_CheckTxnStatusTTLExpireRollback, pb.CheckTxnStatusAction_CheckTxnStatusLockNotExistRollback:
			return "rollback"
		}
		return "alive"
	}
	return "ok"
}

// exec is the single path of every request: gate, injected fault, leadership, kv.Apply.
func (s *store) exec(ctx context.Context, kind string, pctx *pb.Context, keys [][]byte, req *pb.Request) (*pb.Response, *pb.RegionError, error) {
	s.h.mu.Lock()
	r := s.h.cur
	s.h.mu.Unlock()
	if r == nil {
		return nil, nil, status.Error(codes.Unavailable, "no run")
	}
	who := role(ctx)
	region := pctx.GetRegionId()
	fault := "none"
	if a := r.actors[who]; a != nil {
		arr := &arrival{kind: kind, region: region, reply: make(chan string, 1), done: make(chan struct{})}
		a.arrive <- arr
		fault = <-arr.reply
		defer close(arr.done)
	}
	traced := who == "c" || who == "r"
	ev := vt.Ev{"e": "Rpc", "who": who, "kind": kind, "region": region, "store": s.id, "keys": r.keyNos(keys), "fault": fault}
	finish := func(applied bool, out, real string) {
		if traced {
			ev["applied"], ev["out"], ev["real"] = applied, out, real
			r.emit(ev)
		}
	}
	if region < 1 || region > 3 || s.h.dbs[region-1] == nil {
		finish(false, "rpcerr", "")
		return nil, nil, status.Errorf(codes.InvalidArgument, "unknown region %d", region)
	}
	switch fault {
	case "before":
		finish(false, "rpcerr", "")
		return nil, nil, status.Error(codes.Unavailable, "injected: request lost")
	case "nl":
		finish(false, "notleader", "")
		return nil, &pb.RegionError{NotLeader: &pb.NotLeader{RegionId: region}}, nil
	}
	s.h.mu.Lock()
	leader := r.leader[region]
	s.h.mu.Unlock()
	if leader != s.id {
		finish(false, "redirect", "")
		var peer *pb.RegionPeer
		for _, m := range r.regions {
			if m.GetId() == region {
				for _, p := range m.GetPeers() {
					if p.GetStoreId() == leader {
						peer = p
					}
				}
			}
		}
		return nil, &pb.RegionError{NotLeader: &pb.NotLeader{RegionId: region, Leader: peer}}, nil
	}
	resp, err := rkv.Apply(s.h.dbs[region-1], &pb.RaftCmdRequest{
		Header:   &pb.CmdHeader{RegionId: region, RegionEpoch: pctx.GetRegionEpoch(), PeerId: pctx.GetPeer().GetPeerId()},
		Requests: []*pb.Request{req},
	})
	if err != nil || len(resp.GetResponses()) != 1 {
		finish(true, "rpcerr", fmt.Sprint("apply error: ", err))
		return nil, nil, status.Errorf(codes.Internal, "%v", err)
	}
	real := replyClass(resp.GetResponses()[0])
	if fault == "after" {
		finish(true, "rpcerr", real)
		return nil, nil, status.Error(codes.Unavailable, "injected: reply lost")
	}
	finish(true, real, real)
	return resp.GetResponses()[0], nil, nil
}

func mutKeys(ms []*pb.Mutation) [][]byte {
	out := make([][]byte, 0, len(ms))
	for _, m := range ms {
		out = append(out, m.GetKey())
	}
	return out
}

func (s *store) KvPrewrite(ctx context.Context, req *pb.KvPrewriteRequest) (*pb.KvPrewriteResponse, error) {
	resp, rerr, err := s.exec(ctx, "prewrite", req.GetContext(), mutKeys(req.GetRequest().GetMutations()),
		&pb.Request{CmdType: pb.CmdType_CMD_PREWRITE, Cmd: &pb.Request_Prewrite{Prewrite: req.GetRequest()}})
	if err != nil {
		return nil, err
	}
	return &pb.KvPrewriteResponse{RegionError: rerr, Response: resp.GetPrewrite()}, nil
}

func (s *store) KvCommit(ctx context.Context, req *pb.KvCommitRequest) (*pb.KvCommitResponse, error) {
	resp, rerr, err := s.exec(ctx, "commit", req.GetContext(), req.GetRequest().GetKeys(),
		&pb.Request{CmdType: pb.CmdType_CMD_COMMIT, Cmd: &pb.Request_Commit{Commit: req.GetRequest()}})
	if err != nil {
		return nil, err
	}
	return &pb.KvCommitResponse{RegionError: rerr, Response: resp.GetCommit()}, nil
}

func (s *store) KvResolveLock(ctx context.Context, req *pb.KvResolveLockRequest) (*pb.KvResolveLockResponse, error) {
	resp, rerr, err := s.exec(ctx, "resolve", req.GetContext(), req.GetRequest().GetKeys(),
		&pb.Request{CmdType: pb.CmdType_CMD_RESOLVE_LOCK, Cmd: &pb.Request_ResolveLock{ResolveLock: req.GetRequest()}})
	if err != nil {
		return nil, err
	}
	return &pb.KvResolveLockResponse{RegionError: rerr, Response: resp.GetResolveLock()}, nil
}

func (s *store) KvCheckTxnStatus(ctx context.Context, req *pb.KvCheckTxnStatusRequest) (*pb.KvCheckTxnStatusResponse, error) {
	resp, rerr, err := s.exec(ctx, "check", req.GetContext(), [][]byte{req.GetRequest().GetPrimaryKey()},
		&pb.Request{CmdType: pb.CmdType_CMD_CHECK_TXN_STATUS, Cmd: &pb.Request_CheckTxnStatus{CheckTxnStatus: req.GetRequest()}})
	if err != nil {
		return nil, err
	}
	return &pb.KvCheckTxnStatusResponse{RegionError: rerr, Response: resp.GetCheckTxnStatus()}, nil
}

func (s *store) KvGet(ctx context.Context, req *pb.KvGetRequest) (*pb.KvGetResponse, error) {
	resp, rerr, err := s.exec(ctx, "get", req.GetContext(), [][]byte{req.GetRequest().GetKey()},
		&pb.Request{CmdType: pb.CmdType_CMD_GET, Cmd: &pb.Request_Get{Get: req.GetRequest()}})
	if err != nil {
		return nil, err
	}
	return &pb.KvGetResponse{RegionError: rerr, Response: resp.GetGet()}, nil
}

func (s *store) KvScan(ctx context.Context, req *pb.KvScanRequest) (*pb.KvScanResponse, error) {
	resp, rerr, err := s.exec(ctx, "scan", req.GetContext(), nil,
		&pb.Request{CmdType: pb.CmdType_CMD_SCAN, Cmd: &pb.Request_Scan{Scan: req.GetRequest()}})
	if err != nil {
		return nil, err
	}
	return &pb.KvScanResponse{RegionError: rerr, Response: resp.GetScan()}, nil
}

// ---------------------------------------------------------------- region resolver (PD stand-in)

type resolver struct{ r *run }

func inRange(m *pb.RegionMeta, key []byte) bool {
	if len(m.GetStartKey()) > 0 && bytes.Compare(key, m.GetStartKey()) < 0 {
		return false
	}
	if len(m.GetEndKey()) > 0 && bytes.Compare(key, m.GetEndKey()) >= 0 {
		return false
	}
	return true
}

func (rs *resolver) GetRegionByKey(_ context.Context, req *pb.GetRegionByKeyRequest) (*pb.GetRegionByKeyResponse, error) {
	for _, m := range rs.r.regions {
		if inRange(m, req.GetKey()) {
			return &pb.GetRegionByKeyResponse{Region: m}, nil
		}
	}
	return &pb.GetRegionByKeyResponse{NotFound: true}, nil
}

func (rs *resolver) Close() error { return nil }

// ---------------------------------------------------------------- run

func (h *harness) newClient(r *run, who string) *client.Client {
	cfg := client.Config{
		Stores:         []client.StoreEndpoint{{StoreID: 1, Addr: "passthrough:///store1"}, {StoreID: 2, Addr: "passthrough:///store2"}},
		RegionResolver: &resolver{r},
		DialTimeout:    settleTO,
		MaxRetries:     r.s.MaxRetries,
		DialOptions: []grpc.DialOption{
			grpc.WithTransportCredentials(insecure.NewCredentials()),
			grpc.WithContextDialer(func(ctx context.Context, addr string) (net.Conn, error) {
				l := h.listeners[addr]
				if l == nil {
					return nil, fmt.Errorf("unknown store address %q", addr)
				}
				return l.DialContext(ctx)
			}),
			grpc.WithUnaryInterceptor(func(ctx context.Context, method string, req, reply any, cc *grpc.ClientConn, invoker grpc.UnaryInvoker, opts ...grpc.CallOption) error {
				return invoker(metadata.AppendToOutgoingContext(ctx, "verif-role", who), method, req, reply, cc, opts...)
			}),
		},
	}
	c, err := client.New(cfg)
	if err != nil {
		vt.Fatal("client.New(%s): %v", who, err)
	}
	return c
}

// settle waits until the actor is parked at the injector or its call has returned.
func (r *run) settle(a *actor) {
	if !a.busy || a.pending != nil {
		return
	}
	select {
	case arr := <-a.arrive:
		a.pending = arr
	case ev := <-a.ret:
		a.busy = false
		a.last = ev
		r.emit(ev)
	case <-time.After(settleTO):
		vt.Fatal("schedule %d: actor %s neither sent an RPC nor returned", r.s.ID, a.name)
	}
}

func (r *run) start(a *actor, call func() vt.Ev) {
	a.busy = true
	go func() { a.ret <- call() }()
	r.settle(a)
}

// release lets the parked RPC of the actor proceed under the given fault.  "nlx": this request and every
// retry of it is answered NotLeader (without a hint) until the client gives up.
func (r *run) release(a *actor, fault string) bool {
	if a.pending == nil {
		return false
	}
	if fault == "nlx" {
		kind, region := a.pending.kind, a.pending.region
		for n := 0; n < r.s.MaxRetries && a.pending != nil && a.pending.kind == kind && a.pending.region == region; n++ {
			r.release(a, "nl")
		}
		return true
	}
	arr := a.pending
	a.pending = nil
	arr.reply <- fault
	select {
	case <-arr.done:
	case <-time.After(settleTO):
		vt.Fatal("schedule %d: store did not finish an RPC of %s", r.s.ID, a.name)
	}
	r.settle(a)
	return true
}

func (r *run) drain(a *actor) {
	for a.busy {
		if !r.release(a, "none") {
			r.settle(a)
		}
	}
}

func errText(err error) string {
	if err == nil {
		return ""
	}
	s := err.Error()
	if len(s) > 160 {
		s = s[:160]
	}
	return s
}

// resolvePass is what a reader does about a lock of this transaction (cmd/nokv-redis resolveSingleLock).
func (r *run) resolvePass(rc *client.Client, cur uint64) vt.Ev {
	ctx, cancel := context.WithTimeout(context.Background(), settleTO)
	defer cancel()
	ev := vt.Ev{"e": "Resolve", "cur": cur, "status": "error", "cv": 0, "done": false}
	resp, err := rc.CheckTxnStatus(ctx, r.primary, startTs, cur)
	if err != nil || resp == nil {
		ev["err"] = errText(err)
		return ev
	}
	if resp.GetError() != nil {
		ev["status"] = "keyerr:" + keyErrClass(resp.GetError())
		return ev
	}
	var commitVersion uint64
	switch {
	case resp.GetCommitVersion() > 0:
		commitVersion = resp.GetCommitVersion()
		ev["status"], ev["cv"] = "committed", commitVersion
	case resp.GetAction() == pb.CheckTxnStatusAction_CheckTxnStatusTTLExpireRollback,
		resp.GetAction() == pb.CheckTxnStatusAction_CheckTxnStatusLockNotExistRollback:
		ev["status"] = "rollback"
	default:
		ev["status"] = "alive"
		return ev
	}
	n, err := rc.ResolveLocks(ctx, startTs, commitVersion, r.allKeys)
	ev["resolved"] = n
	if err != nil {
		ev["err"] = errText(err)
		return ev
	}
	ev["done"] = true
	return ev
}

func (h *harness) runSchedule(seq int, s *Schedule) {
	r := &run{h: h, s: s, prefix: fmt.Sprintf("t%07d", seq), keys: map[int][]byte{}, leader: map[uint64]uint64{}, actors: map[string]*actor{}}
	nk := len(s.Reg)
	if s.MaxRetries <= 0 {
		s.MaxRetries = 2
	}
	if len(s.ReadTs) == 0 {
		s.ReadTs = []uint64{commitTs - 1, commitTs, 50}
	}
	for i := 1; i <= nk; i++ {
		r.keys[i] = []byte(fmt.Sprintf("%sk%d", r.prefix, i))
	}
	// regions: contiguous key ranges; the first starts at the run's prefix, the last is unbounded
	var ids []int
	first := map[int]int{}
	for i := 1; i <= nk; i++ {
		if _, ok := first[s.Reg[i-1]]; !ok {
			first[s.Reg[i-1]] = i
			ids = append(ids, s.Reg[i-1])
		}
	}
	sort.Ints(ids)
	for n, id := range ids {
		m := &pb.RegionMeta{Id: uint64(id), EpochVersion: 1, EpochConfVersion: 1,
			Peers: []*pb.RegionPeer{{StoreId: 1, PeerId: uint64(100 + id)}, {StoreId: 2, PeerId: uint64(200 + id)}}}
		if n == 0 {
			m.StartKey = []byte(r.prefix)
		} else {
			m.StartKey = r.keys[first[id]]
		}
		if n+1 < len(ids) {
			m.EndKey = r.keys[first[ids[n+1]]]
		}
		r.regions = append(r.regions, m)
		r.leader[uint64(id)] = 1
	}
	r.primary = r.keys[s.Primary]
	for _, k := range s.Order {
		r.allKeys = append(r.allKeys, r.keys[k])
	}
	h.mu.Lock()
	h.cur = r
	h.mu.Unlock()

	oldV := func(k int) string { return fmt.Sprintf("old-%d-k%d", s.ID, k) }
	newV := func(k int) string { return fmt.Sprintf("new-%d-k%d", s.ID, k) }
	ctx, cancel := context.WithTimeout(context.Background(), 4*settleTO)
	defer cancel()

	// older committed values (start 3, commit 5), through an unfaulted client
	setup := h.newClient(r, "setup")
	var pre []*pb.Mutation
	for i := 1; i <= nk; i++ {
		if s.Pre[i-1] {
			pre = append(pre, &pb.Mutation{Op: pb.Mutation_Put, Key: r.keys[i], Value: []byte(oldV(i))})
		}
	}
	if len(pre) > 0 {
		if err := setup.Mutate(ctx, pre[0].Key, pre, 3, 5, lockTTL); err != nil {
			vt.Fatal("schedule %d: setup mutate: %v", s.ID, err)
		}
	}
	_ = setup.Close()

	begin := vt.Ev{"e": "Begin", "keys": s.Order, "primary": s.Primary, "start": startTs, "commit": commitTs, "ttl": lockTTL}
	olds, news, regs := map[string]string{}, map[string]string{}, map[string]int{}
	var muts []*pb.Mutation
	for _, k := range s.Order {
		ks := fmt.Sprint(k)
		olds[ks], news[ks], regs[ks] = "NOTFOUND", "NOTFOUND", s.Reg[k-1]
		if s.Pre[k-1] {
			olds[ks] = oldV(k)
		}
		if s.Kinds[k-1] == "del" {
			muts = append(muts, &pb.Mutation{Op: pb.Mutation_Delete, Key: r.keys[k]})
		} else {
			news[ks] = newV(k)
			muts = append(muts, &pb.Mutation{Op: pb.Mutation_Put, Key: r.keys[k], Value: []byte(newV(k))})
		}
	}
	begin["old"], begin["new"], begin["reg"] = olds, news, regs
	r.emit(begin)

	ca := &actor{name: "c", arrive: make(chan *arrival), ret: make(chan vt.Ev)}
	ra := &actor{name: "r", arrive: make(chan *arrival), ret: make(chan vt.Ev)}
	r.actors["c"], r.actors["r"] = ca, ra
	cc := h.newClient(r, "c")
	rc := h.newClient(r, "r")
	attempt := 0
	mutate := func() {
		attempt++
		n := attempt
		r.start(ca, func() vt.Ev {
			err := cc.Mutate(ctx, r.primary, muts, startTs, commitTs, lockTTL)
			return vt.Ev{"e": "ClientRet", "ok": err == nil, "err": errText(err), "attempt": n}
		})
	}
	mutate()
	diverged := 0
	for i, st := range s.Steps {
		ok := true
		switch st.A {
		case "c":
			ok = r.release(ca, st.F)
		case "r":
			ok = r.release(ra, st.F)
		case "retry":
			// a call still running here ended later than scheduled (region order): it finishes unfaulted first
			ok = !ca.busy
			r.drain(ca)
			mutate()
		case "pass":
			ok = !ra.busy
			r.drain(ra)
			if st.K == "after" && ca.busy {
				// the pass of a reader that comes after Mutate returned: a Mutate still running finishes first
				ok = false
				r.drain(ca)
			}
			cur := st.Cur
			r.start(ra, func() vt.Ev { return r.resolvePass(rc, cur) })
		case "lead":
			h.mu.Lock()
			r.leader[uint64(st.R)] = 3 - r.leader[uint64(st.R)]
			h.mu.Unlock()
			r.emit(vt.Ev{"e": "Lead", "region": st.R})
		default:
			vt.Fatal("schedule %d: unknown step %q", s.ID, st.A)
		}
		if !ok {
			diverged++
			r.emit(vt.Ev{"e": "Diverged", "step": i, "a": st.A})
		}
	}
	// the rest runs without faults: both calls finish, then a reader resolves whatever is left
	r.drain(ca)
	r.drain(ra)
	resolved := false
	for pass := 0; pass < 4 && !resolved; pass++ {
		r.start(ra, func() vt.Ev {
			ev := r.resolvePass(rc, finalCur)
			ev["final"] = true
			return ev
		})
		r.drain(ra)
		resolved = ra.last != nil && ra.last["done"] == true
	}
	_ = cc.Close()
	_ = rc.Close()

	// all keys read back through a third client: point gets at every read timestamp, one scan per timestamp
	rd := h.newClient(r, "reader")
	defer rd.Close()
	for _, ts := range s.ReadTs {
		for i := 1; i <= nk; i++ {
			got := ""
			resp, err := rd.Get(ctx, r.keys[i], ts)
			switch {
			case err != nil:
				got = "ERROR"
			case resp.GetError() != nil:
				got = "KEYERROR:" + keyErrClass(resp.GetError())
			case resp.GetNotFound():
				got = "NOTFOUND"
			default:
				got = string(resp.GetValue())
			}
			r.emit(vt.Ev{"e": "FinalRead", "via": "get", "k": i, "ts": ts, "r": got, "err": errText(err)})
		}
		kvs, err := rd.Scan(ctx, []byte(r.prefix), uint32(nk), ts)
		seen := map[int]string{}
		for _, kv := range kvs {
			if n := r.keyNo(kv.GetKey()); n > 0 {
				seen[n] = string(kv.GetValue())
			} else {
				seen[-1] = "foreign key " + string(kv.GetKey())
			}
		}
		for i := 1; i <= nk; i++ {
			got, ok := seen[i]
			if err != nil || seen[-1] != "" {
				got = "ERROR"
			} else if !ok {
				got = "NOTFOUND"
			}
			r.emit(vt.Ev{"e": "FinalRead", "via": "scan", "k": i, "ts": ts, "r": got, "err": errText(err) + seen[-1]})
		}
	}
	r.emit(vt.Ev{"e": "End", "diverged": diverged, "resolved": resolved})
	h.mu.Lock()
	h.cur = nil
	h.mu.Unlock()
}

func openDB(dir string) *NoKV.DB {
	o := NoKV.NewDefaultOptions()
	o.WorkDir = dir
	o.MemTableSize = 64 << 20
	o.ValueThreshold = 1 << 20
	o.ValueLogGCInterval = 0
	o.EnableWALWatchdog = false
	o.HotRingEnabled = false
	o.WriteHotKeyLimit = 0
	o.SyncWrites = false
	o.NumCompactors = 1
	if err := os.MkdirAll(dir, 0o755); err != nil {
		vt.Fatal("mkdir %s: %v", dir, err)
	}
	return NoKV.Open(o)
}

func main() {
	in := flag.String("in", "", "schedules (ndjson)")
	out := flag.String("out", "", "trace (ndjson)")
	dir := flag.String("dir", "", "scratch directory")
	flag.Parse()
	scheds, err := vt.ReadNDJSON[Schedule](*in)
	if err != nil {
		vt.Fatal("%v", err)
	}
	w, err := vt.NewWriter(*out)
	if err != nil {
		vt.Fatal("%v", err)
	}
	if *dir == "" {
		if *dir, err = os.MkdirTemp("", "client2pc-"); err != nil {
			vt.Fatal("%v", err)
		}
		defer os.RemoveAll(*dir)
	}
	utils.VerifPause("compaction", true)
	h := &harness{listeners: map[string]*bufconn.Listener{}, w: w}
	for i := range h.dbs {
		h.dbs[i] = openDB(filepath.Join(*dir, fmt.Sprintf("region%d", i+1)))
	}
	var servers []*grpc.Server
	for id := uint64(1); id <= 2; id++ {
		l := bufconn.Listen(1 << 20)
		h.listeners[fmt.Sprintf("store%d", id)] = l
		srv := grpc.NewServer()
		pb.RegisterTinyKvServer(srv, &store{id: id, h: h})
		servers = append(servers, srv)
		go func() { _ = srv.Serve(l) }()
	}
	for i := range scheds {
		h.runSchedule(i, &scheds[i])
	}
	for _, srv := range servers {
		srv.Stop()
	}
	for _, db := range h.dbs {
		_ = db.Close()
	}
	if err := w.Close(); err != nil {
		vt.Fatal("%v", err)
	}
}
