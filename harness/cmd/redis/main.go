// redis: black-box driver for the Redis gateway family (C29, C30, C31).
//
// It starts the REAL gateway binary (built from the tree under test), speaks RESP to it
// over loopback TCP and records what came back. It contains no model of the gateway:
// schedules say which bytes / commands to send, the trace says what was received.
//
// usage: redis -gateway <nokv-redis binary> -mode seq|conc|resp -in sched.ndjson -out trace.ndjson -dir scratch [-conns N]
//
// Exit status 3 = the driver could not do its job (gateway does not start, I/O timeout):
// the check reports "undecided", never a verdict.
package main

import (
	"bufio"
	"encoding/hex"
	"encoding/json"
	"errors"
	"flag"
	"fmt"
	"io"
	"net"
	"net/http"
	"os"
	"os/exec"
	"os/signal"
	"path/filepath"
	"strconv"
	"sync"
	"syscall"
	"time"

	"verif/harness/internal/vt"
)

// ------------------------------------------------------------------ gateway process

type gateway struct {
	cmd     *exec.Cmd
	addr    string
	metrics string
	done    chan struct{} // closed when the process has exited
	log     string
}

var (
	gwMu  sync.Mutex
	gwAll []*gateway
	gwSeq int
)

func freePort() (int, error) {
	l, err := net.Listen("tcp", "127.0.0.1:0")
	if err != nil {
		return 0, err
	}
	p := l.Addr().(*net.TCPAddr).Port
	_ = l.Close()
	return p, nil
}

// startGateway launches the binary on free loopback ports with a fresh work directory.
// Ports are found by binding :0; if another process grabs one in between, we retry.
func startGateway(bin, dir string) (*gateway, error) {
	var last error
	for attempt := 0; attempt < 6; attempt++ {
		p1, err := freePort()
		if err != nil {
			return nil, err
		}
		p2, err := freePort()
		if err != nil {
			return nil, err
		}
		gwMu.Lock()
		gwSeq++
		n := gwSeq
		gwMu.Unlock()
		wd := filepath.Join(dir, fmt.Sprintf("gw-%d-%d", os.Getpid(), n))
		if err := os.MkdirAll(wd, 0o755); err != nil {
			return nil, err
		}
		logPath := wd + ".log"
		lf, err := os.Create(logPath)
		if err != nil {
			return nil, err
		}
		g := &gateway{addr: fmt.Sprintf("127.0.0.1:%d", p1), metrics: fmt.Sprintf("127.0.0.1:%d", p2), done: make(chan struct{}), log: logPath}
		g.cmd = exec.Command(bin, "--workdir", wd, "--addr", g.addr, "--metrics-addr", g.metrics)
		g.cmd.Stdout, g.cmd.Stderr = lf, lf
		g.cmd.SysProcAttr = &syscall.SysProcAttr{Pdeathsig: syscall.SIGKILL, Setpgid: true}
		if err := g.cmd.Start(); err != nil {
			_ = lf.Close()
			return nil, err
		}
		_ = lf.Close()
		go func() { _ = g.cmd.Wait(); close(g.done) }()
		gwMu.Lock()
		gwAll = append(gwAll, g)
		gwMu.Unlock()
		deadline := time.Now().Add(60 * time.Second)
		up := false
		for time.Now().Before(deadline) {
			select {
			case <-g.done:
				deadline = time.Now() // died (port taken, lock, ...): retry
				continue
			default:
			}
			c, err := net.DialTimeout("tcp", g.addr, time.Second)
			if err == nil {
				_ = c.Close()
				up = true
				break
			}
			time.Sleep(20 * time.Millisecond)
		}
		if up && g.metricsUp() {
			return g, nil
		}
		b, _ := os.ReadFile(logPath)
		if len(b) > 600 {
			b = b[len(b)-600:]
		}
		last = fmt.Errorf("gateway did not come up on %s: %s", g.addr, b)
		g.stop()
	}
	return nil, last
}

func (g *gateway) alive() bool {
	select {
	case <-g.done:
		return false
	default:
		return true
	}
}

func (g *gateway) stop() {
	if g == nil || g.cmd == nil || g.cmd.Process == nil {
		return
	}
	if g.alive() {
		_ = g.cmd.Process.Signal(syscall.SIGTERM)
		select {
		case <-g.done:
		case <-time.After(2 * time.Second):
			_ = syscall.Kill(-g.cmd.Process.Pid, syscall.SIGKILL)
			_ = g.cmd.Process.Kill()
			<-g.done
		}
	}
}

func stopAll() {
	gwMu.Lock()
	all := append([]*gateway(nil), gwAll...)
	gwMu.Unlock()
	for _, g := range all {
		g.stop()
	}
}

func (g *gateway) metricsUp() bool {
	for i := 0; i < 200; i++ {
		if _, err := g.totalAlloc(); err == nil {
			return true
		}
		if !g.alive() {
			return false
		}
		time.Sleep(20 * time.Millisecond)
	}
	return false
}

var httpc = &http.Client{Timeout: 20 * time.Second}

// totalAlloc reads runtime.MemStats.TotalAlloc of the gateway from its expvar endpoint.
func (g *gateway) totalAlloc() (uint64, error) {
	resp, err := httpc.Get("http://" + g.metrics + "/debug/vars")
	if err != nil {
		return 0, err
	}
	defer resp.Body.Close()
	var v struct {
		Memstats struct{ TotalAlloc uint64 } `json:"memstats"`
	}
	if err := json.NewDecoder(resp.Body).Decode(&v); err != nil {
		return 0, err
	}
	return v.Memstats.TotalAlloc, nil
}

func (g *gateway) totalAllocSlow() (uint64, error) {
	old := httpc.Timeout
	httpc.Timeout = 60 * time.Second
	defer func() { httpc.Timeout = old }()
	return g.totalAlloc()
}

// fatal stops every gateway process, then exits with the driver-failure status.
func fatal(format string, a ...any) {
	stopAll()
	vt.Fatal(format, a...)
}

// ------------------------------------------------------------------ RESP client

const ioTimeout = 60 * time.Second

func encode(args []string) []byte {
	b := []byte("*" + strconv.Itoa(len(args)) + "\r\n")
	for _, a := range args {
		b = append(b, '$')
		b = append(b, strconv.Itoa(len(a))...)
		b = append(b, '\r', '\n')
		b = append(b, a...)
		b = append(b, '\r', '\n')
	}
	return b
}

func readLine(r *bufio.Reader) (string, error) {
	s, err := r.ReadString('\n')
	if err != nil {
		return "", err
	}
	if len(s) < 2 || s[len(s)-2] != '\r' {
		return "", fmt.Errorf("bad reply line %q", s)
	}
	return s[:len(s)-2], nil
}

// readReply returns the reply as a flat list of strings: "+OK", "-ERR ...", ":5", "$value",
// "nil"; arrays as "*" followed by their items.
func readReply(r *bufio.Reader) ([]string, error) {
	line, err := readLine(r)
	if err != nil {
		return nil, err
	}
	if line == "" {
		return nil, fmt.Errorf("empty reply line")
	}
	switch line[0] {
	case '+', '-', ':':
		return []string{line}, nil
	case '$':
		it, err := readBulk(r, line)
		if err != nil {
			return nil, err
		}
		return []string{it}, nil
	case '*':
		n, err := strconv.Atoi(line[1:])
		if err != nil {
			return nil, err
		}
		out := []string{"*"}
		if n < 0 {
			return []string{"*nil"}, nil
		}
		for i := 0; i < n; i++ {
			l2, err := readLine(r)
			if err != nil {
				return nil, err
			}
			if l2 == "" || l2[0] != '$' {
				return nil, fmt.Errorf("unexpected array item %q", l2)
			}
			it, err := readBulk(r, l2)
			if err != nil {
				return nil, err
			}
			out = append(out, it)
		}
		return out, nil
	}
	return nil, fmt.Errorf("unexpected reply %q", line)
}

func readBulk(r *bufio.Reader, header string) (string, error) {
	n, err := strconv.Atoi(header[1:])
	if err != nil {
		return "", err
	}
	if n < 0 {
		return "nil", nil
	}
	if n > 1<<24 {
		return "", fmt.Errorf("bulk reply too large: %d", n)
	}
	buf := make([]byte, n+2)
	if _, err := io.ReadFull(r, buf); err != nil {
		return "", err
	}
	return "$" + string(buf[:n]), nil
}

// ------------------------------------------------------------------ mode seq (C29)

type step struct {
	Send    []string `json:"send,omitempty"`
	SleepMs int      `json:"sleep_ms,omitempty"`
}

type seqSched struct {
	ID    int    `json:"id"`
	Steps []step `json:"steps"`
}

func isTimeout(err error) bool {
	var ne net.Error
	return errors.As(err, &ne) && ne.Timeout()
}

func runSeq(g *gateway, s *seqSched, w *vt.Writer) {
	conn, err := net.DialTimeout("tcp", g.addr, ioTimeout)
	if err != nil {
		fatal("dial: %v", err)
	}
	defer conn.Close()
	r := bufio.NewReader(conn)
	t0 := time.Now()
	ms := func() int64 { return time.Since(t0).Milliseconds() }
	broken := false
	for i, st := range s.Steps {
		if st.SleepMs > 0 {
			time.Sleep(time.Duration(st.SleepMs) * time.Millisecond)
			w.Emit(vt.Ev{"s": s.ID, "i": i, "e": "Sleep", "t": ms()})
			continue
		}
		tb := ms()
		_ = conn.SetDeadline(time.Now().Add(ioTimeout))
		_, err := conn.Write(encode(st.Send))
		var rep []string
		if err == nil {
			rep, err = readReply(r)
		}
		if err != nil {
			if isTimeout(err) {
				fatal("schedule %d step %d: timeout waiting for the gateway (alive=%v)", s.ID, i, g.alive())
			}
			// the gateway closed the connection or sent something that is not RESP
			w.Emit(vt.Ev{"s": s.ID, "i": i, "e": "Cmd", "r": []string{"!closed"}, "err": err.Error(), "tb": tb, "t": ms(), "alive": g.alive()})
			broken = true
			break
		}
		w.Emit(vt.Ev{"s": s.ID, "i": i, "e": "Cmd", "r": rep, "tb": tb, "t": ms()})
	}
	// connection state at the end: closed by the server, or still open (nothing arrives)
	closed := broken
	if !broken {
		last := s.Steps[len(s.Steps)-1]
		wait := 30 * time.Millisecond
		if len(last.Send) > 0 && (last.Send[0] == "QUIT" || last.Send[0] == "quit" || last.Send[0] == "Quit") {
			wait = 20 * time.Second
		}
		_ = conn.SetReadDeadline(time.Now().Add(wait))
		_, err := r.ReadByte()
		closed = err != nil && !isTimeout(err)
	}
	w.Emit(vt.Ev{"s": s.ID, "i": len(s.Steps), "e": "End", "closed": closed, "t": ms()})
}

// ------------------------------------------------------------------ mode conc (C30)

type concSched struct {
	ID      int          `json:"id"`
	Init    [][]string   `json:"init"`
	Clients [][][]string `json:"clients"`
	Final   [][]string   `json:"final"`
	// Rounds: rounds[r][c] is the single command client c sends in round r; all clients of a
	// round are released together (a barrier per round), typically on a key nobody has touched yet.
	Rounds [][][]string `json:"rounds,omitempty"`
}

func oneShot(g *gateway, sid, client int, cmds [][]string, start <-chan struct{}, w *vt.Writer) {
	conn, err := net.DialTimeout("tcp", g.addr, ioTimeout)
	if err != nil {
		fatal("dial: %v", err)
	}
	defer conn.Close()
	r := bufio.NewReader(conn)
	if start != nil {
		<-start
	}
	for i, c := range cmds {
		_ = conn.SetDeadline(time.Now().Add(ioTimeout))
		_, err := conn.Write(encode(c))
		var rep []string
		if err == nil {
			rep, err = readReply(r)
		}
		if err != nil {
			fatal("conc schedule %d client %d cmd %d: %v (alive=%v)", sid, client, i, err, g.alive())
		}
		w.Emit(vt.Ev{"s": sid, "c": client, "i": i, "cmd": c, "r": rep})
	}
}

func runConc(g *gateway, s *concSched, w *vt.Writer) {
	oneShot(g, s.ID, -1, s.Init, nil, w)
	start := make(chan struct{})
	var wg sync.WaitGroup
	for ci, cmds := range s.Clients {
		wg.Add(1)
		go func(ci int, cmds [][]string) {
			defer wg.Done()
			oneShot(g, s.ID, ci, cmds, start, w)
		}(ci, cmds)
	}
	time.Sleep(20 * time.Millisecond) // let every client connect before the barrier opens
	close(start)
	wg.Wait()
	if len(s.Rounds) > 0 {
		runRounds(g, s, w)
	}
	oneShot(g, s.ID, -2, s.Final, nil, w)
}

// runRounds keeps one connection per client and runs the rounds one after the other; within a
// round every client sends its command as soon as the round's gate opens.
func runRounds(g *gateway, s *concSched, w *vt.Writer) {
	n := len(s.Rounds[0])
	gates := make([]chan struct{}, len(s.Rounds))
	for i := range gates {
		gates[i] = make(chan struct{})
	}
	var ready, done sync.WaitGroup
	ready.Add(n)
	rounds := make([]sync.WaitGroup, len(s.Rounds))
	for r := range rounds {
		rounds[r].Add(n)
	}
	for c := 0; c < n; c++ {
		done.Add(1)
		go func(c int) {
			defer done.Done()
			conn, err := net.DialTimeout("tcp", g.addr, ioTimeout)
			if err != nil {
				fatal("dial: %v", err)
			}
			defer conn.Close()
			rd := bufio.NewReader(conn)
			ready.Done()
			for r := range s.Rounds {
				cmd := s.Rounds[r][c]
				payload := encode(cmd)
				<-gates[r]
				_ = conn.SetDeadline(time.Now().Add(ioTimeout))
				_, err := conn.Write(payload)
				var rep []string
				if err == nil {
					rep, err = readReply(rd)
				}
				if err != nil {
					fatal("conc schedule %d round %d client %d: %v (alive=%v)", s.ID, r, c, err, g.alive())
				}
				w.Emit(vt.Ev{"s": s.ID, "c": c, "i": r, "round": true, "cmd": cmd, "r": rep})
				rounds[r].Done()
			}
		}(c)
	}
	ready.Wait()
	for r := range s.Rounds {
		close(gates[r])
		rounds[r].Wait()
	}
	done.Wait()
}

// ------------------------------------------------------------------ mode resp (C31)

type respCase struct {
	ID     int      `json:"id"`
	Chunks []string `json:"chunks"` // hex; after chunk i (not the last) wait for Lines[i] reply lines
	Lines  []int    `json:"lines"`
}

// diesWithin waits for the gateway process to exit (a panic takes a moment to unwind).
func (g *gateway) diesWithin(d time.Duration) bool {
	select {
	case <-g.done:
		return true
	case <-time.After(d):
		return false
	}
}

// runResp returns false if the case has to be repeated on a fresh gateway process.
func runResp(g *gateway, c *respCase, w *vt.Writer) bool {
	a0, err := g.totalAlloc()
	if err != nil {
		if g.diesWithin(10 * time.Second) {
			return false // killed by an earlier case after that case had been recorded as alive: run again on a fresh gateway
		}
		if a0, err = g.totalAllocSlow(); err != nil {
			// alive but not answering for 80 s: an earlier case left it in that state; note it and start afresh
			w.Emit(vt.Ev{"s": -1, "stalled_before": c.ID})
			return false
		}
	}
	conn, err := net.DialTimeout("tcp", g.addr, ioTimeout)
	if err != nil {
		if g.diesWithin(10 * time.Second) {
			return false
		}
		fatal("dial: %v", err)
	}
	defer conn.Close()
	var got []byte
	sent := 0
	buf := make([]byte, 4096)
	waitOK := true
	for i, hx := range c.Chunks {
		b, err := hex.DecodeString(hx)
		if err != nil {
			fatal("case %d: bad hex", c.ID)
		}
		_ = conn.SetWriteDeadline(time.Now().Add(ioTimeout))
		if len(b) > 0 {
			if _, err := conn.Write(b); err != nil {
				break // the server may already have closed on a protocol error
			}
		}
		sent += len(b)
		if i == len(c.Chunks)-1 {
			break
		}
		// wait until the announced number of reply lines arrived (or the connection ends)
		want := 0
		for j := 0; j <= i && j < len(c.Lines); j++ {
			want += c.Lines[j]
		}
		deadline := time.Now().Add(15 * time.Second)
		for countLines(got) < want {
			_ = conn.SetReadDeadline(deadline)
			n, err := conn.Read(buf)
			got = append(got, buf[:n]...)
			if err != nil {
				waitOK = !isTimeout(err)
				break
			}
		}
	}
	if tc, ok := conn.(*net.TCPConn); ok {
		_ = tc.CloseWrite() // EOF for the server; it must now finish and close
	}
	eof := false
	deadline := time.Now().Add(15 * time.Second)
	for {
		_ = conn.SetReadDeadline(deadline)
		n, err := conn.Read(buf)
		got = append(got, buf[:n]...)
		if err != nil {
			eof = !isTimeout(err)
			break
		}
		if len(got) > 1<<20 {
			break
		}
	}
	_ = conn.Close()
	time.Sleep(2 * time.Millisecond)
	alive := g.alive()
	unresponsive := false
	var alloc int64 = -1
	if alive {
		a1, err := g.totalAlloc()
		if err != nil && !g.diesWithin(10*time.Second) {
			// alive but not answering (e.g. the runtime is busy with a giant allocation): one long retry
			a1, err = g.totalAllocSlow()
		}
		if err != nil {
			// dying (a panic is unwinding) or unresponsive for more than 80 s: recorded as not alive
			unresponsive = g.alive()
			alive = false
			g.stop()
		} else {
			alloc = int64(a1 - a0)
			if !eof && g.diesWithin(300*time.Millisecond) {
				alive = false
			}
		}
	}
	w.Emit(vt.Ev{"s": c.ID, "out": hex.EncodeToString(got), "eof": eof, "alive": alive, "alloc": alloc, "sent": sent, "waited": waitOK, "unresponsive": unresponsive})
	return true
}

func countLines(b []byte) int {
	n := 0
	for i := 1; i < len(b); i++ {
		if b[i] == '\n' && b[i-1] == '\r' {
			n++
		}
	}
	return n
}

// ------------------------------------------------------------------ main

func main() {
	bin := flag.String("gateway", "", "path of the nokv-redis binary under test")
	mode := flag.String("mode", "seq", "seq | conc | resp")
	in := flag.String("in", "", "schedules (ndjson)")
	out := flag.String("out", "", "trace (ndjson)")
	dir := flag.String("dir", os.TempDir(), "scratch directory")
	conns := flag.Int("conns", 4, "parallel connections (seq mode)")
	flag.Parse()

	sig := make(chan os.Signal, 1)
	signal.Notify(sig, syscall.SIGINT, syscall.SIGTERM, syscall.SIGHUP)
	go func() { <-sig; stopAll(); os.Exit(3) }()
	defer stopAll()
	fail := fatal

	w, err := vt.NewWriter(*out)
	if err != nil {
		fail("%v", err)
	}
	g, err := startGateway(*bin, *dir)
	if err != nil {
		fail("%v", err)
	}
	switch *mode {
	case "seq":
		scheds, err := vt.ReadNDJSON[seqSched](*in)
		if err != nil {
			fail("%v", err)
		}
		ch := make(chan *seqSched)
		var wg sync.WaitGroup
		for i := 0; i < *conns; i++ {
			wg.Add(1)
			go func() {
				defer wg.Done()
				for s := range ch {
					runSeq(g, s, w)
				}
			}()
		}
		for i := range scheds {
			ch <- &scheds[i]
		}
		close(ch)
		wg.Wait()
	case "conc":
		scheds, err := vt.ReadNDJSON[concSched](*in)
		if err != nil {
			fail("%v", err)
		}
		for i := range scheds {
			runConc(g, &scheds[i], w)
		}
	case "resp":
		cases, err := vt.ReadNDJSON[respCase](*in)
		if err != nil {
			fail("%v", err)
		}
		for i := range cases {
			if !g.alive() {
				// the previous case killed the gateway (recorded there): go on with a fresh one
				g, err = startGateway(*bin, *dir)
				if err != nil {
					fail("%v", err)
				}
			}
			if !runResp(g, &cases[i], w) {
				g.stop()
				if g, err = startGateway(*bin, *dir); err != nil {
					fail("%v", err)
				}
				if !runResp(g, &cases[i], w) {
					fail("case %d: the gateway died twice before the case could start", cases[i].ID)
				}
			}
		}
	default:
		fail("unknown mode %q", *mode)
	}
	if err := w.Close(); err != nil {
		fail("%v", err)
	}
	stopAll()
}
