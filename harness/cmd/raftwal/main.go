// raftwal: raft log persistence on the shared WAL + WAL segment cleanup (C21, C36).
//
//	raftwal work    -dir D -sched S.json -upto N -trace T   execute ops[0:N] on a real DB whose WAL and
//	                                                        manifest are shared with real raft WALStorages,
//	                                                        then os.Exit(77) without closing (process crash);
//	                                                        -crashat P exits instead before the P-th mutating
//	                                                        file operation (FaultFS), 0 = off
//	raftwal recover -dir D -sched S.json -out R.json        reopen DB + storages and dump (hard state, snapshot,
//	                                                        first/last index, entries, raft entries on disk);
//	                                                        then watchdog / rotate+flush / watchdog with the
//	                                                        storages open, close, reopen and dump again ("second")
package main

import (
	"encoding/json"
	"errors"
	"flag"
	"fmt"
	"io"
	"log"
	"os"
	"strings"
	"sync/atomic"
	"time"

	NoKV "github.com/feichai0017/NoKV"
	myraft "github.com/feichai0017/NoKV/raft"
	"github.com/feichai0017/NoKV/raftstore/engine"
	"github.com/feichai0017/NoKV/utils"
	"github.com/feichai0017/NoKV/vfs"
	"github.com/feichai0017/NoKV/wal"

	"verif/harness/internal/eng"
)

type Ent struct {
	I uint64 `json:"i"`
	T uint64 `json:"t"`
}

type Op struct {
	Op     string `json:"op"`
	K      string `json:"k,omitempty"`
	V      string `json:"v,omitempty"`
	G      uint64 `json:"g,omitempty"`
	Ents   []Ent  `json:"ents,omitempty"`
	Term   uint64 `json:"term,omitempty"`
	Vote   uint64 `json:"vote,omitempty"`
	Commit uint64 `json:"commit,omitempty"`
	Idx    uint64 `json:"idx,omitempty"`
}

type Sched struct {
	ID     int      `json:"id"`
	Keys   []string `json:"keys"`
	Groups []uint64 `json:"groups"`
	Sync   bool     `json:"sync"`
	Ops    []Op     `json:"ops"`
}

var (
	traceF  *os.File
	points  int64
	crashAt int64
)

func emit(v map[string]any) {
	b, _ := json.Marshal(v)
	if _, err := traceF.Write(append(b, '\n')); err != nil {
		os.Exit(3)
	}
}

func load(path string) *Sched {
	b, err := os.ReadFile(path)
	if err != nil {
		fmt.Fprintln(os.Stderr, err)
		os.Exit(3)
	}
	var s Sched
	if err := json.Unmarshal(b, &s); err != nil {
		fmt.Fprintln(os.Stderr, err)
		os.Exit(3)
	}
	return &s
}

func es(err error) string {
	if err == nil {
		return ""
	}
	return err.Error()
}

func mutating(op vfs.Op) bool {
	switch op {
	case vfs.OpOpenFile, vfs.OpFileWrite, vfs.OpFileSync, vfs.OpFileTrunc, vfs.OpMkdirAll, vfs.OpRemoveAll,
		vfs.OpRemove, vfs.OpRename, vfs.OpWriteFile, vfs.OpTruncate:
		return true
	}
	return false
}

func openAll(dir string, s *Sched, fs vfs.FS) (*eng.Runner, map[uint64]*engine.WALStorage, error) {
	r := &eng.Runner{Dir: dir, Cfg: eng.Cfg{Mem: "skiplist", Sync: s.Sync}, FS: fs}
	utils.VerifPause("compaction", true)
	eng.SetGated(false)
	var perr error
	func() {
		defer func() {
			if p := recover(); p != nil {
				perr = fmt.Errorf("open panic: %v", p)
			}
		}()
		o := r.Opts()
		// the DB's own watchdog, configured by the DB's own Open; passes are triggered by RunOnce
		o.EnableWALWatchdog = true
		o.WALAutoGCInterval = time.Hour
		o.WALAutoGCMinRemovable = 1
		o.WALAutoGCMaxBatch = 4
		r.DB = NoKV.Open(o)
	}()
	if perr != nil {
		return nil, nil, perr
	}
	return r, map[uint64]*engine.WALStorage{}, nil
}

func work(dir, sched, trace string, upto int) {
	s := load(sched)
	var err error
	traceF, err = os.OpenFile(trace, os.O_CREATE|os.O_WRONLY|os.O_TRUNC, 0o644)
	if err != nil {
		os.Exit(3)
	}
	fs := vfs.NewFaultFS(vfs.OSFS{}, func(op vfs.Op, path string) error {
		if mutating(op) {
			n := atomic.AddInt64(&points, 1)
			if crashAt > 0 && n == crashAt {
				emit(map[string]any{"e": "Crash", "point": n, "at": string(op) + ":" + path[strings.LastIndex(path, "/")+1:]})
				os.Exit(77)
			}
		}
		return nil
	})
	r, stores, err := openAll(dir, s, fs)
	if err != nil {
		fmt.Fprintln(os.Stderr, err)
		os.Exit(3)
	}
	db := r.DB
	for _, g := range s.Groups {
		ws, err := engine.OpenWALStorage(engine.WALStorageConfig{GroupID: g, WAL: db.WAL(), Manifest: db.Manifest()})
		if err != nil {
			fmt.Fprintln(os.Stderr, "open storage:", err)
			os.Exit(3)
		}
		stores[g] = ws
	}
	r.WaitFlushIdle()
	eng.SetGated(true)
	wd := db.VerifWALWatchdog()
	if upto > len(s.Ops) {
		upto = len(s.Ops)
	}
	for i := 0; i < upto; i++ {
		op := s.Ops[i]
		switch op.Op {
		case "Put":
			emit(map[string]any{"e": "PutCall", "k": op.K, "v": op.V})
			err := db.Set([]byte(op.K), eng.Expand(op.V, 48))
			emit(map[string]any{"e": "PutRet", "k": op.K, "v": op.V, "ok": err == nil, "err": es(err)})
		case "RaftAppend":
			ents := make([]myraft.Entry, 0, len(op.Ents))
			for _, e := range op.Ents {
				ents = append(ents, myraft.Entry{Index: e.I, Term: e.T, Data: []byte(fmt.Sprintf("d-%d-%d", e.I, e.T))})
			}
			emit(map[string]any{"e": "RaftAppendCall", "g": op.G, "ents": op.Ents})
			err := stores[op.G].Append(ents)
			emit(map[string]any{"e": "RaftAppendRet", "g": op.G, "ents": op.Ents, "ok": err == nil, "err": es(err), "seg": db.WAL().ActiveSegment()})
		case "RaftHS":
			emit(map[string]any{"e": "RaftHSCall", "g": op.G, "term": op.Term, "vote": op.Vote, "commit": op.Commit})
			err := stores[op.G].SetHardState(myraft.HardState{Term: op.Term, Vote: op.Vote, Commit: op.Commit})
			emit(map[string]any{"e": "RaftHSRet", "g": op.G, "term": op.Term, "vote": op.Vote, "commit": op.Commit, "ok": err == nil, "err": es(err), "seg": db.WAL().ActiveSegment()})
		case "RaftSnap":
			snap := myraft.Snapshot{Data: []byte(fmt.Sprintf("snap-%d-%d", op.Idx, op.Term))}
			snap.Metadata.Index, snap.Metadata.Term = op.Idx, op.Term
			snap.Metadata.ConfState.Voters = []uint64{1}
			emit(map[string]any{"e": "RaftSnapCall", "g": op.G, "idx": op.Idx, "term": op.Term})
			err := stores[op.G].ApplySnapshot(snap)
			emit(map[string]any{"e": "RaftSnapRet", "g": op.G, "idx": op.Idx, "term": op.Term, "ok": err == nil, "err": es(err), "seg": db.WAL().ActiveSegment()})
		case "RaftCompact":
			err := stores[op.G].MaybeCompact(op.Idx+1, 1)
			emit(map[string]any{"e": "RaftCompact", "g": op.G, "idx": op.Idx, "ok": err == nil, "err": es(err)})
		case "Rotate":
			db.VerifLSM().Rotate()
			emit(map[string]any{"e": "Maint", "what": "Rotate"})
		case "Flush":
			r2 := &eng.Runner{DB: db}
			before := len(db.VerifLSM().VerifLayout().Imm)
			if before > 0 {
				eng.ReleaseOneFlush()
				for len(db.VerifLSM().VerifLayout().Imm) >= before {
				}
			}
			_ = r2
			emit(map[string]any{"e": "Maint", "what": "Flush", "noop": before == 0})
		case "Watchdog":
			wd.RunOnce()
			emit(map[string]any{"e": "Maint", "what": "Watchdog", "removed": wd.Snapshot().SegmentsRemoved})
		}
	}
	emit(map[string]any{"e": "Exit", "points": atomic.LoadInt64(&points)})
	os.Exit(77)
}

// dumpAll reads the LSM keys, the raft entries physically present in the surviving WAL segments
// (independent of OpenWALStorage) and every group's reopened storage.
func dumpAll(db *NoKV.DB, s *Sched) (map[string]any, map[uint64]*engine.WALStorage) {
	res := map[string]any{"open": true}
	lsm := map[string]string{}
	for _, k := range s.Keys {
		e, err := db.Get([]byte(k))
		switch {
		case err == nil:
			lsm[k] = eng.Shrink(e.Value)
		case errors.Is(err, utils.ErrKeyNotFound):
			lsm[k] = "NOTFOUND"
		default:
			lsm[k] = "ERR:" + err.Error()
		}
	}
	res["lsm"] = lsm
	stores := map[uint64]*engine.WALStorage{}
	var groups []map[string]any
	for _, g := range s.Groups {
		gr := map[string]any{"g": g, "open": true, "term": 0, "vote": 0, "commit": 0, "first": 0, "last": 0, "si": 0, "st": 0, "ents": []Ent{}, "disk": []Ent{}}
		var ws *engine.WALStorage
		var err error
		func() {
			defer func() {
				if p := recover(); p != nil {
					err = fmt.Errorf("panic: %v", p)
				}
			}()
			ws, err = engine.OpenWALStorage(engine.WALStorageConfig{GroupID: g, WAL: db.WAL(), Manifest: db.Manifest()})
		}()
		if err != nil {
			gr["open"] = false
			gr["err"] = err.Error()
			groups = append(groups, gr)
			continue
		}
		stores[g] = ws
		hs, _, _ := ws.InitialState()
		first, _ := ws.FirstIndex()
		last, _ := ws.LastIndex()
		gr["term"], gr["vote"], gr["commit"], gr["first"], gr["last"] = hs.Term, hs.Vote, hs.Commit, first, last
		if sn, err := ws.Snapshot(); err == nil {
			gr["si"], gr["st"] = sn.Metadata.Index, sn.Metadata.Term
		}
		ents := []Ent{}
		if last >= first {
			es, err := ws.Entries(first, last+1, 1<<30)
			if err != nil {
				gr["enterr"] = err.Error()
			}
			for _, e := range es {
				ents = append(ents, Ent{I: e.Index, T: e.Term})
			}
		}
		gr["ents"] = ents
		groups = append(groups, gr)
	}
	res["raft"] = groups
	return res, stores
}

// scanDisk fills in, per group, the raft entries physically present in the WAL right now, and the segment list
func scanDisk(db *NoKV.DB, res map[string]any) {
	disk := map[uint64][]Ent{}
	_ = db.WAL().Replay(func(info wal.EntryInfo, payload []byte) error {
		if info.Type != wal.RecordTypeRaftEntry {
			return nil
		}
		gid, ents, err := engine.VerifDecodeRaftEntries(payload)
		if err != nil {
			return nil
		}
		for _, e := range ents {
			disk[gid] = append(disk[gid], Ent{I: e.Index, T: e.Term})
		}
		return nil
	})
	for _, gr := range res["raft"].([]map[string]any) {
		gr["disk"] = append([]Ent{}, disk[gr["g"].(uint64)]...)
	}
	var segs []string
	if files, err := db.WAL().ListSegments(); err == nil {
		for _, f := range files {
			segs = append(segs, f[strings.LastIndex(f, "/")+1:])
		}
	}
	res["wal_after"] = segs
}

func recoverCmd(dir, sched, outp string, maint bool) {
	s := load(sched)
	res := map[string]any{"open": true}
	defer func() {
		b, _ := json.Marshal(res)
		_ = os.WriteFile(outp, b, 0o644)
	}()
	r, _, err := openAll(dir, s, nil)
	if err != nil {
		res["open"] = false
		res["err"] = err.Error()
		return
	}
	db := r.DB
	r.WaitFlushIdle() // recovered memtables are flushed (and their segments possibly removed) before raft storages open
	first, _ := dumpAll(db, s)
	scanDisk(db, first)
	for k, v := range first {
		res[k] = v
	}
	// Maintenance of the reopened store, with the raft storages open (they may have rewritten their manifest
	// pointers): watchdog pass, a rotation + flush, another watchdog pass. Then a clean close, a second reopen
	// and the same dump: what was persisted before the crash must still be there.
	if !maint {
		_ = db.Close()
		return
	}
	second := map[string]any{"open": true}
	res["second"] = second
	func() {
		defer func() {
			if p := recover(); p != nil {
				second["open"] = false
				second["err"] = fmt.Sprint(p)
			}
		}()
		wd := db.VerifWALWatchdog()
		if wd != nil {
			wd.RunOnce()
		}
		db.VerifLSM().Rotate()
		r.WaitFlushIdle()
		if wd != nil {
			wd.RunOnce()
			second["wd_removed"] = wd.Snapshot().SegmentsRemoved
		}
		_ = db.Close()
		r2, _, err := openAll(dir, s, nil)
		if err != nil {
			second["open"] = false
			second["err"] = err.Error()
			return
		}
		r2.WaitFlushIdle()
		d2, _ := dumpAll(r2.DB, s)
		scanDisk(r2.DB, d2)
		for k, v := range d2 {
			second[k] = v
		}
		_ = r2.DB.Close()
	}()
}

func main() {
	log.SetOutput(io.Discard)
	if len(os.Args) < 2 {
		os.Exit(2)
	}
	fset := flag.NewFlagSet(os.Args[1], flag.ExitOnError)
	dir := fset.String("dir", "", "")
	sched := fset.String("sched", "", "")
	trace := fset.String("trace", "", "")
	outp := fset.String("out", "", "")
	upto := fset.Int("upto", 1<<30, "")
	at := fset.Int64("crashat", 0, "")
	maint := fset.Bool("maint", false, "recover: maintain the reopened store with the storages open, reopen and dump again")
	_ = fset.Parse(os.Args[2:])
	crashAt = *at
	switch os.Args[1] {
	case "work":
		work(*dir, *sched, *trace, *upto)
	case "recover":
		recoverCmd(*dir, *sched, *outp, *maint)
	}
}
