// engine: runs Engine-family schedules (C01, C02, C08, C12, C19-storage) on a real DB.
// usage: engine -in schedules.ndjson -out trace.ndjson [-dir scratch]
package main

import (
	"flag"
	"io"
	"log"
	"os"

	"verif/harness/internal/eng"
	"verif/harness/internal/vt"
)

func main() {
	in := flag.String("in", "", "schedules (ndjson)")
	out := flag.String("out", "", "trace (ndjson)")
	dir := flag.String("dir", os.TempDir(), "scratch directory")
	flag.Parse()
	log.SetOutput(io.Discard)
	scheds, err := vt.ReadNDJSON[eng.Schedule](*in)
	if err != nil {
		vt.Fatal("%v", err)
	}
	w, err := vt.NewWriter(*out)
	if err != nil {
		vt.Fatal("%v", err)
	}
	for i := range scheds {
		eng.RunSchedule(*dir, &scheds[i], w)
	}
	if err := w.Close(); err != nil {
		vt.Fatal("%v", err)
	}
}
