// txnoracle: replays thread schedules of committing and reading transactions on a real DB
// (C05: a transaction never sees another transaction partially or late).
//
// usage: txnoracle -in schedules.ndjson -out trace.ndjson -dir scratch
//
// Logical threads run db.NewTransaction / Set+Commit / Get+iterate under the cooperative
// scheduler. They park at the verif yield points of txn.go (oracle.readTs, newCommitTs,
// doneCommit) and, while a thread is inside a call on the oracle's commit watermark
// (txnMark.Begin / Done / WaitForMark), at every yield point of utils/watermarker.go. Calls
// on the other watermark (readMark) run through without parking. Background goroutines of
// the DB (commit pipeline) are not scheduled: a step simply lasts until the thread reaches
// its next yield point. After the threads have finished, the version history of every key
// is read back, so that reads can be judged against all commits that ever succeeded. The
// driver contains no model of the oracle.
package main

import (
	"flag"
	"fmt"
	"io"
	"log"
	"os"
	"path/filepath"
	"strings"

	NoKV "github.com/feichai0017/NoKV"
	"github.com/feichai0017/NoKV/kv"
	"github.com/feichai0017/NoKV/utils"

	"verif/harness/internal/sched"
	"verif/harness/internal/vt"
)

type op struct {
	Op string `json:"op"` // TxBegin | TxCommit | TxRead
}

type schedule struct {
	ID    int    `json:"id"`
	Progs [][]op `json:"progs"`
	Sched []int  `json:"sched"`
	Tail  bool   `json:"tail"`
}

const reopenEvery = 400 // schedules per DB (keeps timestamps far below the watermark window)

func openDB(dir string) *NoKV.DB {
	o := NoKV.NewDefaultOptions()
	o.WorkDir = dir
	o.MemTableSize = 8 << 20
	o.ValueThreshold = 1 << 20
	o.ValueLogGCInterval = 0
	o.EnableWALWatchdog = false
	o.HotRingEnabled = false
	o.WriteHotKeyLimit = 0
	o.DetectConflicts = true
	o.NumCompactors = 1
	utils.VerifPause("compaction", true)
	return NoKV.Open(o)
}

func inTxnMarkCall(last string) bool {
	return last == "txn.commit.ts" || last == "txn.commit.done" || last == "txn.read.begun" || strings.HasPrefix(last, "wm.")
}

func runSchedule(db *NoKV.DB, sc *schedule, out *vt.Writer) (ok bool) {
	txnMark, _ := db.VerifOracleMarks()
	lo := txnMark.LastIndex()
	s := sched.New()
	s.Filter = func(t *sched.Thread, point string) bool {
		if strings.HasPrefix(point, "wm.") {
			return inTxnMarkCall(t.Last)
		}
		return strings.HasPrefix(point, "txn.")
	}
	s.Enabled = func(point string, args []uint64) bool {
		switch {
		case point == "txn.commit.lock":
			return db.VerifOracleLockFree()
		case strings.HasPrefix(point, "wm.") && strings.HasSuffix(point, ".lock"):
			return txnMark.VerifMuFree()
		case point == "wm.wait.park":
			return !txnMark.VerifWaiterPending(args[0])
		}
		return true
	}
	utils.VerifHook = s.Hook
	defer func() { utils.VerifHook = nil }()
	emit := func(ev vt.Ev) {
		ev["s"] = sc.ID
		out.Emit(ev)
	}
	// key k0 is written by every commit, key k<t> only by thread t: a commit that becomes visible late
	// cannot hide behind a newer version of the same key
	keys := []string{fmt.Sprintf("s%06d/k0", sc.ID)}
	for ti := range sc.Progs {
		keys = append(keys, fmt.Sprintf("s%06d/k%d", sc.ID, ti+1))
	}
	prefix := []byte(fmt.Sprintf("s%06d/", sc.ID))
	for ti, prog := range sc.Progs {
		tid := ti + 1
		prog := prog
		s.Go(tid, func() {
			var txn *NoKV.Txn
			ncommit, nread := 0, 0
			for oi, o := range prog {
				s.Yield("op")
				switch o.Op {
				case "TxBegin":
					if txn != nil {
						txn.Discard()
					}
					update := oi+1 < len(prog) && prog[oi+1].Op == "TxCommit"
					txn = db.NewTransaction(update)
					nread = 0
					emit(vt.Ev{"e": "TxBegin", "t": tid, "r": txn.ReadTs(), "update": update})
				case "TxCommit":
					ncommit++
					tok := fmt.Sprintf("c%d.%d", tid, ncommit)
					mine := []string{keys[0], keys[tid]}
					for _, k := range mine {
						if err := txn.Set([]byte(k), []byte(tok)); err != nil {
							panic(err)
						}
					}
					err := txn.Commit()
					ev := vt.Ev{"e": "TxCommit", "t": tid, "tok": tok, "ok": err == nil, "ks": []string{mine[0][8:], mine[1][8:]}}
					if err != nil {
						ev["err"] = err.Error()
					}
					emit(ev)
					txn = nil
				case "TxRead":
					nread++
					for _, k := range keys {
						v := "NOTFOUND"
						item, err := txn.Get([]byte(k))
						if err == nil {
							v = string(item.Entry().Value)
						} else if err != utils.ErrKeyNotFound {
							v = "ERR:" + err.Error()
						}
						emit(vt.Ev{"e": "TxRead", "t": tid, "k": k[8:], "v": v, "n": nread, "how": "get"})
					}
					it := txn.NewIterator(NoKV.IteratorOptions{Prefix: prefix})
					seen := map[string]bool{}
					for it.Rewind(); it.ValidForPrefix(prefix); it.Next() {
						e := it.Item().Entry()
						k := string(e.Key)
						seen[k] = true
						emit(vt.Ev{"e": "TxRead", "t": tid, "k": k[8:], "v": string(e.Value), "n": nread, "how": "iter"})
					}
					it.Close()
					for _, k := range keys {
						if !seen[k] {
							emit(vt.Ev{"e": "TxRead", "t": tid, "k": k[8:], "v": "NOTFOUND", "n": nread, "how": "iter"})
						}
					}
				default:
					panic("unknown op " + o.Op)
				}
			}
			if txn != nil {
				txn.Discard()
			}
		})
	}
	obs := func(si sched.StepInfo) {
		if si.Skipped != "" {
			emit(vt.Ev{"e": "Skip", "t": si.T, "why": si.Skipped, "n": si.N})
			return
		}
		fa := si.FromArg
		if fa == nil {
			fa = []uint64{}
		}
		emit(vt.Ev{"e": "Step", "n": si.N, "t": si.T, "from": si.From, "fa": fa, "to": si.To, "tail": si.Tail,
			"d": txnMark.DoneUntil(), "last": txnMark.LastIndex()})
	}
	err := s.Run(sc.Sched, sc.Tail, 100000, obs)
	end := vt.Ev{"e": "End", "blocked": []int{}, "panics": []string{}}
	if err != nil {
		end["err"] = err.Error()
	}
	if b := s.Blocked(); b != nil {
		end["blocked"] = b
	}
	if err == nil {
		s.Abort()
	}
	var panics []string
	for _, t := range s.Threads() {
		if t.Panic != nil {
			panics = append(panics, fmt.Sprintf("thread %d: %v", t.ID, t.Panic))
		}
	}
	if panics != nil {
		end["panics"] = panics
	}
	// what every key shows at every version between the first and the last timestamp of this
	// schedule, read back after all transactions have finished: the reference for "the newest
	// commit <= r among all commits that ever succeeded"
	if err == nil && len(end["blocked"].([]int)) == 0 {
		hi := txnMark.LastIndex()
		for _, k := range keys {
			vals := []string{}
			for v := lo; v <= hi; v++ {
				tok := "NOTFOUND"
				if v > 0 {
					e, gerr := db.GetVersionedEntry(kv.CFDefault, []byte(k), v)
					if gerr == nil && e != nil && !(e.Value == nil && e.Meta == 0) && e.Meta&kv.BitDelete == 0 {
						tok = string(e.Value)
					} else if gerr != nil && gerr != utils.ErrKeyNotFound {
						tok = "ERR:" + gerr.Error()
					}
				}
				vals = append(vals, tok)
			}
			emit(vt.Ev{"e": "History", "k": k[8:], "lo": lo, "vals": vals})
		}
	}
	emit(end)
	return err == nil && len(end["blocked"].([]int)) == 0 && panics == nil
}

func main() {
	in := flag.String("in", "", "schedules (ndjson)")
	outp := flag.String("out", "", "trace (ndjson)")
	dir := flag.String("dir", os.TempDir(), "scratch directory")
	flag.Parse()
	log.SetOutput(io.Discard)
	scheds, err := vt.ReadNDJSON[schedule](*in)
	if err != nil {
		vt.Fatal("%v", err)
	}
	out, err := vt.NewWriter(*outp)
	if err != nil {
		vt.Fatal("%v", err)
	}
	var db *NoKV.DB
	for i := range scheds {
		if i%reopenEvery == 0 {
			if db != nil {
				db.Close()
			}
			d := filepath.Join(*dir, fmt.Sprintf("db%d", i/reopenEvery))
			if err := os.MkdirAll(d, 0o755); err != nil {
				vt.Fatal("%v", err)
			}
			db = openDB(d)
		}
		if !runSchedule(db, &scheds[i], out) {
			break // the DB may hold a half-finished transaction: stop, the check reports the End event
		}
	}
	if db != nil {
		db.Close()
	}
	if err := out.Close(); err != nil {
		vt.Fatal("%v", err)
	}
}
