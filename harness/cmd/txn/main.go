// txn: executes transaction histories (C03 / C04) on a real DB: several Txn objects driven from
// ONE goroutine, so a history is deterministic. Histories come from spec/Txn/Oracle.tla (TLC).
// The driver records what the real code answered (read replies, error classes, the versions under
// which a commit's entries were really stored, full dumps of the stored versions); it contains no
// model of the transaction manager.
// usage: txn -in schedules.ndjson -out trace.ndjson [-dir scratch]
package main

import (
	"encoding/json"
	"errors"
	"flag"
	"fmt"
	"io"
	"log"
	"os"
	"os/exec"
	"runtime"
	"runtime/debug"
	"sort"
	"strings"
	"sync"
	"sync/atomic"
	"time"

	NoKV "github.com/feichai0017/NoKV"
	"github.com/feichai0017/NoKV/kv"
	"github.com/feichai0017/NoKV/utils"
	"github.com/feichai0017/NoKV/vfs"

	"verif/harness/internal/eng"
	"verif/harness/internal/vt"
)

type cfg struct {
	eng.Cfg
	MaxCount int64 `json:"maxcount"` // Options.MaxBatchCount (0: default)
	MaxSize  int64 `json:"maxsize"`  // Options.MaxBatchSize (0: default)
	HotLimit int32 `json:"hotlimit"` // Options.WriteHotKeyLimit (0: off)
	Window   int   `json:"window"`   // shrink the oracle's read-mark window to this many indices (0: keep 65536)
	Fault    bool  `json:"fault"`    // open through FaultFS (armed by the Concurrent op)
	WaitMs   int   `json:"waitms"`   // Options.WriteBatchWait in ms (coalesces concurrent commits into one batch)
}

type op struct {
	Op   string `json:"op"`
	T    int    `json:"t,omitempty"`
	Upd  bool   `json:"upd,omitempty"`
	K    string `json:"k,omitempty"`
	V    string `json:"v,omitempty"`
	Len  int    `json:"len,omitempty"`
	With bool   `json:"with,omitempty"` // CommitWith instead of Commit
	Exp  bool   `json:"exp,omitempty"`  // Set: the entry's expiry lies in 2001 (reads as not found)
	N    int    `json:"n,omitempty"`    // Concurrent: number of committing goroutines
	Fail int    `json:"fail,omitempty"` // Concurrent: fail the Fail-th WAL file write after the start (0: none)
	// maintenance
	Kind  string `json:"kind,omitempty"`
	Level int    `json:"level,omitempty"`
	Base  int    `json:"base,omitempty"`
}

type schedule struct {
	ID      int      `json:"id"`
	Cfg     cfg      `json:"cfg"`
	Keys    []string `json:"keys"`
	Observe bool     `json:"observe"` // a fresh read-only transaction reads every key after every step
	Ops     []op     `json:"ops"`
}

type verKey struct {
	k   string
	ver uint64
}

type runner struct {
	*eng.Runner
	sch    *schedule
	txns   map[int]*NoKV.Txn
	known  map[verKey]bool // stored (key, version) pairs seen in earlier dumps
	closed bool
	broken bool // an I/O fault was injected: the final Close may legitimately report it
}

func (r *runner) emit(ev vt.Ev) {
	ev["s"] = r.SID
	r.W.Emit(ev)
	// the code under test may abort the process (panic in one of its own goroutines)
	if f, ok := any(r.W).(interface{ Flush() error }); ok {
		_ = f.Flush()
	}
}

// ---- fault injection: the armed-th write to a WAL file fails once
var faultArmed atomic.Int64

func faultHook(op vfs.Op, path string) error {
	if op != vfs.OpFileWrite || !strings.HasSuffix(path, ".wal") {
		return nil
	}
	if faultArmed.Load() > 0 && faultArmed.Add(-1) == 0 {
		return errors.New("verif: injected WAL write failure")
	}
	return nil
}

func (r *runner) opts() *NoKV.Options {
	c := r.sch.Cfg
	o := NoKV.NewDefaultOptions()
	o.WorkDir = r.Dir
	o.MemTableSize = 8 << 20
	if c.Mem == "art" {
		o.MemTableEngine = NoKV.MemTableEngineART
	}
	o.ValueThreshold = 1 << 20
	if c.Vlog {
		o.ValueThreshold = 32
	}
	o.ValueLogBucketCount = max(c.Buckets, 1)
	o.ValueLogHotBucketCount = 0
	o.ValueLogFileSize = 1 << 20
	o.ValueLogGCInterval = 0
	o.EnableWALWatchdog = false
	o.HotRingEnabled = false
	o.WriteHotKeyLimit = c.HotLimit
	o.SyncWrites = c.Sync
	o.DetectConflicts = true
	o.NumCompactors = 1
	o.BlockCacheSize = 64
	o.BloomCacheSize = 64
	o.ManifestRewriteThreshold = 4 << 10
	if c.MaxCount > 0 {
		o.MaxBatchCount = c.MaxCount
	}
	if c.MaxSize > 0 {
		o.MaxBatchSize = c.MaxSize
	}
	if c.WaitMs > 0 {
		o.WriteBatchWait = time.Duration(c.WaitMs) * time.Millisecond
	}
	if c.Fault {
		o.FS = vfs.NewFaultFS(vfs.OSFS{}, faultHook)
	}
	return o
}

func (r *runner) open() {
	utils.VerifPause("compaction", true)
	eng.SetGated(false)
	r.DB = NoKV.Open(r.opts())
	deadline := time.Now().Add(30 * time.Second)
	for len(r.DB.VerifLSM().VerifLayout().Imm) > 0 {
		if time.Now().After(deadline) {
			vt.Fatal("flush did not finish within 30s")
		}
		time.Sleep(200 * time.Microsecond)
	}
	eng.SetGated(true)
	r.closed = false
	if n := r.sch.Cfg.Window; n > 0 {
		// same code, small window: rebuildWindowLocked runs every n timestamps instead of every 65536
		_, rm := r.DB.VerifOracleMarks()
		rm.VerifSetWindow(1, n)
	}
}

func (r *runner) close() error {
	eng.SetGated(false)
	err := r.DB.Close()
	r.closed = true
	return err
}

func errClass(err error) string {
	switch {
	case err == nil:
		return "ok"
	case errors.Is(err, utils.ErrConflict):
		return "conflict"
	case errors.Is(err, utils.ErrTxnTooBig):
		return "toobig"
	case errors.Is(err, utils.ErrBlockedWrites):
		return "blocked"
	case errors.Is(err, utils.ErrHotKeyWriteThrottle):
		return "throttled"
	case errors.Is(err, utils.ErrKeyNotFound):
		return "NOTFOUND"
	}
	return "error"
}

func errText(err error) string {
	if err == nil {
		return ""
	}
	return err.Error()
}

type stored struct {
	K    string
	Ver  uint64
	Tomb bool
}

// dump lists every stored (key, version) of the default column family through the internal iterator.
func (r *runner) dump() []stored {
	it := r.DB.NewInternalIterator(&utils.Options{IsAsc: true})
	defer it.Close()
	var out []stored
	seen := map[verKey]bool{}
	for it.Rewind(); it.Valid(); it.Next() {
		e := it.Item().Entry()
		cf, uk, ts := kv.SplitInternalKey(e.Key)
		if cf != kv.CFDefault {
			continue
		}
		vk := verKey{string(uk), ts}
		if seen[vk] {
			continue
		}
		seen[vk] = true
		out = append(out, stored{K: string(uk), Ver: ts, Tomb: e.Meta&kv.BitDelete != 0})
	}
	return out
}

func (r *runner) txn(t int) *NoKV.Txn {
	x := r.txns[t]
	if x == nil {
		vt.Fatal("schedule %d uses transaction %d before Begin", r.SID, t)
	}
	return x
}

func (r *runner) get(t int, k string) {
	item, err := r.txn(t).Get([]byte(k))
	res := ""
	if err != nil {
		res = errClass(err)
		if res == "error" {
			res = "ERR:" + err.Error()
		}
	} else {
		v, verr := item.ValueCopy(nil)
		if verr != nil {
			res = "ERR:" + verr.Error()
		} else {
			res = eng.Shrink(v)
		}
	}
	r.emit(vt.Ev{"e": "Get", "t": t, "k": k, "r": res})
}

func (r *runner) observe() {
	if !r.sch.Observe || r.closed {
		return
	}
	x := r.DB.NewTransaction(false)
	r.txns[0] = x
	r.emit(vt.Ev{"e": "Begin", "t": 0, "rts": int(x.ReadTs()), "upd": false})
	for _, k := range r.sch.Keys {
		r.get(0, k)
	}
	x.Discard()
	delete(r.txns, 0)
	r.emit(vt.Ev{"e": "Discard", "t": 0})
}

func (r *runner) commit(o op) {
	x := r.txn(o.T)
	var err error
	if o.With {
		ch := make(chan error, 1)
		x.CommitWith(func(e error) { ch <- e })
		select {
		case err = <-ch:
		case <-time.After(30 * time.Second):
			vt.Fatal("CommitWith callback did not run within 30s")
		}
	} else {
		err = x.Commit()
	}
	delete(r.txns, o.T)
	ev := vt.Ev{"e": "Commit", "t": o.T, "r": errClass(err), "err": errText(err), "with": o.With}
	// which entries did this call really add to the store, and under which versions?
	vers := []int{}
	keys := []string{}
	if !r.closed {
		vs := map[uint64]bool{}
		for _, s := range r.dump() {
			vk := verKey{s.K, s.Ver}
			if !r.known[vk] {
				r.known[vk] = true
				vs[s.Ver] = true
				keys = append(keys, s.K)
			}
		}
		for v := range vs {
			vers = append(vers, int(v))
		}
		sort.Ints(vers)
		sort.Strings(keys)
	}
	ev["vers"] = vers
	ev["nk"] = keys
	r.emit(ev)
}

func (r *runner) fullDump() {
	ents := []map[string]any{}
	for _, s := range r.dump() {
		r.known[verKey{s.K, s.Ver}] = true
		v := "TOMB"
		e, err := r.DB.GetVersionedEntry(kv.CFDefault, []byte(s.K), s.Ver)
		switch {
		case err != nil:
			v = "ERR:" + err.Error()
		case e.Meta&kv.BitDelete != 0:
			v = "TOMB"
		default:
			v = eng.Shrink(e.Value)
		}
		ents = append(ents, map[string]any{"k": s.K, "ver": int(s.Ver), "v": v})
	}
	r.emit(vt.Ev{"e": "Dump", "ents": ents})
}

// concurrent: N goroutines each commit one blind-write transaction (a large and a small value) at the
// same moment, so that the commit worker coalesces them into batches; optionally one WAL file write
// fails. Free-running: only call/return is recorded (CCommit, in completion order) and afterwards every
// stored version (CDump); the property layer judges every commit on its own.
func (r *runner) concurrent(o op) {
	type res struct {
		i   int
		err error
		w   []map[string]any
	}
	n := o.N
	out := make(chan res, n)
	start := make(chan struct{})
	var ready sync.WaitGroup
	for i := 0; i < n; i++ {
		ready.Add(1)
		go func(i int) {
			x := r.DB.NewTransaction(true)
			big, small := fmt.Sprintf("cb%d", i), fmt.Sprintf("cs%d", i)
			vb, vs := fmt.Sprintf("B%d_%d", r.SID, i), fmt.Sprintf("S%d_%d", r.SID, i)
			w := []map[string]any{}
			if err := x.Set([]byte(big), eng.Expand(vb, 270000)); err == nil {
				w = append(w, map[string]any{"k": big, "v": vb})
			}
			if err := x.Set([]byte(small), eng.Expand(vs, 24)); err == nil {
				w = append(w, map[string]any{"k": small, "v": vs})
			}
			ready.Done()
			<-start
			var err error
			if i%2 == 1 {
				ch := make(chan error, 1)
				x.CommitWith(func(e error) { ch <- e })
				err = <-ch
			} else {
				err = x.Commit()
			}
			out <- res{i, err, w}
		}(i)
	}
	ready.Wait()
	faultArmed.Store(int64(o.Fail))
	close(start)
	for i := 0; i < n; i++ {
		x := <-out
		r.emit(vt.Ev{"e": "CCommit", "t": 100 + x.i, "r": errClass(x.err), "err": errText(x.err), "w": x.w})
	}
	faultArmed.Store(0)
	ents := []map[string]any{}
	for _, s := range r.dump() {
		v := "TOMB"
		e, err := r.DB.GetVersionedEntry(kv.CFDefault, []byte(s.K), s.Ver)
		switch {
		case err != nil:
			v = "ERR:" + err.Error()
		case e.Meta&kv.BitDelete != 0:
		default:
			v = eng.Shrink(e.Value)
		}
		ents = append(ents, map[string]any{"k": s.K, "ver": int(s.Ver), "v": v})
	}
	r.emit(vt.Ev{"e": "CDump", "ents": ents})
	r.broken = o.Fail > 0
}

func (r *runner) exec(o op) {
	switch o.Op {
	case "Begin":
		x := r.DB.NewTransaction(o.Upd)
		r.txns[o.T] = x
		r.emit(vt.Ev{"e": "Begin", "t": o.T, "rts": int(x.ReadTs()), "upd": o.Upd})
	case "Get":
		r.get(o.T, o.K)
	case "Scan":
		it := r.txn(o.T).NewIterator(NoKV.IteratorOptions{})
		res := []map[string]any{}
		for it.Rewind(); it.Valid() && len(res) < 64; it.Next() {
			x := it.Item()
			v, err := x.ValueCopy(nil)
			tok := ""
			if err != nil {
				tok = "ERR:" + err.Error()
			} else {
				tok = eng.Shrink(v)
			}
			res = append(res, map[string]any{"k": string(x.Entry().Key), "v": tok})
		}
		it.Close()
		r.emit(vt.Ev{"e": "Scan", "t": o.T, "res": res})
	case "Set":
		n := o.Len
		if n <= 0 {
			n = 24
		}
		var err error
		if o.Exp {
			e := kv.NewEntry([]byte(o.K), eng.Expand(o.V, n))
			e.ExpiresAt = 1000000000 // 2001: expired whatever the wall clock says
			err = r.txn(o.T).SetEntry(e)
		} else {
			err = r.txn(o.T).Set([]byte(o.K), eng.Expand(o.V, n))
		}
		r.emit(vt.Ev{"e": "Set", "t": o.T, "k": o.K, "v": o.V, "exp": o.Exp, "ok": err == nil, "r": errClass(err), "err": errText(err)})
	case "Del":
		err := r.txn(o.T).Delete([]byte(o.K))
		r.emit(vt.Ev{"e": "Del", "t": o.T, "k": o.K, "ok": err == nil, "r": errClass(err), "err": errText(err)})
	case "Commit":
		r.commit(o)
	case "Discard":
		r.txn(o.T).Discard()
		delete(r.txns, o.T)
		r.emit(vt.Ev{"e": "Discard", "t": o.T})
	case "Close":
		err := r.close()
		r.emit(vt.Ev{"e": "Maint", "what": "Close", "ok": err == nil, "err": errText(err)})
	case "Reopen":
		var err error
		if !r.closed {
			err = r.close()
		}
		r.txns = map[int]*NoKV.Txn{}
		r.open()
		r.emit(vt.Ev{"e": "Maint", "what": "Reopen", "ok": err == nil, "err": errText(err)})
	case "Dump":
		r.fullDump()
	case "Concurrent":
		r.concurrent(o)
	default: // Rotate | Flush | Compact: the engine family's maintenance actions
		r.Exec(eng.Op{Op: o.Op, Kind: o.Kind, Level: o.Level, Base: o.Base})
	}
}

func runSchedule(base string, s *schedule, w *vt.Writer) {
	dir, err := os.MkdirTemp(base, "db-")
	if err != nil {
		vt.Fatal("mkdtemp: %v", err)
	}
	defer os.RemoveAll(dir)
	r := &runner{Runner: &eng.Runner{Dir: dir, Cfg: s.Cfg.Cfg, W: w, SID: s.ID, Sch: &eng.Schedule{}}, sch: s,
		txns: map[int]*NoKV.Txn{}, known: map[verKey]bool{}}
	defer func() {
		if p := recover(); p != nil {
			msg := fmt.Sprint(p)
			if len(msg) > 300 {
				msg = msg[:300]
			}
			st := string(debug.Stack())
			if len(st) > 3000 {
				st = st[:3000]
			}
			r.emit(vt.Ev{"e": "Panic", "msg": msg, "stack": st})
		}
	}()
	r.open()
	for _, o := range s.Ops {
		done := make(chan struct{})
		var pan any
		go func() {
			defer func() {
				pan = recover()
				close(done)
			}()
			r.exec(o)
			if o.Op != "Close" && o.Op != "Dump" {
				r.observe()
			}
		}()
		select {
		case <-done:
			if pan != nil {
				panic(pan)
			}
		case <-time.After(240 * time.Second):
			r.emit(vt.Ev{"e": "Hang", "op": o.Op})
			w.Close()
			buf := make([]byte, 1<<20)
			n := runtime.Stack(buf, true)
			os.WriteFile(fmt.Sprintf("%s/hang-%d.txt", base, s.ID), buf[:n], 0o644)
			b, _ := json.Marshal(s)
			os.WriteFile(fmt.Sprintf("%s/hang-%d.json", base, s.ID), b, 0o644)
			vt.Fatal("schedule %d: %s did not return within 240s", s.ID, o.Op)
		}
	}
	if !r.closed {
		for _, x := range r.txns {
			x.Discard()
		}
		if err := r.close(); err != nil && !r.broken {
			r.emit(vt.Ev{"e": "Maint", "what": "Close", "ok": false, "err": err.Error()})
		}
	}
}

// The code under test may kill the process (a panic in one of its own goroutines cannot be recovered
// here), so schedules run in a child process: when the child dies, the parent records a Crash event for
// the schedule that was running and resumes with the next one.
func main() {
	in := flag.String("in", "", "schedules (ndjson)")
	out := flag.String("out", "", "trace (ndjson)")
	dir := flag.String("dir", os.TempDir(), "scratch directory")
	child := flag.Bool("child", false, "run the schedules in this process")
	from := flag.Int("from", 0, "first schedule index")
	flag.Parse()
	log.SetOutput(io.Discard)
	scheds, err := vt.ReadNDJSON[schedule](*in)
	if err != nil {
		vt.Fatal("%v", err)
	}
	if *child {
		w, err := vt.NewWriter(*out)
		if err != nil {
			vt.Fatal("%v", err)
		}
		for i := *from; i < len(scheds); i++ {
			_ = os.WriteFile(*out+".progress", []byte(fmt.Sprint(i)), 0o644)
			runSchedule(*dir, &scheds[i], w)
		}
		if err := w.Close(); err != nil {
			vt.Fatal("%v", err)
		}
		return
	}
	final, err := os.Create(*out)
	if err != nil {
		vt.Fatal("%v", err)
	}
	defer final.Close()
	self, _ := os.Executable()
	for i, part := 0, 0; i < len(scheds); part++ {
		po := fmt.Sprintf("%s.part%d", *out, part)
		cmd := exec.Command(self, "-child", "-from", fmt.Sprint(i), "-in", *in, "-out", po, "-dir", *dir)
		var stderr strings.Builder
		cmd.Stderr = &stderr
		cmd.Stdout = &stderr
		runErr := cmd.Run()
		// copy the complete lines the child wrote
		if b, err := os.ReadFile(po); err == nil {
			if k := strings.LastIndexByte(string(b), '\n'); k >= 0 {
				final.Write(b[:k+1])
			}
		}
		os.Remove(po)
		if runErr == nil {
			break
		}
		code := -1
		if ee, ok := runErr.(*exec.ExitError); ok {
			code = ee.ExitCode()
		}
		if code == 3 { // vt.Fatal: the driver itself gave up
			fmt.Fprint(os.Stderr, stderr.String())
			os.Exit(3)
		}
		cur := i
		if b, err := os.ReadFile(po + ".progress"); err == nil {
			fmt.Sscan(string(b), &cur)
		}
		msg := stderr.String()
		if k := strings.Index(msg, "panic:"); k >= 0 {
			msg = msg[k:]
		} else if k := strings.Index(msg, "fatal error:"); k >= 0 {
			msg = msg[k:]
		}
		if len(msg) > 2500 {
			msg = msg[:2500]
		}
		ev, _ := json.Marshal(vt.Ev{"e": "Crash", "s": scheds[cur].ID, "exit": code, "msg": msg})
		final.Write(append(ev, '\n'))
		i = cur + 1
	}
}
