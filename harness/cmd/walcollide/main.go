// walcollide: reproduces the WAL-internal rotation / memtable segment id collision (C09/C12 candidate).
// usage: walcollide -dir D -phase write|check -mem <bytes> -n <records>
package main

import (
	"flag"
	"fmt"
	"io"
	"log"
	"os"

	NoKV "github.com/feichai0017/NoKV"
	"github.com/feichai0017/NoKV/utils"
	"verif/harness/internal/eng"
)

func main() {
	log.SetOutput(io.Discard)
	dir := flag.String("dir", "", "")
	phase := flag.String("phase", "write", "")
	mem := flag.Int64("mem", 80<<20, "")
	n := flag.Int("n", 75000, "")
	crash := flag.Bool("crash", false, "exit without Close")
	flag.Parse()
	o := NoKV.NewDefaultOptions()
	o.WorkDir = *dir
	o.MemTableSize = *mem
	o.SyncWrites = false
	o.ValueThreshold = 1 << 20
	o.EnableWALWatchdog = false
	o.HotRingEnabled = false
	o.WriteHotKeyLimit = 0
	o.ValueLogGCInterval = 0
	utils.VerifPause("compaction", true)
	eng.SetGated(*phase == "write") // keep sealed memtables unflushed while writing
	db := NoKV.Open(o)
	if *phase == "write" {
		for i := 0; i < *n; i++ {
			if err := db.Set([]byte(fmt.Sprintf("key%07d", i)), eng.Expand(fmt.Sprintf("v%d", i), 1000)); err != nil {
				fmt.Println("set error", i, err)
				os.Exit(1)
			}
		}
		lay := db.VerifLSM().VerifLayout()
		fmt.Printf("layout mem=%d imm=%v\n", lay.Mem, lay.Imm)
		if *crash {
			_ = db.WAL().Sync()
			os.Exit(0)
		}
		eng.SetGated(false)
		_ = db.Close()
		return
	}
	missing, first := 0, -1
	for i := 0; i < *n; i++ {
		e, err := db.Get([]byte(fmt.Sprintf("key%07d", i)))
		if err != nil || eng.Shrink(e.Value) != fmt.Sprintf("v%d", i) {
			missing++
			if first < 0 {
				first = i
			}
		}
	}
	fmt.Printf("missing=%d first=%d of %d\n", missing, first, *n)
	_ = db.Close()
}
