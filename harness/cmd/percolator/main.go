// percolator: runs Percolator-family schedules (C17, C18, C19) on a real DB.
// Every transactional request goes through the public entry point raftstore/kv.Apply;
// maintenance steps (rotate, gated flush, forced compactions, reopen) reuse internal/eng.
// After every step the driver probes the lock column (percolator.Reader.GetLock) and reads
// every key at every probe timestamp through GET and SCAN requests. It records what the
// real code answered and contains no model of the protocol.
// usage: percolator -in schedules.ndjson -out trace.ndjson [-dir scratch]
package main

import (
	"flag"
	"fmt"
	"io"
	"log"
	"os"
	"strconv"
	"strings"

	"github.com/feichai0017/NoKV/kv"
	"github.com/feichai0017/NoKV/pb"
	"github.com/feichai0017/NoKV/percolator"
	rkv "github.com/feichai0017/NoKV/raftstore/kv"

	"verif/harness/internal/eng"
	"verif/harness/internal/vt"
)

type Op struct {
	Op string `json:"op"`
	// transactional requests (single key per request)
	Start   uint64 `json:"start,omitempty"`
	Commit  uint64 `json:"commit,omitempty"`
	K       int    `json:"k,omitempty"`    // key index (1-based): key "k<K>"
	Kind    string `json:"kind,omitempty"` // put | del | lock
	V       string `json:"v,omitempty"`
	TTL     uint64 `json:"ttl,omitempty"`
	MinC    uint64 `json:"minc,omitempty"`
	PK      int    `json:"pk,omitempty"` // primary key index
	Cur     uint64 `json:"cur,omitempty"`
	Caller  uint64 `json:"caller,omitempty"`
	RBNE    bool   `json:"rbne,omitempty"`
	TS      uint64 `json:"ts,omitempty"`
	From    int    `json:"from,omitempty"`
	Incl    bool   `json:"incl,omitempty"`
	Limit   uint32 `json:"limit,omitempty"`
	NoProbe bool   `json:"noprobe,omitempty"`
	// maintenance (passed to eng.Runner)
	CKind string `json:"ckind,omitempty"`
	Level int    `json:"level,omitempty"`
	Base  int    `json:"base,omitempty"`
}

type Schedule struct {
	ID     int      `json:"id"`
	Cfg    eng.Cfg  `json:"cfg"`
	NKeys  int      `json:"nkeys"`  // keys k1..kN are probed
	ReadTs []uint64 `json:"readts"` // probe timestamps for GET/SCAN after every step
	Probe  bool     `json:"probe"`
	Ops    []Op     `json:"ops"`
}

func key(i int) []byte { return []byte("k" + strconv.Itoa(i)) }

func keyIdx(b []byte) int {
	s := string(b)
	if strings.HasPrefix(s, "k") {
		if n, err := strconv.Atoi(s[1:]); err == nil {
			return n
		}
	}
	return -1
}

// errClass projects a KeyError onto the classes the property talks about.
func errClass(e *pb.KeyError) (string, uint64) {
	switch {
	case e == nil:
		return "ok", 0
	case e.GetLocked() != nil:
		return "locked", e.GetLocked().GetLockVersion()
	case e.GetWriteConflict() != nil:
		return "conflict", 0
	case e.GetCommitTsExpired() != nil:
		return "expired", 0
	case e.GetAbort() != "":
		return "abort", 0
	case e.GetRetryable() != "":
		return "retry", 0
	case e.GetAlreadyExists() != nil:
		return "exists", 0
	}
	return "error", 0
}

func errText(e *pb.KeyError) string {
	if e == nil {
		return ""
	}
	return e.String()
}

type runner struct {
	*eng.Runner
	s *Schedule
}

func (r *runner) emit(ev vt.Ev) {
	ev["s"] = r.SID
	r.W.Emit(ev)
}

func (r *runner) apply(req *pb.Request) *pb.Response {
	resp, err := rkv.Apply(r.DB, &pb.RaftCmdRequest{Requests: []*pb.Request{req}})
	if err != nil {
		r.emit(vt.Ev{"e": "ApplyError", "cmd": req.GetCmdType().String(), "err": err.Error()})
		return nil
	}
	if len(resp.GetResponses()) != 1 {
		r.emit(vt.Ev{"e": "ApplyError", "cmd": req.GetCmdType().String(), "err": fmt.Sprintf("%d responses", len(resp.GetResponses()))})
		return nil
	}
	return resp.Responses[0]
}

func mutOp(kind string) pb.Mutation_Op {
	switch kind {
	case "del":
		return pb.Mutation_Delete
	case "lock":
		return pb.Mutation_Lock
	}
	return pb.Mutation_Put
}

func kindName(k pb.Mutation_Op) string {
	switch k {
	case pb.Mutation_Put:
		return "put"
	case pb.Mutation_Delete:
		return "del"
	case pb.Mutation_Lock:
		return "lock"
	case pb.Mutation_Rollback:
		return "rollback"
	}
	return "?"
}

func (r *runner) valLen() int {
	if r.Cfg.ValLen > 0 {
		return r.Cfg.ValLen
	}
	return 48
}

func shrink(b []byte) string {
	if len(b) == 0 {
		return "EMPTY"
	}
	return eng.Shrink(b)
}

// srcs lists where the storage engine keeps copies of (cf, key), in lookup order (newest source
// first). It is recorded only to classify failures caused by recorded storage-level findings.
func (r *runner) srcs(cf kv.ColumnFamily, k int) []map[string]any {
	out := []map[string]any{}
	for _, s := range r.DB.VerifLSM().VerifLocate(cf, key(k)) {
		out = append(out, map[string]any{"kind": s.Kind, "level": s.Level, "id": s.ID, "ver": eng.VerBack(s.Version), "del": s.Meta&kv.BitDelete != 0})
	}
	return out
}

func (r *runner) get(k int, ts uint64) {
	resp := r.apply(&pb.Request{CmdType: pb.CmdType_CMD_GET, Cmd: &pb.Request_Get{Get: &pb.GetRequest{Key: key(k), Version: ts}}})
	if resp == nil {
		return
	}
	g := resp.GetGet()
	ev := vt.Ev{"e": "Get", "k": k, "ts": ts, "v": "", "lts": 0, "src": r.srcs(kv.CFDefault, k), "lsrc": r.srcs(kv.CFLock, k)}
	switch {
	case g.GetError() != nil:
		c, lts := errClass(g.GetError())
		ev["r"], ev["lts"] = c, lts
	case g.GetNotFound():
		ev["r"] = "notfound"
	default:
		ev["r"], ev["v"] = "value", shrink(g.GetValue())
	}
	r.emit(ev)
}

func (r *runner) scan(ts uint64, from int, incl bool, limit uint32) {
	req := &pb.ScanRequest{Version: ts, Limit: limit, IncludeStart: incl}
	if from > 0 {
		req.StartKey = key(from)
	}
	resp := r.apply(&pb.Request{CmdType: pb.CmdType_CMD_SCAN, Cmd: &pb.Request_Scan{Scan: req}})
	if resp == nil {
		return
	}
	sc := resp.GetScan()
	kvs := []map[string]any{}
	for _, p := range sc.GetKvs() {
		kvs = append(kvs, map[string]any{"k": keyIdx(p.GetKey()), "v": shrink(p.GetValue())})
	}
	ev := vt.Ev{"e": "Scan", "ts": ts, "from": from, "incl": incl, "limit": limit, "kvs": kvs, "r": "ok", "lk": 0, "lts": 0}
	if sc.GetError() != nil {
		c, lts := errClass(sc.GetError())
		ev["r"], ev["lts"] = c, lts
		if l := sc.GetError().GetLocked(); l != nil {
			ev["lk"] = keyIdx(l.GetKey())
		}
	}
	r.emit(ev)
}

func (r *runner) lockProbe(k int) {
	l, err := percolator.NewReader(r.DB).GetLock(key(k))
	ev := vt.Ev{"e": "Lock", "k": k, "ts": 0, "mc": 0, "ttl": 0, "kind": "", "lsrc": r.srcs(kv.CFLock, k)}
	if err != nil {
		ev["err"] = err.Error()
		ev["ts"] = -1
	} else if l != nil {
		ev["ts"], ev["mc"], ev["ttl"], ev["kind"] = l.Ts, l.MinCommitTs, l.TTL, kindName(l.Kind)
	}
	r.emit(ev)
}

func (r *runner) probe() {
	for k := 1; k <= r.s.NKeys; k++ {
		r.lockProbe(k)
	}
	for _, ts := range r.s.ReadTs {
		for k := 1; k <= r.s.NKeys; k++ {
			r.get(k, ts)
		}
		r.scan(ts, 0, true, 16)
	}
	// start-key and limit handling, at the newest probe timestamp
	if n := len(r.s.ReadTs); n > 0 {
		r.scan(r.s.ReadTs[n-1], 1, false, 16)
		r.scan(r.s.ReadTs[n-1], 1, true, 1)
	}
}

func (r *runner) exec(op Op) {
	switch op.Op {
	case "Prewrite":
		m := &pb.Mutation{Op: mutOp(op.Kind), Key: key(op.K)}
		if op.Kind == "put" || op.Kind == "" {
			m.Value = eng.Expand(op.V, r.valLen())
		}
		resp := r.apply(&pb.Request{CmdType: pb.CmdType_CMD_PREWRITE, Cmd: &pb.Request_Prewrite{Prewrite: &pb.PrewriteRequest{
			Mutations: []*pb.Mutation{m}, PrimaryLock: key(op.PK), StartVersion: op.Start, LockTtl: op.TTL, MinCommitTs: op.MinC}}})
		if resp == nil {
			return
		}
		var ke *pb.KeyError
		if errs := resp.GetPrewrite().GetErrors(); len(errs) > 0 {
			ke = errs[0]
		}
		c, lts := errClass(ke)
		kind := op.Kind
		if kind == "" {
			kind = "put"
		}
		r.emit(vt.Ev{"e": "Prewrite", "start": op.Start, "k": op.K, "kind": kind, "v": op.V, "ttl": op.TTL, "minc": op.MinC, "pk": op.PK,
			"r": c, "lts": lts, "err": errText(ke)})
	case "Commit":
		resp := r.apply(&pb.Request{CmdType: pb.CmdType_CMD_COMMIT, Cmd: &pb.Request_Commit{Commit: &pb.CommitRequest{
			Keys: [][]byte{key(op.K)}, StartVersion: op.Start, CommitVersion: op.Commit}}})
		if resp == nil {
			return
		}
		c, lts := errClass(resp.GetCommit().GetError())
		r.emit(vt.Ev{"e": "Commit", "start": op.Start, "commit": op.Commit, "k": op.K, "r": c, "lts": lts, "err": errText(resp.GetCommit().GetError())})
	case "Rollback":
		resp := r.apply(&pb.Request{CmdType: pb.CmdType_CMD_BATCH_ROLLBACK, Cmd: &pb.Request_BatchRollback{BatchRollback: &pb.BatchRollbackRequest{
			Keys: [][]byte{key(op.K)}, StartVersion: op.Start}}})
		if resp == nil {
			return
		}
		c, lts := errClass(resp.GetBatchRollback().GetError())
		r.emit(vt.Ev{"e": "Rollback", "start": op.Start, "k": op.K, "r": c, "lts": lts, "err": errText(resp.GetBatchRollback().GetError())})
	case "Resolve":
		resp := r.apply(&pb.Request{CmdType: pb.CmdType_CMD_RESOLVE_LOCK, Cmd: &pb.Request_ResolveLock{ResolveLock: &pb.ResolveLockRequest{
			Keys: [][]byte{key(op.K)}, StartVersion: op.Start, CommitVersion: op.Commit}}})
		if resp == nil {
			return
		}
		c, lts := errClass(resp.GetResolveLock().GetError())
		r.emit(vt.Ev{"e": "Resolve", "start": op.Start, "commit": op.Commit, "k": op.K, "r": c, "lts": lts, "n": resp.GetResolveLock().GetResolvedLocks(),
			"err": errText(resp.GetResolveLock().GetError())})
	case "Check":
		resp := r.apply(&pb.Request{CmdType: pb.CmdType_CMD_CHECK_TXN_STATUS, Cmd: &pb.Request_CheckTxnStatus{CheckTxnStatus: &pb.CheckTxnStatusRequest{
			PrimaryKey: key(op.K), LockTs: op.Start, CurrentTs: op.Cur, CallerStartTs: op.Caller, RollbackIfNotExist: op.RBNE}}})
		if resp == nil {
			return
		}
		cs := resp.GetCheckTxnStatus()
		c, lts := errClass(cs.GetError())
		act := map[pb.CheckTxnStatusAction]string{
			pb.CheckTxnStatusAction_CheckTxnStatusNoAction:             "none",
			pb.CheckTxnStatusAction_CheckTxnStatusTTLExpireRollback:    "ttl",
			pb.CheckTxnStatusAction_CheckTxnStatusLockNotExistRollback: "notexist",
			pb.CheckTxnStatusAction_CheckTxnStatusMinCommitTsPushed:    "pushed",
		}[cs.GetAction()]
		r.emit(vt.Ev{"e": "Check", "start": op.Start, "k": op.K, "cur": op.Cur, "caller": op.Caller, "rbne": op.RBNE,
			"r": c, "lts": lts, "act": act, "cv": cs.GetCommitVersion(), "lttl": cs.GetLockTtl(), "err": errText(cs.GetError())})
	case "Get":
		r.get(op.K, op.TS)
		return
	case "Scan":
		r.scan(op.TS, op.From, op.Incl, op.Limit)
		return
	case "Rotate", "Flush", "Reopen":
		r.Exec(eng.Op{Op: op.Op})
	case "Compact":
		r.Exec(eng.Op{Op: "Compact", Kind: op.CKind, Level: op.Level, Base: op.Base})
	default:
		vt.Fatal("unknown op %q", op.Op)
	}
	if r.s.Probe && !op.NoProbe && r.DB != nil {
		r.probe()
	}
}

func runSchedule(base string, s *Schedule, w *vt.Writer) {
	dir, err := os.MkdirTemp(base, "db-")
	if err != nil {
		vt.Fatal("mkdtemp: %v", err)
	}
	defer os.RemoveAll(dir)
	r := &runner{Runner: &eng.Runner{Dir: dir, Cfg: s.Cfg, W: w, SID: s.ID}, s: s}
	if !r.Open() {
		return
	}
	for _, op := range s.Ops {
		if r.DB == nil {
			break
		}
		r.exec(op)
	}
	if r.DB != nil {
		if err := r.Close(); err != nil {
			r.emit(vt.Ev{"e": "Close", "ok": false, "err": err.Error()})
		}
	}
}

func main() {
	in := flag.String("in", "", "schedules (ndjson)")
	out := flag.String("out", "", "trace (ndjson)")
	dir := flag.String("dir", os.TempDir(), "scratch directory")
	flag.Parse()
	log.SetOutput(io.Discard)
	scheds, err := vt.ReadNDJSON[Schedule](*in)
	if err != nil {
		vt.Fatal("%v", err)
	}
	w, err := vt.NewWriter(*out)
	if err != nil {
		vt.Fatal("%v", err)
	}
	for i := range scheds {
		runSchedule(*dir, &scheds[i], w)
	}
	if err := w.Close(); err != nil {
		vt.Fatal("%v", err)
	}
}
