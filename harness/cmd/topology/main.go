// topology: feeds TLC-enumerated topologies (spec/Topology/Topology.tla) to the real
// config.File.Validate (C38) and records accept/reject. No model of the rules here.
// usage: topology -in cases.ndjson -out replies.ndjson [-dir scratch]
//
// Each topology is rendered as the JSON configuration file format and parsed the way
// config.LoadFile does (every 997th case really goes through LoadFile on disk). Fields the
// property does not talk about (addresses, keys, epochs, PD) are set to well-formed values.
package main

import (
	"bufio"
	"encoding/json"
	"flag"
	"fmt"
	"os"
	"path/filepath"
	"strings"

	"github.com/feichai0017/NoKV/config"
	"verif/harness/internal/vt"
)

type peer struct {
	StoreID uint64 `json:"store_id"`
	PeerID  uint64 `json:"peer_id"`
}
type region struct {
	ID     uint64 `json:"id"`
	Leader uint64 `json:"leader_store_id"`
	Peers  []peer `json:"peers"`
}
type topo struct {
	Stores  []uint64 `json:"stores"`
	Regions []region `json:"regions"`
	Tmpl    []string `json:"tmpl"`
	DTmpl   []string `json:"dtmpl"`
}
type tcase struct {
	T topo `json:"t"`
}

// render produces the configuration file text for a topology.
func render(t *topo) []byte {
	m := map[string]any{
		"max_retries": 3,
		"pd":          map[string]any{"addr": "127.0.0.1:2379", "docker_addr": "pd:2379"},
	}
	if len(t.Tmpl) > 0 {
		m["store_work_dir_template"] = strings.Join(t.Tmpl, "")
	}
	if len(t.DTmpl) > 0 {
		m["store_docker_work_dir_template"] = strings.Join(t.DTmpl, "")
	}
	stores := make([]any, 0, len(t.Stores))
	for i, id := range t.Stores {
		stores = append(stores, map[string]any{
			"store_id": id, "addr": fmt.Sprintf("127.0.0.1:%d", 20160+i), "listen_addr": fmt.Sprintf("0.0.0.0:%d", 20160+i),
			"docker_addr": fmt.Sprintf("store%d:20160", i), "docker_listen_addr": "0.0.0.0:20160",
		})
	}
	m["stores"] = stores
	regions := make([]any, 0, len(t.Regions))
	for i, r := range t.Regions {
		// consecutive ranges: region i covers [k<i>, k<i+1>), first/last unbounded
		start, end := "", ""
		if i > 0 {
			start = fmt.Sprintf("k%d", i)
		}
		if i+1 < len(t.Regions) {
			end = fmt.Sprintf("k%d", i+1)
		}
		peers := make([]any, 0, len(r.Peers))
		for _, p := range r.Peers {
			peers = append(peers, map[string]any{"store_id": p.StoreID, "peer_id": p.PeerID})
		}
		regions = append(regions, map[string]any{
			"id": r.ID, "start_key": start, "end_key": end, "epoch": map[string]any{"version": 1, "conf_version": 1},
			"peers": peers, "leader_store_id": r.Leader,
		})
	}
	m["regions"] = regions
	b, err := json.Marshal(m)
	if err != nil {
		vt.Fatal("%v", err)
	}
	return b
}

func main() {
	in := flag.String("in", "", "cases (ndjson)")
	out := flag.String("out", "", "replies (ndjson)")
	dir := flag.String("dir", os.TempDir(), "scratch directory")
	flag.Parse()
	f, err := os.Open(*in)
	if err != nil {
		vt.Fatal("%v", err)
	}
	defer f.Close()
	w, err := vt.NewWriter(*out)
	if err != nil {
		vt.Fatal("%v", err)
	}
	sc := bufio.NewScanner(f)
	sc.Buffer(make([]byte, 1<<20), 1<<26)
	n := 0
	for sc.Scan() {
		if len(sc.Bytes()) == 0 {
			continue
		}
		var c tcase
		if err := json.Unmarshal(sc.Bytes(), &c); err != nil {
			vt.Fatal("case %d: %v", n, err)
		}
		text := render(&c.T)
		var cfg *config.File
		if n%997 == 0 {
			p := filepath.Join(*dir, "topology.json")
			if err := os.WriteFile(p, text, 0o644); err != nil {
				vt.Fatal("%v", err)
			}
			if cfg, err = config.LoadFile(p); err != nil {
				vt.Fatal("case %d: LoadFile: %v", n, err)
			}
		} else {
			cfg = &config.File{}
			if err := json.Unmarshal(text, cfg); err != nil {
				vt.Fatal("case %d: parse: %v", n, err)
			}
		}
		verr := cfg.Validate()
		ev := vt.Ev{"i": n, "accepted": verr == nil}
		if verr != nil {
			ev["err"] = verr.Error()
		}
		w.Emit(ev)
		n++
	}
	if err := sc.Err(); err != nil {
		vt.Fatal("%v", err)
	}
	if err := w.Close(); err != nil {
		vt.Fatal("%v", err)
	}
}
