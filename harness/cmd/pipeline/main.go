// pipeline: binds spec/Pipeline to the real write pipeline of NoKV (C34, C37).
//
// A scenario opens a real DB (NoKV.Open) and runs
//   - client threads: goroutines issuing DB.Set / DB.Del / DB.Get on a few keys, every written
//     value unique; a Call event is recorded before each call and a Ret event after it returned,
//     both numbered by one global sequence (taken under the recorder's lock);
//   - a control thread executing a small program: wait until N calls were issued / returned,
//     toggle the L0 write throttle (verif accessor DB.VerifSetThrottle -> DB.applyThrottle),
//     stall / resume the commit worker (blocking utils.VerifHook at the commit worker's yield
//     points = slow consumer), start a burst of writers that overfills the commit queue, Close.
//   - mode "drainrace": a gate-by-gate replay of the CommitQueue.tla counterexample for the
//     queue-drain check (writer between its closed check and Ring.Push, closer between setting
//     the flag and closing the ring, worker between its two drain loads).
//
// Termination (C37): the scenario has a generous budget; when it expires the driver dumps all
// goroutines twice (2 s apart), records a Hang event naming the calls that did not return, and
// exits with status 4 (goroutines parked in the engine cannot be recovered).  The check decides.
//
// The driver contains no model of the system: it records what the real code did.
//
// usage: pipeline -in scenarios.ndjson -out events.ndjson -dir workdir-base -dumps dir
package main

import (
	"errors"
	"flag"
	"fmt"
	"os"
	"path/filepath"
	"runtime"
	"strings"
	"sync"
	"sync/atomic"
	"time"

	NoKV "github.com/feichai0017/NoKV"
	"github.com/feichai0017/NoKV/utils"
	"github.com/feichai0017/NoKV/vfs"

	"verif/harness/internal/vt"
)

type Op struct {
	Kind string `json:"op"` // Set | Del | Get | Sync (wait until the control thread has passed barrier N)
	N    int    `json:"n"`
	K    string `json:"k"`
	V    string `json:"v"`   // unique token of a Set
	Pad  int    `json:"pad"` // Set: pad the value to this many bytes (oversized values)
}

type Step struct {
	// wait_calls | wait_rets | sleep_ms | throttle | stall | bulk | close | close_async |
	// barrier (wait until every client thread waits at Sync N, run the nested steps, release them) |
	// flush (filler write, LSM.Rotate, wait until the sealed memtable is an L0 table) |
	// adjust_throttle (levelManager.AdjustThrottle, what compaction worker 0 does) |
	// compact_l0 (forced L0 compactions through the engine's planner until L0 is empty) | pause_compaction
	Do   string `json:"do"`
	N    int    `json:"n"`
	On   bool   `json:"on"`
	K    string `json:"k"`
	Pad  int    `json:"pad"`
	Then []Step `json:"then"`
	// wait_*: give up waiting after this many ms (schedule shaping only, never a verdict)
	MaxMs int `json:"max_ms"`
}

type Cfg struct {
	BatchWaitUs     int    `json:"batch_wait_us"`
	BatchMax        int    `json:"batch_max"`      // WriteBatchMaxCount
	MaxBatchSize    int    `json:"max_batch_size"` // MaxBatchSize (ErrTxnTooBig at or above)
	HotLimit        int    `json:"hot_limit"`      // WriteHotKeyLimit (0 = off)
	Vlog            bool   `json:"vlog"`           // small ValueThreshold: values go through the value log
	Mem             string `json:"mem"`            // skiplist | art
	Sync            bool   `json:"sync"`
	BatchMaxBytes   int    `json:"batch_max_bytes"`  // WriteBatchMaxSize: byte budget of one commit batch
	PauseCompaction bool   `json:"pause_compaction"` // background compaction paused from the start
	NumL0           int    `json:"num_l0"`           // NumLevelZeroTables
	NumCompactors   int    `json:"num_compactors"`
	MemSize         int    `json:"mem_size"`
	// fail the Nth file operation `FaultOp` on a path ending in FaultSuffix, once
	FaultOp     string `json:"fault_op"`
	FaultSuffix string `json:"fault_suffix"`
	FaultNth    int    `json:"fault_nth"`
}

var errInjected = errors.New("verif: injected I/O fault")

type Scenario struct {
	ID       int    `json:"id"`
	Mode     string `json:"mode"` // free | drainrace
	Cfg      Cfg    `json:"cfg"`
	Threads  [][]Op `json:"threads"`
	Ctl      []Step `json:"ctl"`
	BudgetS  int    `json:"budget_s"`
	NoFinalC bool   `json:"no_final_close"`
}

// ---------------------------------------------------------------- recorder

type recorder struct {
	mu    sync.Mutex
	w     *vt.Writer
	sid   int
	calls atomic.Int64
	rets  atomic.Int64
	nexto atomic.Int64
	pend  map[int64]string // op id -> description of calls that have not returned
}

func (r *recorder) call(t int, kind, k, v string) int64 {
	op := r.nexto.Add(1)
	r.mu.Lock()
	r.pend[op] = fmt.Sprintf("t%d %s %s", t, kind, k)
	r.w.Emit(vt.Ev{"s": r.sid, "e": "Call", "op": op, "t": t, "kind": kind, "k": k, "v": v})
	r.mu.Unlock()
	r.calls.Add(1)
	return op
}

func (r *recorder) ret(t int, op int64, res, detail string, n int) {
	r.mu.Lock()
	delete(r.pend, op)
	ev := vt.Ev{"s": r.sid, "e": "Ret", "op": op, "t": t, "r": res}
	if detail != "" {
		ev["detail"] = detail
	}
	if n > 0 {
		ev["n"] = n
	}
	r.w.Emit(ev)
	r.mu.Unlock()
	r.rets.Add(1)
}

func (r *recorder) ctl(what string, on bool) {
	r.mu.Lock()
	r.w.Emit(vt.Ev{"s": r.sid, "e": "Ctl", "what": what, "on": on})
	r.mu.Unlock()
}

// ---------------------------------------------------------------- hook gates

type gatePoint struct {
	armed   atomic.Bool
	sticky  atomic.Bool // stay armed after an arrival (stall) instead of one-shot
	arrived chan struct{}
	release chan struct{}
}

var (
	gatesMu sync.Mutex
	gates   = map[string]*gatePoint{}
)

func gateFor(point string) *gatePoint {
	gatesMu.Lock()
	defer gatesMu.Unlock()
	g := gates[point]
	if g == nil {
		g = &gatePoint{arrived: make(chan struct{}, 1), release: make(chan struct{})}
		gates[point] = g
	}
	return g
}

func resetGates() {
	gatesMu.Lock()
	gates = map[string]*gatePoint{}
	gatesMu.Unlock()
}

func hook(point string, _ ...uint64) {
	gatesMu.Lock()
	g := gates[point]
	gatesMu.Unlock()
	if g == nil || !g.armed.Load() {
		return
	}
	if !g.sticky.Load() {
		if !g.armed.CompareAndSwap(true, false) {
			return
		}
	}
	select {
	case g.arrived <- struct{}{}:
	default:
	}
	<-g.release
}

func (g *gatePoint) arm(sticky bool) { g.sticky.Store(sticky); g.armed.Store(true) }

// open the gate for good: everybody parked there (and later arrivals) pass
func (g *gatePoint) open() {
	g.armed.Store(false)
	select {
	case <-g.release:
	default:
		close(g.release)
	}
}

func (g *gatePoint) waitArrived(max time.Duration) bool {
	select {
	case <-g.arrived:
		return true
	case <-time.After(max):
		return false
	}
}

// ---------------------------------------------------------------- calls on the real DB

func classify(err error) (string, string) {
	switch {
	case err == nil:
		return "ok", ""
	case errors.Is(err, utils.ErrHotKeyWriteThrottle):
		return "hot", ""
	case errors.Is(err, utils.ErrTxnTooBig):
		return "toobig", ""
	case errors.Is(err, utils.ErrBlockedWrites):
		return "blocked", ""
	case errors.Is(err, utils.ErrKeyNotFound):
		return "NOTFOUND", ""
	case errors.Is(err, errInjected) || strings.Contains(err.Error(), errInjected.Error()):
		return "ioerr", ""
	}
	return "error", err.Error()
}

func value(o Op) []byte {
	v := o.V + "|"
	if o.Pad > len(v) {
		v += strings.Repeat("x", o.Pad-len(v))
	}
	return []byte(v)
}

func doOp(db *NoKV.DB, rec *recorder, t int, o Op) {
	op := rec.call(t, o.Kind, o.K, o.V)
	res, detail, n := "", "", 0
	func() {
		defer func() {
			if p := recover(); p != nil {
				res, detail = "panic", fmt.Sprint(p)
			}
		}()
		switch o.Kind {
		case "Set":
			res, detail = classify(db.Set([]byte(o.K), value(o)))
		case "Del":
			res, detail = classify(db.Del([]byte(o.K)))
		case "Get":
			e, err := db.Get([]byte(o.K))
			if err != nil {
				res, detail = classify(err)
				return
			}
			s := string(e.Value)
			n = len(s)
			if i := strings.IndexByte(s, '|'); i >= 0 {
				res = s[:i]
			} else {
				res, detail = "error", "malformed value "+s
			}
		case "Close":
			if err := db.Close(); err != nil {
				res, detail = classify(err)
				detail = err.Error()
			} else {
				res = "ok"
			}
		}
	}()
	rec.ret(t, op, res, detail, n)
}

func options(c Cfg, dir string) *NoKV.Options {
	o := NoKV.NewDefaultOptions()
	o.WorkDir = dir
	o.MemTableSize = 64 << 20 // no flush during a scenario unless the scenario asks for one
	if c.MemSize > 0 {
		o.MemTableSize = int64(c.MemSize)
	}
	if c.NumL0 > 0 {
		o.NumLevelZeroTables = c.NumL0
	}
	if c.Mem == "art" {
		o.MemTableEngine = NoKV.MemTableEngineART
	}
	o.ValueLogGCInterval = 0
	o.EnableWALWatchdog = false
	o.NumCompactors = 1
	if c.NumCompactors > 0 {
		o.NumCompactors = c.NumCompactors
	}
	o.SyncWrites = c.Sync
	o.WriteBatchWait = time.Duration(c.BatchWaitUs) * time.Microsecond
	if c.BatchMax > 0 {
		o.WriteBatchMaxCount = c.BatchMax
		o.MaxBatchCount = 1 << 20 // keep the per-request entry-count limit out of the way
	}
	if c.MaxBatchSize > 0 {
		o.MaxBatchSize = int64(c.MaxBatchSize)
	}
	if c.BatchMaxBytes > 0 {
		o.WriteBatchMaxSize = int64(c.BatchMaxBytes)
		if c.MaxBatchSize == 0 {
			o.MaxBatchSize = 1 << 30 // the per-request limit stays out of the way
		}
	}
	if c.FaultOp != "" {
		var seen atomic.Int64
		o.FS = vfs.NewFaultFS(vfs.OSFS{}, func(op vfs.Op, path string) error {
			if string(op) == c.FaultOp && strings.HasSuffix(path, c.FaultSuffix) && seen.Add(1) == int64(c.FaultNth) {
				return errInjected
			}
			return nil
		})
	}
	o.WriteHotKeyLimit = int32(c.HotLimit)
	if c.HotLimit == 0 {
		o.HotWriteBurstThreshold = 8
	}
	if c.Vlog {
		o.ValueThreshold = 16
		o.ValueLogFileSize = 1 << 20
		o.ValueLogBucketCount = 2
		o.ValueLogHotBucketCount = 0
	} else {
		o.ValueThreshold = 1 << 20
	}
	return o
}

// ---------------------------------------------------------------- scenario

const (
	ptAfterVlog  = "crash.commit.afterVlog"
	ptBeforePush = "commitq.enqueue.beforePush"
	ptCloseFlag  = "commitq.close.afterFlag"
	ptDrainLoads = "commitq.drain.betweenLoads"
)

type run struct {
	sc     Scenario
	db     *NoKV.DB
	rec    *recorder
	wg     sync.WaitGroup
	closed atomic.Bool
	step   atomic.Value     // control step in progress (diagnosis of driver-side stalls)
	epoch  atomic.Int64     // barriers released so far
	atSync [16]atomic.Int64 // client threads waiting at barrier N
}

func (r *run) thread(t int, ops []Op, start <-chan struct{}) {
	r.wg.Add(1)
	go clientThread(r, t, ops, start)
}

// clientThread is the function name the check looks for in goroutine dumps.
func clientThread(r *run, t int, ops []Op, start <-chan struct{}) {
	defer r.wg.Done()
	<-start
	for _, o := range ops {
		if o.Kind == "Sync" {
			r.atSync[o.N].Add(1)
			for r.epoch.Load() < int64(o.N) {
				time.Sleep(100 * time.Microsecond)
			}
			continue
		}
		doOp(r.db, r.rec, t, o)
	}
}

func waitCount(c *atomic.Int64, n int, maxMs int) {
	if maxMs <= 0 {
		maxMs = 2000
	}
	deadline := time.Now().Add(time.Duration(maxMs) * time.Millisecond)
	for c.Load() < int64(n) && time.Now().Before(deadline) {
		time.Sleep(200 * time.Microsecond)
	}
}

func (r *run) control(start <-chan struct{}) {
	defer r.wg.Done()
	<-start
	bulkT := 1000
	r.steps(r.sc.Ctl, &bulkT)
}

func (r *run) waitFlushed() bool {
	deadline := time.Now().Add(30 * time.Second)
	for time.Now().Before(deadline) {
		if len(r.db.VerifLSM().VerifLayout().Imm) == 0 {
			return true
		}
		time.Sleep(200 * time.Microsecond)
	}
	return false
}

func (r *run) steps(steps []Step, bulkTp *int) {
	bulkT := *bulkTp
	defer func() { *bulkTp = bulkT }()
	fill := 0
	for _, st := range steps {
		r.step.Store(st.Do)
		switch st.Do {
		case "barrier":
			deadline := time.Now().Add(30 * time.Second)
			for r.atSync[st.N].Load() < int64(len(r.sc.Threads)) && time.Now().Before(deadline) {
				time.Sleep(100 * time.Microsecond)
			}
			r.rec.ctl(fmt.Sprintf("barrier-%d", st.N), r.atSync[st.N].Load() == int64(len(r.sc.Threads)))
			*bulkTp = bulkT
			r.steps(st.Then, bulkTp)
			bulkT = *bulkTp
			r.epoch.Store(int64(st.N))
		case "flush":
			fill++
			doOp(r.db, r.rec, 0, Op{Kind: "Set", K: "fill", V: fmt.Sprintf("s%df%d-%d", r.sc.ID, st.N, fill)})
			r.db.VerifLSM().Rotate()
			r.rec.ctl("flushed", r.waitFlushed())
		case "adjust_throttle":
			r.db.VerifLSM().VerifAdjustThrottle()
			r.rec.ctl("adjust-throttle-l0", r.db.VerifLSM().VerifL0Tables() > 0)
		case "compact_l0":
			for i := 0; i < 8 && r.db.VerifLSM().VerifL0Tables() > 0; i++ {
				if err := r.db.VerifLSM().VerifCompact("l0", 0, 0); err != nil {
					break
				}
			}
			r.rec.ctl("l0-drained", r.db.VerifLSM().VerifL0Tables() == 0)
		case "pause_compaction":
			utils.VerifPause("compaction", st.On)
			r.rec.ctl("pause-compaction", st.On)
		case "wait_calls":
			waitCount(&r.rec.calls, st.N, st.MaxMs)
		case "wait_rets":
			waitCount(&r.rec.rets, st.N, st.MaxMs)
		case "sleep_ms":
			time.Sleep(time.Duration(st.N) * time.Millisecond)
		case "throttle":
			r.rec.ctl("throttle", st.On)
			r.db.VerifSetThrottle(st.On)
		case "stall":
			g := gateFor(ptAfterVlog)
			r.rec.ctl("stall", st.On)
			if st.On {
				g.arm(true)
			} else {
				g.open()
			}
		case "bulk":
			// a burst of one-shot writers (more than the queue holds while the consumer is stalled)
			ready := make(chan struct{})
			for i := 0; i < st.N; i++ {
				bulkT++
				r.thread(bulkT, []Op{{Kind: "Set", K: st.K, V: fmt.Sprintf("s%db%d", r.sc.ID, bulkT), Pad: st.Pad}}, ready)
			}
			close(ready)
		case "close":
			r.closed.Store(true)
			doOp(r.db, r.rec, 0, Op{Kind: "Close"})
		case "close_async": // Close from its own goroutine (it has to wait for a stalled worker)
			r.closed.Store(true)
			r.wg.Add(1)
			go func() {
				defer r.wg.Done()
				doOp(r.db, r.rec, 0, Op{Kind: "Close"})
			}()
		default:
			vt.Fatal("unknown control step %q", st.Do)
		}
	}
}

// drainRace replays the CommitQueue.tla counterexample gate by gate.
func (r *run) drainRace(start <-chan struct{}) {
	defer r.wg.Done()
	<-start
	gv, gp, gc, gd := gateFor(ptAfterVlog), gateFor(ptBeforePush), gateFor(ptCloseFlag), gateFor(ptDrainLoads)
	note := func(what string, ok bool) { r.rec.ctl(what, ok) }
	go1 := make(chan struct{})
	close(go1)
	// 1. first writer's request is popped; the worker parks after vlog.write
	gv.arm(false)
	r.thread(1, r.sc.Threads[0], go1)
	note("worker-parked-afterVlog", gv.waitArrived(20*time.Second))
	// 2. second writer passes its second closed check and parks before Ring.Push
	gp.arm(false)
	r.thread(2, r.sc.Threads[1], go1)
	note("writer-parked-beforePush", gp.waitArrived(20*time.Second))
	// 3. Close sets the closed flag and parks before closing the ring
	gc.arm(false)
	gd.arm(false)
	r.wg.Add(1)
	go func() {
		defer r.wg.Done()
		r.closed.Store(true)
		doOp(r.db, r.rec, 0, Op{Kind: "Close"})
	}()
	note("closer-parked-afterFlag", gc.waitArrived(20*time.Second))
	// 4. the worker finishes the first request and re-enters acquireItem on the closed queue
	gv.open()
	note("worker-parked-betweenLoads", gd.waitArrived(1500*time.Millisecond))
	// 5. the second writer completes its push (queueLen++, item, inflight--) and waits for the ack
	gp.open()
	time.Sleep(100 * time.Millisecond)
	// 6. the worker takes its second load; 7. Close goes on
	gd.open()
	time.Sleep(20 * time.Millisecond)
	gc.open()
}

func dumpAll() []byte {
	buf := make([]byte, 1<<22)
	for {
		n := runtime.Stack(buf, true)
		if n < len(buf) {
			return buf[:n]
		}
		buf = make([]byte, 2*len(buf))
	}
}

func runScenario(sc Scenario, w *vt.Writer, base, dumps string) {
	dir, err := os.MkdirTemp(base, fmt.Sprintf("pl-%d-", sc.ID))
	if err != nil {
		vt.Fatal("mkdir: %v", err)
	}
	resetGates()
	utils.VerifPause("compaction", sc.Cfg.PauseCompaction)
	rec := &recorder{w: w, sid: sc.ID, pend: map[int64]string{}}
	db := NoKV.Open(options(sc.Cfg, dir))
	r := &run{sc: sc, db: db, rec: rec}
	start := make(chan struct{})
	r.wg.Add(1)
	if sc.Mode == "drainrace" {
		go r.drainRace(start)
	} else {
		for i, ops := range sc.Threads {
			r.thread(i+1, ops, start)
		}
		go r.control(start)
	}
	close(start)
	done := make(chan struct{})
	go func() {
		r.wg.Wait()
		if !sc.NoFinalC && !r.closed.Load() {
			doOp(db, rec, 0, Op{Kind: "Close"})
		}
		close(done)
	}()
	budget := sc.BudgetS
	if budget <= 0 {
		budget = 60
	}
	select {
	case <-done:
		rec.mu.Lock()
		w.Emit(vt.Ev{"s": sc.ID, "e": "End", "pending": len(rec.pend)})
		rec.mu.Unlock()
		if !r.closed.Load() || sc.NoFinalC {
			db.Close()
		}
		os.RemoveAll(dir)
	case <-time.After(time.Duration(budget) * time.Second):
		d1 := dumpAll()
		time.Sleep(2 * time.Second)
		d2 := dumpAll()
		p1 := filepath.Join(dumps, fmt.Sprintf("hang-%d-%d-a.txt", sc.ID, os.Getpid()))
		p2 := filepath.Join(dumps, fmt.Sprintf("hang-%d-%d-b.txt", sc.ID, os.Getpid()))
		os.WriteFile(p1, d1, 0o644)
		os.WriteFile(p2, d2, 0o644)
		rec.mu.Lock()
		pend := []string{}
		ops := []int64{}
		for op, what := range rec.pend {
			pend = append(pend, what)
			ops = append(ops, op)
		}
		step, _ := r.step.Load().(string)
		w.Emit(vt.Ev{"s": sc.ID, "e": "Hang", "ops": ops, "pending": pend, "ctl_step": step, "dump": p1, "dump2": p2, "budget_s": budget})
		rec.mu.Unlock()
		w.Close()
		os.RemoveAll(dir)
		os.Exit(4)
	}
}

func main() {
	in := flag.String("in", "", "scenarios (ndjson)")
	out := flag.String("out", "", "events (ndjson)")
	dir := flag.String("dir", os.TempDir(), "base directory for work dirs")
	dumps := flag.String("dumps", os.TempDir(), "directory for goroutine dumps")
	flag.Parse()
	scs, err := vt.ReadNDJSON[Scenario](*in)
	if err != nil {
		vt.Fatal("read scenarios: %v", err)
	}
	w, err := vt.NewWriter(*out)
	if err != nil {
		vt.Fatal("open out: %v", err)
	}
	utils.VerifHook = hook
	for _, sc := range scs {
		runScenario(sc, w, *dir, *dumps)
	}
	if err := w.Close(); err != nil {
		vt.Fatal("close out: %v", err)
	}
}
