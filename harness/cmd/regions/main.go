// regions: applies TLC-generated behaviours of spec/Regions/Regions.tla (splits, merges, peer
// stops, removals, state changes, restarts) to a real raftstore Store with a real manifest and
// records the region catalog after every operation (C24).
// usage: regions -in schedules.ndjson -out trace.ndjson [-dir scratch]
//
// Admin commands go through the public propose path of one-node raft groups
// (Store.ProposeSplit / ProposeMerge), as raftstore/store's own tests do. A restart closes the
// peers, the store and the manifest, reopens the manifest and builds a new Store from it; the
// listing of that fresh store is the "Reload" observation. "Rewrite" forces a manifest rewrite
// (snapshot of the current version into a new manifest file); schedules with autorewrite make the
// manifest do that by itself after every edit.
package main

import (
	"flag"
	"fmt"
	"io"
	"log"
	"os"
	"path/filepath"

	"github.com/feichai0017/NoKV/manifest"
	"verif/harness/internal/rstore"
	"verif/harness/internal/vt"
)

type initRegion struct {
	ID uint64 `json:"id"`
	S  int    `json:"s"`
	E  int    `json:"e"`
}
type op struct {
	Op     string `json:"op"`
	Parent uint64 `json:"parent"`
	Key    int    `json:"key"`
	Child  uint64 `json:"child"`
	Target uint64 `json:"target"`
	Source uint64 `json:"source"`
	Region uint64 `json:"region"`
	State  int    `json:"state"`
}
type schedule struct {
	ID   int          `json:"id"`
	Top  int          `json:"top"`
	Init []initRegion `json:"init"`
	Ops  []op         `json:"ops"`
	// AutoRewrite: the manifest rewrites itself after every edit (rewrite threshold of one byte)
	AutoRewrite bool `json:"autorewrite"`
}

// boundary position -> byte key; position 0 (as a start) and Top (as an end) are unbounded = ""
func key(pos, top int) []byte {
	if pos <= 0 || pos >= top {
		return nil
	}
	return []byte(fmt.Sprintf("k%d", pos))
}

func errText(err error) string {
	if err == nil {
		return ""
	}
	return err.Error()
}

func runSchedule(dir string, s *schedule, w *vt.Writer) {
	d := filepath.Join(dir, fmt.Sprintf("s%d", s.ID))
	if err := os.MkdirAll(d, 0o755); err != nil {
		vt.Fatal("%v", err)
	}
	defer os.RemoveAll(d)
	env, err := rstore.Open(d, nil)
	if err != nil {
		vt.Fatal("open: %v", err)
	}
	if s.AutoRewrite {
		env.SetRewriteThreshold(1)
	}
	defer func() {
		if r := recover(); r != nil {
			w.Emit(vt.Ev{"s": s.ID, "e": "Crash", "panic": fmt.Sprint(r)})
		}
		if env != nil {
			_ = env.Shutdown()
		}
	}()
	for _, r := range s.Init {
		if err := env.StartRegion(rstore.Meta(r.ID, key(r.S, s.Top), key(r.E, s.Top), 1, 1), true); err != nil {
			vt.Fatal("schedule %d: start region %d: %v", s.ID, r.ID, err)
		}
	}
	w.Emit(vt.Ev{"s": s.ID, "e": "Init", "cat": rstore.Cat(env.List())})
	restart := func(n int) {
		next, err := env.Restart()
		if err != nil {
			vt.Fatal("schedule %d: restart: %v", s.ID, err)
		}
		env = next
		w.Emit(vt.Ev{"s": s.ID, "e": "Reload", "n": n, "cat": rstore.Cat(env.List())})
		if err := env.Resume(); err != nil {
			vt.Fatal("schedule %d: resume: %v", s.ID, err)
		}
	}
	for n, o := range s.Ops {
		var err error
		dead := []uint64{}
		switch o.Op {
		case "Split":
			parent, _ := env.St.RegionMetaByID(o.Parent)
			k := key(o.Key, s.Top)
			// a well-formed split command: the child takes over [key, parent's end)
			child := rstore.Meta(o.Child, k, parent.EndKey, 1, 1)
			if err = env.St.ProposeSplit(o.Parent, child, k); err == nil {
				err = env.Campaign(o.Child)
			}
		case "Merge":
			err = env.St.ProposeMerge(o.Target, o.Source)
		case "StopPeer":
			env.St.StopPeer(rstore.PeerID(o.Region))
		case "Remove":
			// "intended to be invoked after the corresponding peer has been stopped"
			if _, ok := env.St.Peer(rstore.PeerID(o.Region)); ok {
				env.St.StopPeer(rstore.PeerID(o.Region))
			}
			err = env.St.RemoveRegion(o.Region)
			dead = append(dead, o.Region)
		case "SetState":
			err = env.St.UpdateRegionState(o.Region, manifest.RegionState(o.State))
			dead = append(dead, o.Region)
		case "Rewrite":
			err = env.Mgr.Rewrite()
		case "Reload":
			restart(n)
			continue
		default:
			vt.Fatal("schedule %d: unknown op %q", s.ID, o.Op)
		}
		w.Emit(vt.Ev{"s": s.ID, "e": "Op", "n": n, "op": o.Op, "args": o, "dead": dead, "ok": err == nil, "err": errText(err), "cat": rstore.Cat(env.List())})
		if err != nil && (o.Op == "Split" || o.Op == "Merge") {
			// an admin command that failed while being applied leaves its raft group unusable; restart the store
			restart(n)
		}
	}
}

func main() {
	in := flag.String("in", "", "schedules (ndjson)")
	out := flag.String("out", "", "trace (ndjson)")
	dir := flag.String("dir", os.TempDir(), "scratch directory")
	flag.Parse()
	log.SetOutput(io.Discard)
	scheds, err := vt.ReadNDJSON[schedule](*in)
	if err != nil {
		vt.Fatal("%v", err)
	}
	w, err := vt.NewWriter(*out)
	if err != nil {
		vt.Fatal("%v", err)
	}
	for i := range scheds {
		runSchedule(*dir, &scheds[i], w)
	}
	if err := w.Close(); err != nil {
		vt.Fatal("%v", err)
	}
}
