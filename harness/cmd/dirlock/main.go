// dirlock: replays TLC-generated interleavings of 2-3 contenders opening and closing the same
// working directory on the real utils.AcquireDirLock / (*DirLock).Release (C33), with real flock
// on a real temp directory.  Gates: the verif-tag yield point before flock, and the repo's own
// FaultFS hook before truncate / close / remove of the LOCK file, plus an explicit gate while a
// contender holds the lock.  Modes: "threads" (contenders are goroutines of this process, driven
// by internal/gate), "procs" (contenders are child processes of this binary, driven over pipes:
// flock across processes), "free" (free-running goroutines).  Events: Acquire{t,ok} after
// AcquireDirLock returned, Release{t} before Release is called.  No model of the lock here.
//
// usage: dirlock -in schedules.ndjson -out trace.ndjson [-dir scratch]
//        dirlock -child T -lockdir DIR          (internal)
package main

import (
	"bufio"
	"encoding/json"
	"flag"
	"fmt"
	"io"
	"log"
	"math/rand"
	"os"
	"os/exec"
	"path/filepath"
	"runtime"
	"strings"
	"sync"
	"sync/atomic"
	"syscall"
	"time"

	NoKV "github.com/feichai0017/NoKV"
	"github.com/feichai0017/NoKV/utils"
	"github.com/feichai0017/NoKV/vfs"

	"verif/harness/internal/gate"
	"verif/harness/internal/vt"
)

type Schedule struct {
	ID    int    `json:"id"`
	N     int    `json:"n"`     // contenders 1..N, each acquires once and releases
	Steps []int  `json:"steps"` // contender to release, one gate-to-gate step each
	Mode  string `json:"mode"`  // threads | procs | free | db
	Seed  int64  `json:"seed"`
	Loops int    `json:"loops"` // free mode: acquire/release rounds per contender
}

func lockIno(dir string) uint64 {
	fi, err := os.Stat(filepath.Join(dir, "LOCK"))
	if err != nil {
		return 0
	}
	if st, ok := fi.Sys().(*syscall.Stat_t); ok {
		return st.Ino
	}
	return 0
}

func isLock(path string) bool { return filepath.Base(path) == "LOCK" }

// contender is what one database open/close does with the directory lock.
func contender(t int, dir string, fs vfs.FS, emit func(vt.Ev), hold func()) {
	lock, err := utils.AcquireDirLock(dir, fs)
	if err != nil {
		emit(vt.Ev{"e": "Acquire", "t": t, "ok": false, "err": err.Error()})
		return
	}
	emit(vt.Ev{"e": "Acquire", "t": t, "ok": true, "ino": lockIno(dir)})
	hold()
	emit(vt.Ev{"e": "Release", "t": t})
	err = lock.Release()
	emit(vt.Ev{"e": "Released", "t": t, "ok": err == nil})
}

func gatedFS(yield func(point, path string)) vfs.FS {
	return vfs.NewFaultFS(vfs.OSFS{}, func(op vfs.Op, path string) error {
		if isLock(path) && (op == vfs.OpFileTrunc || op == vfs.OpFileClose || op == vfs.OpRemove) {
			yield(string(op), path)
		}
		return nil
	})
}

// ------------------------------------------------------------------ threads mode
func runThreads(dir string, sc *Schedule, emit func(vt.Ev)) {
	s := gate.New()
	utils.VerifHook = func(point string, _ ...uint64) {
		if point == "dirlock.flock" {
			s.Yield(point)
		}
	}
	defer func() { utils.VerifHook = nil }()
	fs := gatedFS(func(point, path string) { s.YieldPath(point, path) })
	for t := 1; t <= sc.N; t++ {
		t := t
		s.Go(t, func() { contender(t, dir, fs, emit, func() { s.Yield("hold") }) })
	}
	step := func(t int) gate.State {
		st := s.Step(t)
		if st.State == gate.Stuck {
			vt.Fatal("schedule %d: contender %d did not become quiescent", sc.ID, t)
		}
		emit(vt.Ev{"e": "Step", "t": t, "state": st.State.String(), "at": st.Point})
		return st.State
	}
	for _, t := range sc.Steps {
		step(t)
	}
	for t := 1; t <= sc.N; t++ { // finish the rest one contender at a time
		for i := 0; i < 64 && s.Where(t).State != gate.Done; i++ {
			step(t)
		}
	}
	if !s.AllDone() {
		vt.Fatal("schedule %d: contenders did not finish", sc.ID)
	}
}

// ------------------------------------------------------------------ db mode
// Contenders are whole databases: NoKV.Open on the same directory, a few writes, db.Close.  A database
// holds the directory until it has finished working in it: the Release event is emitted when Close has
// returned.  Gates inside Close (FaultFS hook of that database, on the closing goroutine only): before
// the LOCK file is removed, and before the first operation on any other file after the LOCK file was
// closed (a database that still has file work to do after giving up the lock is parked right there).
func openDB(opt *NoKV.Options) (db *NoKV.DB, err error) {
	defer func() {
		if r := recover(); r != nil {
			db, err = nil, fmt.Errorf("open panicked: %v", r)
		}
	}()
	return NoKV.Open(opt), nil
}

func runDB(dir string, sc *Schedule, emit func(vt.Ev)) {
	runtime.GOMAXPROCS(4)
	defer runtime.GOMAXPROCS(1)
	s := gate.New()
	s.Patient = true
	var dbs sync.Map
	for t := 1; t <= sc.N; t++ {
		t := t
		s.Go(t, func() {
			var closing, lockClosed atomic.Bool
			opt := NoKV.NewDefaultOptions()
			opt.WorkDir = dir
			opt.MemTableSize = 1 << 20
			opt.SSTableMaxSz = 1 << 20
			opt.ValueLogFileSize = 1 << 20
			opt.ValueThreshold = 1 << 20
			opt.FS = vfs.NewFaultFS(vfs.OSFS{}, func(op vfs.Op, path string) error {
				if !closing.Load() {
					return nil
				}
				if id, ok := s.IsThread(); !ok || id != t {
					return nil
				}
				switch {
				case isLock(path) && op == vfs.OpRemove:
					s.YieldPath("close.remove-lock", path)
				case isLock(path) && op == vfs.OpFileClose:
					lockClosed.Store(true)
				case !isLock(path) && lockClosed.Load():
					s.YieldPath("close.work-after-lock-release", path)
				}
				return nil
			})
			db, err := openDB(opt)
			if err != nil {
				emit(vt.Ev{"e": "Acquire", "t": t, "ok": false, "err": err.Error()})
				return
			}
			dbs.Store(t, db)
			emit(vt.Ev{"e": "Acquire", "t": t, "ok": true})
			for i := 0; i < 20; i++ {
				_ = db.Set([]byte(fmt.Sprintf("key-%d-%04d", t, i)), []byte("value"))
			}
			s.Yield("hold")
			closing.Store(true)
			emit(vt.Ev{"e": "CloseBegin", "t": t})
			err = db.Close()
			emit(vt.Ev{"e": "Release", "t": t}) // Close has returned: the database is done with the directory
			emit(vt.Ev{"e": "Released", "t": t, "ok": err == nil})
		})
	}
	step := func(t int) {
		st := s.Step(t)
		if st.State == gate.Stuck {
			vt.Fatal("schedule %d: database %d did not reach a gate", sc.ID, t)
		}
		emit(vt.Ev{"e": "Step", "t": t, "state": st.State.String(), "at": st.Point, "path": filepath.Base(st.Path)})
	}
	for _, t := range sc.Steps {
		step(t)
	}
	for t := 1; t <= sc.N; t++ {
		for i := 0; i < 64 && s.Where(t).State != gate.Done; i++ {
			step(t)
		}
	}
}

// ------------------------------------------------------------------ procs mode
type child struct {
	cmd  *exec.Cmd
	in   io.WriteCloser
	out  *bufio.Reader
	done bool
}

// childMain: a contender in its own process; every gate prints "GATE <point>" and waits for a line.
func childMain(t int, dir string) {
	in := bufio.NewReader(os.Stdin)
	out := bufio.NewWriter(os.Stdout)
	gateFn := func(point string) {
		fmt.Fprintf(out, "GATE %s\n", point)
		out.Flush()
		if _, err := in.ReadString('\n'); err != nil {
			os.Exit(0)
		}
	}
	utils.VerifHook = func(point string, _ ...uint64) {
		if point == "dirlock.flock" {
			gateFn(point)
		}
	}
	emit := func(ev vt.Ev) {
		b, _ := json.Marshal(ev)
		fmt.Fprintf(out, "EV %s\n", b)
	}
	gateFn("start")
	contender(t, dir, gatedFS(func(point, _ string) { gateFn(point) }), emit, func() { gateFn("hold") })
	fmt.Fprintf(out, "DONE\n")
	out.Flush()
}

func runProcs(dir string, sc *Schedule, emit func(vt.Ev)) {
	self, err := os.Executable()
	if err != nil {
		vt.Fatal("%v", err)
	}
	kids := map[int]*child{}
	// read until the child's next GATE/DONE, forwarding its events
	advance := func(t int) string {
		c := kids[t]
		for {
			line, err := c.out.ReadString('\n')
			if err != nil {
				vt.Fatal("schedule %d: contender process %d died: %v", sc.ID, t, err)
			}
			line = strings.TrimSpace(line)
			switch {
			case strings.HasPrefix(line, "EV "):
				var ev vt.Ev
				if err := json.Unmarshal([]byte(line[3:]), &ev); err != nil {
					vt.Fatal("%v", err)
				}
				emit(ev)
			case line == "DONE":
				c.done = true
				return "done"
			case strings.HasPrefix(line, "GATE "):
				return line[5:]
			}
		}
	}
	for t := 1; t <= sc.N; t++ {
		cmd := exec.Command(self, "-child", fmt.Sprint(t), "-lockdir", dir)
		in, _ := cmd.StdinPipe()
		out, _ := cmd.StdoutPipe()
		cmd.Stderr = os.Stderr
		if err := cmd.Start(); err != nil {
			vt.Fatal("%v", err)
		}
		kids[t] = &child{cmd: cmd, in: in, out: bufio.NewReader(out)}
		advance(t) // parked at "start"
	}
	step := func(t int) {
		c := kids[t]
		if c.done {
			emit(vt.Ev{"e": "Step", "t": t, "state": "done", "at": ""})
			return
		}
		if _, err := io.WriteString(c.in, "go\n"); err != nil {
			vt.Fatal("%v", err)
		}
		at := advance(t)
		st := "parked"
		if c.done {
			st, at = "done", ""
		}
		emit(vt.Ev{"e": "Step", "t": t, "state": st, "at": at})
	}
	for _, t := range sc.Steps {
		step(t)
	}
	for t := 1; t <= sc.N; t++ {
		for i := 0; i < 64 && !kids[t].done; i++ {
			step(t)
		}
		_ = kids[t].in.Close()
		_ = kids[t].cmd.Wait()
	}
}

// ------------------------------------------------------------------ free mode
func runFree(dir string, sc *Schedule, emit func(vt.Ev)) {
	runtime.GOMAXPROCS(4)
	defer runtime.GOMAXPROCS(1)
	var wg sync.WaitGroup
	for t := 1; t <= sc.N; t++ {
		t := t
		rng := rand.New(rand.NewSource(sc.Seed*100 + int64(t)))
		wg.Add(1)
		go func() {
			defer wg.Done()
			for i := 0; i < sc.Loops; i++ {
				contender(t, dir, nil, emit, func() {
					if d := rng.Intn(4); d > 0 {
						time.Sleep(time.Duration(d*20) * time.Microsecond)
					}
				})
				if rng.Intn(3) == 0 {
					runtime.Gosched()
				}
			}
		}()
	}
	wg.Wait()
}

func main() {
	in := flag.String("in", "", "schedules (ndjson)")
	out := flag.String("out", "", "trace (ndjson)")
	dir := flag.String("dir", os.TempDir(), "scratch directory")
	childT := flag.Int("child", 0, "internal: run as contender process")
	lockdir := flag.String("lockdir", "", "internal: directory to lock")
	flag.Parse()
	log.SetOutput(io.Discard)
	runtime.GOMAXPROCS(1) // gate hand-offs stay inside one OS thread (see internal/gate)
	if *childT > 0 {
		childMain(*childT, *lockdir)
		return
	}
	scheds, err := vt.ReadNDJSON[Schedule](*in)
	if err != nil {
		vt.Fatal("%v", err)
	}
	w, err := vt.NewWriter(*out)
	if err != nil {
		vt.Fatal("%v", err)
	}
	for i := range scheds {
		sc := &scheds[i]
		d, err := os.MkdirTemp(*dir, "dl-")
		if err != nil {
			vt.Fatal("%v", err)
		}
		emit := func(ev vt.Ev) { ev["s"] = sc.ID; w.Emit(ev) }
		switch sc.Mode {
		case "procs":
			runProcs(d, sc, emit)
		case "free":
			runFree(d, sc, emit)
		case "db":
			runDB(d, sc, emit)
		default:
			runThreads(d, sc, emit)
		}
		os.RemoveAll(d)
	}
	if err := w.Close(); err != nil {
		vt.Fatal("%v", err)
	}
}
