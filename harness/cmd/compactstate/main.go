// compactstate: replays TLC-generated call sequences (spec/Engine/CompactState.tla) on the real
// compaction range-lock table, lsm/compact.State, through its exported API and records every reply.
// usage: compactstate -in sequences.ndjson -out trace.ndjson
//
// The driver contains no model of the table: per planner it only remembers the entry that planner
// asked for (as compactDef does), because State.Delete wants the same entry back.
package main

import (
	"flag"
	"fmt"
	"math"

	"github.com/feichai0017/NoKV/kv"
	"github.com/feichai0017/NoKV/lsm/compact"

	"verif/harness/internal/vt"
)

type Rng struct {
	L   int  `json:"l"`
	R   int  `json:"r"`
	Inf bool `json:"inf"`
}

type Op struct {
	Op    string   `json:"op"`
	P     int      `json:"p"`
	TL    int      `json:"tl"`
	NL    int      `json:"nl"`
	TR    Rng      `json:"tr"`
	NR    Rng      `json:"nr"`
	IDs   []uint64 `json:"ids"`
	Level int      `json:"level"`
	R     Rng      `json:"r"`
	ID    uint64   `json:"id"`
}

type Seq struct {
	ID     int  `json:"id"`
	Levels int  `json:"levels"`
	Ops    []Op `json:"ops"`
}

// keyRange builds the range the plan builders would (RangeForTables): all versions of the boundary keys.
func keyRange(r Rng) compact.KeyRange {
	if r.Inf {
		return compact.InfRange
	}
	if r.L == 0 && r.R == 0 {
		return compact.KeyRange{}
	}
	return compact.KeyRange{
		Left:  kv.KeyWithTs([]byte(fmt.Sprintf("k%02d", r.L)), math.MaxUint64),
		Right: kv.KeyWithTs([]byte(fmt.Sprintf("k%02d", r.R)), 0),
	}
}

func main() {
	in := flag.String("in", "", "sequences (ndjson)")
	out := flag.String("out", "", "trace (ndjson)")
	flag.Parse()
	seqs, err := vt.ReadNDJSON[Seq](*in)
	if err != nil {
		vt.Fatal("%v", err)
	}
	w, err := vt.NewWriter(*out)
	if err != nil {
		vt.Fatal("%v", err)
	}
	for _, s := range seqs {
		cs := compact.NewState(s.Levels)
		mine := map[int]*compact.StateEntry{} // what each planner asked for and was granted
		for _, op := range s.Ops {
			ev := vt.Ev{"s": s.ID, "e": op.Op}
			switch op.Op {
			case "Acquire":
				e := compact.StateEntry{ThisLevel: op.TL, NextLevel: op.NL, ThisRange: keyRange(op.TR), NextRange: keyRange(op.NR),
					ThisSize: 1, TableIDs: op.IDs}
				ok := cs.CompareAndAdd(compact.LevelsLocked{}, e)
				if ok {
					mine[op.P] = &e
				}
				ev["p"], ev["tl"], ev["nl"], ev["tr"], ev["nr"], ev["ids"], ev["ok"] = op.P, op.TL, op.NL, op.TR, op.NR, op.IDs, ok
			case "AcquireL0":
				cs.AddRangeWithTables(0, compact.InfRange, op.IDs)
				mine[op.P] = &compact.StateEntry{ThisLevel: 0, NextLevel: 0, ThisRange: compact.InfRange, TableIDs: op.IDs}
				ev["p"], ev["ids"] = op.P, op.IDs
			case "Release":
				ev["p"] = op.P
				if e := mine[op.P]; e != nil {
					cs.Delete(*e)
					delete(mine, op.P)
				} else {
					ev["skipped"] = true
				}
			case "Overlaps":
				ev["level"], ev["r"], ev["reply"] = op.Level, op.R, cs.Overlaps(op.Level, keyRange(op.R))
			case "HasTable":
				ev["id"], ev["reply"] = op.ID, cs.HasTable(op.ID)
			case "HasRanges":
				ev["reply"] = cs.HasRanges()
			case "DelSize":
				ev["level"], ev["reply"] = op.Level, cs.DelSize(op.Level)
			default:
				vt.Fatal("unknown op %q", op.Op)
			}
			w.Emit(ev)
		}
	}
	if err := w.Close(); err != nil {
		vt.Fatal("%v", err)
	}
}
