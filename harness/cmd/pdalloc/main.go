// pdalloc: replays TLC-generated interleavings of concurrent Tso/AllocID requests on the real
// pd/server.Service (C27).  Gates, all on the harness side: a storage.Store wrapper around the
// real LocalStore parks the request when SaveAllocatorState is entered and when it returns, and
// the repo's FaultFS parks it before the rename of the checkpoint file.  After the scheduled
// steps the process "dies" (the files as they are on disk at that instant are what a restart
// sees), PD is restarted the way cmd/nokv/pd.go does it, and one timestamp and one id are
// allocated.  The driver records calls and delivered replies; it has no model of the allocator.
//
// usage: pdalloc -in schedules.ndjson -out trace.ndjson [-dir scratch]
package main

import (
	"bufio"
	"context"
	"errors"
	"flag"
	"io"
	"log"
	"os"
	"os/exec"
	"path/filepath"
	"runtime"
	"strings"
	"sync"
	"sync/atomic"
	"time"

	"github.com/feichai0017/NoKV/pb"
	"github.com/feichai0017/NoKV/pd/core"
	pdserver "github.com/feichai0017/NoKV/pd/server"
	pdstorage "github.com/feichai0017/NoKV/pd/storage"
	"github.com/feichai0017/NoKV/pd/tso"
	"github.com/feichai0017/NoKV/vfs"
	"google.golang.org/grpc"
	"google.golang.org/grpc/credentials/insecure"

	"verif/harness/internal/gate"
	"verif/harness/internal/vt"
)

type Req struct {
	Kind string `json:"kind"` // "ts" | "id"
	N    uint64 `json:"n"`
}

type Schedule struct {
	ID    int   `json:"id"`
	Reqs  []Req `json:"reqs"`  // request i+1 = Reqs[i]
	Steps []int `json:"steps"` // thread to release, one gate-to-gate step each; then the crash
	Fail  []int `json:"fail"`  // requests whose checkpoint write fails (the storage wrapper returns an error instead of writing)
	Free  bool  `json:"free"`  // no gates: the requests run as free goroutines, then a clean restart
	// Blackbox: the real `nokv pd` binary is started on a work directory, the requests are sent
	// over gRPC concurrently, the process is killed (SIGKILL) and started again, Rounds times.
	Blackbox bool `json:"blackbox"`
	Rounds   int  `json:"rounds"`
}

var errDead = errors.New("pd process is dead")
var errInjected = errors.New("injected checkpoint write failure")

// gateStore wraps the real store; only SaveAllocatorState is interposed.
type gateStore struct {
	pdstorage.Store
	s    *gate.Sched
	dead *atomic.Bool
	fail map[int]bool // by thread id (gated runs)
	// free-running runs: every failEvery-th write fails
	failEvery int64
	writes    atomic.Int64
}

func (g *gateStore) SaveAllocatorState(id, ts uint64) error {
	g.s.Yield("save.enter", id, ts)
	if g.dead.Load() {
		return errDead
	}
	if t, ok := g.s.IsThread(); ok && g.fail[t] {
		return errInjected
	}
	if g.failEvery > 0 && g.writes.Add(1)%g.failEvery == 0 {
		return errInjected
	}
	err := g.Store.SaveAllocatorState(id, ts)
	g.s.Yield("save.exit")
	return err
}

// startPD is cmd/nokv/pd.go's start sequence with -id-start 1 -ts-start 1 -workdir dir.
func startPD(dir string, fs vfs.FS) (*pdserver.Service, *pdstorage.LocalStore, error) {
	store, err := pdstorage.OpenLocalStore(dir, fs)
	if err != nil {
		return nil, nil, err
	}
	snap, err := store.Load()
	if err != nil {
		return nil, nil, err
	}
	idStart, tsStart := pdstorage.ResolveAllocatorStarts(1, 1, snap.Allocator)
	svc := pdserver.NewService(core.NewCluster(), core.NewIDAllocator(idStart), tso.NewAllocator(tsStart))
	return svc, store, nil
}

func call(svc *pdserver.Service, r Req) (first, n uint64, err error) {
	if r.Kind == "ts" {
		resp, err := svc.Tso(context.Background(), &pb.TsoRequest{Count: r.N})
		if err != nil {
			return 0, 0, err
		}
		return resp.GetTimestamp(), resp.GetCount(), nil
	}
	resp, err := svc.AllocID(context.Background(), &pb.AllocIDRequest{Count: r.N})
	if err != nil {
		return 0, 0, err
	}
	return resp.GetFirstId(), resp.GetCount(), nil
}

func copyDir(src, dst string) error {
	ents, err := os.ReadDir(src)
	if err != nil {
		return err
	}
	if err := os.MkdirAll(dst, 0o755); err != nil {
		return err
	}
	for _, e := range ents {
		if e.IsDir() {
			continue
		}
		b, err := os.ReadFile(filepath.Join(src, e.Name()))
		if err != nil {
			return err
		}
		if err := os.WriteFile(filepath.Join(dst, e.Name()), b, 0o644); err != nil {
			return err
		}
	}
	return nil
}

func run(base string, sc *Schedule, w *vt.Writer) {
	dir, err := os.MkdirTemp(base, "pd-")
	if err != nil {
		vt.Fatal("%v", err)
	}
	defer os.RemoveAll(dir)
	live := filepath.Join(dir, "live")
	s := gate.New()
	var dead atomic.Bool
	hook := func(op vfs.Op, path string) error {
		if op == vfs.OpRename && strings.Contains(path, pdstorage.StateFileName) {
			s.YieldPath("rename", path)
			if dead.Load() {
				return errDead
			}
		}
		return nil
	}
	svc, store, err := startPD(live, vfs.NewFaultFS(vfs.OSFS{}, hook))
	if err != nil {
		vt.Fatal("start pd: %v", err)
	}
	gs := &gateStore{Store: store, s: s, dead: &dead, fail: map[int]bool{}}
	for _, t := range sc.Fail {
		gs.fail[t] = true
	}
	if sc.Free && len(sc.Fail) > 0 {
		gs.failEvery = int64(sc.Fail[0])
	}
	svc.SetStorage(gs)
	emit := func(ev vt.Ev) { ev["s"] = sc.ID; w.Emit(ev) }
	var wg sync.WaitGroup
	begin := make(chan struct{})
	for i, r := range sc.Reqs {
		t, r := i+1, r
		spawn := s.Go
		if sc.Free { // real goroutine concurrency, gates are pass-through for non-threads
			spawn = func(_ int, fn func()) {
				wg.Add(1)
				go func() { defer wg.Done(); <-begin; fn() }()
			}
		}
		spawn(t, func() {
			emit(vt.Ev{"e": "Call", "t": t, "kind": r.Kind, "n": r.N})
			first, n, err := call(svc, r)
			if dead.Load() {
				return // the reply never left the dead process
			}
			emit(vt.Ev{"e": "Reply", "t": t, "kind": r.Kind, "first": first, "n": n, "ok": err == nil})
		})
	}
	for _, t := range sc.Steps {
		st := s.Step(t)
		if st.State == gate.Stuck {
			vt.Fatal("schedule %d: thread %d did not become quiescent", sc.ID, t)
		}
		emit(vt.Ev{"e": "Step", "t": t, "state": st.State.String(), "at": st.Point, "args": st.Args})
	}
	if sc.Free {
		runtime.GOMAXPROCS(4)
		close(begin)
		wg.Wait()
		runtime.GOMAXPROCS(1)
	}
	// the process dies here: what is on disk now is what the next incarnation finds
	image := filepath.Join(dir, "image")
	if err := copyDir(live, image); err != nil {
		vt.Fatal("%v", err)
	}
	dead.Store(true)
	if !s.Drain() {
		vt.Fatal("schedule %d: abandoned requests did not unwind", sc.ID)
	}
	_ = store.Close()
	emit(vt.Ev{"e": "Restart"})
	svc2, store2, err := startPD(image, nil)
	if err != nil {
		vt.Fatal("restart pd: %v", err)
	}
	svc2.SetStorage(store2)
	for i, r := range []Req{{"ts", 1}, {"id", 1}} {
		t := 101 + i
		emit(vt.Ev{"e": "Call", "t": t, "kind": r.Kind, "n": r.N})
		first, n, err := call(svc2, r)
		emit(vt.Ev{"e": "Reply", "t": t, "kind": r.Kind, "first": first, "n": n, "ok": err == nil})
	}
	_ = store2.Close()
}

// runBlackbox exercises cmd/nokv/pd.go itself (flag parsing, Load, ResolveAllocatorStarts,
// allocator construction) through the built binary.
func runBlackbox(base, nokv string, sc *Schedule, w *vt.Writer) {
	dir, err := os.MkdirTemp(base, "pdbb-")
	if err != nil {
		vt.Fatal("%v", err)
	}
	defer os.RemoveAll(dir)
	emit := func(ev vt.Ev) { ev["s"] = sc.ID; w.Emit(ev) }
	t := 0
	for round := 0; round < sc.Rounds; round++ {
		cmd := exec.Command(nokv, "pd", "-addr", "127.0.0.1:0", "-workdir", filepath.Join(dir, "wd"))
		out, _ := cmd.StdoutPipe()
		cmd.Stderr = os.Stderr
		if err := cmd.Start(); err != nil {
			vt.Fatal("start nokv pd: %v", err)
		}
		addr := ""
		rd := bufio.NewReader(out)
		for addr == "" {
			line, err := rd.ReadString('\n')
			if i := strings.Index(line, "listening on "); i >= 0 {
				addr = strings.TrimSpace(line[i+len("listening on "):])
			}
			if err != nil && addr == "" {
				vt.Fatal("nokv pd did not report its address: %v", err)
			}
		}
		go io.Copy(io.Discard, rd)
		conn, err := grpc.NewClient(addr, grpc.WithTransportCredentials(insecure.NewCredentials()))
		if err != nil {
			vt.Fatal("dial: %v", err)
		}
		cli := pb.NewPDClient(conn)
		if round > 0 {
			emit(vt.Ev{"e": "Restart"})
		}
		var wg sync.WaitGroup
		for _, r := range sc.Reqs {
			t++
			t, r := t, r
			wg.Add(1)
			go func() {
				defer wg.Done()
				ctx, cancel := context.WithTimeout(context.Background(), 20*time.Second)
				defer cancel()
				emit(vt.Ev{"e": "Call", "t": t, "kind": r.Kind, "n": r.N})
				var first, n uint64
				var err error
				if r.Kind == "ts" {
					var resp *pb.TsoResponse
					if resp, err = cli.Tso(ctx, &pb.TsoRequest{Count: r.N}); err == nil {
						first, n = resp.GetTimestamp(), resp.GetCount()
					}
				} else {
					var resp *pb.AllocIDResponse
					if resp, err = cli.AllocID(ctx, &pb.AllocIDRequest{Count: r.N}); err == nil {
						first, n = resp.GetFirstId(), resp.GetCount()
					}
				}
				emit(vt.Ev{"e": "Reply", "t": t, "kind": r.Kind, "first": first, "n": n, "ok": err == nil})
			}()
		}
		wg.Wait()
		_ = conn.Close()
		_ = cmd.Process.Kill()
		_ = cmd.Wait()
	}
}

func main() {
	nokv := flag.String("nokv", "", "path of the built nokv binary (blackbox schedules)")
	in := flag.String("in", "", "schedules (ndjson)")
	out := flag.String("out", "", "trace (ndjson)")
	dir := flag.String("dir", os.TempDir(), "scratch directory")
	flag.Parse()
	log.SetOutput(io.Discard)
	runtime.GOMAXPROCS(1) // gate hand-offs stay inside one OS thread (see internal/gate)
	scheds, err := vt.ReadNDJSON[Schedule](*in)
	if err != nil {
		vt.Fatal("%v", err)
	}
	w, err := vt.NewWriter(*out)
	if err != nil {
		vt.Fatal("%v", err)
	}
	for i := range scheds {
		if scheds[i].Blackbox {
			runtime.GOMAXPROCS(4)
			runBlackbox(*dir, *nokv, &scheds[i], w)
			runtime.GOMAXPROCS(1)
			continue
		}
		run(*dir, &scheds[i], w)
	}
	if err := w.Close(); err != nil {
		vt.Fatal("%v", err)
	}
}
