// latch: binds spec/Latch to the real percolator/latch.Manager (C20).
//   mode "slots":   for each key set, Acquire on a fresh 3-stripe manager and report the guard's
//                   slot list next to the stripe of every key (verif accessors)
//   mode "threads": replays a TLC-generated interleaving: requests are goroutines parked by the
//                   verif yield point before each stripe Lock and while holding; a request released
//                   into a held stripe blocks in sync.Mutex.Lock, which the scheduler sees
//                   (goroutine wait reason); "no request can move and not all are done" is reported
//                   as a Deadlock event without any timeout
//   mode "free":    free-running goroutines, random key sets
// Events: Acquired{t,keys} after Acquire returned, Released{t} before Release is called,
// Release2{t,ok} after a second Release.  No model of the latches here.
//
// usage: latch -in schedules.ndjson -out trace.ndjson
package main

import (
	"flag"
	"fmt"
	"io"
	"log"
	"math/rand"
	"os"
	"runtime"
	"sync"
	"syscall"
	"time"

	"github.com/feichai0017/NoKV/percolator/latch"
	"github.com/feichai0017/NoKV/utils"

	"verif/harness/internal/gate"
	"verif/harness/internal/vt"
)

const nStripes = 3

type Schedule struct {
	ID      int        `json:"id"`
	Mode    string     `json:"mode"`
	Keys    [][]string `json:"keys"`    // threads: key names of request i+1; slots: the key sets to try
	Steps   []int      `json:"steps"`   // threads: request to release, one gate-to-gate step each
	Late    []int      `json:"late"`    // threads: requests that call Release once more at a later, scheduled time
	N       int        `json:"n"`       // free: goroutines
	Loops   int        `json:"loops"`   // free: rounds per goroutine
	Seed    int64      `json:"seed"`
	Stripes int        `json:"stripes"` // free: manager size (default 3)
}

// real keys for the abstract names: A and D collide on stripe 0, B is on 1, C on 2, E is the
// empty key.  MemHash is seeded per process, so they are found by search.
func resolve(m *latch.Manager) map[string][]byte {
	want := map[string]int{"A": 0, "B": 1, "C": 2, "D": 0}
	out := map[string][]byte{"E": {}}
	for i := 0; len(out) < 5 && i < 100000; i++ {
		k := []byte(fmt.Sprintf("key-%d", i))
		st := latch.VerifStripe(m, k)
		for _, name := range []string{"A", "B", "C", "D"} {
			if _, done := out[name]; !done && want[name] == st {
				out[name] = k
				break
			}
		}
	}
	if len(out) < 5 {
		vt.Fatal("could not find keys for every stripe")
	}
	return out
}

func realKeys(names []string, km map[string][]byte) [][]byte {
	out := make([][]byte, 0, len(names))
	for _, n := range names {
		out = append(out, km[n])
	}
	return out
}

func release2(g *latch.Guard) (ok bool) {
	defer func() {
		if recover() != nil {
			ok = false
		}
	}()
	g.Release()
	return true
}

func runSlots(sc *Schedule, emit func(vt.Ev)) {
	m := latch.NewManager(nStripes)
	km := resolve(m)
	for _, names := range sc.Keys {
		// duplicates in the request: every key twice, in both orders
		req := append(append([]string{}, names...), names...)
		for i, j := 0, len(names)-1; i < j; i, j = i+1, j-1 {
			req[i], req[j] = req[j], req[i]
		}
		stripes := []int{}
		for _, n := range names {
			stripes = append(stripes, latch.VerifStripe(m, km[n]))
		}
		var g *latch.Guard
		got := make(chan struct{})
		go func() { g = m.Acquire(realKeys(req, km)); close(got) }()
		select {
		case <-got:
		case <-time.After(5 * time.Second):
			// unsupervised call (no scheduler here): report and stop the sweep
			emit(vt.Ev{"e": "Hang", "keys": names})
			return
		}
		slots := latch.VerifSlots(g)
		if slots == nil {
			slots = []int{}
		}
		emit(vt.Ev{"e": "Slots", "keys": names, "stripes": stripes, "slots": slots})
		g.Release()
	}
}

// leaked counts goroutines abandoned in deadlocked schedules; main re-execs the driver when there
// are many, so that goroutine dumps stay small.
var leaked int

func runThreads(sc *Schedule, emit func(vt.Ev)) {
	m := latch.NewManager(nStripes)
	km := resolve(m)
	s := gate.New()
	utils.VerifHook = func(point string, args ...uint64) {
		if point == "latch.lock" {
			s.Yield(point, args...)
		}
	}
	defer func() { utils.VerifHook = nil }()
	n := len(sc.Keys)
	late := map[int]bool{}
	for _, t := range sc.Late {
		late[t] = true
	}
	for t := 1; t <= n; t++ {
		t, names := t, sc.Keys[t-1]
		if names == nil {
			names = []string{}
		}
		s.Go(t, func() {
			g := m.Acquire(realKeys(names, km))
			emit(vt.Ev{"e": "Acquired", "t": t, "keys": names, "slots": latch.VerifSlots(g)})
			s.Yield("hold")
			emit(vt.Ev{"e": "Released", "t": t})
			g.Release()
			emit(vt.Ev{"e": "Release2", "t": t, "ok": release2(g)})
			if late[t] {
				s.Yield("late")
				emit(vt.Ev{"e": "Release2", "t": t, "ok": release2(g), "late": true})
			}
		})
	}
	step := func(t int) gate.Status {
		st := s.Step(t)
		if st.State == gate.Stuck {
			vt.Fatal("schedule %d: request %d did not become quiescent", sc.ID, t)
		}
		emit(vt.Ev{"e": "Step", "t": t, "state": st.State.String(), "at": st.Point, "args": st.Args})
		return st
	}
	for _, t := range sc.Steps {
		step(t)
	}
	// finish: release parked requests one at a time; if none is parked and some are not done,
	// every remaining request waits for a stripe held by another waiting request
	for {
		moved := false
		for t := 1; t <= n; t++ {
			if s.Where(t).State == gate.Parked {
				step(t)
				moved = true
				break
			}
		}
		if moved {
			continue
		}
		if !s.AllDone() {
			blocked := []int{}
			for t := 1; t <= n; t++ {
				if s.Where(t).State != gate.Done {
					blocked = append(blocked, t)
				}
			}
			emit(vt.Ev{"e": "Deadlock", "blocked": blocked})
			leaked += len(blocked)
		}
		return // deadlocked goroutines are abandoned (they hold only this schedule's manager)
	}
}

func runFree(sc *Schedule, emit func(vt.Ev)) {
	size := sc.Stripes
	if size == 0 {
		size = nStripes
	}
	m := latch.NewManager(size)
	km := resolve(latch.NewManager(nStripes))
	names := []string{"A", "B", "C", "D", "E"}
	runtime.GOMAXPROCS(4)
	defer runtime.GOMAXPROCS(1)
	var wg sync.WaitGroup
	done := make(chan struct{})
	for t := 1; t <= sc.N; t++ {
		t := t
		rng := rand.New(rand.NewSource(sc.Seed*1000 + int64(t)))
		wg.Add(1)
		go func() {
			defer wg.Done()
			for i := 0; i < sc.Loops; i++ {
				var ks []string
				for _, n := range names {
					if rng.Intn(3) == 0 {
						ks = append(ks, n)
					}
				}
				if ks == nil {
					ks = []string{}
				}
				rng.Shuffle(len(ks), func(a, b int) { ks[a], ks[b] = ks[b], ks[a] })
				g := m.Acquire(realKeys(ks, km))
				emit(vt.Ev{"e": "Acquired", "t": t, "keys": ks})
				if d := rng.Intn(3); d > 0 {
					time.Sleep(time.Duration(d*10) * time.Microsecond)
				}
				emit(vt.Ev{"e": "Released", "t": t})
				g.Release()
				if rng.Intn(2) == 0 {
					emit(vt.Ev{"e": "Release2", "t": t, "ok": release2(g)})
				}
				if rng.Intn(4) == 0 { // a late second Release, while others are acquiring
					time.Sleep(time.Duration(rng.Intn(30)) * time.Microsecond)
					emit(vt.Ev{"e": "Release2", "t": t, "ok": release2(g), "late": true})
				}
			}
		}()
	}
	go func() { wg.Wait(); close(done) }()
	select {
	case <-done:
	case <-time.After(15 * time.Second):
		// free-running goroutines have no scheduler: a hang is reported, the check treats it as undecided
		emit(vt.Ev{"e": "Hang"})
	}
}

func main() {
	in := flag.String("in", "", "schedules (ndjson)")
	out := flag.String("out", "", "trace (ndjson)")
	from := flag.Int("from", 0, "internal: first schedule to run (re-exec after many deadlocks)")
	flag.Parse()
	log.SetOutput(io.Discard)
	runtime.GOMAXPROCS(1)
	scheds, err := vt.ReadNDJSON[Schedule](*in)
	if err != nil {
		vt.Fatal("%v", err)
	}
	var w *vt.Writer
	if *from > 0 {
		w, err = vt.NewAppendWriter(*out)
	} else {
		w, err = vt.NewWriter(*out)
	}
	if err != nil {
		vt.Fatal("%v", err)
	}
	for i := *from; i < len(scheds); i++ {
		if leaked > 200 {
			if err := w.Close(); err != nil {
				vt.Fatal("%v", err)
			}
			self, _ := os.Executable()
			err := syscall.Exec(self, []string{self, "-in", *in, "-out", *out, "-from", fmt.Sprint(i)}, os.Environ())
			vt.Fatal("re-exec: %v", err)
		}
		sc := &scheds[i]
		// the code under test can abort the process (sync: unlock of unlocked mutex): every event
		// reaches the file at once, so that the check can judge what happened before
		emit := func(ev vt.Ev) { ev["s"] = sc.ID; w.Emit(ev); _ = w.Flush() }
		emit(vt.Ev{"e": "Begin", "i": i})
		switch sc.Mode {
		case "slots":
			runSlots(sc, emit)
		case "free":
			runFree(sc, emit)
		default:
			runThreads(sc, emit)
		}
	}
	if err := w.Close(); err != nil {
		vt.Fatal("%v", err)
	}
	_ = os.Stdout
}
