// cmdvalid: sends TLC-enumerated commands (spec/Regions/CmdValid.tla) through
// Store.ProposeCommand / Store.ReadCommand of a real store hosting one-node leader regions on
// a real DB (kv.NewApplier), and records region error vs acceptance and scan results (C25).
// usage: cmdvalid -in cases.ndjson -out replies.ndjson [-dir scratch]
//
// Input: first line {"setup": {"regions":[{"id","start","end","ver","conf"}], "preload":[keys]}},
// then one case per line {"i","region","epoch":[ver,conf]|null,"kind","keys":[...],"via"}; all
// keys hex-encoded. The driver has no notion of ranges: it builds the protobuf request the case
// describes and reports what the store answered.
package main

import (
	"bufio"
	"encoding/hex"
	"encoding/json"
	"flag"
	"fmt"
	"io"
	"log"
	"os"
	"path/filepath"

	NoKV "github.com/feichai0017/NoKV"
	"github.com/feichai0017/NoKV/pb"
	"github.com/feichai0017/NoKV/raftstore/kv"
	"verif/harness/internal/rstore"
	"verif/harness/internal/vt"
)

type setupRegion struct {
	ID    uint64 `json:"id"`
	Start string `json:"start"`
	End   string `json:"end"`
	Ver   uint64 `json:"ver"`
	Conf  uint64 `json:"conf"`
}
type line struct {
	Setup *struct {
		Regions []setupRegion `json:"regions"`
		Preload []string      `json:"preload"`
	} `json:"setup"`
	I      int      `json:"i"`
	Region uint64   `json:"region"`
	Epoch  []uint64 `json:"epoch"`
	Kind   string   `json:"kind"`
	Keys   []string `json:"keys"`
	Via    string   `json:"via"`
}

func unhex(s string) []byte {
	b, err := hex.DecodeString(s)
	if err != nil {
		vt.Fatal("bad hex %q", s)
	}
	return b
}

func get(key []byte) *pb.Request {
	return &pb.Request{CmdType: pb.CmdType_CMD_GET, Cmd: &pb.Request_Get{Get: &pb.GetRequest{Key: key, Version: 50}}}
}

// build renders the case as requests; ts is a fresh transaction timestamp (above every read version)
func build(c *line, ts uint64) []*pb.Request {
	keys := make([][]byte, 0, len(c.Keys))
	for _, k := range c.Keys {
		keys = append(keys, unhex(k))
	}
	switch c.Kind {
	case "Get":
		return []*pb.Request{get(keys[0])}
	case "GetGet":
		return []*pb.Request{get(keys[0]), get(keys[1])}
	case "Scan":
		return []*pb.Request{{CmdType: pb.CmdType_CMD_SCAN, Cmd: &pb.Request_Scan{Scan: &pb.ScanRequest{StartKey: keys[0], Limit: 1000, Version: 50, IncludeStart: true}}}}
	case "Prewrite":
		muts := make([]*pb.Mutation, 0, len(keys))
		for _, k := range keys {
			muts = append(muts, &pb.Mutation{Op: pb.Mutation_Put, Key: k, Value: []byte(fmt.Sprintf("w%d", ts))})
		}
		return []*pb.Request{{CmdType: pb.CmdType_CMD_PREWRITE, Cmd: &pb.Request_Prewrite{Prewrite: &pb.PrewriteRequest{Mutations: muts, PrimaryLock: keys[0], StartVersion: ts, LockTtl: 3000}}}}
	case "Commit":
		return []*pb.Request{{CmdType: pb.CmdType_CMD_COMMIT, Cmd: &pb.Request_Commit{Commit: &pb.CommitRequest{Keys: keys, StartVersion: ts, CommitVersion: ts + 1}}}}
	case "BatchRollback":
		return []*pb.Request{{CmdType: pb.CmdType_CMD_BATCH_ROLLBACK, Cmd: &pb.Request_BatchRollback{BatchRollback: &pb.BatchRollbackRequest{Keys: keys, StartVersion: ts}}}}
	case "ResolveLock":
		return []*pb.Request{{CmdType: pb.CmdType_CMD_RESOLVE_LOCK, Cmd: &pb.Request_ResolveLock{ResolveLock: &pb.ResolveLockRequest{Keys: keys, StartVersion: ts}}}}
	case "CheckTxnStatus":
		return []*pb.Request{{CmdType: pb.CmdType_CMD_CHECK_TXN_STATUS, Cmd: &pb.Request_CheckTxnStatus{CheckTxnStatus: &pb.CheckTxnStatusRequest{PrimaryKey: keys[0], LockTs: ts, CurrentTs: ts + 1, CallerStartTs: ts + 1}}}}
	}
	vt.Fatal("unknown kind %q", c.Kind)
	return nil
}

func main() {
	in := flag.String("in", "", "cases (ndjson)")
	out := flag.String("out", "", "replies (ndjson)")
	dir := flag.String("dir", os.TempDir(), "scratch directory")
	flag.Parse()
	log.SetOutput(io.Discard)
	f, err := os.Open(*in)
	if err != nil {
		vt.Fatal("%v", err)
	}
	defer f.Close()
	w, err := vt.NewWriter(*out)
	if err != nil {
		vt.Fatal("%v", err)
	}
	opt := NoKV.NewDefaultOptions()
	opt.WorkDir = filepath.Join(*dir, "db")
	if err := os.MkdirAll(opt.WorkDir, 0o755); err != nil {
		vt.Fatal("%v", err)
	}
	db := NoKV.Open(opt)
	applier := kv.NewApplier(db)
	var env *rstore.Env
	var regions []setupRegion
	boots := 0
	// boot builds a fresh store (new manifest directory) hosting the setup's regions as one-node leaders
	boot := func() {
		if env != nil {
			_ = env.Shutdown()
		}
		boots++
		e, err := rstore.Open(filepath.Join(*dir, fmt.Sprintf("manifest%d", boots)), applier)
		if err != nil {
			vt.Fatal("open: %v", err)
		}
		env = e
		for _, r := range regions {
			if err := env.StartRegion(rstore.Meta(r.ID, unhex(r.Start), unhex(r.End), r.Ver, r.Conf), true); err != nil {
				vt.Fatal("start region %d: %v", r.ID, err)
			}
		}
	}
	ts := uint64(1000)
	sc := bufio.NewScanner(f)
	sc.Buffer(make([]byte, 1<<20), 1<<26)
	for sc.Scan() {
		if len(sc.Bytes()) == 0 {
			continue
		}
		var c line
		if err := json.Unmarshal(sc.Bytes(), &c); err != nil {
			vt.Fatal("%v", err)
		}
		if c.Setup != nil {
			regions = c.Setup.Regions
			boot()
			// committed data at every key position, written below the store (no region involved)
			for _, k := range c.Setup.Preload {
				key := unhex(k)
				pre := &pb.RaftCmdRequest{Requests: []*pb.Request{{CmdType: pb.CmdType_CMD_PREWRITE, Cmd: &pb.Request_Prewrite{Prewrite: &pb.PrewriteRequest{
					Mutations: []*pb.Mutation{{Op: pb.Mutation_Put, Key: key, Value: append([]byte("v-"), key...)}}, PrimaryLock: key, StartVersion: 1, LockTtl: 3000}}}}}
				com := &pb.RaftCmdRequest{Requests: []*pb.Request{{CmdType: pb.CmdType_CMD_COMMIT, Cmd: &pb.Request_Commit{Commit: &pb.CommitRequest{Keys: [][]byte{key}, StartVersion: 1, CommitVersion: 2}}}}}
				for _, rq := range []*pb.RaftCmdRequest{pre, com} {
					resp, err := applier(rq)
					if err != nil {
						vt.Fatal("preload: %v", err)
					}
					if r0 := resp.GetResponses()[0]; len(r0.GetPrewrite().GetErrors()) > 0 || r0.GetCommit().GetError() != nil {
						vt.Fatal("preload key error: %v", r0)
					}
				}
			}
			continue
		}
		ts += 10
		req := &pb.RaftCmdRequest{Header: &pb.CmdHeader{RegionId: c.Region}, Requests: build(&c, ts)}
		if c.Epoch != nil {
			req.Header.RegionEpoch = &pb.RegionEpoch{Version: c.Epoch[0], ConfVer: c.Epoch[1]}
		}
		var resp *pb.RaftCmdResponse
		if c.Via == "read" {
			resp, err = env.St.ReadCommand(req)
		} else {
			resp, err = env.St.ProposeCommand(req)
		}
		ev := vt.Ev{"i": c.I}
		switch {
		case err != nil:
			ev["outcome"] = "error"
			ev["err"] = err.Error()
		case resp.GetRegionError() != nil:
			ev["outcome"] = "region_error"
			if resp.GetRegionError().GetEpochNotMatch() != nil {
				ev["region_error"] = "epoch_not_match"
			} else if resp.GetRegionError().GetNotLeader() != nil {
				ev["region_error"] = "not_leader"
			} else {
				ev["region_error"] = "other"
			}
		default:
			ev["outcome"] = "accepted"
			ev["responses"] = len(resp.GetResponses())
			scanned := []string{}
			hasScan := false
			for _, r := range resp.GetResponses() {
				if s := r.GetScan(); s != nil {
					hasScan = true
					for _, kvp := range s.GetKvs() {
						scanned = append(scanned, hex.EncodeToString(kvp.GetKey()))
					}
				}
			}
			if hasScan {
				ev["scan"] = scanned
			}
			// whether the executed requests reported key-level errors (informational: not part of C25)
			kerr := []string{}
			for _, r := range resp.GetResponses() {
				switch {
				case len(r.GetPrewrite().GetErrors()) > 0:
					kerr = append(kerr, fmt.Sprint(r.GetPrewrite().GetErrors()[0]))
				case r.GetCommit().GetError() != nil:
					kerr = append(kerr, fmt.Sprint(r.GetCommit().GetError()))
				case r.GetBatchRollback().GetError() != nil:
					kerr = append(kerr, fmt.Sprint(r.GetBatchRollback().GetError()))
				case r.GetResolveLock().GetError() != nil:
					kerr = append(kerr, fmt.Sprint(r.GetResolveLock().GetError()))
				case r.GetCheckTxnStatus().GetError() != nil:
					kerr = append(kerr, fmt.Sprint(r.GetCheckTxnStatus().GetError()))
				case r.GetGet().GetError() != nil:
					kerr = append(kerr, fmt.Sprint(r.GetGet().GetError()))
				case r.GetScan().GetError() != nil:
					kerr = append(kerr, fmt.Sprint(r.GetScan().GetError()))
				}
			}
			if len(kerr) > 0 {
				ev["key_errors"] = kerr
			}
		}
		w.Emit(ev)
		if err != nil {
			// a command that failed while being applied leaves its raft group unusable: continue on a fresh store (same DB)
			boot()
		}
	}
	if err := w.Close(); err != nil {
		vt.Fatal("%v", err)
	}
	_ = env.Shutdown()
	_ = db.Close()
}
