// memindex: runs C07 cases on the real memtable indexes (utils.Skiplist and utils.ART) and records
// what they answer. A case is a sequence of inserts (optionally followed by a phase of concurrent
// inserts from several goroutines), a probe list for Search and target lists for Seek. No model of
// an ordered map lives here: replies are recorded verbatim and judged by spec/MemIndex/MemIndexPropTrace.tla.
//
// usage: memindex -in cases.ndjson -out trace.ndjson
// input lines: {"psets":{name:[key...]}} (named probe/target lists) or a case (type Case below).
package main

import (
	"flag"
	"fmt"
	"math"
	"strings"
	"sync"

	"github.com/feichai0017/NoKV/kv"
	"github.com/feichai0017/NoKV/utils"

	"verif/harness/internal/vt"
)

const maxTok = 1000000 // trace token for version MaxUint64

type Key struct {
	CF  int    `json:"cf"`
	K   []int  `json:"k"`
	Ver int    `json:"ver"`
	Val string `json:"val,omitempty"`
	Pad int    `json:"pad,omitempty"` // the stored value is Val + Pad filler bytes (kept out of the trace)
}

type Case struct {
	Psets   map[string][]Key `json:"psets,omitempty"`
	ID      int              `json:"id"`
	Arena   int64            `json:"arena"`
	Ins     []Key            `json:"ins"`
	Threads [][]Key          `json:"threads,omitempty"`
	Pset    string           `json:"pset,omitempty"`
	Probes  []Key            `json:"probes,omitempty"`
	Tset    string           `json:"tset,omitempty"`
	Targets []Key            `json:"targets,omitempty"`
	Lim     int              `json:"lim"` // entries recorded after each seek (0 = until exhausted); rewinds always run to exhaustion
	Engines []string         `json:"engines,omitempty"`
}

type index interface {
	Add(*kv.Entry)
	Search([]byte) kv.ValueStruct
	NewIterator(*utils.Options) utils.Iterator
	DecrRef()
}

func ver(v int) uint64 {
	if v == maxTok {
		return math.MaxUint64
	}
	return uint64(v)
}

func tok(ts uint64) int {
	if ts == math.MaxUint64 {
		return maxTok
	}
	if ts >= maxTok {
		return -1 // not a version any case uses: the trace spec will reject it
	}
	return int(ts)
}

func ikey(k Key) []byte {
	u := make([]byte, len(k.K))
	for i, b := range k.K {
		u[i] = byte(b)
	}
	return kv.InternalKey(kv.ColumnFamily(k.CF), u, ver(k.Ver))
}

func entry(k Key) *kv.Entry {
	val := k.Val
	if k.Pad > 0 {
		val += strings.Repeat("#", k.Pad)
	}
	return &kv.Entry{Key: ikey(k), Value: []byte(val), Version: ver(k.Ver)}
}

// strip removes the filler of padded values; a damaged filler is reported as is.
func strip(v []byte) string {
	s := string(v)
	i := strings.IndexByte(s, '#')
	if i < 0 {
		return s
	}
	if strings.Trim(s[i:], "#") != "" {
		return "DAMAGED:" + s[:i]
	}
	return s[:i]
}

func keyEv(e *kv.Entry) vt.Ev {
	cf, u, ts := kv.SplitInternalKey(e.Key)
	k := make([]int, len(u))
	for i, b := range u {
		k[i] = int(b)
	}
	return vt.Ev{"cf": int(cf), "k": k, "ver": tok(ts), "val": strip(e.Value)}
}

func plain(k Key) vt.Ev {
	kk := k.K
	if kk == nil {
		kk = []int{}
	}
	return vt.Ev{"cf": k.CF, "k": kk, "ver": k.Ver}
}

// drain records what the iterator yields from its current position.
func drain(it utils.Iterator, lim int) []vt.Ev {
	out := []vt.Ev{}
	for ; it.Valid(); it.Next() {
		if lim > 0 && len(out) >= lim {
			break
		}
		out = append(out, keyEv(it.Item().Entry()))
	}
	return out
}

func runCase(c *Case, psets map[string][]Key, w *vt.Writer) {
	probes, targets := c.Probes, c.Targets
	if c.Pset != "" {
		probes = psets[c.Pset]
	}
	if c.Tset != "" {
		targets = psets[c.Tset]
	}
	engines := c.Engines
	if len(engines) == 0 {
		engines = []string{"skiplist", "art"}
	}
	for ei, eng := range engines {
		runEngine(c, ei, eng, probes, targets, w)
	}
}

func runEngine(c *Case, ei int, eng string, probes, targets []Key, w *vt.Writer) {
	{
		sid := c.ID*2 + ei
		// a panic inside an engine is an answer no ordered map gives: recorded as an event the trace spec rejects
		defer func() {
			if r := recover(); r != nil {
				w.Emit(vt.Ev{"e": "Panic", "s": sid, "eng": eng, "msg": fmt.Sprint(r)})
			}
		}()
		var ix index
		if eng == "art" {
			ix = utils.NewART(c.Arena)
		} else {
			ix = utils.NewSkiplist(c.Arena)
		}
		emit := func(ev vt.Ev) { ev["s"] = sid; ev["eng"] = eng; w.Emit(ev) }
		for _, k := range c.Ins {
			ix.Add(entry(k))
			ev := plain(k)
			ev["e"], ev["val"] = "Insert", k.Val
			emit(ev)
		}
		if len(c.Threads) > 0 {
			var wg sync.WaitGroup
			start := make(chan struct{})
			var pmu sync.Mutex
			var pmsg any
			for _, th := range c.Threads {
				wg.Add(1)
				go func(th []Key) {
					defer wg.Done()
					defer func() {
						if r := recover(); r != nil {
							pmu.Lock()
							pmsg = r
							pmu.Unlock()
						}
					}()
					es := make([]*kv.Entry, len(th))
					for i, k := range th {
						es[i] = entry(k)
					}
					<-start
					for _, e := range es {
						ix.Add(e)
					}
				}(th)
			}
			close(start)
			wg.Wait()
			if pmsg != nil {
				panic(pmsg)
			}
			for t, th := range c.Threads {
				for _, k := range th {
					ev := plain(k)
					ev["e"], ev["t"], ev["val"] = "CInsert", t+1, k.Val
					emit(ev)
				}
			}
		}
		// point lookups, as memTable.Get issues them
		ps, rs := make([]vt.Ev, len(probes)), make([]string, len(probes))
		for i, p := range probes {
			ps[i] = plain(p)
			rs[i] = strip(ix.Search(ikey(p)).Value)
		}
		emit(vt.Ev{"e": "Search", "ps": ps, "rs": rs})
		for _, asc := range []bool{true, false} {
			it := ix.NewIterator(&utils.Options{IsAsc: asc})
			it.Rewind()
			emit(vt.Ev{"e": "Iter", "asc": asc, "lim": 0, "out": drain(it, 0)})
			ts, outs := make([]vt.Ev, len(targets)), make([][]vt.Ev, len(targets))
			for i, t := range targets {
				ts[i] = plain(t)
				it.Seek(ikey(t))
				outs[i] = drain(it, c.Lim)
			}
			it.Close()
			emit(vt.Ev{"e": "Seek", "asc": asc, "lim": c.Lim, "ts": ts, "outs": outs})
		}
		ix.DecrRef()
	}
}

func main() {
	in := flag.String("in", "", "cases (ndjson)")
	out := flag.String("out", "", "trace (ndjson)")
	flag.Parse()
	cases, err := vt.ReadNDJSON[Case](*in)
	if err != nil {
		vt.Fatal("%v", err)
	}
	w, err := vt.NewWriter(*out)
	if err != nil {
		vt.Fatal("%v", err)
	}
	psets := map[string][]Key{}
	for i := range cases {
		if cases[i].Psets != nil {
			for n, p := range cases[i].Psets {
				psets[n] = p
			}
			continue
		}
		runCase(&cases[i], psets, w)
	}
	if err := w.Close(); err != nil {
		vt.Fatal("%v", err)
	}
}
