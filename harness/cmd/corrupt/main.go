// corrupt: single-bit-flip enumeration for C14 on the real decoders.
//
// kinds:
//
//	wal   build a small WAL with the real wal.Manager, flip one bit of a segment file, run
//	      wal.VerifyDir (optional) + Open + Replay and record every record handed to the callback
//	vlog  build a value-log file with the real vlog.Manager, flip one bit, (optionally
//	      vlog.VerifyDir), Open, ReadValue every original pointer, Iterate the file
//	sst   build one SST through the engine's table builder (lsm.VerifBuildTable), flip one bit,
//	      open it with the table reader, Search every key and iterate the table
//	db    build a DB (flushed SSTs, values in the value log), flip one bit of an .sst or .vlog file
//	      of a copy, reopen the DB and Get every key
//
// Every flipped bit is restored before the next one. Consecutive bits (of the enumeration) with the
// same observation are reported as one FlipRange event. The driver contains no model of the
// formats: it reports what came back; the property layer (CorruptPropTrace.tla) judges it.
//
// usage: corrupt -in jobs.ndjson -out trace.ndjson [-dir scratch]
package main

import (
	"crypto/sha1"
	"encoding/hex"
	"errors"
	"flag"
	"fmt"
	"io"
	"log"
	"math"
	"os"
	"path/filepath"
	"runtime"
	"runtime/debug"
	"sort"
	"strings"
	"time"

	NoKV "github.com/feichai0017/NoKV"
	"github.com/feichai0017/NoKV/kv"
	"github.com/feichai0017/NoKV/lsm"
	"github.com/feichai0017/NoKV/utils"
	"github.com/feichai0017/NoKV/vlog"
	"github.com/feichai0017/NoKV/wal"

	"verif/harness/internal/eng"
	"verif/harness/internal/vt"
)

type Rec struct {
	Type string `json:"type"`
	Size int    `json:"size"`
}

type Job struct {
	ID       int    `json:"id"`
	Kind     string `json:"kind"`
	Recs     []Rec  `json:"recs"`   // wal: records (a "Rotate" type rotates); vlog/sst/db: value sizes
	Verify   bool   `json:"verify"` // run VerifyDir before opening (wal, vlog)
	Stride   int    `json:"stride"` // enumerate bits offset, offset+stride, ...
	Offset   int    `json:"offset"`
	Max      int    `json:"max"` // cap on the number of flips (0 = none)
	Seed     uint64 `json:"seed"`
	File     string `json:"file"`     // db: "sst" or "vlog"
	Prefetch bool   `json:"prefetch"` // db: run the hot-key prefetch (LSM.Prefetch) for every key before the first Get
}

var walType = map[string]wal.RecordType{"entry": wal.RecordTypeEntry, "raft_entry": wal.RecordTypeRaftEntry,
	"raft_state": wal.RecordTypeRaftState, "raft_snapshot": wal.RecordTypeRaftSnapshot}

func payload(seed uint64, idx, size int) []byte {
	b := make([]byte, size)
	x := seed*2862933555777941757 + uint64(idx)*3037000493 + 1
	for i := range b {
		x = x*6364136223846793005 + 1442695040888963407
		b[i] = 'a' + byte((x>>56)%26)
	}
	return b
}

func hash(p []byte) string {
	h := sha1.Sum(p)
	return hex.EncodeToString(h[:8])
}

type obs struct {
	mode  string   // read path used (one FlipRange event per mode)
	got   []string // records / entries served, in order
	reads []string // per original pointer / key: value id, "NOTFOUND" or "ERR"
	err   string
	pan   bool
}

func (o obs) key() string {
	return o.mode + "|" + strings.Join(o.got, ",") + "|" + strings.Join(o.reads, ",") + "|" + o.err + fmt.Sprint(o.pan)
}

func keys(os []obs) string {
	parts := make([]string, len(os))
	for i, o := range os {
		parts[i] = o.key()
	}
	return strings.Join(parts, "#")
}

func emitRange(emit func(vt.Ev), file string, from, to, n int, cur []obs) {
	for _, o := range cur {
		emit(vt.Ev{"e": "FlipRange", "file": file, "mode": o.mode, "from": from, "to": to, "n": n, "got": nn(o.got), "reads": nn(o.reads),
			"err": o.err, "panic": o.pan})
	}
}

// trim returns memory to the OS after a decoder allocated a huge buffer for a corrupted length
// field (the decoders allocate the declared length before reading); otherwise the following
// flips run under memory pressure.
func trim() {
	var ms runtime.MemStats
	runtime.ReadMemStats(&ms)
	if ms.HeapSys-ms.HeapReleased > 256<<20 {
		debug.FreeOSMemory()
	}
}

// guarded runs f and converts a panic into an error observation (fail-stop is an error report).
func guarded(f func(o *obs)) (o obs) {
	defer trim()
	defer func() {
		if p := recover(); p != nil {
			o.pan = true
			o.err = "PANIC: " + strings.SplitN(fmt.Sprint(p), "\n", 2)[0]
		}
	}()
	f(&o)
	return o
}

type target struct {
	path string
	orig []byte
	lo   int // first byte to enumerate
	hi   int // one past the last byte
}

func enumerate(j *Job, t target, emit func(vt.Ev), observe func() []obs) {
	enumerateWith(j, t, emit, func(flipped []byte) []obs {
		replaceFile(t.path, flipped)
		return observe()
	})
	replaceFile(t.path, t.orig)
}

// replaceFile installs new contents under a fresh inode (write + rename). A reader of the previous
// flip that is still running in the background (iterator prefetch workers outlive Close) keeps its
// mapping of the old inode instead of faulting on a file that is being rewritten under it.
func replaceFile(path string, data []byte) {
	tmp := path + ".flip"
	if err := os.WriteFile(tmp, data, 0o644); err != nil {
		vt.Fatal("write flipped file: %v", err)
	}
	if err := os.Rename(tmp, path); err != nil {
		vt.Fatal("install flipped file: %v", err)
	}
}

func nn(s []string) []string {
	if s == nil {
		return []string{}
	}
	return s
}

// ------------------------------------------------------------------------ wal

func runWal(root string, j *Job, emit func(vt.Ev)) {
	dir := filepath.Join(root, "wal")
	cfg := wal.Config{Dir: dir, SegmentSize: 65536, BufferSize: 512}
	m, err := wal.Open(cfg)
	if err != nil {
		vt.Fatal("wal open: %v", err)
	}
	var orig []string
	for i, r := range j.Recs {
		if r.Type == "Rotate" {
			if err := m.Rotate(); err != nil {
				vt.Fatal("rotate: %v", err)
			}
			continue
		}
		p := payload(j.Seed, i, r.Size)
		if _, err := m.AppendRecords(wal.Record{Type: walType[r.Type], Payload: p}); err != nil {
			vt.Fatal("append: %v", err)
		}
		orig = append(orig, fmt.Sprintf("%d:%d:%s", walType[r.Type], len(p), hash(p)))
	}
	if err := m.Close(); err != nil {
		vt.Fatal("close: %v", err)
	}
	files, _ := filepath.Glob(filepath.Join(dir, "*.wal"))
	sort.Strings(files)
	// pristine copies of every segment: VerifyDir may truncate, so all are restored per flip
	pristine := map[string][]byte{}
	for _, f := range files {
		b, err := os.ReadFile(f)
		if err != nil {
			vt.Fatal("%v", err)
		}
		pristine[f] = b
	}
	emit(vt.Ev{"e": "Build", "kind": "wal", "orig": nn(orig), "want": []string{}, "files": len(files), "verify": j.Verify})
	for _, f := range files {
		if len(pristine[f]) == 0 {
			continue
		}
		t := target{path: f, orig: pristine[f], lo: 0, hi: len(pristine[f])}
		enumerate(j, t, emit, func() []obs {
			for g, b := range pristine {
				if g != f {
					replaceFile(g, b)
				}
			}
			return one(guarded(func(o *obs) {
				o.mode = "replay"
				if j.Verify {
					if err := wal.VerifyDir(dir, nil); err != nil {
						o.err = "verify: " + err.Error()
					}
				}
				m2, err := wal.Open(cfg)
				if err != nil {
					o.err += " open: " + err.Error()
					return
				}
				defer m2.Close()
				err = m2.Replay(func(info wal.EntryInfo, p []byte) error {
					o.got = append(o.got, fmt.Sprintf("%d:%d:%s", info.Type, len(p), hash(p)))
					return nil
				})
				if err != nil {
					o.err += " replay: " + err.Error()
				}
			}))
		})
	}
}

func one(o obs) []obs { return []obs{o} }

// ----------------------------------------------------------------------- vlog

func runVlog(root string, j *Job, emit func(vt.Ev)) {
	dir := filepath.Join(root, "vlog")
	cfg := vlog.Config{Dir: dir, MaxSize: 1 << 16, Bucket: 0}
	m, err := vlog.Open(cfg)
	if err != nil {
		vt.Fatal("vlog open: %v", err)
	}
	var orig, want []string
	var ptrs []kv.ValuePtr
	end := 0
	for i, r := range j.Recs {
		key := kv.InternalKey(kv.CFDefault, []byte(fmt.Sprintf("key%03d", i)), uint64(i+1))
		val := payload(j.Seed, i, r.Size)
		e := kv.NewEntry(key, val)
		e.Meta = byte(i % 3)
		if i%4 == 3 {
			e.ExpiresAt = uint64(1 << 40)
		}
		ptr, err := m.AppendEntry(e)
		if err != nil {
			vt.Fatal("vlog append: %v", err)
		}
		ptrs = append(ptrs, *ptr)
		orig = append(orig, fmt.Sprintf("%s:%s:%d:%d", hex.EncodeToString(key), hash(val), e.Meta, e.ExpiresAt))
		want = append(want, fmt.Sprintf("%d:%s", len(val), hash(val)))
		end = int(ptr.Offset + ptr.Len)
	}
	if err := m.SyncActive(); err != nil {
		vt.Fatal("vlog sync: %v", err)
	}
	if err := m.Close(); err != nil {
		vt.Fatal("vlog close: %v", err)
	}
	files, _ := filepath.Glob(filepath.Join(dir, "*.vlog"))
	if len(files) != 1 {
		vt.Fatal("expected one vlog file, got %d", len(files))
	}
	b, err := os.ReadFile(files[0])
	if err != nil {
		vt.Fatal("%v", err)
	}
	emit(vt.Ev{"e": "Build", "kind": "vlog", "orig": nn(orig), "want": nn(want), "size": len(b), "end": end, "verify": j.Verify})
	t := target{path: files[0], orig: b, lo: 0, hi: end}
	enumerate(j, t, emit, func() []obs {
		return one(guarded(func(o *obs) {
			o.mode = "read+iterate"
			if j.Verify {
				if err := vlog.VerifyDir(cfg); err != nil {
					o.err = "verify: " + err.Error()
				}
			}
			m2, err := vlog.Open(cfg)
			if err != nil {
				o.err += " open: " + err.Error()
				return
			}
			defer m2.Close()
			for i := range ptrs {
				p := ptrs[i]
				val, cb, err := m2.ReadValue(&p, vlog.ReadOptions{Mode: vlog.ReadModeCopy})
				if cb != nil {
					cb()
				}
				if err != nil {
					o.reads = append(o.reads, "ERR")
				} else {
					o.reads = append(o.reads, fmt.Sprintf("%d:%s", len(val), hash(val)))
				}
			}
			_, err = m2.Iterate(ptrs[0].Fid, 0, func(e *kv.Entry, vp *kv.ValuePtr) error {
				o.got = append(o.got, fmt.Sprintf("%s:%s:%d:%d", hex.EncodeToString(e.Key), hash(e.Value), e.Meta, e.ExpiresAt))
				return nil
			})
			if err != nil {
				o.err += " iterate: " + err.Error()
			}
		}))
	})
}

// ------------------------------------------------------------------------ sst

func sstOptions(dir string) *lsm.Options {
	return &lsm.Options{WorkDir: dir, SSTableMaxSz: 64 << 20, MemTableSize: 1 << 20, BlockSize: 256,
		BloomFalsePositive: 0.01, BlockCacheSize: 4096, BloomCacheSize: 16} // engine default block cache size
}

func runSST(root string, j *Job, emit func(vt.Ev)) {
	dir := filepath.Join(root, "sst")
	if err := os.MkdirAll(dir, 0o755); err != nil {
		vt.Fatal("%v", err)
	}
	opt := sstOptions(dir)
	var entries []*kv.Entry
	var orig, want []string
	var keys [][]byte
	for i, r := range j.Recs {
		key := kv.InternalKey(kv.CFDefault, []byte(fmt.Sprintf("key%03d", i)), 7)
		val := payload(j.Seed, i, r.Size)
		e := kv.NewEntry(key, val)
		entries = append(entries, e)
		keys = append(keys, key)
		orig = append(orig, fmt.Sprintf("%s:%s", hex.EncodeToString(key), hash(val)))
		want = append(want, fmt.Sprintf("%d:%s", len(val), hash(val)))
	}
	t0, err := lsm.VerifBuildTable(opt, 1, entries)
	if err != nil {
		vt.Fatal("build table: %v", err)
	}
	blocks := t0.Blocks()
	_ = t0.Close()
	path := utils.FileNameSSTable(dir, 1)
	b, err := os.ReadFile(path)
	if err != nil {
		vt.Fatal("%v", err)
	}
	emit(vt.Ev{"e": "Build", "kind": "sst", "orig": nn(orig), "want": nn(want), "size": len(b), "blocks": blocks})
	t := target{path: path, orig: b, lo: 0, hi: len(b)}
	search := func(tb *lsm.VerifSST, o *obs) {
		for _, k := range keys {
			e, err := tb.Search(k)
			switch {
			case errors.Is(err, utils.ErrKeyNotFound):
				o.reads = append(o.reads, "NOTFOUND")
			case err != nil || e == nil:
				o.reads = append(o.reads, "ERR")
			default:
				o.reads = append(o.reads, fmt.Sprintf("%d:%s", len(e.Value), hash(e.Value)))
			}
		}
	}
	scan := func(it utils.Iterator, o *obs, pause bool, wait func()) {
		if it == nil {
			return
		}
		defer it.Close()
		it.Rewind()
		if pause { // let the iterator's prefetch workers load the blocks ahead before they are read
			time.Sleep(2 * time.Millisecond)
			wait()
		}
		for ; it.Valid(); it.Next() {
			item := it.Item()
			if item == nil || item.Entry() == nil {
				break
			}
			e := item.Entry()
			o.got = append(o.got, fmt.Sprintf("%s:%s", hex.EncodeToString(e.Key), hash(e.Value)))
		}
	}
	// three read paths, each on a freshly opened table (fresh caches):
	//   read          Search of every key, then a plain scan
	//   prefetch      the hot-key prefetch loader (table.prefetchBlockForKey) for every key first, then the same reads
	//   iterprefetch  an ascending scan with PrefetchBlocks (the iterator's prefetch workers load blocks ahead)
	mode := func(name string, f func(tb *lsm.VerifSST, o *obs)) obs {
		return guarded(func(o *obs) {
			o.mode = name
			tb, err := lsm.VerifOpenTable(opt, 1)
			if err != nil {
				o.err = "open: " + err.Error()
				return
			}
			defer tb.Close()
			f(tb, o)
		})
	}
	enumerate(j, t, emit, func() []obs {
		return []obs{
			mode("read", func(tb *lsm.VerifSST, o *obs) {
				search(tb, o)
				scan(tb.NewIterator(true), o, false, nil)
			}),
			mode("prefetch", func(tb *lsm.VerifSST, o *obs) {
				for _, k := range keys {
					tb.Prefetch(k)
				}
				tb.WaitCache() // the block cache admits entries asynchronously
				search(tb, o)
				scan(tb.NewIterator(true), o, false, nil)
			}),
			mode("iterprefetch", func(tb *lsm.VerifSST, o *obs) {
				// the prefetch workers outlive Iterator.Close; VerifSST.Close unmaps the file regardless of
				// references, so give them time to finish before the table is closed
				defer time.Sleep(2 * time.Millisecond)
				scan(tb.NewIteratorWith(&utils.Options{IsAsc: true, PrefetchBlocks: 4, PrefetchWorkers: 2}), o, true, tb.WaitCache)
			}),
		}
	})
}

// ------------------------------------------------------------------------- db

func copyDir(src, dst string) {
	_ = os.RemoveAll(dst)
	err := filepath.Walk(src, func(p string, info os.FileInfo, err error) error {
		if err != nil {
			return err
		}
		rel, _ := filepath.Rel(src, p)
		q := filepath.Join(dst, rel)
		if info.IsDir() {
			return os.MkdirAll(q, 0o755)
		}
		if info.Name() == "LOCK" {
			return nil
		}
		in, err := os.Open(p)
		if err != nil {
			return err
		}
		defer in.Close()
		out, err := os.Create(q)
		if err != nil {
			return err
		}
		defer out.Close()
		_, err = io.Copy(out, in)
		return err
	})
	if err != nil {
		vt.Fatal("copy dir: %v", err)
	}
}

func runDB(root string, j *Job, emit func(vt.Ev), nullw *vt.Writer) {
	master := filepath.Join(root, "master")
	if err := os.MkdirAll(master, 0o755); err != nil {
		vt.Fatal("%v", err)
	}
	cfg := eng.Cfg{Mem: "skiplist", Vlog: true, Buckets: 1, VlogSize: 1 << 20}
	r := &eng.Runner{Dir: master, Cfg: cfg, W: nullw, SID: j.ID}
	if !r.Open() {
		vt.Fatal("db open failed")
	}
	var want []string
	var keys [][]byte
	for i, rec := range j.Recs {
		k := []byte(fmt.Sprintf("key%03d", i))
		v := payload(j.Seed, i, rec.Size)
		if err := r.DB.Set(k, v); err != nil {
			vt.Fatal("set: %v", err)
		}
		keys = append(keys, k)
		want = append(want, fmt.Sprintf("%d:%s", len(v), hash(v)))
		if i == len(j.Recs)/2 { // two tables
			r.Exec(eng.Op{Op: "Rotate"})
			r.Exec(eng.Op{Op: "Flush"})
		}
	}
	r.Exec(eng.Op{Op: "Rotate"})
	r.Exec(eng.Op{Op: "Flush"})
	if err := r.Close(); err != nil {
		vt.Fatal("db close: %v", err)
	}
	pat := "*.sst"
	if j.File == "vlog" {
		pat = filepath.Join("vlog", "bucket-000", "*.vlog")
	}
	files, _ := filepath.Glob(filepath.Join(master, pat))
	sort.Strings(files)
	if len(files) == 0 {
		vt.Fatal("no %s files in the DB directory", j.File)
	}
	emit(vt.Ev{"e": "Build", "kind": "db-" + j.File, "orig": []string{}, "want": nn(want), "files": len(files)})
	work := filepath.Join(root, "work")
	n := 0
	for _, f := range files {
		b, err := os.ReadFile(f)
		if err != nil {
			vt.Fatal("%v", err)
		}
		hi := len(b)
		if j.File == "vlog" { // only the written part of the (pre-sized, zero-filled) file
			hi = 0
			for i := len(b) - 1; i >= 0; i-- {
				if b[i] != 0 {
					hi = i + 1
					break
				}
			}
		}
		rel, _ := filepath.Rel(master, f)
		n++
		// each flip works on a fresh copy of the directory: a failed Open may leave the copy locked
		t := target{path: filepath.Join(work, rel), orig: b, lo: 0, hi: hi}
		jj := *j
		jj.Offset = j.Offset + n
		enumerateDB(&jj, master, work, t, emit, keys, cfg)
	}
	_ = os.RemoveAll(work)
}

func enumerateDB(j *Job, master, work string, t target, emit func(vt.Ev), keys [][]byte, cfg eng.Cfg) {
	seq := 0
	enumerateWith(j, t, emit, func(flipped []byte) []obs {
		seq++
		dir := fmt.Sprintf("%s-%d", work, seq%4)
		copyDir(master, dir)
		rel, _ := filepath.Rel(work, t.path)
		if err := os.WriteFile(filepath.Join(dir, rel), flipped, 0o644); err != nil {
			vt.Fatal("%v", err)
		}
		o := guarded(func(o *obs) {
			o.mode = "get"
			r := &eng.Runner{Dir: dir, Cfg: cfg}
			dbo := r.Opts()
			dbo.BlockCacheSize = 4096 // engine default (a 64-entry cache holds a single block)
			db := NoKV.Open(dbo)
			defer func() {
				if err := db.Close(); err != nil && o.err == "" {
					o.err = "close: " + err.Error()
				}
			}()
			if j.Prefetch { // what DB.executePrefetch does for a hot key
				o.mode = "prefetch+get"
				for _, k := range keys {
					db.VerifLSM().Prefetch(kv.InternalKey(kv.CFDefault, k, math.MaxUint64))
				}
				time.Sleep(5 * time.Millisecond) // the block cache admits entries asynchronously
			}
			for _, k := range keys {
				e, err := db.Get(k)
				switch {
				case errors.Is(err, utils.ErrKeyNotFound):
					o.reads = append(o.reads, "NOTFOUND")
				case err != nil || e == nil:
					o.reads = append(o.reads, "ERR")
				default:
					o.reads = append(o.reads, fmt.Sprintf("%d:%s", len(e.Value), hash(e.Value)))
				}
			}
		})
		_ = os.RemoveAll(dir)
		return one(o)
	})
}

// enumerateWith flips the requested bits one at a time and merges consecutive bits (of the enumeration)
// with identical observations into one range; the observer places the flipped bytes itself.
func enumerateWith(j *Job, t target, emit func(vt.Ev), observe func(flipped []byte) []obs) {
	var cur []obs
	from, prev, n, count := -1, -1, 0, 0
	flush := func() {
		if from >= 0 {
			emitRange(emit, filepath.Base(t.path), from, prev, n, cur)
		}
	}
	stride := j.Stride
	if stride <= 0 {
		stride = 1
	}
	buf := append([]byte(nil), t.orig...)
	for bit := t.lo*8 + j.Offset%stride; bit < t.hi*8; bit += stride {
		if j.Max > 0 && count >= j.Max {
			break
		}
		count++
		buf[bit/8] ^= 1 << (bit % 8)
		o := observe(buf)
		buf[bit/8] ^= 1 << (bit % 8)
		if from >= 0 && keys(o) == keys(cur) {
			prev = bit
			n++
			continue
		}
		flush()
		cur, from, prev, n = o, bit, bit, 1
	}
	flush()
}

func main() {
	in := flag.String("in", "", "jobs (ndjson)")
	out := flag.String("out", "", "trace (ndjson)")
	dir := flag.String("dir", os.TempDir(), "scratch directory")
	flag.Parse()
	log.SetOutput(io.Discard)
	jobs, err := vt.ReadNDJSON[Job](*in)
	if err != nil {
		vt.Fatal("%v", err)
	}
	w, err := vt.NewWriter(*out)
	if err != nil {
		vt.Fatal("%v", err)
	}
	nullw, err := vt.NewWriter(os.DevNull)
	if err != nil {
		vt.Fatal("%v", err)
	}
	for i := range jobs {
		j := &jobs[i]
		root, err := os.MkdirTemp(*dir, "cor-")
		if err != nil {
			vt.Fatal("%v", err)
		}
		emit := func(ev vt.Ev) { ev["s"] = j.ID; w.Emit(ev) }
		t0 := time.Now()
		switch j.Kind {
		case "wal":
			runWal(root, j, emit)
		case "vlog":
			runVlog(root, j, emit)
		case "sst":
			runSST(root, j, emit)
		case "db":
			runDB(root, j, emit, nullw)
		default:
			vt.Fatal("unknown kind %q", j.Kind)
		}
		_ = os.RemoveAll(root)
		fmt.Fprintf(os.Stderr, "job %d %s %s: %d ms\n", j.ID, j.Kind, j.File, time.Since(t0).Milliseconds())
	}
	if err := w.Close(); err != nil {
		vt.Fatal("%v", err)
	}
}
