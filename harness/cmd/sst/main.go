// sst: runs C35 cases on the real SST builder and table reader (lsm/builder.go, lsm/table.go through
// the verif-only accessor lsm/verif_sst.go). A case is a sorted entry list plus table options; the
// driver builds the file, records every point lookup, bloom answer, full iteration and seek, closes
// the table, reopens the file with cold caches and records the same observations again. No model of
// a table lives here: replies are recorded verbatim and judged by spec/SST/SSTPropTrace.tla.
//
// usage: sst -in cases.ndjson -out trace.ndjson -dir scratch
package main

import (
	"errors"
	"flag"
	"fmt"
	"math"
	"os"
	"path/filepath"
	"strings"

	"github.com/feichai0017/NoKV/kv"
	"github.com/feichai0017/NoKV/lsm"
	"github.com/feichai0017/NoKV/utils"

	"verif/harness/internal/vt"
)

const maxTok = 1000000 // trace token for version MaxUint64

type Key struct {
	CF   int    `json:"cf"`
	K    []int  `json:"k"`
	Ver  int    `json:"ver"`
	Val  string `json:"val,omitempty"`
	Pad  int    `json:"pad,omitempty"` // stored value = Val + Pad filler bytes (kept out of the trace)
	Meta int    `json:"meta,omitempty"`
	Exp  uint64 `json:"exp,omitempty"`
}

type Case struct {
	ID      int     `json:"id"`
	Block   int     `json:"block"` // Options.BlockSize
	Bloom   float64 `json:"bloom"` // Options.BloomFalsePositive
	Entries []Key   `json:"entries"`
	Probes  []Key   `json:"probes"`
	Targets []Key   `json:"targets"`
	Lim     int     `json:"lim"`
}

func ver(v int) uint64 {
	if v == maxTok {
		return math.MaxUint64
	}
	return uint64(v)
}

func tok(ts uint64) int {
	if ts == math.MaxUint64 {
		return maxTok
	}
	if ts >= maxTok {
		return -1
	}
	return int(ts)
}

func ubytes(k []int) []byte {
	u := make([]byte, len(k))
	for i, b := range k {
		u[i] = byte(b)
	}
	return u
}

func ikey(k Key) []byte { return kv.InternalKey(kv.ColumnFamily(k.CF), ubytes(k.K), ver(k.Ver)) }

// token is the opaque identity of a stored value in the trace: payload (filler stripped), meta, expiry.
func token(val []byte, meta byte, exp uint64) string {
	s := string(val)
	if i := strings.IndexByte(s, '#'); i >= 0 {
		if strings.Trim(s[i:], "#") != "" {
			s = "DAMAGED:" + s[:i]
		} else {
			s = fmt.Sprintf("%s+%d", s[:i], len(s)-i)
		}
	}
	return fmt.Sprintf("%s;%d;%d", s, meta, exp)
}

func plain(k Key) vt.Ev {
	kk := k.K
	if kk == nil {
		kk = []int{}
	}
	return vt.Ev{"cf": k.CF, "k": kk, "ver": k.Ver}
}

func entryEv(e *kv.Entry) vt.Ev {
	cf, u, ts := kv.SplitInternalKey(e.Key)
	k := make([]int, len(u))
	for i, b := range u {
		k[i] = int(b)
	}
	return vt.Ev{"cf": int(cf), "k": k, "ver": tok(ts), "val": token(e.Value, e.Meta, e.ExpiresAt)}
}

func drain(it utils.Iterator, lim int) []vt.Ev {
	out := []vt.Ev{}
	for ; it.Valid(); it.Next() {
		if lim > 0 && len(out) >= lim {
			break
		}
		out = append(out, entryEv(it.Item().Entry()))
	}
	return out
}

func observe(c *Case, t *lsm.VerifSST, emit func(vt.Ev)) {
	ps, rs := make([]vt.Ev, len(c.Probes)), make([]vt.Ev, len(c.Probes))
	bk, br := make([]vt.Ev, len(c.Probes)), make([]bool, len(c.Probes))
	for i, p := range c.Probes {
		ps[i] = plain(p)
		e, err := t.Search(ikey(p))
		switch {
		case err == nil && e != nil:
			// the reply names the entry it came from: its key and its value
			rs[i] = entryEv(e)
			rs[i]["found"] = true
		case errors.Is(err, utils.ErrKeyNotFound):
			rs[i] = vt.Ev{"found": false}
		default:
			rs[i] = vt.Ev{"found": false, "err": fmt.Sprint(err)}
		}
		bk[i] = vt.Ev{"cf": p.CF, "k": ps[i]["k"]}
		_, br[i] = t.BloomMayContain(kv.EncodeKeyWithCF(kv.ColumnFamily(p.CF), ubytes(p.K)))
	}
	emit(vt.Ev{"e": "Search", "ps": ps, "rs": rs})
	emit(vt.Ev{"e": "Bloom", "ks": bk, "rs": br})
	for _, asc := range []bool{true, false} {
		it := t.NewIterator(asc)
		it.Rewind()
		emit(vt.Ev{"e": "Iter", "asc": asc, "out": drain(it, 0)})
		ts, outs := make([]vt.Ev, len(c.Targets)), make([][]vt.Ev, len(c.Targets))
		for i, tg := range c.Targets {
			ts[i] = plain(tg)
			it.Seek(ikey(tg))
			outs[i] = drain(it, c.Lim)
		}
		_ = it.Close()
		emit(vt.Ev{"e": "Seek", "asc": asc, "lim": c.Lim, "ts": ts, "outs": outs})
	}
}

func runCase(dir string, c *Case, w *vt.Writer) {
	emit := func(ev vt.Ev) { ev["s"] = c.ID; w.Emit(ev) }
	defer func() {
		if r := recover(); r != nil {
			emit(vt.Ev{"e": "Panic", "msg": fmt.Sprint(r)})
		}
	}()
	wd := filepath.Join(dir, fmt.Sprintf("sst-%d", c.ID))
	if err := os.MkdirAll(wd, 0o755); err != nil {
		vt.Fatal("%v", err)
	}
	defer os.RemoveAll(wd)
	opt := &lsm.Options{WorkDir: wd, SSTableMaxSz: 64 << 20, MemTableSize: 1 << 20, BlockSize: c.Block,
		BloomFalsePositive: c.Bloom, BlockCacheSize: 16, BloomCacheSize: 16}
	entries := make([]*kv.Entry, len(c.Entries))
	built := make([]vt.Ev, len(c.Entries))
	for i, k := range c.Entries {
		val := k.Val
		if k.Pad > 0 {
			val += strings.Repeat("#", k.Pad)
		}
		entries[i] = &kv.Entry{Key: ikey(k), Value: []byte(val), Meta: byte(k.Meta), ExpiresAt: k.Exp, Version: ver(k.Ver)}
		built[i] = plain(k)
		built[i]["val"] = token([]byte(val), byte(k.Meta), k.Exp)
	}
	t, err := lsm.VerifBuildTable(opt, 1, entries)
	if err != nil {
		emit(vt.Ev{"e": "BuildFailed", "msg": err.Error()})
		return
	}
	bases := []vt.Ev{}
	for _, b := range t.BlockBaseKeys() {
		bases = append(bases, entryEv(&kv.Entry{Key: b}))
	}
	has, _ := t.BloomMayContain(nil)
	emit(vt.Ev{"e": "Build", "entries": built, "blocks": t.Blocks(), "bases": bases, "bloom": has, "keycount": int(t.KeyCount())})
	observe(c, t, emit)
	if err := t.Close(); err != nil {
		emit(vt.Ev{"e": "CloseFailed", "msg": err.Error()})
		return
	}
	t2, err := lsm.VerifOpenTable(opt, 1)
	if err != nil {
		emit(vt.Ev{"e": "ReopenFailed", "msg": err.Error()})
		return
	}
	emit(vt.Ev{"e": "Reopen", "blocks": t2.Blocks(), "keycount": int(t2.KeyCount())})
	observe(c, t2, emit)
	_ = t2.Close()
}

func main() {
	in := flag.String("in", "", "cases (ndjson)")
	out := flag.String("out", "", "trace (ndjson)")
	dir := flag.String("dir", os.TempDir(), "scratch directory")
	flag.Parse()
	cases, err := vt.ReadNDJSON[Case](*in)
	if err != nil {
		vt.Fatal("%v", err)
	}
	w, err := vt.NewWriter(*out)
	if err != nil {
		vt.Fatal("%v", err)
	}
	for i := range cases {
		runCase(*dir, &cases[i], w)
	}
	if err := w.Close(); err != nil {
		vt.Fatal("%v", err)
	}
}
