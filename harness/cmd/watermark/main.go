// watermark: replays thread schedules on a real utils.WaterMark (C32).
//
// usage: watermark -in schedules.ndjson -out trace.ndjson
//
// A schedule names the window size, one program (list of API calls) per logical thread
// and a sequence of thread ids. Every logical thread is a goroutine that parks at the
// verif yield points inside utils/watermarker.go; the scheduler resumes exactly one
// thread per schedule entry. After every step the driver records DoneUntil(),
// LastIndex() and the slot counters; threads record when their calls start and return.
// The driver contains no model of the watermark.
package main

import (
	"context"
	"flag"
	"fmt"
	"strings"

	"github.com/feichai0017/NoKV/utils"

	"verif/harness/internal/sched"
	"verif/harness/internal/vt"
)

type op struct {
	Op string   `json:"op"` // Begin | Done | Wait | BeginNext | DoneMine
	Is []uint64 `json:"is"` // indices (Begin/Done: one = Begin/Done, several = BeginMany/DoneMany; Wait: one)
	N  int      `json:"n"`  // BeginNext: how many consecutive indices to draw under the caller's lock
}

type schedule struct {
	ID    int    `json:"id"`
	W     int    `json:"w"`     // window size (VerifSetWindow); 0 = leave the default window
	Progs [][]op `json:"progs"` // program of thread 1, 2, ...
	Sched []int  `json:"sched"` // thread ids
	Tail  bool   `json:"tail"`  // run remaining threads to completion after the schedule
}

func u64s(a []uint64) []uint64 {
	if a == nil {
		return []uint64{}
	}
	return a
}

func runSchedule(sc *schedule, out *vt.Writer) {
	w := &utils.WaterMark{Name: "verif"}
	w.Init(nil)
	if sc.W > 0 {
		w.VerifSetWindow(1, sc.W)
	}
	s := sched.New()
	s.Enabled = func(point string, args []uint64) bool {
		switch {
		case strings.HasSuffix(point, ".lock") && strings.HasPrefix(point, "wm."):
			return w.VerifMuFree()
		case point == "wm.wait.park":
			return !w.VerifWaiterPending(args[0])
		}
		return true
	}
	utils.VerifHook = s.Hook
	defer func() { utils.VerifHook = nil }()

	emit := func(ev vt.Ev) {
		ev["s"] = sc.ID
		out.Emit(ev)
	}
	var xl sched.Mutex
	next := uint64(1)
	for ti, prog := range sc.Progs {
		tid := ti + 1
		prog := prog
		s.Go(tid, func() {
			var mine []uint64
			begin := func(is []uint64) {
				emit(vt.Ev{"e": "BeginCall", "t": tid, "is": u64s(is)})
				if len(is) == 1 {
					w.Begin(is[0])
				} else {
					w.BeginMany(is)
				}
				emit(vt.Ev{"e": "BeginRet", "t": tid, "is": u64s(is)})
			}
			done := func(is []uint64) {
				emit(vt.Ev{"e": "DoneCall", "t": tid, "is": u64s(is)})
				if len(is) == 1 {
					w.Done(is[0])
				} else {
					w.DoneMany(is)
				}
				emit(vt.Ev{"e": "DoneRet", "t": tid, "is": u64s(is)})
			}
			for _, o := range prog {
				s.Yield("op")
				switch o.Op {
				case "Begin":
					begin(o.Is)
				case "Done":
					done(o.Is)
				case "Wait":
					emit(vt.Ev{"e": "WaitCall", "t": tid, "i": o.Is[0]})
					err := w.WaitForMark(context.Background(), o.Is[0])
					emit(vt.Ev{"e": "WaitRet", "t": tid, "i": o.Is[0], "ok": err == nil})
				case "BeginNext":
					// the caller's own serialisation of Begin (as oracle.newCommitTs does under its mutex)
					s.Lock(&xl, "x.lock")
					mine = nil
					for j := 0; j < o.N; j++ {
						mine = append(mine, next)
						next++
					}
					begin(mine)
					xl.Unlock()
				case "DoneMine":
					done(mine)
				default:
					panic("unknown op " + o.Op)
				}
			}
		})
	}
	obs := func(si sched.StepInfo) {
		if si.Skipped != "" {
			emit(vt.Ev{"e": "Skip", "t": si.T, "why": si.Skipped, "n": si.N})
			return
		}
		base, slots := w.VerifSlots()
		emit(vt.Ev{"e": "Step", "n": si.N, "t": si.T, "from": si.From, "fa": u64s(si.FromArg), "to": si.To, "tail": si.Tail,
			"d": w.DoneUntil(), "last": w.LastIndex(), "base": base, "slots": slots})
	}
	err := s.Run(sc.Sched, sc.Tail, 100000, obs)
	end := vt.Ev{"e": "End", "blocked": []int{}, "panics": []string{}}
	if err != nil {
		end["err"] = err.Error()
	}
	if b := s.Blocked(); b != nil {
		end["blocked"] = b
	}
	var at []string
	for _, t := range s.Threads() {
		if !t.Done {
			at = append(at, fmt.Sprintf("%d@%s", t.ID, t.Point))
		}
	}
	if at != nil {
		end["parked"] = at
	}
	if err == nil {
		s.Abort()
	}
	var panics []string
	for _, t := range s.Threads() {
		if t.Panic != nil {
			panics = append(panics, fmt.Sprintf("thread %d: %v", t.ID, t.Panic))
		}
	}
	if panics != nil {
		end["panics"] = panics
	}
	emit(end)
}

func main() {
	in := flag.String("in", "", "schedules (ndjson)")
	outp := flag.String("out", "", "trace (ndjson)")
	flag.Parse()
	scheds, err := vt.ReadNDJSON[schedule](*in)
	if err != nil {
		vt.Fatal("%v", err)
	}
	out, err := vt.NewWriter(*outp)
	if err != nil {
		vt.Fatal("%v", err)
	}
	for i := range scheds {
		runSchedule(&scheds[i], out)
	}
	if err := out.Close(); err != nil {
		vt.Fatal("%v", err)
	}
}
