// pdroute: executes TLC-generated heartbeat / removal / restart sequences on the real
// pd/server.Service backed by storage.OpenLocalStore in a temp directory (C26) and records the
// accept/reject results and the reply of a route lookup for every key of a small key set after
// every step.  No model of the catalog here.
//
// usage: pdroute -in schedules.ndjson -out trace.ndjson [-dir scratch]
package main

import (
	"context"
	"flag"
	"io"
	"log"
	"os"
	"path/filepath"
	"slices"

	"github.com/feichai0017/NoKV/pb"
	"github.com/feichai0017/NoKV/pd/core"
	pdserver "github.com/feichai0017/NoKV/pd/server"
	pdstorage "github.com/feichai0017/NoKV/pd/storage"
	"github.com/feichai0017/NoKV/pd/tso"
	"google.golang.org/grpc/status"

	"verif/harness/internal/vt"
)

type Op struct {
	Op    string `json:"op"` // Heartbeat | Remove | Restart
	ID    uint64 `json:"id"`
	Start string `json:"start"`
	End   string `json:"end"`
	Ver   uint64 `json:"ver"`
	Conf  uint64 `json:"conf"`
	Mode  string `json:"mode"` // Restart: "close" (clean shutdown) | "kill" (files as they are)
}

type Schedule struct {
	ID   int      `json:"id"`
	Ops  []Op     `json:"ops"`
	Keys []string `json:"keys"` // looked up after every step
}

type pd struct {
	svc   *pdserver.Service
	store *pdstorage.LocalStore
}

// start is cmd/nokv/pd.go's start sequence: open the store, load the snapshot, restore the
// regions in ascending id order through the cluster's heartbeat path (restorePDRegions).
func start(dir string) (*pd, int, error) {
	store, err := pdstorage.OpenLocalStore(dir, nil)
	if err != nil {
		return nil, 0, err
	}
	snap, err := store.Load()
	if err != nil {
		return nil, 0, err
	}
	cluster := core.NewCluster()
	ids := make([]uint64, 0, len(snap.Regions))
	for id := range snap.Regions {
		if id != 0 {
			ids = append(ids, id)
		}
	}
	slices.Sort(ids)
	loaded := 0
	var rerr error
	for _, id := range ids {
		meta := snap.Regions[id]
		if meta.ID == 0 {
			continue
		}
		if err := cluster.UpsertRegionHeartbeat(meta); err != nil {
			rerr = err
			break
		}
		loaded++
	}
	idStart, tsStart := pdstorage.ResolveAllocatorStarts(1, 1, snap.Allocator)
	svc := pdserver.NewService(cluster, core.NewIDAllocator(idStart), tso.NewAllocator(tsStart))
	svc.SetStorage(store)
	return &pd{svc: svc, store: store}, loaded, rerr
}

func copyDir(src, dst string) error {
	ents, err := os.ReadDir(src)
	if err != nil {
		return err
	}
	if err := os.MkdirAll(dst, 0o755); err != nil {
		return err
	}
	for _, e := range ents {
		if e.IsDir() {
			continue
		}
		b, err := os.ReadFile(filepath.Join(src, e.Name()))
		if err != nil {
			return err
		}
		if err := os.WriteFile(filepath.Join(dst, e.Name()), b, 0o644); err != nil {
			return err
		}
	}
	return nil
}

func run(base string, sc *Schedule, w *vt.Writer) {
	root, err := os.MkdirTemp(base, "pdr-")
	if err != nil {
		vt.Fatal("%v", err)
	}
	defer os.RemoveAll(root)
	gen := 0
	dir := filepath.Join(root, "g0")
	p, _, err := start(dir)
	if err != nil {
		vt.Fatal("start pd: %v", err)
	}
	emit := func(ev vt.Ev) { ev["s"] = sc.ID; w.Emit(ev) }
	ctx := context.Background()
	lookups := func() {
		for _, k := range sc.Keys {
			resp, err := p.svc.GetRegionByKey(ctx, &pb.GetRegionByKeyRequest{Key: []byte(k)})
			ev := vt.Ev{"e": "Lookup", "key": k, "ok": err == nil}
			if err == nil {
				ev["found"] = !resp.GetNotFound()
				if r := resp.GetRegion(); r != nil && !resp.GetNotFound() {
					ev["rid"], ev["rstart"], ev["rend"] = r.GetId(), string(r.GetStartKey()), string(r.GetEndKey())
					ev["rver"], ev["rconf"] = r.GetEpochVersion(), r.GetEpochConfVersion()
				}
			}
			emit(ev)
		}
	}
	for _, op := range sc.Ops {
		switch op.Op {
		case "Heartbeat":
			_, err := p.svc.RegionHeartbeat(ctx, &pb.RegionHeartbeatRequest{Region: &pb.RegionMeta{
				Id: op.ID, StartKey: []byte(op.Start), EndKey: []byte(op.End), EpochVersion: op.Ver, EpochConfVersion: op.Conf,
				Peers: []*pb.RegionPeer{{StoreId: op.ID, PeerId: op.ID*10 + 1}},
			}})
			ev := vt.Ev{"e": "Heartbeat", "id": op.ID, "start": op.Start, "end": op.End, "ver": op.Ver, "conf": op.Conf, "ok": err == nil}
			if err != nil {
				ev["code"] = status.Code(err).String()
				ev["err"] = err.Error()
			}
			emit(ev)
		case "Remove":
			resp, err := p.svc.RemoveRegion(ctx, &pb.RemoveRegionRequest{RegionId: op.ID})
			emit(vt.Ev{"e": "Remove", "id": op.ID, "ok": err == nil, "removed": resp.GetRemoved()})
		case "Restart":
			gen++
			next := dir
			if op.Mode == "kill" {
				next = filepath.Join(root, "g"+string(rune('0'+gen%10))+"x")
				_ = os.RemoveAll(next)
				if err := copyDir(dir, next); err != nil {
					vt.Fatal("%v", err)
				}
			}
			_ = p.store.Close()
			np, loaded, err := start(next)
			if np == nil {
				vt.Fatal("restart pd: %v", err)
			}
			ev := vt.Ev{"e": "Restart", "mode": op.Mode, "ok": err == nil, "loaded": loaded}
			if err != nil {
				ev["err"] = err.Error()
			}
			emit(ev)
			p, dir = np, next
		default:
			vt.Fatal("unknown op %q", op.Op)
		}
		lookups()
	}
	_ = p.store.Close()
}

func main() {
	in := flag.String("in", "", "schedules (ndjson)")
	out := flag.String("out", "", "trace (ndjson)")
	dir := flag.String("dir", os.TempDir(), "scratch directory")
	flag.Parse()
	log.SetOutput(io.Discard)
	scheds, err := vt.ReadNDJSON[Schedule](*in)
	if err != nil {
		vt.Fatal("%v", err)
	}
	w, err := vt.NewWriter(*out)
	if err != nil {
		vt.Fatal("%v", err)
	}
	for i := range scheds {
		run(*dir, &scheds[i], w)
	}
	if err := w.Close(); err != nil {
		vt.Fatal("%v", err)
	}
}
