// Package sched is a cooperative scheduler for interleaving families (C32, C05, ...).
//
// Each logical thread is a goroutine. The code under test calls utils.VerifYield at its
// yield points; the driver installs Sched.Hook as utils.VerifHook, so a logical thread
// parks inside the hook until the scheduler resumes it. Exactly one logical thread runs
// between two yield points, hence a schedule (a sequence of thread ids) determines the
// execution completely. Goroutines that are not logical threads (background workers of
// a DB) pass through the hook untouched.
//
// Blocking is never guessed from timing: a thread that is about to block (a mutex that a
// parked thread may hold, a channel receive) parks at a yield point in front of the
// blocking operation, and the driver supplies the predicate telling whether a thread
// parked at that point can proceed. The watchdog timeout only turns a harness bug or an
// unexpected block into an error instead of a hang.
package sched

import (
	"errors"
	"fmt"
	"runtime"
	"strconv"
	"strings"
	"sync"
	"time"
)

// ErrStuck is returned by Step when a resumed thread neither reached a yield point nor
// finished within the watchdog timeout.
var ErrStuck = errors.New("sched: resumed thread did not reach a yield point (blocked outside a yield point?)")

// Thread is one logical thread.
type Thread struct {
	ID    int
	Point string   // yield point the thread is parked at ("" while running, "done" when finished)
	Args  []uint64 // arguments of that yield point
	Last  string   // yield point left most recently
	Done  bool
	Panic any // recovered panic value of the thread function, if any

	cond   func() bool // extra enabledness condition of the current park (driver-level yields)
	resume chan struct{}
	abort  bool
	s      *Sched
}

// Sched controls a set of logical threads.
type Sched struct {
	// Filter selects which yield points park (nil: all); it sees the calling thread, whose Last
	// field is the yield point it left most recently. Points that are filtered out are passed
	// through, i.e. they do not end a step.
	Filter func(t *Thread, point string) bool
	// Enabled tells whether a thread parked at (point, args) can take a step now
	// (nil: always). It is evaluated while every logical thread is parked.
	Enabled func(point string, args []uint64) bool
	// Timeout is the watchdog for one step.
	Timeout time.Duration

	mu      sync.Mutex
	byGid   map[uint64]*Thread
	threads []*Thread
	ev      chan *Thread
}

// New returns an empty scheduler.
func New() *Sched {
	return &Sched{byGid: map[uint64]*Thread{}, ev: make(chan *Thread), Timeout: 20 * time.Second}
}

func gid() uint64 {
	var buf [64]byte
	n := runtime.Stack(buf[:], false)
	// "goroutine 123 [running]:"
	f := strings.Fields(string(buf[:n]))
	if len(f) < 2 {
		return 0
	}
	id, _ := strconv.ParseUint(f[1], 10, 64)
	return id
}

func (s *Sched) current() *Thread {
	g := gid()
	s.mu.Lock()
	t := s.byGid[g]
	s.mu.Unlock()
	return t
}

// Hook is the function to install as utils.VerifHook.
func (s *Sched) Hook(point string, args ...uint64) {
	t := s.current()
	if t == nil {
		return
	}
	if s.Filter != nil && !s.Filter(t, point) {
		return
	}
	t.park(point, args, nil)
}

// Yield is a driver-level yield point of the calling logical thread.
func (s *Sched) Yield(point string, args ...uint64) {
	if t := s.current(); t != nil {
		t.park(point, args, nil)
	}
}

// YieldUntil parks the calling logical thread at point; it is enabled only while cond() holds.
func (s *Sched) YieldUntil(point string, cond func() bool, args ...uint64) {
	if t := s.current(); t != nil {
		t.park(point, args, cond)
	}
}

func (t *Thread) park(point string, args []uint64, cond func() bool) {
	t.Point = point
	t.Args = append([]uint64(nil), args...)
	t.cond = cond
	t.s.ev <- t
	<-t.resume
	t.Last, t.Point, t.cond = point, "", nil
	if t.abort {
		runtime.Goexit()
	}
}

// Go starts a logical thread and returns once it is parked at its first yield point (or
// has finished). Threads must be started one at a time, from the scheduling goroutine.
func (s *Sched) Go(id int, fn func()) *Thread {
	t := &Thread{ID: id, resume: make(chan struct{}), s: s}
	s.threads = append(s.threads, t)
	reg := make(chan struct{})
	go func() {
		g := gid()
		s.mu.Lock()
		s.byGid[g] = t
		s.mu.Unlock()
		close(reg)
		defer func() {
			if r := recover(); r != nil {
				t.Panic = r
			}
			s.mu.Lock()
			delete(s.byGid, g)
			s.mu.Unlock()
			t.Done, t.Point = true, "done"
			s.ev <- t
		}()
		fn()
	}()
	<-reg
	s.wait(t)
	return t
}

func (s *Sched) wait(t *Thread) error {
	select {
	case got := <-s.ev:
		if got != t {
			panic(fmt.Sprintf("sched: thread %d reported while thread %d was running", got.ID, t.ID))
		}
		return nil
	case <-time.After(s.Timeout):
		return ErrStuck
	}
}

// Threads returns the logical threads in creation order.
func (s *Sched) Threads() []*Thread { return s.threads }

// Thread returns the thread with the given id, or nil.
func (s *Sched) Thread(id int) *Thread {
	for _, t := range s.threads {
		if t.ID == id {
			return t
		}
	}
	return nil
}

// CanStep reports whether t is parked at a yield point it can leave.
func (s *Sched) CanStep(t *Thread) bool {
	if t == nil || t.Done {
		return false
	}
	if t.cond != nil && !t.cond() {
		return false
	}
	if s.Enabled != nil && !s.Enabled(t.Point, t.Args) {
		return false
	}
	return true
}

// Step resumes t and returns when it is parked again or has finished.
func (s *Sched) Step(t *Thread) error {
	if t.Done {
		return errors.New("sched: step of a finished thread")
	}
	t.resume <- struct{}{}
	return s.wait(t)
}

// StepInfo describes one executed (or skipped) schedule entry.
type StepInfo struct {
	N       int      // position in the executed step sequence (0-based)
	T       int      // thread id
	From    string   // yield point left by the step
	FromArg []uint64 // its arguments
	To      string   // yield point reached ("done" if the thread finished)
	Skipped string   // non-empty: the entry was not executable ("finished", "blocked", "unknown")
	Tail    bool     // step taken after the schedule was exhausted
}

// Run executes the schedule (thread ids). Entries naming a finished, blocked or unknown
// thread are reported as skipped, so a schedule stays executable when the code's step
// structure differs from the one it was generated from. If tail is set, the remaining
// threads are then run to completion deterministically (lowest id first, each until it
// blocks or finishes). obs is called after every entry, on the scheduling goroutine,
// while all logical threads are parked.
func (s *Sched) Run(schedule []int, tail bool, maxSteps int, obs func(StepInfo)) error {
	n := 0
	do := func(t *Thread, isTail bool) error {
		info := StepInfo{N: n, T: t.ID, From: t.Point, FromArg: t.Args, Tail: isTail}
		if err := s.Step(t); err != nil {
			return fmt.Errorf("thread %d after %s: %w", t.ID, info.From, err)
		}
		info.To = t.Point
		n++
		obs(info)
		if n > maxSteps {
			return fmt.Errorf("sched: more than %d steps", maxSteps)
		}
		return nil
	}
	for _, id := range schedule {
		t := s.Thread(id)
		switch {
		case t == nil:
			obs(StepInfo{N: n, T: id, Skipped: "unknown"})
		case t.Done:
			obs(StepInfo{N: n, T: id, Skipped: "finished"})
		case !s.CanStep(t):
			obs(StepInfo{N: n, T: id, From: t.Point, FromArg: t.Args, Skipped: "blocked"})
		default:
			if err := do(t, false); err != nil {
				return err
			}
		}
	}
	for tail {
		progressed := false
		for _, t := range s.threads {
			for s.CanStep(t) {
				if err := do(t, true); err != nil {
					return err
				}
				progressed = true
			}
		}
		if !progressed {
			break
		}
	}
	return nil
}

// Blocked returns the ids of threads that are parked and cannot proceed.
func (s *Sched) Blocked() []int {
	var out []int
	for _, t := range s.threads {
		if !t.Done && !s.CanStep(t) {
			out = append(out, t.ID)
		}
	}
	return out
}

// Abort terminates every unfinished thread (runtime.Goexit inside its yield point, so
// deferred unlocks run). Threads are aborted in reverse creation order.
func (s *Sched) Abort() {
	for i := len(s.threads) - 1; i >= 0; i-- {
		t := s.threads[i]
		if t.Done {
			continue
		}
		t.abort = true
		t.resume <- struct{}{}
		s.wait(t)
	}
}

// Mutex is a lock for driver code running under the scheduler: Lock is a yield point that
// is enabled only while the mutex is free.
type Mutex struct {
	held bool
}

// Lock parks at point until the mutex is free, then takes it.
func (s *Sched) Lock(m *Mutex, point string) {
	s.YieldUntil(point, func() bool { return !m.held })
	m.held = true
}

// Unlock releases the mutex (no yield).
func (m *Mutex) Unlock() { m.held = false }
