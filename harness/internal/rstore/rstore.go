// Package rstore sets up a real raftstore Store hosting single-peer regions (one-node raft
// groups with in-memory raft logs) on top of a real manifest, the way raftstore/store's own
// tests do. Used by the regions (C24) and cmdvalid (C25) drivers. It contains no model of
// the catalog: it only issues calls and lists what the store reports.
package rstore

import (
	"fmt"
	"io"
	"log"
	"sort"

	"github.com/feichai0017/NoKV/manifest"
	"github.com/feichai0017/NoKV/pb"
	myraft "github.com/feichai0017/NoKV/raft"
	"github.com/feichai0017/NoKV/raftstore"
	"github.com/feichai0017/NoKV/raftstore/store"
)

const StoreID = 1

func init() {
	// etcd-raft logs every election step to stderr; keep its panic semantics, drop the text
	myraft.SetLogger(&myraft.DefaultLogger{Logger: log.New(io.Discard, "", 0)})
}

type noopTransport struct{}

func (noopTransport) Send(myraft.Message) {}

// PeerID is the peer id used for a region's only peer.
func PeerID(region uint64) uint64 { return 100 + region }

func builder(meta manifest.RegionMeta) (*raftstore.Config, error) {
	var peerID uint64
	for _, pm := range meta.Peers {
		if pm.StoreID == StoreID {
			peerID = pm.PeerID
		}
	}
	if peerID == 0 {
		return nil, fmt.Errorf("store %d has no peer in region %d", StoreID, meta.ID)
	}
	return &raftstore.Config{
		RaftConfig: myraft.Config{ID: peerID, ElectionTick: 5, HeartbeatTick: 1, MaxSizePerMsg: 1 << 20, MaxInflightMsgs: 256, PreVote: true},
		Transport:  noopTransport{},
		Apply:      func([]myraft.Entry) error { return nil },
		GroupID:    meta.ID,
		Region:     manifest.CloneRegionMetaPtr(&meta),
	}, nil
}

// Env is one store process image: manifest + store + its peers.
type Env struct {
	Dir     string
	Mgr     *manifest.Manager
	St      *store.Store
	Applier func(*pb.RaftCmdRequest) (*pb.RaftCmdResponse, error)
	// RewriteThreshold > 0 is passed to manifest.SetRewriteThreshold on every (re)open: with a tiny
	// value the manifest rewrites itself (snapshot into a new file) after every edit.
	RewriteThreshold int64
}

// Open opens (or reopens) the manifest in dir and builds a store from it. No peers are started.
func Open(dir string, applier func(*pb.RaftCmdRequest) (*pb.RaftCmdResponse, error)) (*Env, error) {
	mgr, err := manifest.Open(dir, nil)
	if err != nil {
		return nil, err
	}
	st := store.NewStoreWithConfig(store.Config{Manifest: mgr, PeerBuilder: builder, StoreID: StoreID, CommandApplier: applier})
	return &Env{Dir: dir, Mgr: mgr, St: st, Applier: applier}, nil
}

// Meta builds single-peer region metadata.
func Meta(id uint64, start, end []byte, ver, conf uint64) manifest.RegionMeta {
	return manifest.RegionMeta{ID: id, StartKey: start, EndKey: end, Epoch: manifest.RegionEpoch{Version: ver, ConfVersion: conf},
		Peers: []manifest.PeerMeta{{StoreID: StoreID, PeerID: PeerID(id)}}}
}

// StartRegion starts the region's peer as a one-node raft group and makes it leader.
func (e *Env) StartRegion(meta manifest.RegionMeta, bootstrap bool) error {
	cfg, err := builder(meta)
	if err != nil {
		return err
	}
	var boot []myraft.Peer
	if bootstrap {
		boot = []myraft.Peer{{ID: cfg.RaftConfig.ID}}
	}
	p, err := e.St.StartPeer(cfg, boot)
	if err != nil {
		return err
	}
	return p.Campaign()
}

// Campaign makes the (already started) peer of a region leader of its one-node group.
func (e *Env) Campaign(region uint64) error {
	p, ok := e.St.Peer(PeerID(region))
	if !ok {
		return fmt.Errorf("region %d has no peer", region)
	}
	return p.Campaign()
}

// Shutdown drops the process image without touching region state (a clean process exit:
// peers are closed directly, not through StopPeer, which would mark their regions Removing).
func (e *Env) Shutdown() error {
	for _, h := range e.St.Peers() {
		_ = h.Peer.Close()
	}
	e.St.Close()
	return e.Mgr.Close()
}

// Restart = Shutdown + Open; afterwards the caller lists the reloaded catalog and calls Resume.
func (e *Env) Restart() (*Env, error) {
	if err := e.Shutdown(); err != nil {
		return nil, err
	}
	next, err := Open(e.Dir, e.Applier)
	if err != nil {
		return nil, err
	}
	next.SetRewriteThreshold(e.RewriteThreshold)
	return next, nil
}

// SetRewriteThreshold configures the manifest's automatic rewrite (0 keeps the default).
func (e *Env) SetRewriteThreshold(n int64) {
	e.RewriteThreshold = n
	if n > 0 {
		e.Mgr.SetRewriteThreshold(n)
	}
}

// Resume restarts a peer for every Running region of the reloaded catalog.
func (e *Env) Resume() error {
	for _, m := range e.List() {
		if m.State == manifest.RegionStateRunning {
			if err := e.StartRegion(m, true); err != nil {
				return err
			}
		}
	}
	return nil
}

// List returns the store's region catalog sorted by id.
func (e *Env) List() []manifest.RegionMeta {
	ms := e.St.RegionMetas()
	sort.Slice(ms, func(i, j int) bool { return ms[i].ID < ms[j].ID })
	return ms
}

// Cat renders a catalog listing for the trace.
func Cat(ms []manifest.RegionMeta) []map[string]any {
	out := make([]map[string]any, 0, len(ms))
	for _, m := range ms {
		peers := make([][2]uint64, 0, len(m.Peers))
		for _, p := range m.Peers {
			peers = append(peers, [2]uint64{p.StoreID, p.PeerID})
		}
		out = append(out, map[string]any{"id": m.ID, "start": string(m.StartKey), "end": string(m.EndKey),
			"ver": m.Epoch.Version, "conf": m.Epoch.ConfVersion, "st": int(m.State), "peers": peers})
	}
	return out
}
