// Package eng drives a real NoKV DB through schedules of API calls and maintenance
// actions (rotate, gated flush, forced compactions, value-log GC, close/reopen) and
// records what the real code answered. It contains no model of the engine.
package eng

import (
	"bytes"
	"errors"
	"fmt"
	"os"
	"strconv"
	"strings"
	"sync"
	"time"

	NoKV "github.com/feichai0017/NoKV"
	"github.com/feichai0017/NoKV/kv"
	"github.com/feichai0017/NoKV/utils"
	"github.com/feichai0017/NoKV/vfs"

	"verif/harness/internal/vt"
)

// MaxVer is the trace encoding of math.MaxUint64 (TLC integers are 32 bit).
const MaxVer = 1000000

type Cfg struct {
	Mem         string `json:"mem"`      // skiplist | art
	Vlog        bool   `json:"vlog"`     // store values out of line
	Buckets     int    `json:"buckets"`  // value-log buckets
	VlogSize    int    `json:"vlogsize"` // value-log file size (bytes); small => rotation
	ValLen      int    `json:"vallen"`   // default expanded value length
	Sync        bool   `json:"sync"`
	Detect      bool   `json:"detect"`       // conflict detection
	MemSize     int    `json:"memsize"`      // memtable size in bytes (default 8 MiB)
	Hot         int    `json:"hot"`          // > 0: that many hot value-log buckets, a key turns hot after 2 writes
	BatchWaitUs int    `json:"batchwait_us"` // > 0: commit-batch coalescing window (WriteBatchWait) in microseconds
}

// Fault arms a one-shot injected I/O error for the duration of one write operation: the Nth (default
// first) file operation Fop on a path ending in Suffix fails with ErrInjected.
type Fault struct {
	Fop    string `json:"fop"`    // vfs.Op name: open_file, file_write, file_sync, file_truncate, ...
	Suffix string `json:"suffix"` // path suffix, e.g. ".vlog", ".wal"
	Nth    int    `json:"nth"`
}

// ErrInjected is the error returned by an injected I/O fault.
var ErrInjected = errors.New("verif: injected I/O fault")

type KV struct {
	K string `json:"k"`
	V string `json:"v"`
}

type Op struct {
	W       []KV    `json:"w,omitempty"` // ParSet: writes issued concurrently (distinct keys)
	Op      string  `json:"op"`
	CF      string  `json:"cf,omitempty"`
	K       string  `json:"k,omitempty"`
	V       string  `json:"v,omitempty"`
	Ver     int     `json:"ver,omitempty"`
	Len     int     `json:"len,omitempty"`
	Kind    string  `json:"kind,omitempty"`
	Level   int     `json:"level,omitempty"`
	Base    int     `json:"base,omitempty"`
	Ratio   float64 `json:"ratio,omitempty"`
	Fault   *Fault  `json:"fault,omitempty"`    // Set/Del/ParSet/TSet/TDel: injected I/O error armed during the call
	SleepMs int     `json:"sleep_ms,omitempty"` // Sleep
}

type Schedule struct {
	ID      int      `json:"id"`
	Cfg     Cfg      `json:"cfg"`
	Keys    []string `json:"keys"`    // keys read back after every step (plain API)
	VKeys   []string `json:"vkeys"`   // keys read back at every version in Vers (versioned API)
	Vers    []int    `json:"vers"`    // versions probed for VKeys
	CFs     []string `json:"cfs"`     // column families probed (default: ["default"])
	ReadAll bool     `json:"readall"` // read everything after every step
	Txn     bool     `json:"txn"`     // read back through read-only transactions (transactional datasets)
	Ops     []Op     `json:"ops"`
}

// ---------------------------------------------------------------- flush gate

var gate struct {
	mu     sync.Mutex
	gated  bool
	tokens chan struct{}
}

func init() {
	gate.tokens = make(chan struct{}, 1024)
	utils.VerifHook = func(point string, a ...uint64) {
		if point != "lsm.flush" {
			if extraHook != nil {
				extraHook(point, a...)
			}
			return
		}
		gate.mu.Lock()
		g := gate.gated
		gate.mu.Unlock()
		if g {
			<-gate.tokens
		}
	}
}

var extraHook func(point string, a ...uint64)

// SetExtraHook installs a hook for yield points other than the flush gate.
func SetExtraHook(h func(point string, a ...uint64)) { extraHook = h }

// ReleaseOneFlush lets exactly one gated flush proceed.
func ReleaseOneFlush() { gate.tokens <- struct{}{} }

// SetGated switches the flush gate on or off (off releases parked flushes).
func SetGated(on bool) { setGated(on) }

func setGated(on bool) {
	gate.mu.Lock()
	gate.gated = on
	gate.mu.Unlock()
	if !on { // release anything parked
		for i := 0; i < 64; i++ {
			select {
			case gate.tokens <- struct{}{}:
			default:
			}
		}
	} else {
		for {
			select {
			case <-gate.tokens:
				continue
			default:
			}
			break
		}
	}
}

// ------------------------------------------------------------------- values

func Expand(token string, n int) []byte {
	head := token + "|" + strconv.Itoa(n) + "|"
	if len(head) >= n {
		return []byte(head)
	}
	b := make([]byte, n)
	copy(b, head)
	var x uint32 = 2166136261
	for _, c := range []byte(token) {
		x = (x ^ uint32(c)) * 16777619
	}
	for i := len(head); i < n; i++ {
		x = x*1664525 + 1013904223
		b[i] = 'a' + byte((x>>24)%26)
	}
	return b
}

// Shrink maps stored bytes back to the token, or "CORRUPT:<hex>" if they are not an
// exact expansion of any token.
func Shrink(b []byte) string {
	i := bytes.IndexByte(b, '|')
	if i < 0 {
		return "CORRUPT"
	}
	j := bytes.IndexByte(b[i+1:], '|')
	if j < 0 {
		return "CORRUPT"
	}
	n, err := strconv.Atoi(string(b[i+1 : i+1+j]))
	if err != nil {
		return "CORRUPT"
	}
	tok := string(b[:i])
	if !bytes.Equal(Expand(tok, n), b) {
		return "CORRUPT"
	}
	return tok
}

func ParseCF(s string) kv.ColumnFamily {
	switch s {
	case "", "default":
		return kv.CFDefault
	case "lock":
		return kv.CFLock
	case "write":
		return kv.CFWrite
	}
	return kv.CFDefault
}

func Ver(v int) uint64 {
	if v >= MaxVer {
		return ^uint64(0)
	}
	return uint64(v)
}

func VerBack(v uint64) int {
	if v > 1<<30 {
		return MaxVer
	}
	return int(v)
}

// ---------------------------------------------------------------------- run

type Runner struct {
	FS   vfs.FS // optional filesystem (fault injection); nil = OS
	DB   *NoKV.DB
	Dir  string
	Cfg  Cfg
	W    *vt.Writer
	SID  int
	Sch  *Schedule
	step int

	fmu     sync.Mutex
	armed   *Fault
	fcount  int
	fired   string // "<op>:<file>" of the operation that was failed, "" if none
	Faulted bool   // some injected fault has fired in this run
}

// faultHook is the FaultFS hook: fails the armed operation once.
func (r *Runner) faultHook(op vfs.Op, path string) error {
	r.fmu.Lock()
	defer r.fmu.Unlock()
	f := r.armed
	if f == nil || string(op) != f.Fop || !strings.HasSuffix(path, f.Suffix) {
		return nil
	}
	r.fcount++
	if r.fcount < max(f.Nth, 1) {
		return nil
	}
	r.armed = nil
	r.fired = string(op) + ":" + path[strings.LastIndex(path, "/")+1:]
	r.Faulted = true
	return ErrInjected
}

// arm installs f (nil: nothing) and returns a function that disarms and reports what fired.
func (r *Runner) arm(f *Fault) func() any {
	if f == nil {
		return func() any { return nil }
	}
	if r.FS == nil {
		vt.Fatal("fault operation in a schedule that runs without FaultFS")
	}
	r.fmu.Lock()
	r.armed, r.fcount, r.fired = f, 0, ""
	r.fmu.Unlock()
	return func() any {
		r.fmu.Lock()
		defer r.fmu.Unlock()
		r.armed = nil
		return map[string]any{"fop": f.Fop, "suffix": f.Suffix, "fired": r.fired}
	}
}

// Opts returns the options the runner opens the DB with.
func (r *Runner) Opts() *NoKV.Options { return r.opts() }

func (r *Runner) opts() *NoKV.Options {
	o := NoKV.NewDefaultOptions()
	o.WorkDir = r.Dir
	o.MemTableSize = 8 << 20
	if r.Cfg.MemSize > 0 {
		o.MemTableSize = int64(r.Cfg.MemSize)
	}
	o.FS = r.FS
	if r.Cfg.Mem == "art" {
		o.MemTableEngine = NoKV.MemTableEngineART
	}
	o.ValueThreshold = 1 << 20
	vl := r.Cfg.ValLen
	if vl <= 0 {
		vl = 48
	}
	if r.Cfg.Vlog {
		o.ValueThreshold = 32
	}
	o.ValueLogBucketCount = max(r.Cfg.Buckets, 1)
	o.ValueLogHotBucketCount = 0
	if r.Cfg.VlogSize > 0 {
		o.ValueLogFileSize = r.Cfg.VlogSize
	} else {
		o.ValueLogFileSize = 1 << 20
	}
	o.ValueLogGCInterval = 0
	o.EnableWALWatchdog = false
	o.HotRingEnabled = false
	o.WriteHotKeyLimit = 0
	if r.Cfg.Hot > 0 { // hot/cold value-log buckets: a key moves to a hot bucket once written twice
		o.HotRingEnabled = true
		o.ValueLogHotBucketCount = r.Cfg.Hot
		o.ValueLogHotKeyThreshold = 2
	}
	if r.Cfg.BatchWaitUs > 0 {
		o.WriteBatchWait = time.Duration(r.Cfg.BatchWaitUs) * time.Microsecond
	}
	o.SyncWrites = r.Cfg.Sync
	o.DetectConflicts = r.Cfg.Detect
	o.NumCompactors = 1
	o.BlockCacheSize = 64
	o.BloomCacheSize = 64
	o.ManifestRewriteThreshold = 4 << 10
	return o
}

func (r *Runner) emit(ev vt.Ev) {
	ev["s"] = r.SID
	r.W.Emit(ev)
}

// Open opens the DB; a panic from Open is recorded as a failed Open event.
func (r *Runner) Open() (ok bool) {
	utils.VerifPause("compaction", true)
	setGated(false)
	defer func() {
		if p := recover(); p != nil {
			r.emit(vt.Ev{"e": "Open", "ok": false, "err": fmt.Sprint(p)})
			ok = false
		}
	}()
	r.DB = NoKV.Open(r.opts())
	// recovered immutables flush freely; wait for them
	r.waitFlushIdle()
	setGated(true)
	return true
}

// WaitFlushIdle waits until no sealed memtable is pending.
func (r *Runner) WaitFlushIdle() { r.waitFlushIdle() }

func (r *Runner) waitFlushIdle() {
	deadline := time.Now().Add(30 * time.Second)
	for time.Now().Before(deadline) {
		if len(r.DB.VerifLSM().VerifLayout().Imm) == 0 {
			return
		}
		time.Sleep(200 * time.Microsecond)
	}
	vt.Fatal("flush did not finish within 30s")
}

func (r *Runner) Close() error {
	setGated(false)
	err := r.DB.Close()
	r.DB = nil
	return err
}

func errStr(err error) string {
	switch {
	case err == nil:
		return ""
	case errors.Is(err, utils.ErrKeyNotFound):
		return "NOTFOUND"
	}
	return "ERR:" + err.Error()
}

func (r *Runner) valLen(op Op) int {
	if op.Len > 0 {
		return op.Len
	}
	if r.Cfg.ValLen > 0 {
		return r.Cfg.ValLen
	}
	return 48
}

func (r *Runner) srcs(cf kv.ColumnFamily, k string) []map[string]any {
	var out []map[string]any
	for _, s := range r.DB.VerifLSM().VerifLocate(cf, []byte(k)) {
		v := "TOMB"
		if s.Meta&kv.BitDelete == 0 {
			if s.Meta&kv.BitValuePointer != 0 {
				v = "PTR"
			} else {
				v = Shrink(s.Value)
			}
		}
		out = append(out, map[string]any{"kind": s.Kind, "level": s.Level, "id": s.ID, "ver": VerBack(s.Version), "v": v})
	}
	return out
}

func (r *Runner) get(cfs, k string) {
	cf := ParseCF(cfs)
	var res string
	if r.Sch != nil && r.Sch.Txn {
		var val []byte
		err := r.DB.View(func(txn *NoKV.Txn) error {
			it, e := txn.Get([]byte(k))
			if e != nil {
				return e
			}
			var e2 error
			val, e2 = it.ValueCopy(nil)
			return e2
		})
		res = errStr(err)
		if err == nil {
			res = Shrink(val)
		}
	} else {
		e, err := r.DB.GetCF(cf, []byte(k))
		res = errStr(err)
		if err == nil {
			res = Shrink(e.Value)
		}
	}
	if cfs == "" {
		cfs = "default"
	}
	r.emit(vt.Ev{"e": "Get", "cf": cfs, "k": k, "r": res, "src": r.srcs(cf, k)})
}

func (r *Runner) getV(cfs, k string, ver int) {
	cf := ParseCF(cfs)
	e, err := r.DB.GetVersionedEntry(cf, []byte(k), Ver(ver))
	res := errStr(err)
	rv := 0
	if err == nil {
		rv = VerBack(e.Version)
		if e.Meta&kv.BitDelete != 0 {
			res = "TOMB"
		} else {
			res = Shrink(e.Value)
		}
	}
	if cfs == "" {
		cfs = "default"
	}
	r.emit(vt.Ev{"e": "GetV", "cf": cfs, "k": k, "ver": ver, "r": res, "rver": rv, "src": r.srcs(cf, k)})
}

func (r *Runner) readAll() {
	cfs := r.Sch.CFs
	if len(cfs) == 0 {
		cfs = []string{"default"}
	}
	for _, cf := range cfs {
		for _, k := range r.Sch.Keys {
			r.get(cf, k)
		}
		for _, k := range r.Sch.VKeys {
			for _, v := range r.Sch.Vers {
				r.getV(cf, k, v)
			}
		}
	}
}

func (r *Runner) maint(what string, extra vt.Ev) {
	ev := vt.Ev{"e": "Maint", "what": what, "layout": r.DB.VerifLSM().VerifLayout()}
	for k, v := range extra {
		ev[k] = v
	}
	r.emit(ev)
}

// Exec executes one operation and records it.
func (r *Runner) Exec(op Op) {
	cf := ParseCF(op.CF)
	cfs := op.CF
	if cfs == "" {
		cfs = "default"
	}
	switch op.Op {
	case "Set":
		disarm := r.arm(op.Fault)
		err := r.DB.SetCF(cf, []byte(op.K), Expand(op.V, r.valLen(op)))
		r.emit(vt.Ev{"e": "Set", "cf": cfs, "k": op.K, "v": op.V, "ok": err == nil, "err": errStr(err), "fault": disarm()})
	case "Del":
		disarm := r.arm(op.Fault)
		err := r.DB.DelCF(cf, []byte(op.K))
		r.emit(vt.Ev{"e": "Del", "cf": cfs, "k": op.K, "ok": err == nil, "err": errStr(err), "fault": disarm()})
	case "Sleep":
		time.Sleep(time.Duration(op.SleepMs) * time.Millisecond)
		r.maint("Sleep", nil)
	case "Get":
		r.get(op.CF, op.K)
	case "TSet", "TDel":
		// the same write through the transactional API (one transaction per write)
		disarm := r.arm(op.Fault)
		err := r.DB.Update(func(txn *NoKV.Txn) error {
			if op.Op == "TDel" {
				return txn.Delete([]byte(op.K))
			}
			return txn.Set([]byte(op.K), Expand(op.V, r.valLen(op)))
		})
		fl := disarm()
		if op.Op == "TDel" {
			r.emit(vt.Ev{"e": "Del", "cf": cfs, "k": op.K, "ok": err == nil, "err": errStr(err), "fault": fl})
		} else {
			r.emit(vt.Ev{"e": "Set", "cf": cfs, "k": op.K, "v": op.V, "ok": err == nil, "err": errStr(err), "fault": fl})
		}
	case "ParSet":
		// several plain writes to distinct keys issued at the same time so that the commit worker
		// coalesces them into one batch; distinct keys commute, so events are emitted afterwards
		errs := make([]error, len(op.W))
		disarm := r.arm(op.Fault)
		var wg sync.WaitGroup
		start := make(chan struct{})
		for i := range op.W {
			wg.Add(1)
			go func(i int) {
				defer wg.Done()
				<-start
				errs[i] = r.DB.SetCF(cf, []byte(op.W[i].K), Expand(op.W[i].V, r.valLen(op)))
			}(i)
		}
		close(start)
		wg.Wait()
		fl := disarm()
		for i, w := range op.W {
			r.emit(vt.Ev{"e": "Set", "cf": cfs, "k": w.K, "v": w.V, "ok": errs[i] == nil, "err": errStr(errs[i]), "fault": fl, "par": len(op.W)})
		}
	case "SetV":
		err := r.DB.SetVersionedEntry(cf, []byte(op.K), Ver(op.Ver), Expand(op.V, r.valLen(op)), 0)
		r.emit(vt.Ev{"e": "SetV", "cf": cfs, "k": op.K, "ver": op.Ver, "v": op.V, "ok": err == nil, "err": errStr(err)})
	case "DelV":
		err := r.DB.DeleteVersionedEntry(cf, []byte(op.K), Ver(op.Ver))
		r.emit(vt.Ev{"e": "DelV", "cf": cfs, "k": op.K, "ver": op.Ver, "ok": err == nil, "err": errStr(err)})
	case "GetV":
		r.getV(op.CF, op.K, op.Ver)
	case "Rotate":
		r.DB.VerifLSM().Rotate()
		r.maint("Rotate", nil)
	case "Flush":
		before := r.DB.VerifLSM().VerifLayout()
		if len(before.Imm) == 0 {
			r.maint("Flush", vt.Ev{"noop": true})
			break
		}
		gate.tokens <- struct{}{}
		deadline := time.Now().Add(30 * time.Second)
		for len(r.DB.VerifLSM().VerifLayout().Imm) >= len(before.Imm) {
			if time.Now().After(deadline) {
				vt.Fatal("gated flush did not complete")
			}
			time.Sleep(100 * time.Microsecond)
		}
		r.maint("Flush", vt.Ev{"noop": false})
	case "Compact":
		err := r.DB.VerifLSM().VerifCompact(op.Kind, op.Level, op.Base)
		res := "done"
		if errors.Is(err, utils.ErrFillTables) {
			res = "nofill"
		} else if err != nil {
			res = "ERR:" + err.Error()
		}
		r.maint("Compact", vt.Ev{"kind": op.Kind, "level": op.Level, "base": op.Base, "res": res})
	case "GC":
		files, active := r.DB.VerifVlogFiles()
		n := 0
		var errs []string
		for b, fids := range files {
			for _, fid := range fids {
				if fid >= active[b] {
					continue
				}
				n++
				if err := r.DB.VerifGCRewrite(b, fid); err != nil {
					errs = append(errs, err.Error())
				}
			}
		}
		r.maint("GC", vt.Ev{"files": n, "errs": errs})
	case "GCPublic":
		err := r.DB.RunValueLogGC(op.Ratio)
		r.maint("GCPublic", vt.Ev{"res": errStr(err)})
	case "Reopen":
		err := r.Close()
		ok := r.Open()
		if ok {
			r.maint("Reopen", vt.Ev{"closeerr": errStr(err), "ok": true})
		} else {
			r.emit(vt.Ev{"e": "Maint", "what": "Reopen", "closeerr": errStr(err), "ok": false})
		}
	default:
		vt.Fatal("unknown op %q", op.Op)
	}
}

// step1 executes one operation and the read-back. Once an injected I/O fault has fired, a panic of the
// engine (fail-stop, e.g. rotating the WAL after a failed WAL write) is recorded and ends the schedule;
// without a fault a panic still kills the driver.
func (r *Runner) step1(op Op, readAll bool) (ok bool) {
	defer func() {
		if p := recover(); p != nil {
			if !r.Faulted {
				panic(p)
			}
			r.emit(vt.Ev{"e": "Panic", "msg": fmt.Sprint(p)})
			setGated(false)
			ok = false
		}
	}()
	r.Exec(op)
	if readAll && r.DB != nil {
		r.readAll()
	}
	return true
}

// RunSchedule executes a whole schedule in a fresh directory.
func RunSchedule(base string, s *Schedule, w *vt.Writer) {
	dir, err := os.MkdirTemp(base, "db-")
	if err != nil {
		vt.Fatal("mkdtemp: %v", err)
	}
	defer os.RemoveAll(dir)
	r := &Runner{Dir: dir, Cfg: s.Cfg, W: w, SID: s.ID, Sch: s}
	for _, op := range s.Ops {
		if op.Fault != nil { // only schedules with fault operations run on the fault-injecting filesystem
			r.FS = vfs.NewFaultFS(vfs.OSFS{}, r.faultHook)
			break
		}
	}
	if !r.Open() {
		return
	}
	for _, op := range s.Ops {
		if r.DB == nil {
			break
		}
		if !r.step1(op, s.ReadAll) {
			return // the engine stopped itself after an injected fault: the handle is abandoned
		}
	}
	if r.DB != nil {
		if err := r.Close(); err != nil {
			r.emit(vt.Ev{"e": "Close", "ok": false, "err": err.Error()})
		}
	}
}
