// Package gate is a small cooperative scheduler for replaying TLC-generated interleavings on
// real code.  Threads are ordinary goroutines; they park whenever the code under test reaches a
// gate (a Yield call made on the thread's own goroutine from a harness-side interposer or a
// verif-tag hook).  The controller releases one thread at a time (Step) and waits until the whole
// system is quiescent again: every thread is parked at a gate, finished, or blocked inside a Go
// synchronisation primitive (detected from the goroutine's wait reason, no wall-clock guess).
//
// The package contains no model of any system under test.
package gate

import (
	"bytes"
	"runtime"
	"strconv"
	"sync"
	"sync/atomic"
	"time"
)

// State of a thread as seen by the controller.
type State int32

const (
	Running State = iota // released and not yet parked/finished (transient)
	Parked               // waiting at a gate for the controller
	Done                 // the thread function returned
	Blocked              // waiting in a sync primitive (mutex, channel, ...) that is not a gate
	Stuck                // did not become quiescent within the time limit (tool failure)
)

func (s State) String() string {
	return [...]string{"running", "parked", "done", "blocked", "stuck"}[s]
}

// Status is what Step/Where report about a thread.
type Status struct {
	State State
	Point string   // gate the thread is parked at ("start" before its first step)
	Args  []uint64 // arguments of that gate
	Path  string   // optional string argument of the gate
}

type thread struct {
	id    int
	goid  uint64
	state atomic.Int32
	wake  chan struct{}
	mu    sync.Mutex
	point string
	args  []uint64
	path  string
}

// Sched is the controller. One Sched serves one schedule.
type Sched struct {
	mu      sync.Mutex
	threads map[int]*thread
	byGoid  map[uint64]*thread
	free    atomic.Bool // pass-through mode: gates no longer park
	Limit   time.Duration
	// Patient: threads legitimately wait for goroutines outside the scheduler (background workers of a
	// whole database): a thread waiting in a sync primitive is not reported as blocked, the controller
	// keeps waiting until it parks or finishes (or Limit expires).
	Patient bool
	// Filter, when set, decides whether a gate parks the calling thread (default: every gate).
	Filter func(point string, path string, args []uint64) bool
}

func New() *Sched {
	return &Sched{threads: map[int]*thread{}, byGoid: map[uint64]*thread{}, Limit: 20 * time.Second}
}

// Goid returns the calling goroutine's id.
func Goid() uint64 {
	var buf [64]byte
	n := runtime.Stack(buf[:], false)
	// "goroutine 123 [running]:"
	b := buf[len("goroutine "):n]
	i := bytes.IndexByte(b, ' ')
	id, _ := strconv.ParseUint(string(b[:i]), 10, 64)
	return id
}

// Go starts thread id. The goroutine parks at gate "start" before running fn, so that the first
// Step(id) begins the thread's work.
func (s *Sched) Go(id int, fn func()) {
	t := &thread{id: id, wake: make(chan struct{}, 1)}
	t.state.Store(int32(Running))
	s.mu.Lock()
	s.threads[id] = t
	s.mu.Unlock()
	reg := make(chan struct{})
	go func() {
		t.goid = Goid()
		s.mu.Lock()
		s.byGoid[t.goid] = t
		s.mu.Unlock()
		close(reg)
		s.park(t, "start", "", nil)
		defer t.state.Store(int32(Done))
		fn()
	}()
	<-reg
	s.waitQuiet()
}

func (s *Sched) self() *thread {
	g := Goid()
	s.mu.Lock()
	t := s.byGoid[g]
	s.mu.Unlock()
	return t
}

func (s *Sched) park(t *thread, point, path string, args []uint64) {
	if s.free.Load() {
		return
	}
	t.mu.Lock()
	t.point, t.path, t.args = point, path, append([]uint64(nil), args...)
	t.mu.Unlock()
	t.state.Store(int32(Parked))
	<-t.wake
}

// Yield is a gate: called on a thread's goroutine it parks the thread until the controller
// releases it. Calls from goroutines that are not threads of this scheduler return immediately.
func (s *Sched) Yield(point string, args ...uint64) { s.YieldPath(point, "", args...) }

// YieldPath is Yield with a string argument (file path of a filesystem gate).
func (s *Sched) YieldPath(point, path string, args ...uint64) {
	if s == nil || s.free.Load() {
		return
	}
	t := s.self()
	if t == nil {
		return
	}
	if f := s.Filter; f != nil && !f(point, path, args) {
		return
	}
	s.park(t, point, path, args)
}

// IsThread reports whether the calling goroutine is one of the scheduler's threads, and which.
func (s *Sched) IsThread() (int, bool) {
	t := s.self()
	if t == nil {
		return 0, false
	}
	return t.id, true
}

// Where reports the current status of a thread without releasing it.
func (s *Sched) Where(id int) Status {
	s.mu.Lock()
	t := s.threads[id]
	s.mu.Unlock()
	if t == nil {
		return Status{State: Done}
	}
	return s.status(t)
}

func (s *Sched) status(t *thread) Status {
	st := State(t.state.Load())
	t.mu.Lock()
	defer t.mu.Unlock()
	out := Status{State: st}
	if st == Parked {
		out.Point, out.Path, out.Args = t.point, t.path, t.args
	}
	return out
}

// Step releases thread id from its gate (no-op if it is not parked) and waits for quiescence.
// It returns the thread's new status. A blocked thread that is later unblocked by another
// thread's step runs on to its next gate during that step (still one thread at a time, because
// the releasing thread is parked or finished by then only after quiescence is reached).
func (s *Sched) Step(id int) Status {
	s.mu.Lock()
	t := s.threads[id]
	s.mu.Unlock()
	if t == nil {
		return Status{State: Done}
	}
	if State(t.state.Load()) == Parked {
		t.state.Store(int32(Running))
		t.wake <- struct{}{}
	}
	if !s.waitQuiet() {
		return Status{State: Stuck}
	}
	st := s.status(t)
	if st.State == Running {
		st.State = Blocked
	}
	return st
}

// Drain switches to pass-through mode, releases every parked thread and waits until all threads
// have finished. It reports whether they all did.
func (s *Sched) Drain() bool {
	s.free.Store(true)
	s.mu.Lock()
	ts := make([]*thread, 0, len(s.threads))
	for _, t := range s.threads {
		ts = append(ts, t)
	}
	s.mu.Unlock()
	for _, t := range ts {
		if State(t.state.Load()) == Parked {
			t.state.Store(int32(Running))
			t.wake <- struct{}{}
		}
	}
	deadline := time.Now().Add(s.Limit)
	for {
		all := true
		for _, t := range ts {
			if State(t.state.Load()) != Done {
				all = false
			}
		}
		if all {
			return true
		}
		if time.Now().After(deadline) {
			return false
		}
		time.Sleep(50 * time.Microsecond)
	}
}

// AllDone reports whether every thread has finished.
func (s *Sched) AllDone() bool {
	s.mu.Lock()
	defer s.mu.Unlock()
	for _, t := range s.threads {
		if State(t.state.Load()) != Done {
			return false
		}
	}
	return true
}

var blockedReasons = []string{"sync.Mutex.Lock", "sync.RWMutex.Lock", "sync.RWMutex.RLock", "semacquire",
	"sync.Cond.Wait", "sync.WaitGroup.Wait", "chan receive", "chan send", "select"}

// waitQuiet waits until no thread is running: each is parked, done, or blocked in a sync
// primitive for several consecutive observations.
func (s *Sched) waitQuiet() bool {
	s.mu.Lock()
	ts := make([]*thread, 0, len(s.threads))
	for _, t := range s.threads {
		ts = append(ts, t)
	}
	s.mu.Unlock()
	deadline := time.Now().Add(s.Limit)
	confirm := 0
	var buf []byte
	for spin := 0; ; spin++ {
		running := runningOf(ts)
		if len(running) == 0 {
			return true
		}
		// Drivers run with GOMAXPROCS(1): yielding hands the processor to the released thread,
		// which runs until it parks, finishes, blocks or enters a system call.
		runtime.Gosched()
		if spin < 8 && confirm == 0 {
			continue
		}
		// some thread is neither parked nor done: look at its goroutine's wait reason
		if buf == nil {
			buf = make([]byte, 1<<18)
		}
		n := runtime.Stack(buf, true)
		for n == len(buf) && len(buf) < 1<<27 { // dump truncated (abandoned goroutines of earlier schedules): grow
			buf = make([]byte, 2*len(buf))
			n = runtime.Stack(buf, true)
		}
		allBlocked := !s.Patient
		for _, t := range running {
			if s.Patient {
				break
			}
			if !goroutineBlocked(buf[:n], t.goid) {
				allBlocked = false
				break
			}
		}
		// re-check the flags: a thread may have parked/finished meanwhile
		if allBlocked && sameSet(running, runningOf(ts)) {
			confirm++
			if confirm >= 3 {
				return true
			}
			continue
		}
		confirm = 0
		if time.Now().After(deadline) {
			return false
		}
		if spin > 64 {
			time.Sleep(20 * time.Microsecond) // a thread is inside a system call
		}
	}
}

func runningOf(ts []*thread) []*thread {
	var out []*thread
	for _, t := range ts {
		if State(t.state.Load()) == Running {
			out = append(out, t)
		}
	}
	return out
}

func sameSet(a, b []*thread) bool {
	if len(a) != len(b) {
		return false
	}
	for i := range a {
		if a[i] != b[i] {
			return false
		}
	}
	return true
}

func goroutineBlocked(dump []byte, goid uint64) bool {
	key := []byte("goroutine " + strconv.FormatUint(goid, 10) + " [")
	i := bytes.Index(dump, key)
	for i > 0 && dump[i-1] != '\n' { // must be at a line start
		j := bytes.Index(dump[i+1:], key)
		if j < 0 {
			return false
		}
		i += 1 + j
	}
	if i < 0 {
		return false
	}
	rest := dump[i+len(key):]
	end := bytes.IndexByte(rest, ']')
	if end < 0 {
		return false
	}
	reason := string(rest[:end])
	for _, r := range blockedReasons {
		if len(reason) >= len(r) && reason[:len(r)] == r {
			return true
		}
	}
	return false
}
