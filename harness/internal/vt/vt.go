// Package vt holds small helpers shared by all drivers: ndjson trace output and
// JSON schedule input. Drivers contain no model of the system; they execute
// schedules on the real code and record what happened.
package vt

import (
	"bufio"
	"encoding/json"
	"fmt"
	"os"
	"sync"
)

// Ev is one trace event (one spec action observed on the real code).
type Ev map[string]any

// Writer writes ndjson events; safe for concurrent use. Seq is assigned under the lock.
type Writer struct {
	mu  sync.Mutex
	w   *bufio.Writer
	f   *os.File
	seq int
}

func NewWriter(path string) (*Writer, error) {
	f, err := os.Create(path)
	if err != nil {
		return nil, err
	}
	return &Writer{w: bufio.NewWriterSize(f, 1<<20), f: f}, nil
}

// NewAppendWriter opens an existing trace file for appending (driver re-exec).
func NewAppendWriter(path string) (*Writer, error) {
	f, err := os.OpenFile(path, os.O_WRONLY|os.O_APPEND|os.O_CREATE, 0o644)
	if err != nil {
		return nil, err
	}
	return &Writer{w: bufio.NewWriterSize(f, 1<<20), f: f}, nil
}

func (w *Writer) Emit(ev Ev) {
	w.mu.Lock()
	defer w.mu.Unlock()
	w.seq++
	b, err := json.Marshal(ev)
	if err != nil {
		panic(err)
	}
	w.w.Write(b)
	w.w.WriteByte('\n')
}

// Flush writes buffered events to the file (drivers whose code under test may abort the process).
func (w *Writer) Flush() error {
	w.mu.Lock()
	defer w.mu.Unlock()
	return w.w.Flush()
}

func (w *Writer) Close() error {
	w.mu.Lock()
	defer w.mu.Unlock()
	if err := w.w.Flush(); err != nil {
		return err
	}
	return w.f.Close()
}

// ReadNDJSON reads a file of JSON lines into out (a pointer to a slice).
func ReadNDJSON[T any](path string) ([]T, error) {
	f, err := os.Open(path)
	if err != nil {
		return nil, err
	}
	defer f.Close()
	var out []T
	sc := bufio.NewScanner(f)
	sc.Buffer(make([]byte, 1<<20), 1<<28)
	for sc.Scan() {
		if len(sc.Bytes()) == 0 {
			continue
		}
		var v T
		if err := json.Unmarshal(sc.Bytes(), &v); err != nil {
			return nil, fmt.Errorf("%s: %w", path, err)
		}
		out = append(out, v)
	}
	return out, sc.Err()
}

func Fatal(format string, a ...any) {
	fmt.Fprintf(os.Stderr, "driver: "+format+"\n", a...)
	os.Exit(3)
}
