// Package netsim assembles a deterministic in-process raftstore cluster for the RaftStore family
// (C22, C23): real store.Store / peer.Peer / kv.NewApplier on real DBs (raft log in the DB's WAL, as
// raftstore/server wires it), a transport that only queues messages, and ONE scheduler thread that
// decides every tick, delivery, drop, duplication, partition, client call and restart.
//
// It contains no model of raft or of the store: it issues calls and records what the code reports.
// Client calls (Store.ProposeCommand / Store.ReadCommand) block inside the store, so each runs in its
// own goroutine; the verif yield points "store.propose.wait" / "peer.read.wait" tell the scheduler
// that the call is parked, and the tag-guarded accessors VerifPendingProposals / VerifPendingReads
// tell it after every step whether a parked call has been released, so that returns are recorded at
// a deterministic place in the event order.
package netsim

import (
	"fmt"
	"io"
	"log"
	"math"
	"os"
	"path/filepath"
	"runtime"
	"sort"
	"strconv"
	"strings"
	"sync"
	"time"

	NoKV "github.com/feichai0017/NoKV"
	"github.com/feichai0017/NoKV/manifest"
	"github.com/feichai0017/NoKV/pb"
	myraft "github.com/feichai0017/NoKV/raft"
	"github.com/feichai0017/NoKV/raftstore/command"
	"github.com/feichai0017/NoKV/raftstore/kv"
	"github.com/feichai0017/NoKV/raftstore/peer"
	"github.com/feichai0017/NoKV/raftstore/store"
	"github.com/feichai0017/NoKV/utils"
	"verif/harness/internal/vt"
)

func init() {
	myraft.SetLogger(&myraft.DefaultLogger{Logger: log.New(io.Discard, "", 0)})
}

// PeerID is the raft id of region's peer on store (unique in the cluster).
func PeerID(region, store uint64) uint64 { return region*100 + store }
func peerStore(id uint64) uint64         { return id % 100 }
func peerRegion(id uint64) uint64        { return id / 100 }

type RegionSpec struct {
	ID    uint64 `json:"id"`
	Start string `json:"start"`
	End   string `json:"end"`
}

// Msg is one raft message in flight.
type Msg struct {
	ID       int
	From, To uint64 // stores
	Region   uint64
	M        myraft.Message
}

type cursor struct{ region, idx, term uint64 }

// Node is one store process image.
type Node struct {
	ID    uint64
	Dir   string
	DB    *NoKV.DB
	St    *store.Store
	Inc   int
	imu   sync.Mutex
	idx   map[string]cursor // command -> raft position, noted by the Apply wrapper
	gate  *gate
	c     *Cluster
	peers map[uint64]*peer.Peer // region -> peer
}

type gate struct{ hit, release chan struct{} }

type callResult struct {
	resp *pb.RaftCmdResponse
	err  error
}

const (
	callRunning = iota
	callParked
	callDone
	callAbandoned
)

// Call is one client call in flight.
type Call struct {
	ID            int
	Kind          string // propose | read
	Store, Region uint64
	Key, Cmd      string
	RID           uint64
	inc           int
	state         int
	done          chan callResult
	park          chan park
	parks         int // touched by the call's goroutine only
}

type park struct {
	kind string
	a, b uint64
}

type Cluster struct {
	Dir     string
	Stores  []uint64
	Regions []RegionSpec
	Nodes   map[uint64]*Node
	Tick    [2]int // election, heartbeat ticks

	mu    sync.Mutex // guards Queue (Send is called from call goroutines too)
	Queue []*Msg
	nmsg  int
	cut   map[[2]uint64]bool

	emit   func(vt.Ev)
	calls  []*Call
	ncall  int
	nextTS uint64
	byGo   sync.Map // goroutine id -> *Call
	Sent   int
	Lost   int
	// Aligned: the store objects were created within one millisecond
	Aligned bool
}

// ---------------------------------------------------------------- transport

type transport struct {
	c    *Cluster
	from uint64
}

func (t *transport) Send(m myraft.Message) {
	c := t.c
	to := peerStore(m.To)
	c.mu.Lock()
	defer c.mu.Unlock()
	c.Sent++
	if c.cut[[2]uint64{t.from, to}] {
		c.Lost++
		return
	}
	c.nmsg++
	c.Queue = append(c.Queue, &Msg{ID: c.nmsg, From: t.from, To: to, Region: peerRegion(m.To), M: m})
}

// ---------------------------------------------------------------- digests (what the real code carried / answered)

// CmdDigest renders a write command as key=value@startTs; a read as get:key.
func CmdDigest(req *pb.RaftCmdRequest) string {
	var parts []string
	for _, r := range req.GetRequests() {
		switch r.GetCmdType() {
		case pb.CmdType_CMD_PREWRITE:
			for _, m := range r.GetPrewrite().GetMutations() {
				parts = append(parts, fmt.Sprintf("%s=%s@%d", m.GetKey(), m.GetValue(), r.GetPrewrite().GetStartVersion()))
			}
		case pb.CmdType_CMD_GET:
			if len(req.GetRequests()) == 1 {
				parts = append(parts, "get:"+string(r.GetGet().GetKey()))
			}
		}
	}
	return strings.Join(parts, ";")
}

func getDigest(g *pb.GetResponse) string {
	switch {
	case g == nil:
		return "nil"
	case g.GetError() != nil:
		return "ERR"
	case g.GetNotFound():
		return "NOTFOUND"
	}
	return string(g.GetValue())
}

// RespDigest renders a response: wok = every write sub-command succeeded, got = value of the last Get.
func RespDigest(resp *pb.RaftCmdResponse) (digest string, wok bool, got string) {
	if resp == nil {
		return "nil", false, ""
	}
	if re := resp.GetRegionError(); re != nil {
		if re.GetNotLeader() != nil {
			return "notleader", false, ""
		}
		return "regionerr", false, ""
	}
	wok = true
	var parts []string
	for _, r := range resp.GetResponses() {
		switch {
		case r.GetPrewrite() != nil:
			n := len(r.GetPrewrite().GetErrors())
			wok = wok && n == 0
			parts = append(parts, fmt.Sprintf("P%d", n))
		case r.GetCommit() != nil:
			if r.GetCommit().GetError() != nil {
				wok = false
				parts = append(parts, "C1")
			} else {
				parts = append(parts, "C0")
			}
		case r.GetGet() != nil:
			got = getDigest(r.GetGet())
			parts = append(parts, "G="+got)
		default:
			parts = append(parts, "?")
		}
	}
	return strings.Join(parts, ","), wok, got
}

// ---------------------------------------------------------------- cluster assembly

func New(dir string, stores []uint64, regions []RegionSpec, emit func(vt.Ev)) (*Cluster, error) {
	c := &Cluster{Dir: dir, Stores: stores, Regions: regions, Nodes: map[uint64]*Node{}, Tick: [2]int{10, 1},
		cut: map[[2]uint64]bool{}, emit: emit, nextTS: 100}
	utils.VerifHook = c.hook
	utils.VerifPause("compaction", true)
	for _, s := range stores {
		n := &Node{ID: s, Dir: filepath.Join(dir, fmt.Sprintf("s%d", s)), c: c}
		if err := os.MkdirAll(n.Dir, 0o755); err != nil {
			return nil, err
		}
		c.Nodes[s] = n
		if err := n.openDB(); err != nil {
			return nil, err
		}
	}
	// The stores of a cluster may well be started at the same instant: build the store objects (which read
	// the clock for their request-id base) within one millisecond.
	for attempt := 0; ; attempt++ {
		t0 := time.Now().UnixMilli()
		for time.Now().UnixMilli() == t0 {
		}
		t1 := time.Now().UnixMilli()
		for _, s := range stores {
			c.Nodes[s].newStore()
		}
		c.Aligned = time.Now().UnixMilli() == t1
		if c.Aligned || attempt >= 40 {
			break
		}
		for _, s := range stores {
			c.Nodes[s].St.Close()
		}
	}
	for _, s := range stores {
		if err := c.Nodes[s].startPeers(); err != nil {
			return nil, err
		}
	}
	return c, nil
}

// goid identifies the calling goroutine (the yield hook runs on the goroutine of the client call).
func goid() uint64 {
	var buf [64]byte
	f := strings.Fields(string(buf[:runtime.Stack(buf[:], false)]))
	if len(f) < 2 {
		return 0
	}
	id, _ := strconv.ParseUint(f[1], 10, 64)
	return id
}

// hook: only the FIRST time a client call parks is reported to the scheduler (a call may park again, e.g.
// a read that starts another ReadIndex round); yield points reached by other goroutines are ignored.
func (c *Cluster) hook(point string, a ...uint64) {
	if point != "store.propose.wait" && point != "peer.read.wait" {
		return
	}
	v, ok := c.byGo.Load(goid())
	if !ok {
		return
	}
	cl := v.(*Call)
	cl.parks++
	if cl.parks > 1 {
		return
	}
	if point == "store.propose.wait" {
		cl.park <- park{"propose", a[0], a[1]}
	} else {
		cl.park <- park{"read", a[0], 0}
	}
}

func (c *Cluster) meta(r RegionSpec) *manifest.RegionMeta {
	m := &manifest.RegionMeta{ID: r.ID, StartKey: []byte(r.Start), EndKey: []byte(r.End),
		Epoch: manifest.RegionEpoch{Version: 1, ConfVersion: 1}}
	for _, s := range c.Stores {
		m.Peers = append(m.Peers, manifest.PeerMeta{StoreID: s, PeerID: PeerID(r.ID, s)})
	}
	return m
}

// openDB opens (or reopens) the store's DB.
func (n *Node) openDB() (err error) {
	defer func() {
		if p := recover(); p != nil {
			err = fmt.Errorf("open store %d: panic %v", n.ID, p)
		}
	}()
	opt := NoKV.NewDefaultOptions()
	opt.WorkDir = n.Dir
	opt.MemTableSize = 1 << 20
	opt.ValueLogFileSize = 1 << 20 // reopening scans the preallocated value-log files
	opt.ValueLogBucketCount = 2
	opt.ValueThreshold = utils.DefaultValueThreshold
	n.DB = NoKV.Open(opt)
	n.Inc++
	n.idx = map[string]cursor{}
	n.peers = map[uint64]*peer.Peer{}
	return nil
}

func applyKey(req *pb.RaftCmdRequest) string {
	return fmt.Sprintf("%d/%d/%s", req.GetHeader().GetRegionId(), req.GetHeader().GetRequestId(), CmdDigest(req))
}

// newStore builds the store object (this is where the store derives its request-id base from the clock).
func (n *Node) newStore() {
	inner := kv.NewApplier(n.DB)
	applier := func(req *pb.RaftCmdRequest) (*pb.RaftCmdResponse, error) {
		n.gatePass(req)
		resp, err := inner(req)
		n.observe(req, resp, err)
		return resp, err
	}
	// the factory only splits apply batches into single entries and notes the raft index of each command
	// (CommandApplier itself only sees the request); keyed by the command so that it stays right when two
	// goroutines drive one peer
	factory := func(cfg *peer.Config) (*peer.Peer, error) {
		orig, region := cfg.Apply, cfg.Region.ID
		cfg.Apply = func(entries []myraft.Entry) error {
			for _, e := range entries {
				if req, ok, derr := command.Decode(e.Data); derr == nil && ok {
					n.imu.Lock()
					n.idx[applyKey(req)] = cursor{region, e.Index, e.Term}
					n.imu.Unlock()
				}
				if err := orig([]myraft.Entry{e}); err != nil {
					return err
				}
			}
			return nil
		}
		return peer.NewPeer(cfg)
	}
	n.St = store.NewStoreWithConfig(store.Config{StoreID: n.ID, CommandApplier: applier, PeerFactory: factory, CommandTimeout: time.Hour})
}

// startPeers starts the store's peer of every region.
func (n *Node) startPeers() error {
	c := n.c
	for _, r := range c.Regions {
		var boot []myraft.Peer
		for _, s := range c.Stores {
			boot = append(boot, myraft.Peer{ID: PeerID(r.ID, s)})
		}
		cfg := &peer.Config{
			RaftConfig: myraft.Config{ID: PeerID(r.ID, n.ID), ElectionTick: c.Tick[0], HeartbeatTick: c.Tick[1],
				MaxSizePerMsg: 1 << 20, MaxInflightMsgs: 256, PreVote: true},
			Transport: &transport{c: c, from: n.ID},
			Apply:     func([]myraft.Entry) error { return nil }, // replaced by StartPeer
			WAL:       n.DB.WAL(),
			Manifest:  n.DB.Manifest(),
			GroupID:   r.ID,
			Region:    c.meta(r),
		}
		p, err := n.St.StartPeer(cfg, boot)
		if err != nil {
			return fmt.Errorf("store %d region %d: %w", n.ID, r.ID, err)
		}
		n.peers[r.ID] = p
	}
	return nil
}

func (n *Node) open() error {
	if err := n.openDB(); err != nil {
		return err
	}
	n.newStore()
	return n.startPeers()
}

// gatePass blocks the first write command applied on a gated store until the gate is released.
func (n *Node) gatePass(req *pb.RaftCmdRequest) {
	rs := req.GetRequests()
	if len(rs) == 1 && rs[0].GetCmdType() == pb.CmdType_CMD_GET {
		return
	}
	n.imu.Lock()
	g := n.gate
	n.gate = nil
	n.imu.Unlock()
	if g != nil {
		close(g.hit)
		<-g.release
	}
}

// observe records what the real applier was handed and what it answered.
func (n *Node) observe(req *pb.RaftCmdRequest, resp *pb.RaftCmdResponse, err error) {
	rs := req.GetRequests()
	if len(rs) == 1 && rs[0].GetCmdType() == pb.CmdType_CMD_GET {
		d, _, got := RespDigest(resp)
		n.c.emit(vt.Ev{"e": "LocalRead", "s": n.ID, "r": req.GetHeader().GetRegionId(), "k": string(rs[0].GetGet().GetKey()), "val": got, "resp": d})
		return
	}
	d, wok, got := RespDigest(resp)
	if err != nil {
		d = "goerr:" + err.Error()
	}
	var k, v string
	for _, r := range rs {
		if ms := r.GetPrewrite().GetMutations(); len(ms) > 0 {
			k, v = string(ms[0].GetKey()), string(ms[0].GetValue())
			break
		}
	}
	n.imu.Lock()
	cur := n.idx[applyKey(req)]
	n.imu.Unlock()
	n.c.emit(vt.Ev{"e": "Applied", "k": k, "v": v, "s": n.ID, "r": cur.region, "idx": cur.idx, "term": cur.term, "hr": req.GetHeader().GetRegionId(),
		"rid": req.GetHeader().GetRequestId(), "from": req.GetHeader().GetPeerId(), "cmd": CmdDigest(req), "resp": d, "wok": wok, "got": got, "inc": n.Inc})
}

func (n *Node) shutdown() error {
	for _, p := range n.peers {
		_ = p.Close()
	}
	n.St.Close()
	return n.DB.Close()
}

// Close tears the cluster down (parked reads return, parked proposals are abandoned).
func (c *Cluster) Close() {
	for _, s := range c.Stores {
		n := c.Nodes[s]
		for _, p := range n.peers {
			_ = p.Close()
		}
	}
	c.collectReads(true)
	for _, s := range c.Stores {
		n := c.Nodes[s]
		n.St.Close()
		_ = n.DB.Close()
	}
	utils.VerifHook = nil
}

// ---------------------------------------------------------------- scheduler steps

func (c *Cluster) Peer(s, r uint64) *peer.Peer { return c.Nodes[s].peers[r] }

func roleOf(p *peer.Peer) (string, uint64, uint64) {
	st := p.Status()
	return st.RaftState.String(), peerStore(st.Lead), st.Term
}

// TickPeer advances one peer's logical clock.
func (c *Cluster) TickPeer(s, r uint64) error {
	err := c.Nodes[s].St.Router().SendTick(PeerID(r, s))
	c.settle()
	return err
}

func (c *Cluster) Campaign(s, r uint64) error {
	err := c.Peer(s, r).Campaign()
	c.settle()
	return err
}

func (c *Cluster) take(i int) *Msg {
	c.mu.Lock()
	defer c.mu.Unlock()
	if len(c.Queue) == 0 {
		return nil
	}
	i %= len(c.Queue)
	m := c.Queue[i]
	c.Queue = append(c.Queue[:i:i], c.Queue[i+1:]...)
	return m
}

func (c *Cluster) peek(i int) *Msg {
	c.mu.Lock()
	defer c.mu.Unlock()
	if len(c.Queue) == 0 {
		return nil
	}
	return c.Queue[i%len(c.Queue)]
}

func (c *Cluster) QueueLen() int {
	c.mu.Lock()
	defer c.mu.Unlock()
	return len(c.Queue)
}

func (c *Cluster) step(m *Msg) string {
	if c.cut[[2]uint64{m.From, m.To}] {
		c.Lost++
		return "cut"
	}
	err := c.Nodes[m.To].St.Step(m.M)
	c.settle()
	if err != nil {
		return err.Error()
	}
	return ""
}

// Deliver hands the i-th queued message (mod queue length) to its recipient.
func (c *Cluster) Deliver(i int) (*Msg, string) {
	m := c.take(i)
	if m == nil {
		return nil, "empty"
	}
	return m, c.step(m)
}

// Duplicate delivers a copy of the i-th queued message and leaves the original queued.
func (c *Cluster) Duplicate(i int) (*Msg, string) {
	m := c.peek(i)
	if m == nil {
		return nil, "empty"
	}
	return m, c.step(m)
}

func (c *Cluster) Drop(i int) *Msg {
	m := c.take(i)
	if m != nil {
		c.Lost++
	}
	return m
}

// match selects queued messages of a region (0 = any) whose both ends are in set (nil = any).
func match(m *Msg, region uint64, set map[uint64]bool) bool {
	if region != 0 && m.Region != region {
		return false
	}
	return set == nil || (set[m.From] && set[m.To])
}

// IsVote reports whether a message belongs to an election (pre-vote / vote and their answers).
func IsVote(m *Msg) bool {
	switch m.M.Type.String() {
	case "MsgPreVote", "MsgPreVoteResp", "MsgVote", "MsgVoteResp":
		return true
	}
	return false
}

// DrainSel delivers, in FIFO order, the queued messages sel accepts until none is left (or max deliveries).
func (c *Cluster) DrainSel(sel func(*Msg) bool, max int) int {
	n := 0
	for n < max {
		c.mu.Lock()
		idx := -1
		for i, m := range c.Queue {
			if sel(m) {
				idx = i
				break
			}
		}
		c.mu.Unlock()
		if idx < 0 {
			break
		}
		c.step(c.take(idx))
		n++
	}
	return n
}

// DropSel removes the queued messages sel accepts.
func (c *Cluster) DropSel(sel func(*Msg) bool) int {
	c.mu.Lock()
	defer c.mu.Unlock()
	kept, n := c.Queue[:0], 0
	for _, m := range c.Queue {
		if sel(m) {
			n++
			continue
		}
		kept = append(kept, m)
	}
	c.Queue = kept
	c.Lost += n
	return n
}

// Drain delivers matching messages in FIFO order until none is left (or max deliveries).
func (c *Cluster) Drain(region uint64, among []uint64, max int) int {
	var set map[uint64]bool
	if among != nil {
		set = map[uint64]bool{}
		for _, s := range among {
			set[s] = true
		}
	}
	n := 0
	for n < max {
		c.mu.Lock()
		idx := -1
		for i, m := range c.Queue {
			if match(m, region, set) {
				idx = i
				break
			}
		}
		c.mu.Unlock()
		if idx < 0 {
			break
		}
		c.step(c.take(idx))
		n++
	}
	return n
}

// DropMatching removes queued messages: of the region (0 = any) and, if among is given, those with at
// least one end outside it (inside=false) or both ends inside it (inside=true).
func (c *Cluster) DropMatching(region uint64, among []uint64, inside bool) int {
	set := map[uint64]bool{}
	for _, s := range among {
		set[s] = true
	}
	c.mu.Lock()
	defer c.mu.Unlock()
	kept, n := c.Queue[:0], 0
	for _, m := range c.Queue {
		in := among == nil || (set[m.From] && set[m.To])
		if (region == 0 || m.Region == region) && in == inside {
			n++
			continue
		}
		kept = append(kept, m)
	}
	c.Queue = kept
	c.Lost += n
	return n
}

// Race delivers the queued messages for store s's peer of region r with TWO concurrent steppers and a slow
// applier: the first write command the store applies blocks on a gate; while it is blocked a second goroutine
// delivers the remaining messages; the gate opens once the second stepper has finished or after `wait`.
func (c *Cluster) Race(s, r uint64, wait time.Duration) map[string]any {
	n := c.Nodes[s]
	sel := func(m *Msg) bool { return m.To == s && m.Region == r && !c.cut[[2]uint64{m.From, m.To}] }
	pop := func() *Msg {
		c.mu.Lock()
		defer c.mu.Unlock()
		for i, m := range c.Queue {
			if sel(m) {
				c.Queue = append(c.Queue[:i:i], c.Queue[i+1:]...)
				return m
			}
		}
		return nil
	}
	g := &gate{hit: make(chan struct{}), release: make(chan struct{})}
	n.imu.Lock()
	n.gate = g
	n.imu.Unlock()
	info := map[string]any{"first": 0, "second": 0, "gated": false, "overtook": false}
	first, hit := 0, false
	for !hit {
		m := pop()
		if m == nil {
			break
		}
		first++
		done := make(chan struct{})
		go func() { _ = n.St.Step(m.M); close(done) }()
		select {
		case <-done:
		case <-g.hit:
			hit = true
			second := 0
			done2 := make(chan struct{})
			go func() {
				for m2 := pop(); m2 != nil; m2 = pop() {
					second++
					_ = n.St.Step(m2.M)
				}
				close(done2)
			}()
			select {
			case <-done2:
				info["overtook"] = true
			case <-time.After(wait):
			}
			close(g.release)
			<-done
			<-done2
			info["second"] = second
		}
	}
	n.imu.Lock()
	n.gate = nil
	n.imu.Unlock()
	info["first"], info["gated"] = first, hit
	c.settle()
	return info
}

// Wait lets wall-clock time pass (the ReadIndex context of Store.ReadCommand is a wall-clock timeout).
func (c *Cluster) Wait(d time.Duration) {
	time.Sleep(d)
	c.settle()
}

func (c *Cluster) Partition(a, b []uint64) {
	for _, x := range a {
		for _, y := range b {
			c.cut[[2]uint64{x, y}] = true
			c.cut[[2]uint64{y, x}] = true
		}
	}
}

func (c *Cluster) Heal() { c.cut = map[[2]uint64]bool{} }

// Restart closes store s cleanly and reopens it on the same directory.
func (c *Cluster) Restart(s uint64) error {
	n := c.Nodes[s]
	for _, p := range n.peers {
		_ = p.Close()
	}
	c.collectReads(false)
	for _, cl := range c.calls {
		if cl.Store == s && cl.state == callParked && cl.Kind == "propose" {
			cl.state = callAbandoned
			c.emit(vt.Ev{"e": "ProposeAbandoned", "c": cl.ID, "s": s})
		}
	}
	n.St.Close()
	if err := n.DB.Close(); err != nil {
		return err
	}
	c.emit(vt.Ev{"e": "Restart", "s": s})
	return n.open()
}

// ---------------------------------------------------------------- client calls

func (c *Cluster) header(r uint64) *pb.CmdHeader {
	return &pb.CmdHeader{RegionId: r, RegionEpoch: &pb.RegionEpoch{Version: 1, ConfVer: 1}}
}

func (c *Cluster) callEv(kind string, cl *Call) vt.Ev {
	role, lead, term := roleOf(c.Peer(cl.Store, cl.Region))
	return vt.Ev{"e": kind, "c": cl.ID, "s": cl.Store, "r": cl.Region, "k": cl.Key, "cmd": cl.Cmd, "role": role, "lead": lead, "term": term}
}

// start runs fn in its own goroutine and waits until it has returned or parked.
func (c *Cluster) start(cl *Call, fn func() (*pb.RaftCmdResponse, error)) {
	c.ncall++
	cl.ID = c.ncall
	cl.inc = c.Nodes[cl.Store].Inc
	cl.done = make(chan callResult, 1)
	cl.park = make(chan park, 1)
	c.calls = append(c.calls, cl)
	if cl.Kind == "propose" {
		c.emit(c.callEv("ProposeCall", cl))
	} else {
		c.emit(c.callEv("ReadCall", cl))
	}
	go func() {
		id := goid()
		c.byGo.Store(id, cl)
		defer c.byGo.Delete(id)
		defer func() {
			if p := recover(); p != nil {
				cl.done <- callResult{nil, fmt.Errorf("panic: %v", p)}
			}
		}()
		resp, err := fn()
		cl.done <- callResult{resp, err}
	}()
	select {
	case res := <-cl.done:
		c.finish(cl, res)
	case p := <-cl.park:
		cl.state = callParked
		if p.kind == "propose" {
			cl.RID = p.b
		}
		c.emit(vt.Ev{"e": "Parked", "c": cl.ID, "s": cl.Store, "r": cl.Region, "rid": cl.RID, "inc": cl.inc})
	}
	c.settle()
}

func (c *Cluster) finish(cl *Call, res callResult) {
	cl.state = callDone
	ev := vt.Ev{"c": cl.ID, "s": cl.Store, "r": cl.Region, "k": cl.Key, "cmd": cl.Cmd, "rid": cl.RID}
	if res.err != nil {
		ev["res"], ev["resp"], ev["err"] = "err", "", res.err.Error()
	} else {
		d, wok, got := RespDigest(res.resp)
		ev["resp"], ev["wok"], ev["got"] = d, wok, got
		switch d {
		case "notleader":
			ev["res"] = "notleader"
		case "regionerr", "nil":
			ev["res"] = "err"
		default:
			ev["res"] = "ok"
		}
		if h := res.resp.GetHeader(); h != nil {
			ev["hrid"], ev["hfrom"], ev["hr"] = h.GetRequestId(), h.GetPeerId(), h.GetRegionId()
		}
	}
	if cl.Kind == "propose" {
		ev["e"] = "ProposeRet"
	} else {
		ev["e"] = "ReadRet"
	}
	c.emit(ev)
}

// Propose issues one write command (prewrite+commit+get of a unique value) through Store.ProposeCommand.
func (c *Cluster) Propose(s, r uint64, key string) *Call {
	c.nextTS += 10
	ts := c.nextTS
	val := fmt.Sprintf("v%d", ts)
	k := []byte(key)
	req := &pb.RaftCmdRequest{Header: c.header(r), Requests: []*pb.Request{
		{CmdType: pb.CmdType_CMD_PREWRITE, Cmd: &pb.Request_Prewrite{Prewrite: &pb.PrewriteRequest{
			Mutations: []*pb.Mutation{{Op: pb.Mutation_Put, Key: k, Value: []byte(val)}}, PrimaryLock: k, StartVersion: ts, LockTtl: 3000}}},
		{CmdType: pb.CmdType_CMD_COMMIT, Cmd: &pb.Request_Commit{Commit: &pb.CommitRequest{Keys: [][]byte{k}, StartVersion: ts, CommitVersion: ts + 1}}},
		{CmdType: pb.CmdType_CMD_GET, Cmd: &pb.Request_Get{Get: &pb.GetRequest{Key: k, Version: ts + 1}}},
	}}
	cl := &Call{Kind: "propose", Store: s, Region: r, Key: key, Cmd: CmdDigest(req)}
	st := c.Nodes[s].St
	c.start(cl, func() (*pb.RaftCmdResponse, error) { return st.ProposeCommand(req) })
	return cl
}

// Read issues one Get of the newest committed version through Store.ReadCommand.
func (c *Cluster) Read(s, r uint64, key string) *Call {
	req := &pb.RaftCmdRequest{Header: c.header(r), Requests: []*pb.Request{
		{CmdType: pb.CmdType_CMD_GET, Cmd: &pb.Request_Get{Get: &pb.GetRequest{Key: []byte(key), Version: math.MaxUint64}}}}}
	cl := &Call{Kind: "read", Store: s, Region: r, Key: key, Cmd: "get:" + key}
	st := c.Nodes[s].St
	c.start(cl, func() (*pb.RaftCmdResponse, error) { return st.ReadCommand(req) })
	return cl
}

// settle records the return of every parked call the last step released.
func (c *Cluster) settle() {
	for _, s := range c.Stores {
		n := c.Nodes[s]
		var pend map[uint64]bool
		for _, cl := range c.calls {
			if cl.Store != s || cl.Kind != "propose" || cl.state != callParked || cl.inc != n.Inc {
				continue
			}
			if pend == nil {
				pend = map[uint64]bool{}
				for _, id := range n.St.VerifPendingProposals() {
					pend[id] = true
				}
			}
			if !pend[cl.RID] {
				c.finish(cl, <-cl.done)
			}
		}
	}
	c.collectReads(false)
}

// collectReads waits for parked reads whose read state arrived (or whose peer was closed / context expired).
func (c *Cluster) collectReads(all bool) {
	type key struct{ s, r uint64 }
	groups := map[key][]*Call{}
	var order []key
	for _, cl := range c.calls {
		if cl.Kind == "read" && cl.state == callParked {
			k := key{cl.Store, cl.Region}
			if _, ok := groups[k]; !ok {
				order = append(order, k)
			}
			groups[k] = append(groups[k], cl)
		}
	}
	sort.Slice(order, func(i, j int) bool {
		return order[i].s < order[j].s || (order[i].s == order[j].s && order[i].r < order[j].r)
	})
	for _, k := range order {
		cls := groups[k]
		p := c.Peer(k.s, k.r)
		stale := cls[0].inc != c.Nodes[k.s].Inc
		deadline := time.Now().Add(10 * time.Second)
		for {
			open := 0
			for _, cl := range cls {
				if cl.state != callParked {
					continue
				}
				select {
				case res := <-cl.done:
					c.finish(cl, res)
				default:
					open++
				}
			}
			want := 0
			if !all && !stale {
				want = p.VerifPendingReads()
			}
			if open <= want || time.Now().After(deadline) {
				break
			}
			time.Sleep(20 * time.Microsecond)
		}
	}
}

// Snapshot lists, per store and region, what raft and the store report.
func (c *Cluster) Snapshot() []map[string]any {
	var out []map[string]any
	for _, s := range c.Stores {
		n := c.Nodes[s]
		for _, r := range c.Regions {
			st := n.peers[r.ID].Status()
			out = append(out, map[string]any{"s": s, "r": r.ID, "role": st.RaftState.String(), "term": st.Term, "lead": peerStore(st.Lead),
				"commit": st.Commit, "applied": st.Applied, "pending": n.St.VerifPendingProposals()})
		}
	}
	return out
}

// Pending lists the request ids of the proposals parked on store s.
func (c *Cluster) Pending(s uint64) []uint64 { return c.Nodes[s].St.VerifPendingProposals() }

// MsgInfo renders a message for the trace.
func MsgInfo(m *Msg) map[string]any {
	if m == nil {
		return nil
	}
	return map[string]any{"id": m.ID, "from": m.From, "to": m.To, "r": m.Region, "t": m.M.Type.String(), "term": m.M.Term, "idx": m.M.Index, "n": len(m.M.Entries), "commit": m.M.Commit}
}
