module verif/harness

go 1.26.0

require github.com/feichai0017/NoKV v0.0.0

replace github.com/feichai0017/NoKV => /repo

require (
	github.com/cespare/xxhash/v2 v2.3.0
	github.com/dgraph-io/ristretto/v2 v2.4.0
	github.com/panjf2000/ants/v2 v2.11.5
	github.com/pkg/errors v0.9.1
	github.com/stretchr/testify v1.11.1
	go.etcd.io/raft/v3 v3.6.0
	golang.org/x/sys v0.41.0
	google.golang.org/grpc v1.79.1
	google.golang.org/protobuf v1.36.11
)

require (
	github.com/cockroachdb/datadriven v1.0.3-0.20230413201302-be42291fc80f // indirect
	github.com/davecgh/go-spew v1.1.1 // indirect
	github.com/dustin/go-humanize v1.0.1 // indirect
	github.com/gogo/protobuf v1.3.2 // indirect
	github.com/golang/protobuf v1.5.4 // indirect
	github.com/kr/pretty v0.3.1 // indirect
	github.com/pmezard/go-difflib v1.0.0 // indirect
	github.com/rogpeppe/go-internal v1.14.1 // indirect
	golang.org/x/net v0.48.0 // indirect
	golang.org/x/sync v0.19.0 // indirect
	golang.org/x/text v0.32.0 // indirect
	google.golang.org/genproto/googleapis/rpc v0.0.0-20251202230838-ff82c1b0f217 // indirect
	gopkg.in/check.v1 v1.0.0-20201130134442-10cb98267c6c // indirect
	gopkg.in/yaml.v3 v3.0.1 // indirect
)
