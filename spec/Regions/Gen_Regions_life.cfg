SPECIFICATION Spec
CONSTANTS
 Top = 4
 MaxInit = 1
 MaxDepth = 4
 MergeRule = "adjacent"
 Ops = {"Split","Merge","StopPeer","Remove","SetState","Rewrite","Reload"}
 Script <- LifeScript
 Emit = TRUE
INVARIANT EmitHist
CHECK_DEADLOCK FALSE
