SPECIFICATION Spec
CONSTANTS
 S = 3
 E = 7
 MaxPos = 9
 MaxKeys = 3
