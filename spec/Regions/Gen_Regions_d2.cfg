SPECIFICATION Spec
CONSTANTS
 Top = 4
 MaxInit = 4
 MaxDepth = 2
 MergeRule = "adjacent"
 Ops = {"Split","Merge","StopPeer","Remove","SetState","Rewrite","Reload"}
 Script <- NoScript
 Emit = TRUE
INVARIANT EmitHist
CHECK_DEADLOCK FALSE
