SPECIFICATION Spec
CONSTANTS
 Top = 4
 MaxInit = 4
 MaxDepth = 4
 MergeRule = "adjacent"
 Ops = {"Split","Merge","StopPeer","Remove","SetState","Rewrite","Reload"}
 Script <- NoScript
 Emit = FALSE
INVARIANT PartitionOK
INVARIANT DiskOK
PROPERTY EpochsIncrease
PROPERTY StatesMoveForward
VIEW MCView
CHECK_DEADLOCK FALSE
