--------------------------- MODULE RegionsPropTrace ---------------------------
(* Property layer for C24 as a trace specification.  A trace is a sequence of catalog     *)
(* observations of a real store: the region listing after the initial setup ("Init"),     *)
(* after every split / merge / peer stop / removal / state change ("Op", with the ids the *)
(* operation is allowed to retire in `dead`: the removed or tombstoned region, nothing    *)
(* for splits and merges), and the listing of a store rebuilt from the manifest           *)
(* ("Reload").  Nothing here says what an operation should compute; only C24's clauses:   *)
(*   overlap  live ranges are pairwise disjoint                                           *)
(*   cover    live ranges cover exactly what they covered before (minus a retired region) *)
(*   epoch    epochs never decrease, and a region whose range or peers changed has a      *)
(*            strictly greater epoch                                                      *)
(*   state    region state only moves forward (new < running < removing < tombstone)      *)
(*   reload   the reloaded catalog equals the in-memory catalog                           *)
(* Catalog entries: [id, s, e, ver, conf, st, peers]; s, e are boundary positions         *)
(* (0 = unbounded start, Top = unbounded end), projected from the byte keys by the check. *)
EXTENDS Integers, Sequences, FiniteSets, TLC, Json, IOUtils

Trace == ndJsonDeserialize(IOEnv.TRACE)
Top == 4
Tombstone == 3

VARIABLES l,        \* next trace line to explain
          prev,     \* catalog at the previous observation: id -> entry
          covered   \* key space (set of atoms) the live regions have to cover
vars == <<l, prev, covered>>

CatOf(seq) == [i \in {seq[j].id : j \in DOMAIN seq} |-> seq[CHOOSE j \in DOMAIN seq : seq[j].id = i]]
Atoms(r)    == {x \in 0..(Top - 1) : r.s <= x /\ x < r.e}
Live(c)     == {i \in DOMAIN c : c[i].st # Tombstone}
Disjoint(c) == \A i, j \in Live(c) : i # j => Atoms(c[i]) \cap Atoms(c[j]) = {}
Cover(c)    == UNION {Atoms(c[i]) : i \in Live(c)}
EpochGreater(a, b) == a.ver >= b.ver /\ a.conf >= b.conf /\ (a.ver > b.ver \/ a.conf > b.conf)

ev == Trace[l]
IsEvent(name) == l <= Len(Trace) /\ ev.e = name /\ l' = l + 1
\* report every violated clause of this observation and go on (judged against the actual catalog afterwards)
Report(fails) == fails = {} \/ (fails # {} /\ PrintT(<<"MISMATCH", l, fails>>))

Init == l = 1 /\ prev = <<>> /\ covered = {}

Reset == IsEvent("Reset") /\ prev' = <<>> /\ covered' = {}

Start == /\ IsEvent("Init")
         /\ LET cur == CatOf(ev.cat)
            IN /\ Report({c \in {"overlap"} : ~Disjoint(cur)})
               /\ prev' = cur /\ covered' = Cover(cur)

Op == /\ IsEvent("Op")
      /\ LET cur     == CatOf(ev.cat)
             both    == (DOMAIN cur) \cap (DOMAIN prev)
             retired == {x \in {ev.dead[j] : j \in DOMAIN ev.dead} : x \in Live(prev) /\ x \notin Live(cur)}
             want    == covered \ UNION {Atoms(prev[x]) : x \in retired}
             fails   == {c \in {"overlap", "cover", "epoch", "state"} :
                          \/ c = "overlap" /\ ~Disjoint(cur)
                          \/ c = "cover"   /\ Cover(cur) # want
                          \/ c = "epoch"   /\ \E i \in both :
                                                \/ cur[i].ver < prev[i].ver \/ cur[i].conf < prev[i].conf
                                                \/ /\ (cur[i].s # prev[i].s \/ cur[i].e # prev[i].e \/ cur[i].peers # prev[i].peers)
                                                   /\ ~EpochGreater(cur[i], prev[i])
                          \/ c = "state"   /\ \E i \in both : cur[i].st < prev[i].st}
         IN /\ Report(fails)
            /\ prev' = cur /\ covered' = Cover(cur)

Reload == /\ IsEvent("Reload")
          /\ LET cur == CatOf(ev.cat)
             IN /\ Report({c \in {"reload"} : cur # prev})
                /\ prev' = cur /\ covered' = Cover(cur)

Next == Reset \/ Start \/ Op \/ Reload
Spec == Init /\ [][Next]_vars

TraceAccepted ==
    LET d == TLCGet("stats").diameter
    IN PrintT(<<"TRACE_HW", d - 1, Len(Trace)>>) /\ d - 1 = Len(Trace)
=============================================================================
