------------------------------- MODULE Regions -------------------------------
(* Implementation-shaped model of the region catalog of one store (C24, C25).             *)
(*   raftstore/store/admin_service.go   SplitRegion / handleSplitCommand / handleMergeCommand *)
(*   raftstore/store/region_manager.go  updateRegion / updateRegionState / removeRegion    *)
(*   raftstore/store/peer_lifecycle.go  StopPeer (marks the region Removing)               *)
(*   manifest region edits (LogRegionUpdate / LogRegionDelete), reload on store start      *)
(*                                                                                        *)
(* Keys are boundary positions 0..Top.  A start key 0 and an end key Top are the          *)
(* unbounded ends; the code encodes BOTH as the empty byte string, which compares lowest  *)
(* (Raw).  One action = one admin command / catalog call as the driver can issue and      *)
(* observe it; the manifest edits of a command are applied in the same step (clean        *)
(* restarts only: crash atomicity is C15's subject).                                      *)
EXTENDS Integers, Sequences, FiniteSets, TLC, Json

CONSTANTS Top,        \* boundaries 0..Top
          MaxInit,    \* regions in the starting partition
          MaxDepth,   \* operations per behaviour
          MergeRule,  \* "asis": handleMergeCommand before the repair; "adjacent": repaired code
          Ops,        \* enabled operation kinds
          Script,     \* generation only: <<>> or, per step, the set of operation kinds allowed at that step
          Emit        \* TRUE: print every complete behaviour (generation mode)

New == 0  Running == 1  Removing == 2  Tombstone == 3
States == {New, Running, Removing, Tombstone}

VARIABLES cat,      \* in-memory catalog: region id -> [s, e, ver, conf, st]
          disk,     \* manifest: same shape
          nextId,   \* next fresh region id (ids come from PD and are never reused)
          covered,  \* ghost: the key space the live regions must cover
          init,     \* ghost: the starting partition (for the driver)
          hist,     \* ghost: operations issued so far (for the driver)
          taint     \* ghost: witnesses of recorded deviations that have occurred
vars == <<cat, disk, nextId, covered, init, hist, taint>>

Upd(m, id, rec) == [x \in (DOMAIN m) \cup {id} |-> IF x = id THEN rec ELSE m[x]]
Del(m, id)      == [x \in (DOMAIN m) \ {id} |-> m[x]]

Atoms(r)    == {x \in 0..(Top - 1) : r.s <= x /\ x < r.e}
Live(c)     == {i \in DOMAIN c : c[i].st # Tombstone}
Disjoint(c) == \A i, j \in Live(c) : i # j => Atoms(c[i]) \cap Atoms(c[j]) = {}
Cover(c)    == UNION {Atoms(c[i]) : i \in Live(c)}

\* the byte-string order the code compares end keys in: the unbounded end is "" (lowest)
Raw(e) == IF e = Top THEN 0 ELSE e

-----------------------------------------------------------------------------
(* Starting partitions: every set of at most MaxInit pairwise disjoint ranges, ids        *)
(* assigned left to right or right to left.                                               *)
Intervals == {iv \in (0..Top) \X (0..Top) : iv[1] < iv[2]}
IvDisjoint(a, b) == a[2] <= b[1] \/ b[2] <= a[1]
Partitions == {S \in SUBSET Intervals : Cardinality(S) <= MaxInit /\ \A a, b \in S : a # b => IvDisjoint(a, b)}
Rank(S, iv, rev) == IF rev THEN 1 + Cardinality({o \in S : o[1] > iv[1]}) ELSE 1 + Cardinality({o \in S : o[1] < iv[1]})
MkCat(S, rev) == [i \in 1..Cardinality(S) |->
                    LET iv == CHOOSE v \in S : Rank(S, v, rev) = i
                    IN [s |-> iv[1], e |-> iv[2], ver |-> 1, conf |-> 1, st |-> Running]]

Init == \E S \in Partitions, rev \in BOOLEAN :
           /\ S # {}
           /\ cat = MkCat(S, rev) /\ disk = cat
           /\ nextId = Cardinality(S) + 1
           /\ covered = Cover(cat)
           /\ init = [i \in 1..Cardinality(S) |-> [id |-> i, s |-> cat[i].s, e |-> cat[i].e]]
           /\ hist = <<>> /\ taint = {}

NoScript   == <<>>
\* lifecycle behaviours: a state change, a manifest rewrite, a restart, then every state change again
LifeScript == <<{"SetState", "StopPeer"}, {"Rewrite"}, {"Reload"}, {"SetState"}>>

Log(rec) == hist' = Append(hist, rec)
Can(op)  == /\ op \in Ops /\ Len(hist) < MaxDepth
            /\ (Script = <<>> \/ (Len(hist) < Len(Script) /\ op \in Script[Len(hist) + 1]))
\* updateRegion: manifest edit, then the in-memory entry
Write(c) == cat' = c /\ disk' = c

-----------------------------------------------------------------------------
(* SplitRegion: validates the split key against the parent, shrinks the parent             *)
(* (version+1), starts the child [key, old end) as Running.  An invalid key is an error    *)
(* and changes nothing.                                                                    *)
SplitOK(p, k) == k # 0 /\ k > cat[p].s /\ (cat[p].e = Top \/ k < cat[p].e)
Split(p, k) ==
    /\ Can("Split") /\ p \in DOMAIN cat /\ cat[p].st = Running
    /\ Log([op |-> "Split", parent |-> p, key |-> k, child |-> nextId])
    /\ IF SplitOK(p, k)
       THEN /\ Write(Upd(Upd(cat, p, [cat[p] EXCEPT !.e = k, !.ver = @ + 1]),
                         nextId, [s |-> k, e |-> cat[p].e, ver |-> 1, conf |-> 1, st |-> Running]))
            /\ nextId' = nextId + 1
       ELSE UNCHANGED <<cat, disk, nextId>>
    /\ UNCHANGED <<covered, init, taint>>

(* handleMergeCommand.                                                                     *)
(* "asis": the target keeps its start; its end becomes the source's end when that is "" or *)
(*   byte-wise greater than the target's end; no adjacency requirement.                    *)
(* "adjacent": the source must be the right neighbour (target end = source start, target   *)
(*   extends to the source's end) or the left neighbour (source end = target start, target *)
(*   start moves to the source's start); anything else is rejected and changes nothing.    *)
RightNb(t, s) == cat[t].e # Top /\ cat[t].e = cat[s].s
LeftNb(t, s)  == cat[s].e # Top /\ cat[s].e = cat[t].s
MergedAsIs(t, s) == [cat[t] EXCEPT !.ver = @ + 1,
                                   !.e = IF Raw(cat[s].e) = 0 \/ Raw(cat[s].e) > Raw(cat[t].e) THEN cat[s].e ELSE @]
MergedAdj(t, s)  == IF RightNb(t, s) THEN [cat[t] EXCEPT !.ver = @ + 1, !.e = cat[s].e]
                                     ELSE [cat[t] EXCEPT !.ver = @ + 1, !.s = cat[s].s]
MergeWitness(t, s) == IF RightNb(t, s) THEN {}
                      ELSE IF LeftNb(t, s) THEN {"merge-left-neighbour"}
                      ELSE {"merge-non-adjacent"}
Merge(t, s) ==
    /\ Can("Merge") /\ t \in DOMAIN cat /\ s \in DOMAIN cat /\ t # s
    /\ cat[t].st = Running /\ cat[s].st = Running
    /\ Log([op |-> "Merge", target |-> t, source |-> s])
    /\ IF MergeRule = "asis"
       THEN /\ Write(Del(Upd(cat, t, MergedAsIs(t, s)), s))
            /\ taint' = taint \cup MergeWitness(t, s)
       ELSE /\ IF RightNb(t, s) \/ LeftNb(t, s)
               THEN Write(Del(Upd(cat, t, MergedAdj(t, s)), s))
               ELSE UNCHANGED <<cat, disk>>
            /\ UNCHANGED taint
    /\ UNCHANGED <<nextId, covered, init>>

(* StopPeer: the region of the stopped peer is marked Removing.                            *)
StopPeer(r) ==
    /\ Can("StopPeer") /\ r \in DOMAIN cat /\ cat[r].st = Running
    /\ Log([op |-> "StopPeer", region |-> r])
    /\ Write(Upd(cat, r, [cat[r] EXCEPT !.st = Removing]))
    /\ UNCHANGED <<nextId, covered, init, taint>>

(* RemoveRegion: tombstone edit, delete edit, eviction.  Its range leaves the covered space. *)
Remove(r) ==
    /\ Can("Remove") /\ r \in DOMAIN cat
    /\ Log([op |-> "Remove", region |-> r])
    /\ Write(Del(cat, r))
    /\ covered' = Cover(Del(cat, r))
    /\ UNCHANGED <<nextId, init, taint>>

(* UpdateRegionState: state 0 is read as Running; illegal transitions are rejected.        *)
ValidTransition(a, b) == \/ a = b
                         \/ a = New /\ b = Running
                         \/ a = Running /\ b \in {Removing, Tombstone}
                         \/ a = Removing /\ b = Tombstone
SetState(r, st) ==
    /\ Can("SetState") /\ r \in DOMAIN cat
    /\ Log([op |-> "SetState", region |-> r, state |-> st])
    /\ LET eff == IF st = New THEN Running ELSE st
       IN IF ValidTransition(cat[r].st, eff)
          THEN /\ Write(Upd(cat, r, [cat[r] EXCEPT !.st = eff]))
               /\ covered' = Cover(Upd(cat, r, [cat[r] EXCEPT !.st = eff]))
          ELSE UNCHANGED <<cat, disk, covered>>
    /\ UNCHANGED <<nextId, init, taint>>

(* Manifest rewrite (explicit Rewrite() or the size threshold): the current version is     *)
(* written out as a snapshot into a new manifest file; its content must not change.        *)
Rewrite ==
    /\ Can("Rewrite")
    /\ Log([op |-> "Rewrite"])
    /\ UNCHANGED <<cat, disk, nextId, covered, init, taint>>

(* Restart: the store is rebuilt from the manifest.                                        *)
Reload ==
    /\ Can("Reload")
    /\ Log([op |-> "Reload"])
    /\ cat' = disk
    /\ UNCHANGED <<disk, nextId, covered, init, taint>>

Next == \/ \E p \in DOMAIN cat, k \in 0..(Top - 1) : Split(p, k)
        \/ \E t, s \in DOMAIN cat : Merge(t, s)
        \/ \E r \in DOMAIN cat : StopPeer(r) \/ Remove(r) \/ \E st \in States : SetState(r, st)
        \/ Rewrite
        \/ Reload
Spec == Init /\ [][Next]_vars

-----------------------------------------------------------------------------
(* C24 on the model. *)
PartitionOK == Disjoint(cat) /\ Cover(cat) = covered
DiskOK      == disk = cat
\* every violation of the partition property is explained by a recorded merge witness
PartitionOrWitness == PartitionOK \/ taint # {}

EpochGreater(a, b) == a.ver >= b.ver /\ a.conf >= b.conf /\ (a.ver > b.ver \/ a.conf > b.conf)
EpochStep == \A i \in (DOMAIN cat) \cap (DOMAIN cat') :
                /\ cat'[i].ver >= cat[i].ver /\ cat'[i].conf >= cat[i].conf
                /\ (cat'[i].s # cat[i].s \/ cat'[i].e # cat[i].e) => EpochGreater(cat'[i], cat[i])
StateStep == \A i \in (DOMAIN cat) \cap (DOMAIN cat') : cat'[i].st >= cat[i].st
EpochsIncrease    == [][EpochStep]_vars
StatesMoveForward == [][StateStep]_vars

\* generation mode: every behaviour of exactly MaxDepth operations, as JSON
EmitHist == (Emit /\ Len(hist) = MaxDepth) => PrintT(<<"SCHED", ToJson([init |-> init, ops |-> hist])>>)

\* model checking hides the driver-facing history
MCView == <<cat, disk, nextId, covered, Len(hist), taint>>
=============================================================================
