------------------------------ MODULE CmdValid ------------------------------
(* C25 - commands only execute against the region that owns their keys.                   *)
(*                                                                                        *)
(* `Valid(c)` is the property's acceptance condition as a predicate: the command carries  *)
(* the region's current epoch and every key it names lies inside [start, end).  TLC is    *)
(* enumerator and oracle: it evaluates Valid on EVERY case of the domain below and writes *)
(* (case, expected) pairs as ndjson; harness/cmd/cmdvalid sends each command through      *)
(* Store.ProposeCommand / Store.ReadCommand of a real one-node leader.                    *)
(*                                                                                        *)
(* Keys are positions on a line 0..MaxPos; position 0 is the empty key.  The check maps   *)
(* positions to byte strings that are ordered the same way (and include prefix-related    *)
(* neighbours of both boundaries).  A region is [start, end) with start = 0 meaning an    *)
(* unbounded start and end = Top meaning an unbounded end.                                *)
EXTENDS Integers, Sequences, FiniteSets, TLC, Json, IOUtils, SequencesExt

CONSTANTS S, E,       \* the bounded start / end positions
          MaxPos,     \* key positions are 0..MaxPos; Top = MaxPos + 1 is the unbounded end
          MaxKeys     \* keys per multi-key command

Top == MaxPos + 1
Shapes == [bounded |-> [s |-> S, e |-> E], noStart |-> [s |-> 0, e |-> E],
           noEnd   |-> [s |-> S, e |-> Top], both  |-> [s |-> 0, e |-> Top]]
ShapeNames == {"bounded", "noStart", "noEnd", "both"}

\* the region's epoch is <<5, 5>> (version, conf version); "none": the header carries no epoch
Epochs == [equal |-> <<5, 5>>, olderVersion |-> <<4, 5>>, newerVersion |-> <<6, 5>>,
           olderConf |-> <<5, 4>>, newerConf |-> <<5, 6>>, none |-> <<0, 0>>]
EpochNames == {"equal", "olderVersion", "newerVersion", "olderConf", "newerConf", "none"}

\* [start, end) over positions
InRange(k, r) == (r.s = 0 \/ k >= r.s) /\ k < r.e

PointKinds == {"Get", "CheckTxnStatus"}                                \* exactly one key
ListKinds  == {"Prewrite", "Commit", "BatchRollback", "ResolveLock"}   \* one or more keys
Positions  == 0..MaxPos
KeyLists   == UNION {[1..n -> Positions] : n \in 1..MaxKeys}

\* An empty key is an absent protobuf field: it names no key (a scan without start key begins at
\* the region's start; a point request without key is refused by the executor, never executed).
Named(kind, keys) == {keys[i] : i \in {j \in DOMAIN keys : keys[j] # 0}}

\* one request per command, plus two-request commands (a Get of each key)
Requests == [kind : PointKinds, keys : [1..1 -> Positions], via : {"propose"}]
       \cup [kind : {"Get"}, keys : [1..1 -> Positions], via : {"read"}]
       \cup [kind : {"Scan"}, keys : [1..1 -> Positions], via : {"propose", "read"}]
       \cup [kind : ListKinds, keys : KeyLists, via : {"propose"}]
       \cup [kind : {"GetGet"}, keys : [1..2 -> Positions], via : {"propose", "read"}]

Cases == [shape : ShapeNames, epoch : EpochNames, req : Requests]

Valid(c) == /\ c.epoch = "equal"
            /\ \A k \in Named(c.req.kind, c.req.keys) : InRange(k, Shapes[c.shape])

Case(c) == [shape |-> c.shape, s |-> Shapes[c.shape].s, e |-> Shapes[c.shape].e,
            epoch |-> c.epoch, ver |-> Epochs[c.epoch][1], conf |-> Epochs[c.epoch][2],
            kind |-> c.req.kind, keys |-> c.req.keys, via |-> c.req.via,
            valid |-> Valid(c),
            \* scan results may only contain keys of these positions
            inrange |-> SetToSeq({k \in Positions : InRange(k, Shapes[c.shape])})]

Emit == ndJsonSerialize(IOEnv.OUT, SetToSeq({Case(c) : c \in Cases}))
ASSUME Emit
ASSUME PrintT(<<"CASES", Cardinality(Cases)>>)

VARIABLE done
Init == done = TRUE
Next == UNCHANGED done
Spec == Init /\ [][Next]_done
=============================================================================
