\* Documentation only (not run by the check): the manifest as it was before the fix: commit
\* "manifest snapshot keeps the offset of invalid value-log entries".  RoundTripStrict is violated
\* after one edit: VUpd(bucket 0, fid 1, offset 5, valid FALSE).
SPECIFICATION Spec
CONSTANTS
 Levels = {0}
 Fids = {1}
 Metas = {1}
 Buckets = {0}
 VFids = {1}
 Offs = {0,5}
 Groups = {1}
 Regions = {1}
 Payloads = {1}
 MaxEdits = 2
 MaxBatch = 2
 MaxRewrites = 1
 MaxCrashes = 1
 MaxFile = 5
 Kinds = {"AddFile","DelFile","LogPtr","VHead","VDel","VUpd","Raft","Region","RegionDel"}
 RecCrash = TRUE
 Deviations = {"SnapInvalidOffset"}
VIEW view
INVARIANT RoundTripStrict
CHECK_DEADLOCK FALSE
