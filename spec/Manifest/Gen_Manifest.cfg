SPECIFICATION Spec
CONSTANTS
 Levels = {0,1}
 Fids = {1,2}
 Metas = {1,2}
 Buckets = {0,1}
 VFids = {1,2}
 Offs = {0,5}
 Groups = {1}
 Regions = {1,2}
 Payloads = {1,2}
 MaxEdits = 6
 MaxBatch = 2
 MaxRewrites = 3
 MaxCrashes = 2
 MaxFile = 9
 Kinds = {"AddFile","DelFile","LogPtr","VHead","VDel","VUpd","Raft","Region","RegionDel"}
 RecCrash = FALSE
 Deviations = {}
INVARIANT EmitHist
CHECK_DEADLOCK FALSE
