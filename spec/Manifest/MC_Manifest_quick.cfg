SPECIFICATION Spec
CONSTANTS
 Levels = {0}
 Fids = {1}
 Metas = {1}
 Buckets = {0}
 VFids = {1}
 Offs = {0,5}
 Groups = {1}
 Regions = {1}
 Payloads = {1}
 MaxEdits = 2
 MaxBatch = 2
 MaxRewrites = 1
 MaxCrashes = 1
 MaxFile = 5
 Kinds = {"AddFile","DelFile","LogPtr","VHead","VDel","VUpd","Raft","Region","RegionDel"}
 RecCrash = TRUE
 Deviations = {}
VIEW view
INVARIANT RoundTrip
INVARIANT ReloadEqual
INVARIANT CrashSafe
INVARIANT OpenSucceeds
INVARIANT HandleIsCurrent
CHECK_DEADLOCK FALSE
