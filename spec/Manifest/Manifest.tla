------------------------------ MODULE Manifest ------------------------------
(* Implementation-shaped specification of NoKV's manifest (manifest/manager.go).          *)
(*                                                                                        *)
(*   Apply       Manager.apply, one CASE arm per edit kind (add/delete file, log pointer, *)
(*               value-log head / delete / update, raft pointer, region update / delete)  *)
(*   Snapshot    Manager.writeSnapshot: the edit sequence a rewrite writes, in its order  *)
(*   Write       logEditsLocked: ONE file write of the whole encoded batch, then apply    *)
(*   Ack         LogEdits returns nil (no rewrite wanted)                                 *)
(*   RwCreate .. RwRemoveAck                                                              *)
(*               rewriteLocked: pick next unused MANIFEST-n, create it, write the         *)
(*               snapshot (bufio: any chunking), [flush, sync, close], write CURRENT.tmp, *)
(*               rename it over CURRENT, reopen the new file for append, remove the old   *)
(*   Crash / TornWriteCrash / RwTornCrash                                                 *)
(*               process death between any two file operations, or in the middle of a     *)
(*               write (a prefix of the bytes reached the file: whole edits + torn tail)  *)
(*   RecVerifyTmp, RecVerifyTail, RecOpen, Cn1..Cn3                                       *)
(*               manifest.Verify (remove CURRENT.tmp, truncate a torn tail) followed by   *)
(*               manifest.Open (replay CURRENT's file, or createNew when CURRENT is       *)
(*               missing); recovery can crash as well                                     *)
(*                                                                                        *)
(* File operations without an effect on the directory image (Sync, Close, Seek, Stat) are *)
(* not separate actions: the image before and after them is the same (process-crash       *)
(* model: what was written is in the page cache and survives).                            *)
(*                                                                                        *)
(* Property (C15): whenever the manager is idle, reloading the directory gives the        *)
(* in-memory version; in EVERY state the directory opens (Verify + Open succeed) to the   *)
(* version after a prefix of the issued edits that contains every acknowledged one; and   *)
(* for every reachable version v, Replay(Snapshot(v)) = v.  Versions are compared per     *)
(* level as sets (the snapshot sorts by file id; order is not part of the property).      *)
EXTENDS Integers, Sequences, FiniteSets, SequencesExt, FiniteSetsExt, TLC, Json

CONSTANTS Levels, Fids, Metas,        \* SST files: levels, file ids, metadata tokens (ints)
          Buckets, VFids, Offs,       \* value log: buckets, file ids, offsets (ints, 0 allowed)
          Groups, Regions, Payloads,  \* raft groups, region ids, payload tokens (ints >= 1)
          MaxEdits,                   \* edits issued over the whole behaviour
          MaxBatch,                   \* edits per LogEdits call
          MaxRewrites, MaxCrashes, MaxFile,
          RecCrash,                   \* TRUE: recovery (Verify/Open/createNew) may crash too
          Kinds,                      \* edit kinds enabled (subset of AllKinds)
          Deviations                  \* named deviations of the code from the property
                                      \*   "SnapInvalidOffset": writeSnapshot encodes an invalid
                                      \*   value-log entry as EditDeleteValueLog, losing its offset
                                      \*   (repaired by the fix: commit; kept as a switch)

AllKinds == {"AddFile", "DelFile", "LogPtr", "VHead", "VDel", "VUpd", "Raft", "Region", "RegionDel"}
VIDs == Buckets \X VFids

\* ------------------------------------------------------------------ versions and edits
\* Uniform record shapes (TLC cannot compare a record with a string).
E(t, a, f, x, b) == [t |-> t, a |-> a, f |-> f, x |-> x, b |-> b]
NoVl   == [p |-> FALSE, off |-> 0, valid |-> FALSE]
NoHead == [p |-> FALSE, fid |-> 0, off |-> 0, valid |-> FALSE]
EmptyVer == [lv  |-> [L \in Levels |-> <<>>],          \* Version.Levels[L]: list of files
             log |-> 0,                                \* LogSegment/LogOffset (one token)
             vl  |-> [id \in VIDs |-> NoVl],           \* Version.ValueLogs
             hd  |-> [b \in Buckets |-> NoHead],       \* Version.ValueLogHead
             rp  |-> [g \in Groups |-> 0],             \* Version.RaftPointers (0 = absent)
             rg  |-> [r \in Regions |-> 0]]            \* Version.Regions (0 = absent)

DropFirstFid(s, fid) ==
    LET idx == {i \in 1..Len(s) : s[i].fid = fid}
    IN IF idx = {} THEN s ELSE LET i == Min(idx) IN SubSeq(s, 1, i - 1) \o SubSeq(s, i + 1, Len(s))

\* Manager.apply
Apply(v, e) ==
    CASE e.t = "AddFile"   -> [v EXCEPT !.lv[e.a] = Append(@, [fid |-> e.f, meta |-> e.x])]
      [] e.t = "DelFile"   -> [v EXCEPT !.lv[e.a] = DropFirstFid(@, e.f)]
      [] e.t = "LogPtr"    -> [v EXCEPT !.log = e.x]
      [] e.t = "VHead"     -> [v EXCEPT !.vl[<<e.a, e.f>>] = [p |-> TRUE, off |-> e.x, valid |-> TRUE],
                                        !.hd[e.a] = [p |-> TRUE, fid |-> e.f, off |-> e.x, valid |-> TRUE]]
      [] e.t = "VDel"      -> [v EXCEPT !.vl[<<e.a, e.f>>] = [p |-> TRUE, off |-> 0, valid |-> FALSE],
                                        !.hd[e.a] = IF @.p /\ @.fid = e.f THEN NoHead ELSE @]
      [] e.t = "VUpd"      -> [v EXCEPT !.vl[<<e.a, e.f>>] = [p |-> TRUE, off |-> e.x, valid |-> e.b],
                                        !.hd[e.a] = IF @.p /\ @.fid = e.f
                                                    THEN (IF e.b THEN [p |-> TRUE, fid |-> e.f, off |-> e.x, valid |-> TRUE]
                                                                 ELSE NoHead)
                                                    ELSE @]
      [] e.t = "Raft"      -> [v EXCEPT !.rp[e.a] = e.x]
      [] e.t = "Region"    -> [v EXCEPT !.rg[e.a] = e.x]
      [] e.t = "RegionDel" -> [v EXCEPT !.rg[e.a] = 0]

RECURSIVE ApplyAll(_, _)
ApplyAll(v, es) == IF es = <<>> THEN v ELSE ApplyAll(Apply(v, Head(es)), Tail(es))
Replay(es) == ApplyAll(EmptyVer, es)

\* Manager.writeSnapshot: files per level (ascending level, ascending file id), the log pointer,
\* value-log entries by (bucket, fid), heads by bucket, raft pointers, regions.
Snapshot(v) ==
    LET lvs      == SetToSortSeq(Levels, <)
        files(L) == LET s == SortSeq(v.lv[L], LAMBDA x, y : x.fid < y.fid)
                    IN [i \in 1..Len(s) |-> E("AddFile", L, s[i].fid, s[i].meta, FALSE)]
        ids      == SetToSortSeq({id \in VIDs : v.vl[id].p},
                                 LAMBDA x, y : x[1] < y[1] \/ (x[1] = y[1] /\ x[2] < y[2]))
        vle(id)  == LET m == v.vl[id]
                    IN IF m.valid \/ "SnapInvalidOffset" \notin Deviations
                       THEN E("VUpd", id[1], id[2], m.off, m.valid)
                       ELSE E("VDel", id[1], id[2], 0, FALSE)
        bs       == SetToSortSeq({b \in Buckets : v.hd[b].p}, <)
        gs       == SetToSortSeq({g \in Groups : v.rp[g] # 0}, <)
        rs       == SetToSortSeq({r \in Regions : v.rg[r] # 0}, <)
    IN FlattenSeq([i \in 1..Len(lvs) |-> files(lvs[i])])
       \o <<E("LogPtr", 0, 0, v.log, FALSE)>>
       \o [i \in 1..Len(ids) |-> vle(ids[i])]
       \o [i \in 1..Len(bs)  |-> E("VHead", bs[i], v.hd[bs[i]].fid, v.hd[bs[i]].off, TRUE)]
       \o [i \in 1..Len(gs)  |-> E("Raft", gs[i], 0, v.rp[gs[i]], FALSE)]
       \o [i \in 1..Len(rs)  |-> E("Region", rs[i], 0, v.rg[rs[i]], FALSE)]

\* order inside a level is not part of the property
Norm(v) == [v EXCEPT !.lv = [L \in Levels |-> {v.lv[L][i] : i \in 1..Len(v.lv[L])}]]

\* edits a caller may issue in version v.  Assumption (stated in the evidence): a file id is not
\* added twice to one level (the engine allocates unique file ids); everything else is free.
EditsIn(v) ==
    (IF "AddFile" \in Kinds THEN {E("AddFile", L, f, m, FALSE) : L \in Levels, f \in Fids, m \in Metas} ELSE {})
    \cup (IF "DelFile" \in Kinds THEN {E("DelFile", L, f, 0, FALSE) : L \in Levels, f \in Fids} ELSE {})
    \cup (IF "LogPtr" \in Kinds THEN {E("LogPtr", 0, 0, x, FALSE) : x \in Payloads} ELSE {})
    \cup (IF "VHead" \in Kinds THEN {E("VHead", b, f, o, TRUE) : b \in Buckets, f \in VFids, o \in Offs} ELSE {})
    \cup (IF "VDel" \in Kinds THEN {E("VDel", b, f, 0, FALSE) : b \in Buckets, f \in VFids} ELSE {})
    \cup (IF "VUpd" \in Kinds THEN {E("VUpd", id[1], id[2], o, val) : id \in VIDs, o \in Offs, val \in BOOLEAN} ELSE {})
    \cup (IF "Raft" \in Kinds THEN {E("Raft", g, 0, x, FALSE) : g \in Groups, x \in Payloads} ELSE {})
    \cup (IF "Region" \in Kinds THEN {E("Region", r, 0, x, FALSE) : r \in Regions, x \in Payloads} ELSE {})
    \cup (IF "RegionDel" \in Kinds THEN {E("RegionDel", r, 0, 0, TRUE) : r \in Regions} ELSE {})
Legal(v, e) == e.t = "AddFile" => \A i \in 1..Len(v.lv[e.a]) : v.lv[e.a][i].fid # e.f

\* ------------------------------------------------------------------------- state
NoFile == [ex |-> FALSE, edits |-> <<>>, torn |-> FALSE]
VARIABLES
    \* the directory
    files,     \* [1..MaxFile -> [ex, edits, torn]]   MANIFEST-00000n
    cur,       \* content of CURRENT (0 = no such file)
    tmp,       \* content of CURRENT.tmp (0 = no such file)
    \* the manager (volatile)
    pc, mem, mcur, handle, nextId, rwname, oldname, snapbuf,
    stage,     \* edits collected for the next LogEdits call (the caller's argument list)
    \* ghosts
    base,      \* version the last successful Open produced
    issued,    \* edits handed to LogEdits since then, in order
    acked,     \* how many of them belong to a LogEdits call that returned nil
    total, rewrites, crashes, taint, hist
vars == <<files, cur, tmp, pc, mem, mcur, handle, nextId, rwname, oldname, snapbuf, stage,
          base, issued, acked, total, rewrites, crashes, taint, hist>>
view == <<files, cur, tmp, pc, mem, mcur, handle, nextId, rwname, oldname, snapbuf, stage,
          base, issued, acked, total, rewrites, crashes, taint>>
viewRT == <<pc, mem, stage, total, taint>>     \* round-trip configuration: only the version matters

disk  == <<files, cur, tmp>>
vol   == <<mem, mcur, handle, nextId, rwname, oldname, snapbuf, stage>>
ghost == <<base, issued, acked>>
Log(rec) == hist' = Append(hist, rec)

Init == /\ files = [n \in 1..MaxFile |-> NoFile] /\ cur = 0 /\ tmp = 0
        /\ pc = "down" /\ mem = EmptyVer /\ mcur = 0 /\ handle = 0 /\ nextId = 0
        /\ rwname = 0 /\ oldname = 0 /\ snapbuf = <<>> /\ stage = <<>>
        /\ base = EmptyVer /\ issued = <<>> /\ acked = 0
        /\ total = 0 /\ rewrites = 0 /\ crashes = 0 /\ taint = FALSE /\ hist = <<>>

VolReset == /\ mem' = EmptyVer /\ mcur' = 0 /\ handle' = 0 /\ nextId' = 0
            /\ rwname' = 0 /\ oldname' = 0 /\ snapbuf' = <<>> /\ stage' = <<>>

\* ------------------------------------------------------------- recovery: Verify + Open
RecVerifyTmp ==                       \* Verify: Stat + Remove(CURRENT.tmp)
    /\ pc = "down" /\ tmp' = 0 /\ pc' = "ver2"
    /\ UNCHANGED <<files, cur, vol, ghost, total, rewrites, crashes, taint, hist>>
RecVerifyTail ==                      \* Verify: read CURRENT, scan its file, truncate a torn tail
    /\ pc = "ver2"
    /\ IF cur = 0 THEN pc' = "cn1" /\ UNCHANGED files        \* ErrNotExist is ignored by the DB; Open creates
       ELSE IF ~files[cur].ex THEN pc' = "failed" /\ UNCHANGED files
       ELSE /\ files' = [files EXCEPT ![cur].torn = FALSE] /\ pc' = "open"
    /\ UNCHANGED <<cur, tmp, vol, ghost, total, rewrites, crashes, taint, hist>>
Opened(v, name, nid) ==
    /\ mem' = v /\ mcur' = name /\ handle' = name /\ nextId' = nid
    /\ rwname' = 0 /\ oldname' = 0 /\ snapbuf' = <<>> /\ stage' = <<>>
    /\ base' = v /\ issued' = <<>> /\ acked' = 0 /\ pc' = "idle"
RecOpen ==                            \* Open: loadCurrent + replay; position at the end of the file
    /\ pc = "open"
    /\ Opened(Replay(files[cur].edits), cur, cur + 1)
    /\ UNCHANGED <<disk, total, rewrites, crashes, taint, hist>>
\* Open with no CURRENT: createNew (MANIFEST-000001 with O_TRUNC, CURRENT.tmp, rename)
Cn1 == /\ pc = "cn1" /\ files' = [files EXCEPT ![1] = [ex |-> TRUE, edits |-> <<>>, torn |-> FALSE]]
       /\ pc' = "cn2" /\ UNCHANGED <<cur, tmp, vol, ghost, total, rewrites, crashes, taint, hist>>
Cn2 == /\ pc = "cn2" /\ tmp' = 1 /\ pc' = "cn3"
       /\ UNCHANGED <<files, cur, vol, ghost, total, rewrites, crashes, taint, hist>>
Cn3 == /\ pc = "cn3" /\ cur' = tmp /\ tmp' = 0 /\ Opened(EmptyVer, 1, 2)
       /\ UNCHANGED <<files, total, rewrites, crashes, taint, hist>>

\* ------------------------------------------------------------------------ LogEdits
\* the caller assembles the argument list of one LogEdits call, edit by edit
Stage(e) ==
    /\ pc = "idle" /\ Len(stage) < MaxBatch /\ total + Len(stage) < MaxEdits
    /\ Legal(ApplyAll(mem, stage), e)
    /\ stage' = Append(stage, e)
    /\ UNCHANGED <<disk, pc, mem, mcur, handle, nextId, rwname, oldname, snapbuf, ghost, total, rewrites, crashes, taint, hist>>
TaintAfter(v, b) == taint \/ \E k \in 1..Len(b) :
    LET w == ApplyAll(v, SubSeq(b, 1, k))
    IN "SnapInvalidOffset" \in Deviations /\ \E id \in VIDs : w.vl[id].p /\ ~w.vl[id].valid /\ w.vl[id].off # 0

Write ==                              \* m.manifest.Write(buf.Bytes()); [Sync]; apply
    /\ pc = "idle" /\ stage # <<>>
    /\ files' = [files EXCEPT ![handle].edits = @ \o stage]
    /\ mem' = ApplyAll(mem, stage) /\ issued' = issued \o stage /\ total' = total + Len(stage)
    /\ taint' = TaintAfter(mem, stage) /\ stage' = <<>>
    /\ pc' = "applied" /\ Log([op |-> "Edits", edits |-> stage])
    /\ UNCHANGED <<cur, tmp, mcur, handle, nextId, rwname, oldname, snapbuf, base, acked, rewrites, crashes>>
\* the process dies inside that write: k whole edits and possibly a torn one reached the file
TornWriteCrash(k, t) ==
    /\ pc = "idle" /\ stage # <<>> /\ crashes < MaxCrashes
    /\ k < Len(stage) /\ (k > 0 \/ t)
    /\ files' = [files EXCEPT ![handle].edits = @ \o SubSeq(stage, 1, k), ![handle].torn = t]
    /\ issued' = issued \o stage /\ total' = total + Len(stage) /\ taint' = TaintAfter(mem, stage)
    /\ VolReset /\ pc' = "down" /\ crashes' = crashes + 1
    /\ hist' = Append(Append(hist, [op |-> "Edits", edits |-> stage]), [op |-> "Crash", at |-> "torn", k |-> k, t |-> t])
    /\ UNCHANGED <<cur, tmp, base, acked, rewrites>>
Ack == /\ pc = "applied" /\ acked' = Len(issued) /\ pc' = "idle"
       /\ UNCHANGED <<disk, vol, base, issued, total, rewrites, crashes, taint, hist>>

\* ------------------------------------------------------------------- rewriteLocked
FreeName == Min({n \in nextId..MaxFile : ~files[n].ex})
RwCreate ==                           \* nextManifestFileLocked (Stat loop) + OpenFileHandle(O_CREATE|O_TRUNC)
    /\ pc = "applied" /\ rewrites < MaxRewrites /\ \E n \in nextId..MaxFile : ~files[n].ex
    /\ rwname' = FreeName /\ nextId' = FreeName + 1
    /\ files' = [files EXCEPT ![FreeName] = [ex |-> TRUE, edits |-> <<>>, torn |-> FALSE]]
    /\ snapbuf' = Snapshot(mem) /\ rewrites' = rewrites + 1 /\ pc' = "rw_snap"
    /\ Log([op |-> "Rewrite"])
    /\ UNCHANGED <<cur, tmp, mem, mcur, handle, oldname, stage, ghost, total, crashes, taint>>
RwWrite ==                            \* bufio writes of the snapshot, one edit at a time (any chunking)
    /\ pc = "rw_snap" /\ snapbuf # <<>>
    /\ files' = [files EXCEPT ![rwname].edits = Append(@, Head(snapbuf))]
    /\ snapbuf' = Tail(snapbuf)
    /\ UNCHANGED <<cur, tmp, pc, mem, mcur, handle, nextId, rwname, oldname, stage, ghost, total, rewrites, crashes, taint, hist>>
RwTornCrash ==
    /\ pc = "rw_snap" /\ snapbuf # <<>> /\ crashes < MaxCrashes
    /\ files' = [files EXCEPT ![rwname].torn = TRUE]
    /\ VolReset /\ pc' = "down" /\ crashes' = crashes + 1
    /\ Log([op |-> "Crash", at |-> "rw_torn", k |-> Len(files[rwname].edits), t |-> TRUE])
    /\ UNCHANGED <<cur, tmp, ghost, total, rewrites, taint>>
RwTmp ==                              \* [Flush, Sync, Close]; m.current = new; WriteFile(CURRENT.tmp)
    /\ pc = "rw_snap" /\ snapbuf = <<>>
    /\ oldname' = mcur /\ mcur' = rwname /\ tmp' = rwname /\ pc' = "rw_ren"
    /\ UNCHANGED <<files, cur, mem, handle, nextId, rwname, snapbuf, stage, ghost, total, rewrites, crashes, taint, hist>>
RwRename ==                           \* Rename(CURRENT.tmp, CURRENT); close old handle, open + seek new
    /\ pc = "rw_ren" /\ cur' = tmp /\ tmp' = 0 /\ handle' = rwname /\ pc' = "rw_rm"
    /\ UNCHANGED <<files, mem, mcur, nextId, rwname, oldname, snapbuf, stage, ghost, total, rewrites, crashes, taint, hist>>
RwRemoveAck ==                        \* Remove(old manifest); LogEdits returns nil
    /\ pc = "rw_rm"
    /\ files' = IF oldname # 0 /\ oldname # rwname THEN [files EXCEPT ![oldname] = NoFile] ELSE files
    /\ acked' = Len(issued) /\ pc' = "idle"
    /\ UNCHANGED <<cur, tmp, vol, base, issued, total, rewrites, crashes, taint, hist>>

\* process death between two file operations (at "idle": also a clean Close + reopen)
Crash == /\ pc \notin {"down", "failed"} /\ crashes < MaxCrashes /\ stage = <<>>
         /\ (RecCrash \/ pc \in {"idle", "applied", "rw_snap", "rw_ren", "rw_rm"})
         /\ VolReset /\ pc' = "down" /\ crashes' = crashes + 1
         /\ Log(IF pc = "idle" THEN [op |-> "Reopen"]
                ELSE [op |-> "Crash", at |-> pc, k |-> Len(snapbuf), t |-> FALSE])
         /\ UNCHANGED <<disk, ghost, total, rewrites, taint>>

Next == \/ RecVerifyTmp \/ RecVerifyTail \/ RecOpen \/ Cn1 \/ Cn2 \/ Cn3
        \/ \E e \in EditsIn(mem) : Stage(e)
        \/ Write \/ \E k \in 0..(MaxBatch - 1), t \in BOOLEAN : TornWriteCrash(k, t)
        \/ Ack \/ RwCreate \/ RwWrite \/ RwTornCrash \/ RwTmp \/ RwRename \/ RwRemoveAck
        \/ Crash
Spec == Init /\ [][Next]_vars

\* ---------------------------------------------------------------------- properties
\* what Verify + Open would make of the directory as it is now
DiskOpen == IF cur = 0 THEN [ok |-> TRUE, ver |-> EmptyVer]
            ELSE IF ~files[cur].ex THEN [ok |-> FALSE, ver |-> EmptyVer]
            ELSE [ok |-> TRUE, ver |-> Replay(files[cur].edits)]
Allowed == {Norm(ApplyAll(base, SubSeq(issued, 1, n))) : n \in acked..Len(issued)}

\* every reachable version survives a snapshot
RoundTrip == taint \/ Norm(Replay(Snapshot(mem))) = Norm(mem)
RoundTripStrict == Norm(Replay(Snapshot(mem))) = Norm(mem)     \* without the deviation gate (as-is configs)
\* reload = in-memory state whenever no call is in flight
ReloadEqual == (pc = "idle") => (taint \/ Norm(DiskOpen.ver) = Norm(mem))
\* a crash here leaves a directory that opens to an allowed prefix
CrashSafe == pc # "failed" => (DiskOpen.ok /\ (taint \/ Norm(DiskOpen.ver) \in Allowed))
OpenSucceeds == pc # "failed"
\* the manager never appends to a file CURRENT does not name while idle
HandleIsCurrent == (pc = "idle") => (handle = cur /\ files[cur].ex /\ ~files[cur].torn)

\* ----------------------------------------------------------- schedule generation
Final == pc = "idle" /\ total = MaxEdits /\ acked = Len(issued) /\ stage = <<>>
EmitHist == Final => PrintT(<<"SCHED", ToJson(hist)>>)
=============================================================================
