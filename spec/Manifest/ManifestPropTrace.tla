------------------------- MODULE ManifestPropTrace -------------------------
(* Property layer for C15.  A trace recorded from a real manifest.Manager is accepted iff   *)
(*  - every clean reload returns exactly the in-memory state before the close,              *)
(*  - every crash image (one per file operation, plus torn writes) opens, and opens to the  *)
(*    state after some prefix of the edits that contains every edit whose LogEdits call     *)
(*    had returned success before the image was taken,                                      *)
(*  - a manager continuing from a crash image starts from such a state.                     *)
(* States are what Manager.Current() returned, rendered by the driver as lists of strings   *)
(* per component; they are compared as bags (order inside a level is not part of the        *)
(* property).  "State after a prefix" is the in-memory state a real manager had after       *)
(* those edits.  Nothing here mentions a manifest-internal identifier.                      *)
EXTENDS Integers, Sequences, FiniteSets, TLC, Json, IOUtils

Trace == ndJsonDeserialize(IOEnv.TRACE)

VARIABLES l,        \* next trace line to explain
          states,   \* in-memory states after each prefix of the edits since the last open
          acked     \* index in states of the last acknowledged one
vars == <<l, states, acked>>

Bag(s)  == [x \in {s[i] : i \in 1..Len(s)} |-> Cardinality({i \in 1..Len(s) : s[i] = x})]
Norm(S) == [lv |-> Bag(S.lv), log |-> Bag(S.log), vl |-> Bag(S.vl), hd |-> Bag(S.hd), rp |-> Bag(S.rp), rg |-> Bag(S.rg)]

ev == Trace[l]
Expect(got, want) == got = want \/ (got # want /\ PrintT(<<"MISMATCH", l, want>>))
IsEvent(name) == l <= Len(Trace) /\ ev.e = name /\ l' = l + 1

Allowed == {states[i] : i \in acked..Len(states)}
ExpectAllowed(S) == Norm(S) \in Allowed
                    \/ (Norm(S) \notin Allowed /\ PrintT(<<"MISMATCH", l, "a state after an allowed prefix of the edits">>))

Init == l = 1 /\ states = <<>> /\ acked = 0

Reset == IsEvent("Reset") /\ states' = <<>> /\ acked' = 0

\* first open of an empty directory: defines the starting state
Open == /\ IsEvent("Open") /\ Expect(ev.ok, TRUE)
        /\ states' = <<Norm(ev.state)>> /\ acked' = 1

\* a LogEdits call begins: the states after each of its edits become possible crash outcomes
Issue == /\ IsEvent("Issue")
         /\ states' = states \o [i \in 1..Len(ev.states) |-> Norm(ev.states[i])]
         /\ UNCHANGED acked

\* the call returned: on success everything issued so far is acknowledged
Ack == /\ IsEvent("Ack")
       /\ acked' = IF ev.ok THEN Len(states) ELSE acked
       /\ UNCHANGED states

\* a crash image taken at this point of the run was opened by a fresh manager
Crash == /\ IsEvent("Crash") /\ Expect(ev.ok, TRUE)
         /\ (ev.ok => ExpectAllowed(ev.state))
         /\ UNCHANGED <<states, acked>>

\* clean close + reopen: reload = in-memory state (the run continues from what was loaded)
Reload == /\ IsEvent("Reload") /\ Expect(ev.ok, TRUE)
          /\ (ev.ok => (Norm(ev.state) = states[Len(states)]
                         \/ (Norm(ev.state) # states[Len(states)] /\ PrintT(<<"MISMATCH", l, "the in-memory state before close">>))))
          /\ states' = <<Norm(ev.state)>> /\ acked' = 1

\* the run continues on a crash image
Recover == /\ IsEvent("Recover") /\ Expect(ev.ok, TRUE)
           /\ (ev.ok => ExpectAllowed(ev.state))
           /\ states' = <<Norm(ev.state)>> /\ acked' = 1

Next == Reset \/ Open \/ Issue \/ Ack \/ Crash \/ Reload \/ Recover
Spec == Init /\ [][Next]_vars

TraceAccepted ==
    LET d == TLCGet("stats").diameter
    IN PrintT(<<"TRACE_HW", d - 1, Len(Trace)>>) /\ d - 1 = Len(Trace)
=============================================================================
