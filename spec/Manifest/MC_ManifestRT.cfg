SPECIFICATION Spec
CONSTANTS
 Levels = {0,1}
 Fids = {1,2}
 Metas = {1,2}
 Buckets = {0,1}
 VFids = {1,2}
 Offs = {0,5}
 Groups = {1}
 Regions = {1,2}
 Payloads = {1,2}
 MaxEdits = 4
 MaxBatch = 1
 MaxRewrites = 0
 MaxCrashes = 0
 MaxFile = 2
 Kinds = {"AddFile","DelFile","LogPtr","VHead","VDel","VUpd","Raft","Region","RegionDel"}
 RecCrash = TRUE
 Deviations = {}
VIEW viewRT
INVARIANT RoundTrip
CHECK_DEADLOCK FALSE
