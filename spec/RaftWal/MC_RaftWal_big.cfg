SPECIFICATION Spec
CONSTANTS
 MaxPuts = 2
 MaxIdx = 3
 MaxTerm = 2
 MaxSeg = 3
 MaxOps = 10
 MaxHist = 0
 Groups = {1}
 Snapshots = FALSE
VIEW view
INVARIANT RemovalSafe
INVARIANT LsmDurable
INVARIANT RaftExactModuloKnown
CHECK_DEADLOCK FALSE
