SPECIFICATION Spec
CONSTANTS
 MaxPuts = 5
 MaxIdx = 6
 MaxTerm = 3
 MaxSeg = 5
 MaxOps = 99
 MaxHist = 12
 Groups = {1, 2}
 Snapshots = TRUE
INVARIANT EmitHist
CHECK_DEADLOCK FALSE
