------------------------------- MODULE RaftWal -------------------------------
(* Implementation-shaped specification of the WAL shared by the LSM write path and the raft   *)
(* log storage (raftstore/engine/wal_storage.go, wal/manager.go, wal/watchdog.go,              *)
(* lsm/levels.go flush + canRemoveWalSegment, lsm/memtable.go recovery, metrics/wal.go).        *)
(*                                                                                            *)
(* One WAL: the active segment id is the active memtable's id; LSM entries and the typed raft   *)
(* records of SEVERAL raft groups share it. Records first sit in a user-space buffer; wal.Sync  *)
(* / a segment switch move them to the file. Segments are removed by flush, by the watchdog and *)
(* by recovery; all three take the minimum over the raft pointers of every group.               *)
(*                                                                                            *)
(*   Put          commit worker: append + wal.Sync (SyncWrites) + ack                          *)
(*   RaftAppend   WALStorage.Append: append, wal.Sync (fix 7dfa484), pointer to manifest;        *)
(*                first retained segment recorded in the pointer (fix bddfa3f)                  *)
(*   RaftHS       WALStorage.SetHardState                                                       *)
(*   RaftCompact  WALStorage.compactTo: truncation index + segment of the truncation point      *)
(*   RaftSnap     WALStorage.ApplySnapshot: snapshot record; the log restarts after its index;   *)
(*                truncation index = snapshot index, truncation segment = segment of that entry  *)
(*                if the storage still tracks it, else the segment of the snapshot record       *)
(*   Rotate       lsm.rotateLocked + SwitchSegment                                              *)
(*   Flush        levelManager.flush: table + log pointer, then RemoveSegment if canRemove       *)
(*   Watchdog     wal.Watchdog.observe: raft-bearing segments below the retain point and, since  *)
(*                fix 42683e2, not above the LSM checkpoint                                     *)
(*   Crash/Recover process crash; LSM recovery + OpenWALStorage replay (per group)               *)
(*                                                                                            *)
(* Properties: C36 a removed segment holds no unflushed LSM entry and no untruncated raft       *)
(* entry; C21 persisted hard state, snapshot and entries are recovered exactly; C09 for the LSM. *)
EXTENDS Integers, Sequences, FiniteSets, SequencesExt, FiniteSetsExt, TLC, Json

CONSTANTS MaxPuts, MaxIdx, MaxTerm, MaxSeg, MaxHist,
          MaxOps,      \* bound on the number of operations before the crash (exploration depth)
          Groups,      \* raft group ids sharing the WAL
          Snapshots    \* BOOLEAN: RaftSnap enabled

VARIABLES phase, seg, file, buf, imm, logPtr, flushed,
          ptr,         \* manifest raft pointers [g -> [seg, segIndex, trunc]]
          span,        \* WALStorage.entrySpans as [g -> [index -> segment or 0]]
          rlog, rtrunc, rsnap, rhs, acked, nput,   \* ghost reference per group: raft log (seq of terms, index 1..), truncation, snapshot, hard state; acked puts
          recLsm, rec,                             \* what recovery produced: rec[g] = [first, log, hs, snap, fail]
          nops,                                    \* operations so far (exploration bound)
          gcRaft, badRemoval,                      \* ghost: groups one of whose record-bearing segments was removed; an unsafe removal happened
          hist
vars == <<phase, seg, file, buf, imm, logPtr, flushed, ptr, span, rlog, rtrunc, rsnap, rhs, acked, nput,
          recLsm, rec, gcRaft, badRemoval, nops, hist>>
view == <<phase, seg, file, buf, imm, logPtr, flushed, ptr, span, rlog, rtrunc, rsnap, rhs, acked, nput,
          recLsm, rec, gcRaft, badRemoval, nops>>

Log(r) == /\ hist' = IF Len(hist) < MaxHist THEN Append(hist, r) ELSE hist
          /\ nops' = nops + 1
IsRaft(r) == r.t \in {"ent", "hs", "snap"}
Running == phase = "run" /\ nops < MaxOps

NoHS   == [term |-> 0, commit |-> 0]
NoSnap == [i |-> 0, term |-> 0]
NoRec  == [first |-> 1, log |-> <<>>, hs |-> NoHS, snap |-> NoSnap, fail |-> FALSE]

Init == /\ phase = "run" /\ seg = 1 /\ file = [s \in {1} |-> <<>>] /\ buf = <<>> /\ imm = <<>>
        /\ logPtr = 0 /\ flushed = {}
        /\ ptr = [g \in Groups |-> [seg |-> 0, segIndex |-> 0, trunc |-> 0]]
        /\ span = [g \in Groups |-> [i \in 1..MaxIdx |-> 0]]
        /\ rlog = [g \in Groups |-> <<>>] /\ rtrunc = [g \in Groups |-> 0]
        /\ rsnap = [g \in Groups |-> NoSnap] /\ rhs = [g \in Groups |-> NoHS]
        /\ acked = {} /\ nput = 0
        /\ recLsm = {} /\ rec = [g \in Groups |-> NoRec]
        /\ gcRaft = {} /\ badRemoval = FALSE /\ nops = 0 /\ hist = <<>>

UNCH_REC == UNCHANGED <<recLsm, rec>>
\* every operation ends with the records in the file (wal.Sync after each raft call, SyncWrites for puts)
Write(recs) == /\ file' = [file EXCEPT ![seg] = @ \o buf \o recs] /\ buf' = <<>>

Put == /\ Running /\ nput < MaxPuts
       /\ nput' = nput + 1
       /\ Write(<<[t |-> "lsm", id |-> nput + 1]>>)
       /\ acked' = acked \cup {nput + 1}
       /\ Log([op |-> "Put"])
       /\ UNCHANGED <<phase, seg, imm, logPtr, flushed, ptr, span, rlog, rtrunc, rsnap, rhs, gcRaft, badRemoval>> /\ UNCH_REC

LastTerm(g) == IF rlog[g] = <<>> THEN 0 ELSE rlog[g][Len(rlog[g])]
\* segment of the newest file record for entry i of group g (0 = none)
SegOfIdx(g, i) ==
    LET ss == {s \in DOMAIN file : \E j \in 1..Len(file[s]) : file[s][j].t = "ent" /\ file[s][j].g = g /\ file[s][j].i = i}
    IN IF ss = {} THEN 0 ELSE Max(ss)
\* entrySpans[0].segmentID
FirstSpanSeg(sp) == LET is == {i \in 1..MaxIdx : sp[i] # 0} IN IF is = {} THEN 0 ELSE sp[Min(is)]
Prune(sp, idx) == [i \in 1..MaxIdx |-> IF i <= idx THEN 0 ELSE sp[i]]

\* append n entries at index from (from <= last+1: a conflicting overwrite truncates the suffix)
RaftAppend(g, from, n, term) ==
    /\ Running /\ from >= rtrunc[g] + 1 /\ from <= Len(rlog[g]) + 1 /\ from + n - 1 <= MaxIdx
    /\ term >= LastTerm(g) /\ term >= 1
    /\ Write([k \in 1..n |-> [t |-> "ent", g |-> g, i |-> from + k - 1, term |-> term]])
    /\ rlog' = [rlog EXCEPT ![g] = SubSeq(@, 1, from - 1) \o [k \in 1..n |-> term]]
    \* recordEntrySpan: spans from the first new index on are dropped, the new record covers from..from+n-1
    /\ LET sp == [i \in 1..MaxIdx |-> IF i < from THEN span[g][i] ELSE IF i <= from + n - 1 THEN seg ELSE 0]
       IN /\ span' = [span EXCEPT ![g] = sp]
          /\ ptr' = [ptr EXCEPT ![g].seg = seg,
                                ![g].segIndex = IF @ = 0 THEN FirstSpanSeg(sp) ELSE @]
    /\ Log([op |-> "RaftAppend", g |-> g, from |-> from, n |-> n, term |-> term])
    /\ UNCHANGED <<phase, seg, imm, logPtr, flushed, rtrunc, rsnap, rhs, acked, nput, gcRaft, badRemoval>> /\ UNCH_REC

\* SetHardState: a new term (vote) or only a higher commit index; both are one hard-state record
RaftHS(g, term, commit) ==
    /\ Running /\ (term > rhs[g].term \/ commit > rhs[g].commit) /\ term >= rhs[g].term /\ commit >= rhs[g].commit
    /\ Write(<<[t |-> "hs", g |-> g, term |-> term, commit |-> commit]>>)
    /\ rhs' = [rhs EXCEPT ![g] = [term |-> term, commit |-> commit]]
    /\ ptr' = [ptr EXCEPT ![g].seg = seg]
    /\ Log([op |-> "RaftHS", g |-> g, term |-> term, commit |-> commit])
    /\ UNCHANGED <<phase, seg, imm, logPtr, flushed, span, rlog, rtrunc, rsnap, acked, nput, gcRaft, badRemoval>> /\ UNCH_REC

\* compactTo(idx): the truncation point lies in the segment that holds entry idx
RaftCompact(g, idx) ==
    /\ Running /\ idx > rtrunc[g] /\ idx <= Len(rlog[g]) /\ ptr[g].seg > 0
    /\ rtrunc' = [rtrunc EXCEPT ![g] = idx]
    /\ ptr' = [ptr EXCEPT ![g].trunc = idx,
                          ![g].segIndex = IF span[g][idx] # 0 THEN span[g][idx]
                                          ELSE IF @ > 0 THEN @ ELSE ptr[g].seg]
    /\ span' = [span EXCEPT ![g] = Prune(@, idx)]
    /\ Log([op |-> "RaftCompact", g |-> g, idx |-> idx])
    /\ UNCHANGED <<phase, seg, file, buf, imm, logPtr, flushed, rlog, rsnap, rhs, acked, nput, gcRaft, badRemoval>> /\ UNCH_REC

\* ApplySnapshot(idx, term): MemoryStorage.ApplySnapshot drops the whole log and restarts it after idx
\* (refused when not newer than the current snapshot). Spans above idx are NOT pruned (as in the code).
RaftSnap(g, idx, term) ==
    /\ Running /\ Snapshots /\ idx > rtrunc[g] /\ idx > rsnap[g].i /\ idx >= rhs[g].commit /\ idx <= MaxIdx /\ term >= 1
    /\ Write(<<[t |-> "snap", g |-> g, i |-> idx, term |-> term]>>)
    /\ rlog' = [rlog EXCEPT ![g] = [i \in 1..idx |-> IF i < idx /\ i <= Len(@) THEN @[i] ELSE term]]
    /\ rtrunc' = [rtrunc EXCEPT ![g] = idx]
    /\ rsnap' = [rsnap EXCEPT ![g] = [i |-> idx, term |-> term]]
    /\ ptr' = [ptr EXCEPT ![g] = [seg |-> seg, trunc |-> idx,
                                  segIndex |-> IF span[g][idx] # 0 THEN span[g][idx] ELSE seg]]
    /\ span' = [span EXCEPT ![g] = Prune(@, idx)]
    /\ Log([op |-> "RaftSnap", g |-> g, idx |-> idx, term |-> term])
    /\ UNCHANGED <<phase, seg, imm, logPtr, flushed, rhs, acked, nput, gcRaft, badRemoval>> /\ UNCH_REC

Rotate == /\ Running /\ seg < MaxSeg
          /\ file' = [s \in (DOMAIN file) \cup {seg + 1} |->
                        IF s = seg THEN file[seg] \o buf ELSE IF s = seg + 1 THEN <<>> ELSE file[s]]
          /\ buf' = <<>> /\ imm' = Append(imm, seg) /\ seg' = seg + 1
          /\ Log([op |-> "Rotate"])
          /\ UNCHANGED <<phase, logPtr, flushed, ptr, span, rlog, rtrunc, rsnap, rhs, acked, nput, gcRaft, badRemoval>> /\ UNCH_REC

\* levels.go canRemoveWalSegment: every group's pointer must allow it
CanRemove(s) == \A g \in Groups : (ptr[g].segIndex > 0 => s < ptr[g].segIndex) /\ (ptr[g].seg > 0 => s < ptr[g].seg)
LsmIds(s) == {file[s][j].id : j \in {k \in 1..Len(file[s]) : file[s][k].t = "lsm"}}
HasRaft(s) == \E j \in 1..Len(file[s]) : IsRaft(file[s][j])
GroupsIn(S) == {g \in Groups : \E s \in S : \E j \in 1..Len(file[s]) : IsRaft(file[s][j]) /\ file[s][j].g = g}
\* C36, evaluated at every removal: nothing unflushed, nothing untruncated
Unsafe(s, lp) == \/ s > lp /\ LsmIds(s) # {}
                 \/ \E j \in 1..Len(file[s]) : LET r == file[s][j] IN
                        r.t = "ent" /\ r.i > rtrunc[r.g] /\ r.i <= Len(rlog[r.g]) /\ SegOfIdx(r.g, r.i) = s
Drop(S) == file' = [s \in (DOMAIN file) \ S |-> file[s]]

Flush == /\ Running /\ imm # <<>>
         /\ LET t == Head(imm) IN
              /\ flushed' = flushed \cup LsmIds(t) /\ logPtr' = t /\ imm' = Tail(imm)
              /\ IF CanRemove(t)
                 THEN /\ Drop({t}) /\ gcRaft' = gcRaft \cup GroupsIn({t}) /\ badRemoval' = (badRemoval \/ Unsafe(t, t))
                 ELSE UNCHANGED <<file, gcRaft, badRemoval>>
         /\ Log([op |-> "Flush"])
         /\ UNCHANGED <<phase, seg, buf, ptr, span, rlog, rtrunc, rsnap, rhs, acked, nput>> /\ UNCH_REC

\* metrics.AnalyzeWALBacklog: minimum over all groups of Segment and SegmentIndex (zero = not set)
Retain == LET ps == UNION {{ptr[g].seg, ptr[g].segIndex} : g \in Groups} \ {0}
          IN IF ps = {} THEN 0 ELSE Min(ps)
Watchdog == /\ Running
            /\ LET rm == {s \in DOMAIN file : s # seg /\ HasRaft(s) /\ s < Retain /\ s <= logPtr}
               IN /\ Drop(rm) /\ gcRaft' = gcRaft \cup GroupsIn(rm)
                  /\ badRemoval' = (badRemoval \/ \E s \in rm : Unsafe(s, logPtr))
            /\ Log([op |-> "Watchdog"])
            /\ UNCHANGED <<phase, seg, buf, imm, logPtr, flushed, ptr, span, rlog, rtrunc, rsnap, rhs, acked, nput>> /\ UNCH_REC

Crash == /\ phase = "run" /\ MaxHist = 0 /\ phase' = "crashed" /\ buf' = <<>> /\ imm' = <<>>
         /\ UNCHANGED <<seg, file, logPtr, flushed, ptr, span, rlog, rtrunc, rsnap, rhs, acked, nput, gcRaft, badRemoval, nops, hist>> /\ UNCH_REC

\* replay of raft records over the surviving segments, in segment then file order
Surviving == {s \in DOMAIN file : ~(s <= logPtr /\ CanRemove(s))}
AllRecs == LET ss == SetToSortSeq(Surviving, LAMBDA a, b : a < b)
               RECURSIVE Cat(_)
               Cat(i) == IF i > Len(ss) THEN <<>> ELSE file[ss[i]] \o Cat(i + 1)
           IN Cat(1)
RECURSIVE Replay(_, _, _)
\* OpenWALStorage of group g; st: first (index of log[1]), log (terms), hs, snap, fail
Replay(g, recs, st) ==
    IF recs = <<>> \/ st.fail THEN st
    ELSE LET r == Head(recs) IN
         IF ~IsRaft(r) \/ r.g # g THEN Replay(g, Tail(recs), st)
         ELSE IF r.t = "hs" THEN Replay(g, Tail(recs), [st EXCEPT !.hs = [term |-> r.term, commit |-> r.commit]])
         ELSE IF r.t = "snap"
              THEN IF st.snap.i >= r.i                      \* MemoryStorage.ApplySnapshot: ErrSnapOutOfDate
                   THEN Replay(g, Tail(recs), [st EXCEPT !.fail = TRUE])
                   ELSE Replay(g, Tail(recs), [st EXCEPT !.snap = [i |-> r.i, term |-> r.term], !.first = r.i + 1, !.log = <<>>])
         ELSE IF r.i > st.first + Len(st.log)               \* MemoryStorage.Append: missing log entry (panic)
              THEN Replay(g, Tail(recs), [st EXCEPT !.fail = TRUE])
              ELSE IF r.i < st.first THEN Replay(g, Tail(recs), st)
              ELSE Replay(g, Tail(recs), [st EXCEPT !.log = SubSeq(@, 1, r.i - st.first) \o <<r.term>>])

\* LSM.recovery removes the segments at or below the log pointer that canRemoveWalSegment allows,
\* then OpenWALStorage replays what is left
Recover == /\ phase = "crashed" /\ phase' = "recovered"
           /\ LET rm == (DOMAIN file) \ Surviving IN
                /\ Drop(rm)
                /\ gcRaft' = gcRaft \cup GroupsIn(rm)
                /\ badRemoval' = (badRemoval \/ \E s \in rm : Unsafe(s, logPtr))
           /\ recLsm' = flushed \cup UNION {LsmIds(s) : s \in Surviving}
           /\ rec' = [g \in Groups |-> Replay(g, AllRecs, NoRec)]
           /\ UNCHANGED <<seg, buf, imm, logPtr, flushed, ptr, span, rlog, rtrunc, rsnap, rhs, acked, nput, nops, hist>>

RaftOps(g) ==
        \* appends extend the log, or overwrite its last entry with a higher term (conflict)
        \/ \E n \in 1..2 : RaftAppend(g, Len(rlog[g]) + 1, n, IF LastTerm(g) = 0 THEN 1 ELSE LastTerm(g))
        \/ (rlog[g] # <<>> /\ Len(rlog[g]) > rtrunc[g] /\ LastTerm(g) < MaxTerm /\ RaftAppend(g, Len(rlog[g]), 1, LastTerm(g) + 1))
        \/ (rhs[g].term < MaxTerm /\ RaftHS(g, rhs[g].term + 1, rhs[g].commit))
        \/ (rhs[g].commit < Len(rlog[g]) /\ RaftHS(g, rhs[g].term, rhs[g].commit + 1))      \* only the commit index moves
        \/ \E idx \in {rtrunc[g] + 1, Len(rlog[g])} : RaftCompact(g, idx)
        \* snapshots: beyond the log (a lagging follower), at its last entry, or in the middle (later entries dropped)
        \/ RaftSnap(g, Len(rlog[g]) + 1, IF LastTerm(g) = 0 THEN 1 ELSE LastTerm(g))
        \/ (Len(rlog[g]) > rtrunc[g] /\ RaftSnap(g, Len(rlog[g]), LastTerm(g)))
        \/ (rtrunc[g] + 1 < Len(rlog[g]) /\ RaftSnap(g, rtrunc[g] + 1, rlog[g][rtrunc[g] + 1]))
Next == \/ Put \/ Rotate \/ Flush \/ Watchdog \/ Crash \/ Recover
        \/ \E g \in Groups : RaftOps(g)
Spec == Init /\ [][Next]_vars

\* ------------------------------------------------------------------- properties
\* C36: no removal ever takes unflushed LSM entries or untruncated raft entries
RemovalSafe == ~badRemoval
\* C09 for the shared WAL: acknowledged puts survive
LsmDurable == phase = "recovered" => acked \subseteq recLsm
\* C21: exact recovery of the raft state of group g
RaftExact(g) ==
    LET r == rec[g] IN
    /\ ~r.fail
    /\ r.hs = rhs[g]
    /\ r.snap = rsnap[g]
    /\ r.first + Len(r.log) - 1 = Len(rlog[g])
    /\ \A i \in (rtrunc[g] + 1)..Len(rlog[g]) : i >= r.first /\ r.log[i - r.first + 1] = rlog[g][i]
\* recorded deviation (finding C21-log-gc): once a segment bearing records of the group has been garbage
\* collected (legitimately: everything in it is truncated), replay starts in the middle of the log
RaftExactModuloKnown == phase = "recovered" => \A g \in Groups : (RaftExact(g) \/ g \in gcRaft)
RaftExactStrict == phase = "recovered" => \A g \in Groups : RaftExact(g)

EmitHist == (Len(hist) = MaxHist) => PrintT(<<"SCHED", ToJson(hist)>>)
=============================================================================
