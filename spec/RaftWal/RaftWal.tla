------------------------------- MODULE RaftWal -------------------------------
(* Implementation-shaped specification of the WAL shared by the LSM write path and the raft   *)
(* log storage (raftstore/engine/wal_storage.go, wal/manager.go, wal/watchdog.go,              *)
(* lsm/levels.go flush + canRemoveWalSegment, lsm/memtable.go recovery, metrics/wal.go).        *)
(*                                                                                            *)
(* One WAL: the active segment id is the active memtable's id; LSM entries and typed raft      *)
(* records share it. Records first sit in a user-space buffer; wal.Sync / a segment switch      *)
(* move them to the file. Segments are removed by flush, by the watchdog and by recovery.       *)
(*                                                                                            *)
(*   Put          commit worker: append + wal.Sync (SyncWrites) + ack                          *)
(*   RaftAppend   WALStorage.Append: append, wal.Sync (fix 7dfa484), pointer to manifest;        *)
(*                first retained segment recorded in the pointer (fix bddfa3f)                  *)
(*   RaftHS       WALStorage.SetHardState                                                       *)
(*   RaftCompact  WALStorage.compactTo: truncation index + segment of the truncation point      *)
(*   Rotate       lsm.rotateLocked + SwitchSegment                                              *)
(*   Flush        levelManager.flush: table + log pointer, then RemoveSegment if canRemove       *)
(*   Watchdog     wal.Watchdog.observe: raft-bearing segments below the retain point and, since  *)
(*                fix 42683e2, not above the LSM checkpoint                                     *)
(*   Crash/Recover process crash; LSM recovery + OpenWALStorage replay                          *)
(*                                                                                            *)
(* Properties: C36 a removed segment holds no unflushed LSM entry and no untruncated raft       *)
(* entry; C21 persisted hard state and entries are recovered exactly; C09 for the LSM part.     *)
EXTENDS Integers, Sequences, FiniteSets, SequencesExt, FiniteSetsExt, TLC, Json

CONSTANTS MaxPuts, MaxIdx, MaxTerm, MaxSeg, MaxHist,
          MaxOps       \* bound on the number of operations before the crash (exploration depth)

VARIABLES phase, seg, file, buf, imm, logPtr, flushed, ptr,
          rlog, rtrunc, rhs, acked, nput,          \* ghost reference: raft log (seq of terms), truncation, hard state, acked puts
          recLsm, recLog, recFirst, recHS, recFail, \* what recovery produced
          nops,                                     \* operations so far (exploration bound)
          gcRaft, badRemoval,                       \* ghost: a raft-bearing segment was removed; an unsafe removal happened
          hist
vars == <<phase, seg, file, buf, imm, logPtr, flushed, ptr, rlog, rtrunc, rhs, acked, nput,
          recLsm, recLog, recFirst, recHS, recFail, gcRaft, badRemoval, nops, hist>>
view == <<phase, seg, file, buf, imm, logPtr, flushed, ptr, rlog, rtrunc, rhs, acked, nput,
          recLsm, recLog, recFirst, recHS, recFail, gcRaft, badRemoval, nops>>

Log(r) == /\ hist' = IF Len(hist) < MaxHist THEN Append(hist, r) ELSE hist
          /\ nops' = nops + 1
\* exploration bound: at most MaxOps operations before the crash
Bound == Len(hist) >= 0
IsRaft(r) == r.t \in {"ent", "hs"}
Running == phase = "run" /\ nops < MaxOps

Init == /\ phase = "run" /\ seg = 1 /\ file = [s \in {1} |-> <<>>] /\ buf = <<>> /\ imm = <<>>
        /\ logPtr = 0 /\ flushed = {} /\ ptr = [seg |-> 0, segIndex |-> 0, trunc |-> 0]
        /\ rlog = <<>> /\ rtrunc = 0 /\ rhs = [term |-> 0, commit |-> 0] /\ acked = {} /\ nput = 0
        /\ recLsm = {} /\ recLog = <<>> /\ recFirst = 1 /\ recHS = [term |-> 0, commit |-> 0] /\ recFail = FALSE
        /\ gcRaft = FALSE /\ badRemoval = FALSE /\ nops = 0 /\ hist = <<>>

SyncBuf == /\ file' = [file EXCEPT ![seg] = @ \o buf] /\ buf' = <<>>
UNCH_REC == UNCHANGED <<recLsm, recLog, recFirst, recHS, recFail>>

Put == /\ Running /\ nput < MaxPuts
       /\ nput' = nput + 1
       /\ file' = [file EXCEPT ![seg] = @ \o buf \o <<[t |-> "lsm", id |-> nput + 1]>>] /\ buf' = <<>>
       /\ acked' = acked \cup {nput + 1}
       /\ Log([op |-> "Put"])
       /\ UNCHANGED <<phase, seg, imm, logPtr, flushed, ptr, rlog, rtrunc, rhs, gcRaft, badRemoval>> /\ UNCH_REC

\* append n entries at index from (from <= last+1: a conflicting overwrite truncates the suffix)
\* segment holding index i = the segment of the newest file/buffer record for i
SegOfIdx(i) ==
    LET ss == {s \in DOMAIN file : \E j \in 1..Len(file[s]) : file[s][j].t = "ent" /\ file[s][j].i = i}
    IN IF ss = {} THEN 0 ELSE Max(ss)

RaftAppend(from, n, term) ==
    /\ Running /\ from >= rtrunc + 1 /\ from <= Len(rlog) + 1 /\ from + n - 1 <= MaxIdx
    /\ Len(rlog) > 0 => term >= rlog[Len(rlog)]
    /\ LET recs == [k \in 1..n |-> [t |-> "ent", i |-> from + k - 1, term |-> term]]
       IN file' = [file EXCEPT ![seg] = @ \o buf \o recs] /\ buf' = <<>>       \* Sync after append
    /\ rlog' = SubSeq(rlog, 1, from - 1) \o [k \in 1..n |-> term]
    /\ ptr' = [ptr EXCEPT !.seg = seg,
                          !.segIndex = IF ptr.segIndex = 0 THEN seg ELSE ptr.segIndex]
    /\ Log([op |-> "RaftAppend", from |-> from, n |-> n, term |-> term])
    /\ UNCHANGED <<phase, seg, imm, logPtr, flushed, rtrunc, rhs, acked, nput, gcRaft, badRemoval>> /\ UNCH_REC

\* SetHardState: a new term (vote) or only a higher commit index; both are one hard-state record
RaftHS(term, commit) ==
    /\ Running /\ (term > rhs.term \/ commit > rhs.commit) /\ term >= rhs.term /\ commit >= rhs.commit
    /\ file' = [file EXCEPT ![seg] = @ \o buf \o <<[t |-> "hs", term |-> term, commit |-> commit]>>] /\ buf' = <<>>
    /\ rhs' = [term |-> term, commit |-> commit]
    /\ ptr' = [ptr EXCEPT !.seg = seg]
    /\ Log([op |-> "RaftHS", term |-> term, commit |-> commit])
    /\ UNCHANGED <<phase, seg, imm, logPtr, flushed, rlog, rtrunc, acked, nput, gcRaft, badRemoval>> /\ UNCH_REC

\* compactTo(idx): the truncation point lies in the segment that holds entry idx
RaftCompact(idx) ==
    /\ Running /\ idx > rtrunc /\ idx <= Len(rlog) /\ ptr.seg > 0
    /\ rtrunc' = idx
    /\ ptr' = [ptr EXCEPT !.trunc = idx,
                          !.segIndex = IF SegOfIdx(idx) # 0 THEN SegOfIdx(idx) ELSE ptr.segIndex]
    /\ Log([op |-> "RaftCompact", idx |-> idx])
    /\ UNCHANGED <<phase, seg, file, buf, imm, logPtr, flushed, rlog, rhs, acked, nput, gcRaft, badRemoval>> /\ UNCH_REC

Rotate == /\ Running /\ seg < MaxSeg
          /\ file' = [s \in (DOMAIN file) \cup {seg + 1} |->
                        IF s = seg THEN file[seg] \o buf ELSE IF s = seg + 1 THEN <<>> ELSE file[s]]
          /\ buf' = <<>> /\ imm' = Append(imm, seg) /\ seg' = seg + 1
          /\ Log([op |-> "Rotate"])
          /\ UNCHANGED <<phase, logPtr, flushed, ptr, rlog, rtrunc, rhs, acked, nput, gcRaft, badRemoval>> /\ UNCH_REC

\* levels.go canRemoveWalSegment
CanRemove(s) == (ptr.segIndex > 0 => s < ptr.segIndex) /\ (ptr.seg > 0 => s < ptr.seg)
LsmIds(s) == {file[s][j].id : j \in {k \in 1..Len(file[s]) : file[s][k].t = "lsm"}}
HasRaft(s) == \E j \in 1..Len(file[s]) : IsRaft(file[s][j])
\* C36, evaluated at every removal: nothing unflushed, nothing untruncated
Unsafe(s, lp) == \/ s > lp /\ LsmIds(s) # {}
                 \/ \E j \in 1..Len(file[s]) : file[s][j].t = "ent" /\ file[s][j].i > rtrunc
                                                /\ file[s][j].i <= Len(rlog) /\ SegOfIdx(file[s][j].i) = s
Drop(S) == file' = [s \in (DOMAIN file) \ S |-> file[s]]

Flush == /\ Running /\ imm # <<>>
         /\ LET t == Head(imm) IN
              /\ flushed' = flushed \cup LsmIds(t) /\ logPtr' = t /\ imm' = Tail(imm)
              /\ IF CanRemove(t)
                 THEN /\ Drop({t}) /\ gcRaft' = (gcRaft \/ HasRaft(t)) /\ badRemoval' = (badRemoval \/ Unsafe(t, t))
                 ELSE UNCHANGED <<file, gcRaft, badRemoval>>
         /\ Log([op |-> "Flush"])
         /\ UNCHANGED <<phase, seg, buf, ptr, rlog, rtrunc, rhs, acked, nput>> /\ UNCH_REC

Retain == IF ptr.seg = 0 THEN 0
          ELSE IF ptr.segIndex > 0 THEN Min({ptr.seg, ptr.segIndex}) ELSE ptr.seg
Watchdog == /\ Running
            /\ LET rm == {s \in DOMAIN file : s # seg /\ HasRaft(s) /\ s < Retain /\ s <= logPtr}
               IN /\ Drop(rm) /\ gcRaft' = (gcRaft \/ rm # {})
                  /\ badRemoval' = (badRemoval \/ \E s \in rm : Unsafe(s, logPtr))
            /\ Log([op |-> "Watchdog"])
            /\ UNCHANGED <<phase, seg, buf, imm, logPtr, flushed, ptr, rlog, rtrunc, rhs, acked, nput>> /\ UNCH_REC

Crash == /\ phase = "run" /\ MaxHist = 0 /\ phase' = "crashed" /\ buf' = <<>> /\ imm' = <<>>
         /\ UNCHANGED <<seg, file, logPtr, flushed, ptr, rlog, rtrunc, rhs, acked, nput, gcRaft, badRemoval, nops, hist>> /\ UNCH_REC

\* replay of raft records over the surviving segments, in segment then file order
Surviving == {s \in DOMAIN file : ~(s <= logPtr /\ CanRemove(s))}
AllRecs == LET ss == SetToSortSeq(Surviving, LAMBDA a, b : a < b)
               RECURSIVE Cat(_)
               Cat(i) == IF i > Len(ss) THEN <<>> ELSE file[ss[i]] \o Cat(i + 1)
           IN Cat(1)
RECURSIVE Replay(_, _, _, _, _)
\* state: first (index of log[1]), log (terms), hs, fail
Replay(recs, first, lg, hs, fail) ==
    IF recs = <<>> \/ fail THEN [first |-> first, log |-> lg, hs |-> hs, fail |-> fail]
    ELSE LET r == Head(recs) IN
         IF r.t = "hs" THEN Replay(Tail(recs), first, lg, [term |-> r.term, commit |-> r.commit], fail)
         ELSE IF r.t = "ent"
              THEN IF r.i > first + Len(lg)                 \* MemoryStorage.Append: missing log entry (panic)
                   THEN Replay(Tail(recs), first, lg, hs, TRUE)
                   ELSE IF r.i < first THEN Replay(Tail(recs), first, lg, hs, fail)
                   ELSE Replay(Tail(recs), first, SubSeq(lg, 1, r.i - first) \o <<r.term>>, hs, fail)
              ELSE Replay(Tail(recs), first, lg, hs, fail)

\* LSM.recovery removes the segments at or below the log pointer that canRemoveWalSegment allows,
\* then OpenWALStorage replays what is left
Recover == /\ phase = "crashed" /\ phase' = "recovered"
           /\ LET rm == (DOMAIN file) \ Surviving IN
                /\ Drop(rm)
                /\ gcRaft' = (gcRaft \/ \E s \in rm : HasRaft(s))
                /\ badRemoval' = (badRemoval \/ \E s \in rm : Unsafe(s, logPtr))
           /\ recLsm' = flushed \cup UNION {LsmIds(s) : s \in Surviving}
           /\ LET res == Replay(AllRecs, 1, <<>>, [term |-> 0, commit |-> 0], FALSE)
              IN recLog' = res.log /\ recFirst' = res.first /\ recHS' = res.hs /\ recFail' = res.fail
           /\ UNCHANGED <<seg, buf, imm, logPtr, flushed, ptr, rlog, rtrunc, rhs, acked, nput, nops, hist>>

Next == \/ Put \/ Rotate \/ Flush \/ Watchdog \/ Crash \/ Recover
        \* appends extend the log, or overwrite its last entry with a higher term (conflict)
        \/ \E n \in 1..2 : RaftAppend(Len(rlog) + 1, n, IF rlog = <<>> THEN 1 ELSE rlog[Len(rlog)])
        \/ (rlog # <<>> /\ Len(rlog) > rtrunc /\ rlog[Len(rlog)] < MaxTerm /\ RaftAppend(Len(rlog), 1, rlog[Len(rlog)] + 1))
        \/ (rhs.term < MaxTerm /\ RaftHS(rhs.term + 1, rhs.commit))
        \/ (rhs.commit < Len(rlog) /\ RaftHS(rhs.term, rhs.commit + 1))      \* only the commit index moves
        \/ \E idx \in {rtrunc + 1, Len(rlog)} : RaftCompact(idx)
Spec == Init /\ [][Next]_vars

\* ------------------------------------------------------------------- properties
\* C36: no removal ever takes unflushed LSM entries or untruncated raft entries
RemovalSafe == ~badRemoval
\* C09 for the shared WAL: acknowledged puts survive
LsmDurable == phase = "recovered" => acked \subseteq recLsm
\* C21: exact recovery of the raft state
RaftExact == /\ ~recFail
             /\ recHS = rhs
             /\ recFirst + Len(recLog) - 1 = Len(rlog)
             /\ \A i \in (rtrunc + 1)..Len(rlog) : i >= recFirst /\ recLog[i - recFirst + 1] = rlog[i]
\* recorded deviation (finding C21-log-gc): once a raft-bearing segment has been garbage collected
\* (legitimately: everything in it is truncated), replay starts in the middle of the log
RaftExactModuloKnown == phase = "recovered" => (RaftExact \/ gcRaft)
RaftExactStrict == phase = "recovered" => RaftExact

EmitHist == (Len(hist) = MaxHist) => PrintT(<<"SCHED", ToJson(hist)>>)
=============================================================================
