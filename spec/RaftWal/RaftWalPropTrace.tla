-------------------------- MODULE RaftWalPropTrace --------------------------
(* Property layer for C21 and C36.  One trace = operations on a real DB whose WAL and manifest  *)
(* are shared with real raft WALStorages, a process crash, and the reopened state.              *)
(*   C21  the recovered hard state equals the last one persisted, the recovered log holds every *)
(*        persisted, untruncated entry (later conflicting appends win) and nothing beyond the   *)
(*        last persisted index; reopening succeeds.                                             *)
(*   C36  after any removal of WAL segments (flush, watchdog, recovery) every acknowledged      *)
(*        write and every untruncated raft entry is still recovered.                            *)
(*        A snapshot (ApplySnapshot) restarts the log after its index: the reopened storage     *)
(*        reports that snapshot (index, term), a first index not above the first untruncated    *)
(*        entry, and the entries appended after it.                                             *)
(* Several raft groups share the WAL; each group is judged on its own, and a mismatch reports   *)
(* WHICH groups (0 = the LSM contents) contradict the reference, under both readings of an      *)
(* operation whose call had not returned at the crash (it may or may not have taken effect).    *)
EXTENDS Integers, Sequences, FiniteSets, TLC, Json, IOUtils

Trace == ndJsonDeserialize(IOEnv.TRACE)
NOTFOUND == "NOTFOUND"
NoOp == [e |-> "none"]

VARIABLES l, prop, kv, rf, pend
\* kv: [key -> value] of acknowledged puts;  rf: [group -> [log, last, trunc, term, vote, commit, si, st]]
vars == <<l, prop, kv, rf, pend>>

EmptyFn == [x \in {} |-> 0]
Upd(f, k, v) == [x \in (DOMAIN f) \cup {k} |-> IF x = k THEN v ELSE f[x]]
NoGroup == [log |-> EmptyFn, last |-> 0, trunc |-> 0, term |-> 0, vote |-> 0, commit |-> 0, si |-> 0, st |-> 0]
G(f, g) == IF g \in DOMAIN f THEN f[g] ELSE NoGroup

Init == l = 1 /\ prop = "C21" /\ kv = EmptyFn /\ rf = EmptyFn /\ pend = NoOp

ev == Trace[l]
IsEvent(name) == l <= Len(Trace) /\ ev.e = name /\ l' = l + 1
Expect(got, want) == got = want \/ (got # want /\ PrintT(<<"MISMATCH", l, want>>))

\* raft log semantics: an append at index i drops everything from i on, then appends
AppendEnts(gr, ents) ==
    LET first == ents[1].i
        n     == Len(ents)
        keep  == {i \in DOMAIN gr.log : i < first}
    IN [gr EXCEPT !.log  = [i \in keep \cup {ents[k].i : k \in 1..n} |->
                               IF i \in keep THEN gr.log[i] ELSE ents[CHOOSE k \in 1..n : ents[k].i = i].t],
                  !.last = ents[n].i]

\* ApplySnapshot(idx, term): everything up to idx is covered by the snapshot, everything after it is dropped
SnapTo(gr, idx, term) ==
    [gr EXCEPT !.log = [i \in {j \in DOMAIN gr.log : j <= idx} |-> gr.log[i]],
               !.last = idx, !.trunc = idx, !.si = idx, !.st = term]

ApplyKV(f, op) == IF op.e = "PutCall" THEN Upd(f, op.k, op.v) ELSE f
ApplyRF(f, op) ==
    CASE op.e = "RaftAppendCall" -> Upd(f, op.g, AppendEnts(G(f, op.g), op.ents))
      [] op.e = "RaftHSCall"     -> Upd(f, op.g, [G(f, op.g) EXCEPT !.term = op.term, !.vote = op.vote, !.commit = op.commit])
      [] op.e = "RaftSnapCall"   -> Upd(f, op.g, SnapTo(G(f, op.g), op.idx, op.term))
      [] OTHER                   -> f

Reset == IsEvent("Reset") /\ prop' = "C21" /\ kv' = EmptyFn /\ rf' = EmptyFn /\ pend' = NoOp
Cfg   == IsEvent("Cfg") /\ prop' = ev.prop /\ UNCHANGED <<kv, rf, pend>>
Call  == /\ l <= Len(Trace) /\ ev.e \in {"PutCall", "RaftAppendCall", "RaftHSCall", "RaftSnapCall"} /\ l' = l + 1
         /\ pend' = ev /\ UNCHANGED <<prop, kv, rf>>
\* a returned call: success applies it; an error must leave no trace
Ret   == /\ l <= Len(Trace) /\ ev.e \in {"PutRet", "RaftAppendRet", "RaftHSRet", "RaftSnapRet"} /\ l' = l + 1
         /\ kv' = IF ev.ok THEN ApplyKV(kv, pend) ELSE kv
         /\ rf' = IF ev.ok THEN ApplyRF(rf, pend) ELSE rf
         /\ pend' = NoOp /\ UNCHANGED prop
Compact == /\ IsEvent("RaftCompact")
           /\ rf' = IF ev.ok /\ ev.idx > G(rf, ev.g).trunc /\ ev.idx <= G(rf, ev.g).last
                    THEN Upd(rf, ev.g, [G(rf, ev.g) EXCEPT !.trunc = ev.idx]) ELSE rf
           /\ UNCHANGED <<prop, kv, pend>>
Maint == IsEvent("Maint") /\ UNCHANGED <<prop, kv, rf, pend>>

KvOK(f, dump) == \A k \in DOMAIN f : dump[k] = f[k]
LogOK(gr, rec) ==
    /\ rec.last = gr.last
    /\ rec.first <= gr.trunc + 1
    /\ \A i \in DOMAIN gr.log : (i > gr.trunc /\ i <= gr.last) =>
           \E j \in 1..Len(rec.ents) : rec.ents[j].i = i /\ rec.ents[j].t = gr.log[i]
HsOK(gr, rec) == rec.term = gr.term /\ rec.vote = gr.vote /\ rec.commit = gr.commit
SnapOK(gr, rec) == rec.si = gr.si /\ rec.st = gr.st
GroupOK(f, rec) ==
    LET gr == G(f, rec.g) IN
    IF prop = "C21" THEN rec.open /\ HsOK(gr, rec) /\ SnapOK(gr, rec) /\ LogOK(gr, rec)
    \* C36: every untruncated entry is still physically present in a surviving WAL segment
    ELSE \A i \in DOMAIN gr.log : (i > gr.trunc /\ i <= gr.last) =>
             \E j \in 1..Len(rec.disk) : rec.disk[j].i = i /\ rec.disk[j].t = gr.log[i]
\* who contradicts the reference (fkv, frf): 0 = the LSM contents, g = raft group g
Bad(fkv, frf) ==
    (IF prop = "C36" /\ ~KvOK(fkv, ev.lsm) THEN {0} ELSE {})
    \cup {ev.raft[j].g : j \in {x \in 1..Len(ev.raft) : ~GroupOK(frf, ev.raft[x])}}

Recovered ==
    /\ IsEvent("Recovered")
    /\ Expect(ev.open, TRUE)
    /\ ev.open =>
         LET b0 == Bad(kv, rf)
             b1 == IF pend # NoOp THEN Bad(ApplyKV(kv, pend), ApplyRF(rf, pend)) ELSE b0
         \* TLC explores every disjunct of an action: the print must be guarded by the negation
         IN (b0 = {} \/ b1 = {}) \/ (b0 # {} /\ b1 # {} /\ PrintT(<<"MISMATCH", l, <<b0, b1>>>>))
    /\ UNCHANGED <<prop, kv, rf, pend>>

Next == Reset \/ Cfg \/ Call \/ Ret \/ Compact \/ Maint \/ Recovered
Spec == Init /\ [][Next]_vars

TraceAccepted ==
    LET d == TLCGet("stats").diameter
    IN PrintT(<<"TRACE_HW", d - 1, Len(Trace)>>) /\ d - 1 = Len(Trace)
=============================================================================
