--------------------------- MODULE LatchPropTrace ---------------------------
(* Property layer for C20.  Events recorded from the real latch manager:                 *)
(*   Acquired {t, keys}  Acquire(keys) returned to request t                             *)
(*   Released {t}        request t is about to call Release                              *)
(*   Release2 {t, ok}    a second Release on the same guard returned (ok = no panic)     *)
(*   Deadlock            the scheduler found that no request can move although not all   *)
(*                       have finished (every remaining one waits inside Acquire)        *)
(* Two requests whose key sets share a key never hold their latches at the same time;    *)
(* every acquisition eventually succeeds; releasing twice is harmless.  Nothing here      *)
(* refers to stripes or hashes.                                                          *)
EXTENDS Integers, Sequences, FiniteSets, TLC, Json, IOUtils

Trace == ndJsonDeserialize(IOEnv.TRACE)

VARIABLES l, holders      \* holders: [request -> set of keys] of requests holding their latches
vars == <<l, holders>>

Empty == [x \in {} |-> {}]
Upd(m, key, val) == [x \in (DOMAIN m) \cup {key} |-> IF x = key THEN val ELSE m[x]]
Del(m, key) == [x \in (DOMAIN m) \ {key} |-> m[x]]
KeySet(seq) == {seq[i] : i \in DOMAIN seq}

Init == l = 1 /\ holders = Empty
ev == Trace[l]
Expect(got, want) == got = want \/ (got # want /\ PrintT(<<"MISMATCH", l, want>>))
IsEvent(name) == l <= Len(Trace) /\ ev.e = name /\ l' = l + 1

Reset == IsEvent("Reset") /\ holders' = Empty

Acquired == /\ IsEvent("Acquired")
            /\ LET ks == KeySet(ev.keys)
               IN /\ Expect({h \in DOMAIN holders \ {ev.t} : holders[h] \cap ks # {}}, {})
                  /\ holders' = Upd(holders, ev.t, ks)

Released == IsEvent("Released") /\ holders' = Del(holders, ev.t)

\* harmless: it returns normally and takes nobody's latch away (later Acquired events check that)
Release2 == IsEvent("Release2") /\ Expect(ev.ok, TRUE) /\ UNCHANGED holders

\* never acceptable
Deadlock == IsEvent("Deadlock") /\ Expect("deadlock", "every acquisition eventually succeeds") /\ UNCHANGED holders

Next == Reset \/ Acquired \/ Released \/ Release2 \/ Deadlock
Spec == Init /\ [][Next]_vars

TraceAccepted ==
    LET d == TLCGet("stats").diameter
    IN PrintT(<<"TRACE_HW", d - 1, Len(Trace)>>) /\ d - 1 = Len(Trace)
=============================================================================
