------------------------------- MODULE Latch -------------------------------
(* Implementation-shaped specification of the percolator key latches (C20).              *)
(* Code: percolator/latch/latch.go (Manager.Acquire, Guard.Release).                     *)
(*                                                                                       *)
(* A manager has a fixed array of stripes (mutexes).  Acquire hashes every key to a       *)
(* stripe, drops duplicates, sorts the stripe indices and locks them one after the other *)
(* (each Lock is one step and blocks while the stripe is held); Release unlocks them all  *)
(* and forgets them, so a second Release does nothing - neither immediately (Release2)   *)
(* nor at any later time (Late), when other requests may hold the same stripes.          *)
(* A Lock on a held stripe waits (Wait) and proceeds when the holder unlocks.            *)
(*                                                                                       *)
(* Deviation "EmptyKeyUnlatched" (tree before the fix: commit): keys of length 0 are     *)
(* skipped, so two requests that share the empty key do not exclude each other.          *)
EXTENDS Integers, Sequences, FiniteSets, TLC, Json

CONSTANTS Requests,     \* e.g. {1,2,3}
          Keys,         \* key names; "E" is the empty key
          StripeOf(_),  \* key -> stripe index (collisions allowed); the cfgs use DefaultStripe
          NStripes,
          KeySets,      \* the key sets a request may ask for (Init picks one per request)
          Deviations,
          LateReleasers, \* requests that call Release once more at some later time (after others may have acquired)
          MaxHist, MaxPre

Stripes == 0..(NStripes - 1)

\* default stripe assignment used by the cfgs: A,D -> 0 (colliding), B -> 1, C -> 2, E (empty) -> 1
DefaultStripe(k) == CASE k = "A" -> 0 [] k = "B" -> 1 [] k = "C" -> 2 [] k = "D" -> 0 [] k = "E" -> 1 [] OTHER -> 0

Latched(ks) == IF "EmptyKeyUnlatched" \in Deviations THEN ks \ {"E"} ELSE ks
SlotSet(ks) == {StripeOf(k) : k \in Latched(ks)}
\* sorted sequence of a finite set of integers
RECURSIVE SortedSeq(_)
SortedSeq(S) == IF S = {} THEN <<>>
              ELSE LET m == CHOOSE x \in S : \A y \in S : x <= y IN <<m>> \o SortedSeq(S \ {m})

(* --algorithm Latch {
variables
  owner   = [s \in Stripes |-> 0],                 \* which request holds the stripe mutex
  keys \in [Requests -> KeySets],                  \* the key set each request asks for
  holding = {},                                    \* ghost: requests between Acquire's return and Release
  clash   = FALSE,                                 \* ghost, sticky: two holders shared a key
  hist    = <<>>, last = 0, pre = 0;

define {
  MutualExclusion == ~clash
  \* structural: two requests never own the same stripe (mutex semantics), owners hold or are acquiring
  Acquired(r) == r \in holding
}


macro Log(x) {
  if (Len(hist) < MaxHist) {
    hist := Append(hist, x);
    pre := IF last # 0 /\ last # x /\ (pc[last] # "Done" /\ pc[last] # "Wait") THEN pre + 1 ELSE pre;
    last := x;
  }
}

fair process (req \in Requests)
variables slots = <<>>, i = 1;
{
Compute:                                            \* hash, de-duplicate, sort
  slots := SortedSeq(SlotSet(keys[self]));
  Log(self);
Lock:
  while (i <= Len(slots)) {
    if (owner[slots[i]] = 0) {                      \* sync.Mutex.Lock on a free stripe
      owner[slots[i]] := self;
      i := i + 1;
      Log(self);
    } else {
      Log(self);                                    \* the stripe is held: the request sleeps inside Lock
Wait: await owner[slots[i]] = 0;                    \* ... and is woken when the holder unlocks
      owner[slots[i]] := self;
      i := i + 1;
    }
  };
Holding:                                            \* Acquire returned the guard
  clash := clash \/ \E r \in holding : keys[r] \cap keys[self] # {};
  holding := holding \cup {self};
Release:
  holding := holding \ {self};
  owner := [s \in Stripes |-> IF owner[s] = self THEN 0 ELSE owner[s]];
  slots := <<>>;
  Log(self);
Release2:                                           \* a second Release finds no slots: nothing happens
  skip;
Late:                                               \* ... and so does one that comes any time later
  if (self \in LateReleasers) { Log(self) };
}
} *)
\* BEGIN TRANSLATION
VARIABLES pc, owner, keys, holding, clash, hist, last, pre

(* define statement *)
MutualExclusion == ~clash

Acquired(r) == r \in holding

VARIABLES slots, i

vars == << pc, owner, keys, holding, clash, hist, last, pre, slots, i >>

ProcSet == (Requests)

Init == (* Global variables *)
        /\ owner = [s \in Stripes |-> 0]
        /\ keys \in [Requests -> KeySets]
        /\ holding = {}
        /\ clash = FALSE
        /\ hist = <<>>
        /\ last = 0
        /\ pre = 0
        (* Process req *)
        /\ slots = [self \in Requests |-> <<>>]
        /\ i = [self \in Requests |-> 1]
        /\ pc = [self \in ProcSet |-> "Compute"]

Compute(self) == /\ pc[self] = "Compute"
                 /\ slots' = [slots EXCEPT ![self] = SortedSeq(SlotSet(keys[self]))]
                 /\ IF Len(hist) < MaxHist
                       THEN /\ hist' = Append(hist, self)
                            /\ pre' = (IF last # 0 /\ last # self /\ (pc[last] # "Done" /\ pc[last] # "Wait") THEN pre + 1 ELSE pre)
                            /\ last' = self
                       ELSE /\ TRUE
                            /\ UNCHANGED << hist, last, pre >>
                 /\ pc' = [pc EXCEPT ![self] = "Lock"]
                 /\ UNCHANGED << owner, keys, holding, clash, i >>

Lock(self) == /\ pc[self] = "Lock"
              /\ IF i[self] <= Len(slots[self])
                    THEN /\ IF owner[slots[self][i[self]]] = 0
                               THEN /\ owner' = [owner EXCEPT ![slots[self][i[self]]] = self]
                                    /\ i' = [i EXCEPT ![self] = i[self] + 1]
                                    /\ IF Len(hist) < MaxHist
                                          THEN /\ hist' = Append(hist, self)
                                               /\ pre' = (IF last # 0 /\ last # self /\ (pc[last] # "Done" /\ pc[last] # "Wait") THEN pre + 1 ELSE pre)
                                               /\ last' = self
                                          ELSE /\ TRUE
                                               /\ UNCHANGED << hist, last, pre >>
                                    /\ pc' = [pc EXCEPT ![self] = "Lock"]
                               ELSE /\ IF Len(hist) < MaxHist
                                          THEN /\ hist' = Append(hist, self)
                                               /\ pre' = (IF last # 0 /\ last # self /\ (pc[last] # "Done" /\ pc[last] # "Wait") THEN pre + 1 ELSE pre)
                                               /\ last' = self
                                          ELSE /\ TRUE
                                               /\ UNCHANGED << hist, last, pre >>
                                    /\ pc' = [pc EXCEPT ![self] = "Wait"]
                                    /\ UNCHANGED << owner, i >>
                    ELSE /\ pc' = [pc EXCEPT ![self] = "Holding"]
                         /\ UNCHANGED << owner, hist, last, pre, i >>
              /\ UNCHANGED << keys, holding, clash, slots >>

Wait(self) == /\ pc[self] = "Wait"
              /\ owner[slots[self][i[self]]] = 0
              /\ owner' = [owner EXCEPT ![slots[self][i[self]]] = self]
              /\ i' = [i EXCEPT ![self] = i[self] + 1]
              /\ pc' = [pc EXCEPT ![self] = "Lock"]
              /\ UNCHANGED << keys, holding, clash, hist, last, pre, slots >>

Holding(self) == /\ pc[self] = "Holding"
                 /\ clash' = (clash \/ \E r \in holding : keys[r] \cap keys[self] # {})
                 /\ holding' = (holding \cup {self})
                 /\ pc' = [pc EXCEPT ![self] = "Release"]
                 /\ UNCHANGED << owner, keys, hist, last, pre, slots, i >>

Release(self) == /\ pc[self] = "Release"
                 /\ holding' = holding \ {self}
                 /\ owner' = [s \in Stripes |-> IF owner[s] = self THEN 0 ELSE owner[s]]
                 /\ slots' = [slots EXCEPT ![self] = <<>>]
                 /\ IF Len(hist) < MaxHist
                       THEN /\ hist' = Append(hist, self)
                            /\ pre' = (IF last # 0 /\ last # self /\ (pc[last] # "Done" /\ pc[last] # "Wait") THEN pre + 1 ELSE pre)
                            /\ last' = self
                       ELSE /\ TRUE
                            /\ UNCHANGED << hist, last, pre >>
                 /\ pc' = [pc EXCEPT ![self] = "Release2"]
                 /\ UNCHANGED << keys, clash, i >>

Release2(self) == /\ pc[self] = "Release2"
                  /\ TRUE
                  /\ pc' = [pc EXCEPT ![self] = "Late"]
                  /\ UNCHANGED << owner, keys, holding, clash, hist, last, pre, 
                                  slots, i >>

Late(self) == /\ pc[self] = "Late"
              /\ IF self \in LateReleasers
                    THEN /\ IF Len(hist) < MaxHist
                               THEN /\ hist' = Append(hist, self)
                                    /\ pre' = (IF last # 0 /\ last # self /\ (pc[last] # "Done" /\ pc[last] # "Wait") THEN pre + 1 ELSE pre)
                                    /\ last' = self
                               ELSE /\ TRUE
                                    /\ UNCHANGED << hist, last, pre >>
                    ELSE /\ TRUE
                         /\ UNCHANGED << hist, last, pre >>
              /\ pc' = [pc EXCEPT ![self] = "Done"]
              /\ UNCHANGED << owner, keys, holding, clash, slots, i >>

req(self) == Compute(self) \/ Lock(self) \/ Wait(self) \/ Holding(self)
                \/ Release(self) \/ Release2(self) \/ Late(self)

(* Allow infinite stuttering to prevent deadlock on termination. *)
Terminating == /\ \A self \in ProcSet: pc[self] = "Done"
               /\ UNCHANGED vars

Next == (\E self \in Requests: req(self))
           \/ Terminating

Spec == /\ Init /\ [][Next]_vars
        /\ \A self \in Requests : WF_vars(req(self))

Termination == <>(\A self \in ProcSet: pc[self] = "Done")

\* END TRANSLATION

\* deadlock freedom: TLC's deadlock check (the translation adds the terminating self-loop);
\* every acquisition eventually succeeds (weak fairness per request, no state constraint)
EventuallyAcquired == \A r \in Requests : <>(pc[r] \in {"Release", "Release2", "Late", "Done"})

\* key-set families used by the cfgs
AllKeySets   == SUBSET Keys
SmallKeySets == SUBSET {"A", "B", "D", "E"}
QuickKeySets == {{}, {"A"}, {"B"}, {"A", "B"}, {"A", "D"}, {"E"}, {"E", "B"}}
PlainKeySets == SUBSET {"A", "B", "C"}
TwoKeySets   == SUBSET {"A", "B"}
Gen2KeySets  == (SUBSET {"A", "B", "C"}) \cup {{"D"}, {"A", "D"}, {"E"}, {"E", "B"}}
TriKeySets   == {{"A", "B"}, {"B", "C"}, {"A", "C"}, {"E", "B"}}
EmptyKeySets == {{"E"}, {"E", "A"}, {"B"}}
PairKeySets  == {{"A", "B"}, {"B", "C"}, {"A", "C"}, {"A", "B", "C"}, {"D"}, {"E", "B"}}

\* ---- behaviour generation ------------------------------------------------------------
\* "Holding" is not a gate of its own: Acquire returns and the driver parks the request there
\* not gates: the arrival at Holding, a woken waiter taking its stripe, the step from Release2 to the Late gate
\* (an immediate second Release), and the Late step of a request that does not release late
Uncontrolled(p) == \/ pc[p] = "Holding" \/ (pc[p] = "Lock" /\ i[p] > Len(slots[p]))
                   \/ (pc[p] = "Wait" /\ owner[slots[p][i[p]]] = 0)
                   \/ pc[p] = "Release2" \/ (pc[p] = "Late" /\ p \notin LateReleasers)
GateGrain == \A p \in Requests : Uncontrolled(p) => pc'[p] # pc[p]
PreBound == pre <= MaxPre
AllDone == \A p \in Requests : pc[p] = "Done"
KeyNo(k) == CASE k = "A" -> 1 [] k = "B" -> 2 [] k = "C" -> 3 [] k = "D" -> 4 [] OTHER -> 5
EmitHist == AllDone => PrintT(<<"SCHED", ToJson([keys |-> [r \in Requests |-> SortedSeq({KeyNo(k) : k \in keys[r]})], steps |-> hist])>>)

View == <<owner, keys, holding, clash, pc, slots, i>>
=============================================================================
