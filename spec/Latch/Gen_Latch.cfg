SPECIFICATION Spec
CONSTANTS
 Requests = {1,2}
 Keys = {"A","B","C","D","E"}
 StripeOf <- DefaultStripe
 NStripes = 3
 KeySets <- Gen2KeySets
 Deviations = {"EmptyKeyUnlatched"}
 LateReleasers = {}
 MaxHist = 100
 MaxPre = 100
 defaultInitValue = 0
ACTION_CONSTRAINT GateGrain
CONSTRAINT PreBound
INVARIANT EmitHist
CHECK_DEADLOCK FALSE
