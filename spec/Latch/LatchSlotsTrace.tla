--------------------------- MODULE LatchSlotsTrace ---------------------------
(* Implementation layer (drift only, never a verdict): the slot list of a real guard is  *)
(* the de-duplicated, ascending list of the stripes of the request's keys - what         *)
(* Latch.tla's Compute step assumes.  Event Slots {stripes, slots}.                      *)
EXTENDS Integers, Sequences, FiniteSets, TLC, Json, IOUtils

Trace == ndJsonDeserialize(IOEnv.TRACE)
VARIABLES l
vars == <<l>>

RECURSIVE SortedSeq(_)
SortedSeq(S) == IF S = {} THEN <<>>
                ELSE LET m == CHOOSE x \in S : \A y \in S : x <= y IN <<m>> \o SortedSeq(S \ {m})

Init == l = 1
ev == Trace[l]
Expect(got, want) == got = want \/ (got # want /\ PrintT(<<"MISMATCH", l, want>>))
IsEvent(name) == l <= Len(Trace) /\ ev.e = name /\ l' = l + 1
Reset == IsEvent("Reset")
Slots == IsEvent("Slots") /\ Expect(ev.slots, SortedSeq({ev.stripes[i] : i \in DOMAIN ev.stripes}))
Next == Reset \/ Slots
Spec == Init /\ [][Next]_vars
TraceAccepted ==
    LET d == TLCGet("stats").diameter
    IN PrintT(<<"TRACE_HW", d - 1, Len(Trace)>>) /\ d - 1 = Len(Trace)
=============================================================================
