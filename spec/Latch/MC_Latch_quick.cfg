SPECIFICATION Spec
CONSTANTS
 Requests = {1,2,3}
 Keys = {"A","B","C","D","E"}
 StripeOf <- DefaultStripe
 NStripes = 3
 KeySets <- QuickKeySets
 Deviations = {}
 LateReleasers = {}
 MaxHist = 0
 MaxPre = 0
 defaultInitValue = 0
INVARIANT MutualExclusion
CHECK_DEADLOCK TRUE
VIEW View
