SPECIFICATION Spec
CONSTANTS
 Codecs = {"ikey", "lock", "write0", "write1", "entry", "valueptr", "valuestruct", "m_addfile", "m_delfile", "m_logptr", "m_vloghead", "m_vlogdel", "m_vlogupd", "m_raftptr", "m_regiondel", "m_region0", "m_region2", "raftentries0", "raftentries2", "rafthard", "raftsnap", "raftcmd"}
 Mutate = TRUE
 ExtBoth = TRUE
 KAlphabet = {0, 97, 255}
 KMaxLen = 2
 KCFs = {0, 1}
 KVers = {0, 1, 2, 1000000}
INVARIANTS LayoutOK EmitCase
CHECK_DEADLOCK FALSE
