-------------------------- MODULE CodecPropTrace --------------------------
(* Property layer for C16.  Events recorded by harness/cmd/codec from the real codecs:     *)
(*   Frame  one frame of Codec.tla run through the real decoder (valid frames also through *)
(*          the real encoder)                                                              *)
(*   Bytes  every truncation / byte replacement {00,7F,80,FF} of a valid encoding, summary  *)
(*   KeyRT  internal key built and split again       Cmp  utils.CompareKeys signs          *)
(*   Crash  the decoder took the process down (fatal error, runaway loop, runaway memory)  *)
(* (a) valid frame: the real encoder produces exactly the bytes of the layout and the real *)
(*     decoder returns exactly the encoded field values (companion decoders agree);        *)
(* (b) CompareKeys orders encoded internal keys as KeyOrder!KeyLess;                       *)
(* (c) any frame / truncation / byte replacement: error or some value - no panic, and the  *)
(*     decoder allocates less than 1 MiB + 64 x len(input).  A Crash is never acceptable.  *)
EXTENDS Integers, Sequences, FiniteSets, TLC, Json, IOUtils, KeyOrder

Trace == ndJsonDeserialize(IOEnv.TRACE)
VARIABLES l
Init == l = 1
ev == Trace[l]
IsEvent(name) == l <= Len(Trace) /\ ev.e = name /\ l' = l + 1
Report(want) == PrintT(<<"MISMATCH", l, ToJson(want)>>)

Reset == IsEvent("Reset")

MiB == 1048576
\* fields whose value the decoder must hand back (length, count, checksum and constant fields are framing)
Semantic(f) == f.t \in {"u8", "uv", "u32be", "raw", "tail", "pb"} /\ f.n \notin {"v", "has", "prefix", "type", "del"}

Frame == /\ IsEvent("Frame")
         /\ LET robust == ev.outcome \in {"ok", "error"} /\ ev.alloc < MiB + 64 * ev.len
                rt     == ev.valid => /\ ev.encEqual /\ ev.outcome = "ok" /\ ev.aux = "ok"
                                      /\ \A i \in 1..Len(ev.fields) : Semantic(ev.fields[i]) =>
                                            /\ ev.fields[i].n \in DOMAIN ev.decoded
                                            /\ ev.decoded[ev.fields[i].n] = ev.fields[i].v
                ok == robust /\ rt
            IN ok \/ (~ok /\ Report([robust |-> robust, roundtrip |-> rt, bound |-> MiB + 64 * ev.len]))

Bytes == /\ IsEvent("Bytes")
         /\ LET ok == ev.panics = 0 /\ ev.worst < MiB
            IN ok \/ (~ok /\ Report([panics |-> 0, worst_below |-> MiB]))

KeyRT == /\ IsEvent("KeyRT")
         /\ LET ok == ev.out = ev.key /\ ev.consistent
            IN ok \/ (~ok /\ Report(ev.key))

Sign(a, b) == IF KeyLess(a, b) THEN -1 ELSE IF KeyLess(b, a) THEN 1 ELSE 0
Cmp == /\ IsEvent("Cmp")
       /\ LET want == [i \in 1..Len(ev.bs) |-> Sign(ev.a, ev.bs[i])]
          IN ev.signs = want \/ (ev.signs # want /\ Report(want))

\* no action explains a Crash event: the trace is rejected there
Next == Reset \/ Frame \/ Bytes \/ KeyRT \/ Cmp
Spec == Init /\ [][Next]_l

TraceAccepted ==
    LET d == TLCGet("stats").diameter
    IN PrintT(<<"TRACE_HW", d - 1, Len(Trace)>>) /\ d - 1 = Len(Trace)
=============================================================================
