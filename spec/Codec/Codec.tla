------------------------------- MODULE Codec -------------------------------
(* C16 generator / oracle: the wire layouts of NoKV's persisted and wire encodings, their  *)
(* boundary field values and the structured mutations of their length/integer fields.      *)
(*                                                                                         *)
(* A layout is a sequence of fields [n: name, t: wire type, of: referenced field, d: domain] *)
(*   u8     one byte                         uv      unsigned varint                       *)
(*   u32be  4 bytes big endian               raw     bytes, length given by another field  *)
(*   len    uvarint = byte length of `of`    len32   4 bytes little endian = length of all *)
(*   cnt    uvarint = number of repetitions that follow (fixed by the layout)   later bytes *)
(*   crc    CRC32-Castagnoli (big endian) of all preceding bytes                           *)
(*   tail   bytes up to the end of the input                                               *)
(*   pb     a protobuf message (etcd raftpb / NoKV pb) described by a token, marshalled by *)
(*          the protobuf runtime                                                           *)
(* Integers are symbols: Z=0 ONE=1 TWO=2 B255=255 U31=2^31 U32M=2^32-1 U63=2^63 U64M=2^64-1; *)
(* lengths L0=0 L1=1 LMAX=70000 bytes of a fixed filler; LP1 = actual length + 1.          *)
(* A frame assigns a symbol to every field.  It is VALID when every len/len32/cnt/crc field *)
(* is "=" (consistent with the bytes it describes) - then it is, by definition, the        *)
(* encoding of the value made of its other fields, and the real encoder must produce       *)
(* exactly these bytes and the real decoder must return exactly these field values.        *)
(* A MUTATED frame replaces one len/cnt/uv field of a valid frame; the real decoder must    *)
(* answer with an error or some value - never panic, never allocate out of proportion.     *)
EXTENDS Integers, Sequences, FiniteSets, TLC, Json, SequencesExt

CONSTANTS Codecs,      \* layouts enumerated in this run ("ikey" = the internal-key universe for the order check)
          Mutate,      \* TRUE: also emit the mutated frames
          ExtBoth,     \* TRUE: varint-boundary extension on top of the all-highest vector too
          KAlphabet, KMaxLen, KCFs, KVers   \* internal-key universe (user keys over KAlphabet up to KMaxLen)

U64D == <<"Z", "ONE", "U32M", "U64M">>
U32D == <<"Z", "ONE", "U32M">>
LenD == <<"L0", "L1", "LMAX">>
NEL  == <<"L1", "LMAX">>
\* varint length boundaries: V<k>M = 2^(7k)-1, V<k> = 2^(7k), V<k>P = 2^(7k)+1; N<n> = a body of n filler bytes
VB64 == <<"V1M", "V1", "V1P", "V2M", "V2", "V2P", "V3M", "V3", "V3P", "V4M", "V4", "V4P", "V5M", "V5", "V5P",
          "V6M", "V6", "V6P", "V7M", "V7", "V7P", "V8M", "V8", "V8P", "V9M", "U63", "V9P">>
VB32 == SubSeq(VB64, 1, 12)
NB   == <<"N127", "N128", "N129", "N16383", "N16384", "N16385">>
LenMut == {"Z", "ONE", "LP1", "U31", "U63", "U64M"}
UvMut  == {"U31", "U63", "U64M"}
CntMut == {"Z", "ONE", "LP1", "U31", "U63", "U64M"}
L32Mut == {"Z", "ONE", "LP1", "U31", "U32M"}

F(n, t, d)    == [n |-> n, t |-> t, of |-> "", d |-> d]
LenOf(n, of)  == [n |-> n, t |-> "len", of |-> of, d |-> <<"=">>]
Cnt(n)        == [n |-> n, t |-> "cnt", of |-> "", d |-> <<"=">>]
Const(n, t, v) == [n |-> n, t |-> t, of |-> "", d |-> <<v>>]

\* protobuf bodies: token = kind:fields (the driver builds the message and marshals it)
PbEntry == <<"E:ONE:ONE:0:L0", "E:U64M:U64M:1:L1", "E:Z:U32M:0:LMAX">>     \* term:index:type:len(data)
PbHard  == <<"H:Z:Z:Z", "H:ONE:ONE:ONE", "H:U64M:U64M:U64M">>              \* term:vote:commit
PbSnap  == <<"S:ONE:ONE:L0", "S:U64M:U64M:L1", "S:Z:Z:LMAX">>              \* index:term:len(data)
PbCmd   == <<"C:Z:Z:0", "C:ONE:ONE:1", "C:U64M:U64M:2">>                   \* region:request id:number of Get requests

MagicEdit(t) == <<F("plen", "len32", <<"=">>), Const("magic", "magic", "NoKV"), Const("type", "u8", t)>>
VlogIds      == <<F("bucket", "uv", U32D), F("fid", "uv", U32D)>>
Peer(i)      == <<F("store" \o i, "uv", U64D), F("peer" \o i, "uv", U64D)>>
RegionHead   == <<F("id", "uv", U64D), Const("del", "u8", "0"), LenOf("slen", "start"), F("start", "raw", LenD),
                  LenOf("elen", "end"), F("end", "raw", LenD), F("ver", "uv", U64D), F("confver", "uv", U64D),
                  F("state", "u8", <<"0", "1", "2", "3">>), Cnt("peers")>>

Layout(c) ==
  CASE c = "lock" -> <<Const("v", "u8", "1"), LenOf("plen", "primary"), F("primary", "raw", LenD), F("ts", "uv", U64D),
                       F("ttl", "uv", U64D), F("kind", "u8", <<"0", "1", "2", "3">>), F("mincommit", "uv", U64D)>>
    [] c = "write0" -> <<Const("v", "u8", "1"), F("kind", "u8", <<"0", "1", "2", "3">>), F("startts", "uv", U64D), Const("has", "u8", "0")>>
    [] c = "write1" -> <<Const("v", "u8", "1"), F("kind", "u8", <<"0", "1", "2", "3">>), F("startts", "uv", U64D), Const("has", "u8", "1"),
                         LenOf("slen", "short"), F("short", "raw", NEL)>>
    [] c = "entry" -> <<LenOf("klen", "key"), LenOf("vlen", "val"), F("meta", "uv", <<"Z", "ONE", "B255">>), F("exp", "uv", U64D),
                        F("key", "raw", LenD), F("val", "raw", LenD), F("crc", "crc", <<"=">>)>>
    [] c = "valueptr" -> <<F("len", "u32be", U32D), F("offset", "u32be", U32D), F("fid", "u32be", U32D), F("bucket", "u32be", U32D)>>
    [] c = "valuestruct" -> <<F("meta", "u8", <<"0", "1", "255">>), F("exp", "uv", U64D), F("val", "tail", LenD)>>
    [] c = "m_addfile" -> MagicEdit("0") \o <<F("level", "uv", <<"Z", "ONE", "U31">>), F("fileid", "uv", U64D), F("size", "uv", U64D),
                          LenOf("slen", "smallest"), F("smallest", "raw", LenD), LenOf("llen", "largest"), F("largest", "raw", LenD),
                          F("created", "uv", U64D), F("valuesize", "uv", U64D), F("ingest", "u8", <<"0", "1">>)>>
    [] c = "m_delfile" -> MagicEdit("1") \o <<F("level", "uv", <<"Z", "ONE">>), F("fileid", "uv", U64D), F("size", "uv", <<"Z">>),
                          LenOf("slen", "smallest"), F("smallest", "raw", <<"L0">>), LenOf("llen", "largest"), F("largest", "raw", <<"L0">>),
                          F("created", "uv", <<"Z">>), F("valuesize", "uv", <<"Z">>), F("ingest", "u8", <<"0">>)>>
    [] c = "m_logptr" -> MagicEdit("2") \o <<F("seg", "uv", U32D), F("off", "uv", U64D)>>
    [] c = "m_vloghead" -> MagicEdit("3") \o VlogIds \o <<F("off", "uv", U64D)>>
    [] c = "m_vlogdel" -> MagicEdit("4") \o VlogIds
    [] c = "m_vlogupd" -> MagicEdit("5") \o VlogIds \o <<F("off", "uv", U64D), F("valid", "u8", <<"0", "1">>)>>
    [] c = "m_raftptr" -> MagicEdit("6") \o <<F("group", "uv", U64D), F("seg", "uv", U32D), F("off", "uv", U64D), F("appidx", "uv", U64D),
                          F("appterm", "uv", U64D), F("committed", "uv", U64D), F("snapidx", "uv", U64D), F("snapterm", "uv", U64D),
                          F("truncidx", "uv", U64D), F("truncterm", "uv", U64D), F("segidx", "uv", U64D), F("truncoff", "uv", U64D)>>
    [] c = "m_regiondel" -> MagicEdit("7") \o <<F("id", "uv", U64D), Const("del", "u8", "1")>>
    [] c = "m_region0" -> MagicEdit("7") \o RegionHead
    [] c = "m_region2" -> MagicEdit("7") \o RegionHead \o Peer("1") \o Peer("2")
    [] c = "raftentries0" -> <<F("group", "uv", U64D), Cnt("count")>>
    [] c = "raftentries2" -> <<F("group", "uv", U64D), Cnt("count"), LenOf("s1", "e1"), F("e1", "pb", PbEntry), LenOf("s2", "e2"), F("e2", "pb", PbEntry)>>
    [] c = "rafthard" -> <<F("group", "uv", U64D), LenOf("size", "body"), F("body", "pb", PbHard)>>
    [] c = "raftsnap" -> <<F("group", "uv", U64D), LenOf("size", "body"), F("body", "pb", PbSnap)>>
    [] c = "raftcmd" -> <<Const("prefix", "u8", "206"), F("body", "pb", PbCmd)>>

\* number of repetitions a cnt field announces in a valid frame (fixed by the layout)
CountOf(c) == CASE c \in {"m_region2", "raftentries2"} -> "TWO" [] OTHER -> "Z"

-----------------------------------------------------------------------------
\* value vectors (aligned with the layout)
RECURSIVE Prod(_, _)
Prod(fs, i) == IF i > Len(fs) THEN {<<>>}
               ELSE {<<fs[i].d[j]>> \o rest : j \in 1..Len(fs[i].d), rest \in Prod(fs, i + 1)}
RECURSIVE ProdSize(_, _)
ProdSize(fs, i) == IF i > Len(fs) THEN 1 ELSE Len(fs[i].d) * ProdSize(fs, i + 1)

LoVec(fs) == [i \in 1..Len(fs) |-> fs[i].d[1]]
HiVec(fs)  == [i \in 1..Len(fs) |-> fs[i].d[Len(fs[i].d)]]
\* boundary-value analysis for wide records: all-lowest, all-highest, and every single field over its domain
\* on top of both
BVA(fs) == {LoVec(fs), HiVec(fs)} \cup
           UNION {{[b EXCEPT ![i] = fs[i].d[j]] : b \in {LoVec(fs), HiVec(fs)}, j \in 1..Len(fs[i].d)} : i \in 1..Len(fs)}

Values(c) == LET fs == Layout(c) IN IF ProdSize(fs, 1) <= 1200 THEN Prod(fs, 1) ELSE BVA(fs)

\* extension: every integer field at every varint length boundary, every body at the lengths whose length
\* prefix changes size - one field at a time on top of the all-lowest (and, if Both, all-highest) vector
ExtDom(f) == IF f.t \in {"uv", "u32be"} /\ f.d = U64D THEN VB64
             ELSE IF f.t \in {"uv", "u32be"} /\ f.d = U32D THEN VB32
             ELSE IF f.t \in {"raw", "tail"} /\ Len(f.d) > 1 THEN NB ELSE <<>>
ExtValues(c) == LET fs == Layout(c) IN
    UNION {{[b EXCEPT ![i] = ExtDom(fs[i])[j]] : b \in (IF ExtBoth THEN {LoVec(fs), HiVec(fs)} ELSE {LoVec(fs)}), j \in 1..Len(ExtDom(fs[i]))}
              : i \in 1..Len(fs)}

Fields(c, vals) == [i \in 1..Len(vals) |-> [n |-> Layout(c)[i].n, t |-> Layout(c)[i].t, of |-> Layout(c)[i].of, v |-> vals[i]]]
ValidFrame(c, vals) == [codec |-> c, valid |-> TRUE, mut |-> "", count |-> CountOf(c), fields |-> Fields(c, vals)]
ExtFrame(c, vals)   == [codec |-> c, valid |-> TRUE, mut |-> "ext", count |-> CountOf(c), fields |-> Fields(c, vals)]

MutDom(t) == CASE t = "len" -> LenMut [] t = "len32" -> L32Mut [] t = "cnt" -> CntMut [] t = "uv" -> UvMut [] OTHER -> {}
\* mutation bases: the extreme vectors (small and large bodies)
MutBases(c) == {LoVec(Layout(c)), HiVec(Layout(c))}
MutFrames(c) == UNION {UNION {{[codec |-> c, valid |-> FALSE, mut |-> Layout(c)[i].n, count |-> CountOf(c),
                                fields |-> Fields(c, [b EXCEPT ![i] = m])] : m \in MutDom(Layout(c)[i].t)}
                                   : i \in 1..Len(Layout(c))} : b \in MutBases(c)}

Frames(c) == {ValidFrame(c, v) : v \in Values(c)} \cup {ExtFrame(c, v) : v \in ExtValues(c) \ Values(c)} \cup (IF Mutate /\ c # "valuestruct" THEN MutFrames(c) ELSE {})

\* (b) order: the driver encodes every key of this universe with kv.InternalKey and reports utils.CompareKeys
\* for every pair; CodecPropTrace.tla compares the signs with KeyOrder!KeyLess
KeyUniverse == [cf : KCFs, k : UNION {[1..n -> KAlphabet] : n \in 0..KMaxLen}, ver : KVers]
KeyFrame == [codec |-> "ikey", valid |-> TRUE, mut |-> "", count |-> "Z", fields |-> <<>>, keys |-> SetToSeq(KeyUniverse)]

VARIABLE frame
Init == frame = [codec |-> "", valid |-> TRUE, mut |-> "", count |-> "Z", fields |-> <<>>]
Next == frame.codec = "" /\ \E c \in Codecs : IF c = "ikey" THEN frame' = KeyFrame ELSE \E f \in Frames(c) : frame' = f
Spec == Init /\ [][Next]_frame

\* sanity of the layouts themselves: field names unique, references resolve
LayoutOK == \A c \in Codecs \ {"ikey"} : LET fs == Layout(c) IN
              /\ \A i, j \in 1..Len(fs) : i # j => fs[i].n # fs[j].n
              /\ \A i \in 1..Len(fs) : fs[i].t = "len" => \E j \in 1..Len(fs) : fs[j].n = fs[i].of /\ fs[j].t \in {"raw", "pb"}
EmitCase == frame.codec # "" => PrintT(<<"CASE", ToJson(frame)>>)
=============================================================================
