SPECIFICATION Spec
CONSTANTS
 NK = 3
 MaxFaults = 2
 MaxLead = 1
 MaxAttempts = 2
 MaxRetries = 2
 MaxPasses = 0
 CheckTs = {25, 40}
 Concurrent = FALSE
 Dev = {}
 Orders = "all"
 PlanMax = 14
 MaxHist = 60
INVARIANT EmitHist
ACTION_CONSTRAINT GenStop
ACTION_CONSTRAINT GenCanon
CHECK_DEADLOCK FALSE
