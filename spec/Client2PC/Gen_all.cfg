SPECIFICATION Spec
CONSTANTS
 NK = 3
 MaxFaults = 1
 MaxLead = 0
 MaxAttempts = 1
 MaxRetries = 2
 MaxPasses = 0
 CheckTs = {40}
 Concurrent = FALSE
 Dev = {}
 Orders = "all"
 PlanMax = 0
 MaxHist = 40
INVARIANT EmitHist
ACTION_CONSTRAINT GenStop
ACTION_CONSTRAINT GenCanon
CHECK_DEADLOCK FALSE
