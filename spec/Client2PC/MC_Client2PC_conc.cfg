SPECIFICATION Spec
CONSTANTS
 NK = 3
 MaxFaults = 1
 MaxLead = 0
 MaxAttempts = 1
 MaxRetries = 2
 MaxPasses = 1
 CheckTs = {25, 40}
 Concurrent = TRUE
 Dev = {}
 Orders = "all"
 PlanMax = 0
 MaxHist = 0
VIEW view
INVARIANT Atomic
INVARIANT LocksResolved
INVARIANT PrimaryDecides
INVARIANT SuccessIsVisible
INVARIANT FailedStaysOut
INVARIANT PrimaryFirst
PROPERTY Final
CHECK_DEADLOCK FALSE
