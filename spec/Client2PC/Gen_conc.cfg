SPECIFICATION Spec
CONSTANTS
 NK = 3
 MaxFaults = 1
 MaxLead = 1
 MaxAttempts = 2
 MaxRetries = 2
 MaxPasses = 2
 CheckTs = {25, 40}
 Concurrent = TRUE
 Dev = {}
 Orders = "all"
 PlanMax = 16
 MaxHist = 60
INVARIANT EmitHist
ACTION_CONSTRAINT GenStop
ACTION_CONSTRAINT GenCanon
CHECK_DEADLOCK FALSE
