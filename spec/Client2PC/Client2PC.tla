------------------------------ MODULE Client2PC ------------------------------
(* Implementation-shaped specification of the client side of NoKV's two-phase commit      *)
(*   raftstore/client/client.go  TwoPhaseCommit, prewriteRegion, commitRegion (retry on    *)
(*                               region errors, no retry on RPC errors), handleRegionError,*)
(*                               CheckTxnStatus, ResolveLocks/resolveRegionLocks           *)
(*   percolator/txn.go           Prewrite/prewriteMutation, Commit/commitKey, ResolveLock, *)
(*                               rollbackKey, CheckTxnStatus/isLockExpired                 *)
(* for ONE mutation set (one transaction: start 10, commit 20, lock TTL 20) over NK keys   *)
(* laid out over 1..3 regions.  The key-level operators are the ones of                   *)
(* spec/Percolator/Percolator.tla specialised to a single transaction (lock = held + min   *)
(* commit ts, write column = none / commit record / rollback record); what this module     *)
(* adds is what Percolator.tla does not have: several keys per request processed in        *)
(* request order (Prewrite collects errors, Commit and ResolveLock return at the first     *)
(* error), the client's RPC sequence, RPC failures before / after the request was applied, *)
(* NotLeader answers (with a leader hint after a leader change, without one when injected) *)
(* and the client's retry loop, a second invocation of Mutate by the application, and the  *)
(* resolver protocol callers build from the client helpers (cmd/nokv-redis                 *)
(* resolveSingleLock): CheckTxnStatus(primary, start, currentTs) ->                       *)
(*   commit version > 0          => ResolveLocks(start, commitVersion, keys)               *)
(*   TTL-expired / not-exist rollback => ResolveLocks(start, 0, keys)                      *)
(*   otherwise (lock alive; min-commit-ts pushed to currentTs+1) => give up for now.       *)
(* One action = one RPC (a request holds the key latches while it is applied).             *)
(*                                                                                        *)
(* Deviation (CONSTANT Dev): "CommitKeysInMutationOrder" is the tree before this family's  *)
(* fix: the commit request of the primary region listed the keys in mutation order, so a   *)
(* key sharing the primary's region could commit before the primary was examined.          *)
EXTENDS Integers, Sequences, FiniteSets, TLC, Json

CONSTANTS NK,           \* keys 1..NK (key order = numeric order; regions are key ranges)
          MaxFaults,    \* injected RPC faults per behaviour (before | after apply | NotLeader without hint)
          MaxLead,      \* leader changes per behaviour
          MaxAttempts,  \* invocations of Mutate by the application (2 = one application-level retry)
          MaxRetries,   \* client.Config.MaxRetries: attempts per RPC when the answer is a region error
          MaxPasses,    \* resolver passes started while the client is still inside Mutate
          CheckTs,      \* currentTs values resolver passes use (start+TTL = 30)
          Concurrent,   \* TRUE: resolver passes interleave with the client's RPCs
          Dev,          \* enabled deviations
          Orders,       \* "all": every mutation order; "two": ascending and descending key order only (quick tier)
          PlanMax,      \* 0: a fault may hit any RPC; n > 0 (behaviour generation): the indices of the faulted RPCs
                        \*    (counted over both actors, 1..n) are chosen in the initial state
          MaxHist       \* length of the recorded step history (0 in exhaustive runs)

StartTs  == 10
CommitTs == 20
TTL      == 20

Keys    == 1..NK
Regions == 1..3
Actors  == {"c", "r"}            \* the committing client, the resolver (another client instance)

VARIABLES regOf, order, primary,  \* layout, fixed in the initial state
          lk, wr,                 \* store: lock column (held, min-commit-ts) and write column per key
          stale,                  \* [actor][region]: the actor's cached leader is not the leader
          cpc, cdone, ctries, attempts,          \* client: program counter, regions done in this phase, tries of this RPC
          rpc, rcur, rdec, rdone, rtries, passes,\* resolver
          rfresh, rclean,         \* the running pass started after the client returned / a decisive pass completed since
          nf, nlead, nrpc, plan,  \* budgets
          pcApplied, everOk,      \* ghosts: a commit request holding the primary was applied; Mutate returned nil
          hist
vars == <<regOf, order, primary, lk, wr, stale, cpc, cdone, ctries, attempts, rpc, rcur, rdec, rdone, rtries, passes,
          rfresh, rclean, nf, nlead, nrpc, plan, pcApplied, everOk, hist>>
view == <<regOf, order, primary, lk, wr, stale, cpc, cdone, ctries, attempts, rpc, rcur, rdec, rdone, rtries, passes,
          rfresh, rclean, nf, nlead, nrpc, plan, pcApplied, everOk>>

\* ------------------------------------------------------------------ layout
\* regions are contiguous key ranges, numbered in key order
RegMaps == {f \in [Keys -> Regions] : f[1] = 1 /\ \A k \in Keys \ {1} : f[k] \in {f[k-1], f[k-1] + 1}}
Perms   == IF Orders = "all" THEN {s \in [Keys -> Keys] : \A i, j \in Keys : i # j => s[i] # s[j]}
           ELSE {[i \in Keys |-> i], [i \in Keys |-> NK + 1 - i]}
Used    == {regOf[k] : k \in Keys}
PR      == regOf[primary]
Others  == Used \ {PR}
\* the mutations of region r in mutation order (client.go groups cloneMutation(mut) per region in slice order)
KeysIn(r) == LET InR(k) == regOf[k] = r IN SelectSeq(order, InR)
\* commit request of region r: collectKeys(muts); the primary key first in its own region (fix), mutation order before
CommitKeys(r) ==
    IF r # PR \/ "CommitKeysInMutationOrder" \in Dev THEN KeysIn(r)
    ELSE LET NotP(k) == k # primary IN <<primary>> \o SelectSeq(KeysIn(r), NotP)

\* ------------------------------------------------------------------ txn.go
NoLock == [held |-> FALSE, mc |-> 0]
St     == [lk |-> lk, wr |-> wr]

\* rollbackKey: a key with a write record of this transaction is left alone; else unlock + rollback record
RollbackKey(s, k) ==
    IF s.wr[k] # "none" THEN s
    ELSE [lk |-> [s.lk EXCEPT ![k] = NoLock], wr |-> [s.wr EXCEPT ![k] = "rollback"]]
\* commitKey (the lock is held by this transaction)
CommitKey(s, k) ==
    IF s.lk[k].mc > CommitTs THEN [s |-> s, r |-> "expired"]
    ELSE IF s.wr[k] = "rollback" THEN [s |-> s, r |-> "abort"]
    ELSE IF s.wr[k] = "commit" THEN [s |-> s, r |-> "ok"]
    ELSE [s |-> [lk |-> [s.lk EXCEPT ![k] = NoLock], wr |-> [s.wr EXCEPT ![k] = "commit"]], r |-> "ok"]
\* Prewrite: every mutation is tried, errors are collected
RECURSIVE PrewriteSeq(_, _, _)
PrewriteSeq(s, ks, err) ==
    IF ks = <<>> THEN [s |-> s, r |-> IF err THEN "conflict" ELSE "ok"]
    ELSE LET k == Head(ks)
         IN IF s.lk[k].held THEN PrewriteSeq(s, Tail(ks), err)              \* repeated prewrite: lock kept as is
            ELSE IF s.wr[k] # "none" THEN PrewriteSeq(s, Tail(ks), TRUE)     \* MostRecentWrite ts >= start: write conflict
            ELSE PrewriteSeq([s EXCEPT !.lk[k] = [held |-> TRUE, mc |-> 0]], Tail(ks), err)
\* Commit: key by key, returns at the first error (earlier keys stay committed)
RECURSIVE CommitSeq(_, _)
CommitSeq(s, ks) ==
    IF ks = <<>> THEN [s |-> s, r |-> "ok"]
    ELSE LET k == Head(ks)
         IN IF ~s.lk[k].held
            THEN IF s.wr[k] = "commit" THEN CommitSeq(s, Tail(ks)) ELSE [s |-> s, r |-> "abort"]
            ELSE LET c == CommitKey(s, k) IN IF c.r # "ok" THEN c ELSE CommitSeq(c.s, Tail(ks))
\* ResolveLock: keys without this transaction's lock are skipped
RECURSIVE ResolveSeq(_, _, _)
ResolveSeq(s, ks, commit) ==
    IF ks = <<>> THEN [s |-> s, r |-> "ok"]
    ELSE LET k == Head(ks)
         IN IF ~s.lk[k].held THEN ResolveSeq(s, Tail(ks), commit)
            ELSE IF ~commit THEN ResolveSeq(RollbackKey(s, k), Tail(ks), commit)
            ELSE LET c == CommitKey(s, k) IN IF c.r # "ok" THEN c ELSE ResolveSeq(c.s, Tail(ks), commit)
\* CheckTxnStatus(primary, lockTs = start, currentTs = callerStartTs = cur, rollbackIfNotExist)
Check(s, cur) ==
    LET k == primary
    IN IF s.lk[k].held
       THEN IF cur >= StartTs + TTL THEN [s |-> RollbackKey(s, k), r |-> "rollback"]        \* isLockExpired
            ELSE [s |-> IF s.lk[k].mc < cur + 1 THEN [s EXCEPT !.lk[k].mc = cur + 1] ELSE s, r |-> "alive"]
       ELSE IF s.wr[k] = "rollback" THEN [s |-> s, r |-> "rollback"]
       ELSE IF s.wr[k] = "commit" THEN [s |-> s, r |-> "commit"]
       ELSE [s |-> RollbackKey(s, k), r |-> "rollback"]

\* ------------------------------------------------------------------ RPC delivery
Faults == {"none", "before", "after", "nl", "nlx"}
\* what happens to a request actor a sends to region r under injected fault f
Route(a, r, f) ==
    IF f = "before" THEN "lost"             \* RPC error, nothing applied
    ELSE IF f = "nl" THEN "notleader"       \* NotLeader without a hint: the client tries the same store again
    ELSE IF f = "nlx" THEN "exhausted"      \* ... and again NotLeader, until the client's retries are used up
    ELSE IF stale[a][r] THEN "redirect"     \* NotLeader naming the leader: handleRegionError updates the cache
    ELSE IF f = "after" THEN "applied-lost" \* applied, then RPC error
    ELSE "applied"
FaultAllowed(f) ==
    f = "none" \/ (nf < MaxFaults /\ (PlanMax = 0 \/ nrpc + 1 \in plan))
Count(f) == /\ nf' = nf + (IF f = "none" THEN 0 ELSE 1)
            /\ nrpc' = IF PlanMax = 0 THEN 0 ELSE nrpc + 1
Log(rec) == hist' = IF Len(hist) < MaxHist THEN Append(hist, rec) ELSE hist
Step(a, k, r, f, cur) == [a |-> a, k |-> k, r |-> r, f |-> f, cur |-> cur]
Finished == cpc \in {"ok", "err"}

\* ------------------------------------------------------------------ the client (TwoPhaseCommit)
CTargets ==
    CASE cpc = "pw1" -> {<<"prewrite", PR>>}
      [] cpc = "pw2" -> {<<"prewrite", r>> : r \in Others \ cdone}      \* map iteration order: any
      [] cpc = "cm1" -> {<<"commit", PR>>}
      [] cpc = "cm2" -> {<<"commit", r>> : r \in Others \ cdone}
      [] OTHER -> {}
\* program counter after the request to region r succeeded
Advance(r) ==
    CASE cpc = "pw1" -> IF Others = {} THEN <<"cm1", {}>> ELSE <<"pw2", {}>>
      [] cpc = "pw2" -> IF cdone \cup {r} = Others THEN <<"cm1", {}>> ELSE <<"pw2", cdone \cup {r}>>
      [] cpc = "cm1" -> IF Others = {} THEN <<"ok", {}>> ELSE <<"cm2", {}>>
      [] cpc = "cm2" -> IF cdone \cup {r} = Others THEN <<"ok", {}>> ELSE <<"cm2", cdone \cup {r}>>

ClientRpc(x, f) ==
    LET kind == x[1]
        r    == x[2]
        way  == Route("c", r, f)
        res  == IF kind = "prewrite" THEN PrewriteSeq(St, KeysIn(r), FALSE) ELSE CommitSeq(St, CommitKeys(r))
        appl == way \in {"applied", "applied-lost"}
        next == IF way = "applied" /\ res.r = "ok" THEN Advance(r)
                ELSE IF way \in {"notleader", "redirect"} /\ ctries + 1 < MaxRetries THEN <<cpc, cdone>>
                ELSE <<"err", {}>>
    IN /\ x \in CTargets /\ f \in Faults /\ FaultAllowed(f)
       /\ (f = "after" => ~stale["c"][r])
       /\ lk' = IF appl THEN res.s.lk ELSE lk
       /\ wr' = IF appl THEN res.s.wr ELSE wr
       /\ stale' = IF way = "redirect" THEN [stale EXCEPT !["c"][r] = FALSE] ELSE stale
       /\ cpc' = next[1] /\ cdone' = next[2]
       /\ ctries' = IF next[1] = cpc /\ way \in {"notleader", "redirect"} THEN ctries + 1 ELSE 0
       /\ pcApplied' = (pcApplied \/ (kind = "commit" /\ r = PR /\ appl))
       /\ everOk' = (everOk \/ next[1] = "ok")
       /\ rfresh' = FALSE /\ rclean' = FALSE
       /\ Count(f) /\ Log(Step("c", kind, r, f, 0))
       /\ UNCHANGED <<regOf, order, primary, attempts, rpc, rcur, rdec, rdone, rtries, passes, nlead, plan>>

\* the application calls Mutate again with the same versions
Retry ==
    /\ cpc = "err" /\ attempts < MaxAttempts /\ (Concurrent \/ rpc = "idle")
    /\ cpc' = "pw1" /\ cdone' = {} /\ ctries' = 0 /\ attempts' = attempts + 1
    /\ rfresh' = FALSE /\ rclean' = FALSE
    /\ Log(Step("retry", "", 0, "none", 0))
    /\ UNCHANGED <<regOf, order, primary, lk, wr, stale, rpc, rcur, rdec, rdone, rtries, passes, nf, nlead, nrpc, plan, pcApplied, everOk>>

\* ------------------------------------------------------------------ the resolver
StartPass(cur) ==
    /\ rpc = "idle" /\ cur \in CheckTs
    /\ (Finished \/ (Concurrent /\ passes < MaxPasses))
    /\ rpc' = "check" /\ rcur' = cur /\ rdec' = "none" /\ rdone' = {} /\ rtries' = 0
    /\ passes' = IF Finished THEN passes ELSE passes + 1
    /\ rfresh' = Finished /\ rclean' = FALSE
    /\ Log(Step("pass", IF Finished THEN "after" ELSE "during", 0, "none", cur))   \* after / during the client's Mutate call
    /\ UNCHANGED <<regOf, order, primary, lk, wr, stale, cpc, cdone, ctries, attempts, nf, nlead, nrpc, plan, pcApplied, everOk>>

RTargets ==
    CASE rpc = "check"   -> {<<"check", PR>>}
      [] rpc = "resolve" -> {<<"resolve", r>> : r \in Used \ rdone}
      [] OTHER -> {}

ResolverRpc(x, f) ==
    LET kind == x[1]
        r    == x[2]
        way  == Route("r", r, f)
        res  == IF kind = "check" THEN Check(St, rcur) ELSE ResolveSeq(St, KeysIn(r), rdec = "commit")
        appl == way \in {"applied", "applied-lost"}
        again == way \in {"notleader", "redirect"} /\ rtries + 1 < MaxRetries
        \* <<pc, decision, regions done, pass completed>>
        next == IF again THEN <<rpc, rdec, rdone, FALSE>>
                ELSE IF way # "applied" THEN <<"idle", "none", {}, FALSE>>
                ELSE IF kind = "check"
                     THEN IF res.r = "alive" THEN <<"idle", "none", {}, FALSE>> ELSE <<"resolve", res.r, {}, FALSE>>
                ELSE IF res.r # "ok" THEN <<"idle", "none", {}, FALSE>>
                ELSE IF rdone \cup {r} = Used THEN <<"idle", "none", {}, TRUE>>
                ELSE <<"resolve", rdec, rdone \cup {r}, FALSE>>
    IN /\ x \in RTargets /\ f \in Faults /\ FaultAllowed(f)
       /\ (f = "after" => ~stale["r"][r])
       /\ lk' = IF appl THEN res.s.lk ELSE lk
       /\ wr' = IF appl THEN res.s.wr ELSE wr
       /\ stale' = IF way = "redirect" THEN [stale EXCEPT !["r"][r] = FALSE] ELSE stale
       /\ rpc' = next[1] /\ rdec' = next[2] /\ rdone' = next[3]
       /\ rtries' = IF again THEN rtries + 1 ELSE 0
       /\ rclean' = (next[4] /\ rfresh)
       /\ rfresh' = (rfresh /\ next[1] # "idle")
       /\ Count(f) /\ Log(Step("r", kind, r, f, rcur))
       /\ UNCHANGED <<regOf, order, primary, cpc, cdone, ctries, attempts, rcur, passes, nlead, plan, pcApplied, everOk>>

\* the leader of region r moves to the other store: every cache that was right is now wrong and vice versa
LeaderChange(r) ==
    /\ nlead < MaxLead /\ r \in Used
    /\ ~(Finished /\ rpc = "idle" /\ rclean)
    /\ nlead' = nlead + 1
    /\ stale' = [a \in Actors |-> [stale[a] EXCEPT ![r] = ~stale[a][r]]]
    /\ Log(Step("lead", "", r, "none", 0))
    /\ UNCHANGED <<regOf, order, primary, lk, wr, cpc, cdone, ctries, attempts, rpc, rcur, rdec, rdone, rtries, passes,
                   rfresh, rclean, nf, nrpc, plan, pcApplied, everOk>>

Plans == IF PlanMax = 0 THEN {{}} ELSE {p \in SUBSET (1..PlanMax) : Cardinality(p) <= MaxFaults}

Init == /\ regOf \in RegMaps /\ order \in Perms /\ primary \in Keys
        /\ lk = [k \in Keys |-> NoLock] /\ wr = [k \in Keys |-> "none"]
        /\ stale = [a \in Actors |-> [r \in Regions |-> FALSE]]
        /\ cpc = "pw1" /\ cdone = {} /\ ctries = 0 /\ attempts = 1
        /\ rpc = "idle" /\ rcur = 0 /\ rdec = "none" /\ rdone = {} /\ rtries = 0 /\ passes = 0
        /\ rfresh = FALSE /\ rclean = FALSE
        /\ nf = 0 /\ nlead = 0 /\ nrpc = 0 /\ plan \in Plans
        /\ pcApplied = FALSE /\ everOk = FALSE /\ hist = <<>>

Next == \/ \E x \in CTargets, f \in Faults : ClientRpc(x, f)
        \/ Retry
        \/ \E cur \in CheckTs : StartPass(cur)
        \/ \E x \in RTargets, f \in Faults : ResolverRpc(x, f)
        \/ \E r \in Regions : LeaderChange(r)
Spec == Init /\ [][Next]_vars

\* ------------------------------------------------------------------ properties (C28)
Visible(k) == wr[k] = "commit"          \* a read at ts >= 20 returns the mutation's value iff the commit record exists
\* "once its locks are resolved": the client has returned and a resolver pass that started afterwards ran to the end
Resolved == Finished /\ rpc = "idle" /\ rclean

\* after resolution the mutation set is entirely visible or entirely invisible, and no lock is left
Atomic           == Resolved => ((\A k \in Keys : Visible(k)) \/ (\A k \in Keys : ~Visible(k)))
LocksResolved    == Resolved => \A k \in Keys : ~lk[k].held
\* if the primary committed the whole set is visible
PrimaryDecides   == Resolved => (Visible(primary) => \A k \in Keys : Visible(k))
\* a successful Mutate is entirely visible from the moment it returns (locks or not)
SuccessIsVisible == everOk => \A k \in Keys : Visible(k)
\* a mutation whose primary commit request never reached the store never becomes visible (in any state)
FailedStaysOut   == ~pcApplied => \A k \in Keys : ~Visible(k)
\* the mechanism: no key commits before the primary key
PrimaryFirst     == \A k \in Keys : Visible(k) => Visible(primary)
\* an outcome is final
Final == [][\A k \in Keys : wr[k] # "none" => wr'[k] = wr[k]]_vars

\* ------------------------------------------------------------------ behaviour generation
Sched == [reg |-> regOf, order |-> order, primary |-> primary, steps |-> hist]
\* a behaviour is complete when it is resolved and the application will not call Mutate again
GenDone  == Resolved /\ (cpc = "ok" \/ attempts = MaxAttempts \/ Len(hist) >= MaxHist)
GenStop  == ~GenDone          \* ACTION_CONSTRAINT: nothing happens after a complete behaviour
\* the order in which the client visits regions (Go map iteration) cannot be scheduled: lowest region first
MinR(S)  == CHOOSE r \in S : \A q \in S : r <= q
GenCanon == LET n == Len(hist')
            IN (n > Len(hist) /\ hist'[n].a = "c" => hist'[n].r = MinR({x[2] : x \in CTargets}))
               /\ (n > Len(hist) /\ hist'[n].a = "r" => hist'[n].r = MinR({x[2] : x \in RTargets}))
EmitHist == (GenDone \/ Len(hist) >= MaxHist) => PrintT(<<"SCHED", ToJson(Sched)>>)
\* counterexample printing for the as-is configurations
CexPrimaryFirst == PrimaryFirst \/ (PrintT(<<"CEX", ToJson(Sched)>>) /\ FALSE)
=============================================================================
