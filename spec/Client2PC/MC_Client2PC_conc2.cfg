SPECIFICATION Spec
CONSTANTS
 NK = 2
 MaxFaults = 2
 MaxLead = 1
 MaxAttempts = 2
 MaxRetries = 2
 MaxPasses = 2
 CheckTs = {15, 25, 40}
 Concurrent = TRUE
 Dev = {}
 Orders = "all"
 PlanMax = 0
 MaxHist = 0
VIEW view
INVARIANT Atomic
INVARIANT LocksResolved
INVARIANT PrimaryDecides
INVARIANT SuccessIsVisible
INVARIANT FailedStaysOut
INVARIANT PrimaryFirst
PROPERTY Final
CHECK_DEADLOCK FALSE
